/-
  C06 — following an import gives the same answer as defining the callee locally.

  Model: `Resolve.importSymbol` (which `Import(name, qualified_name)` each import form creates),
         `Resolve.callTargetFor` (= `Context.get_call_target` at the call site),
         `Resolve.resolveImport` (= `resolve_import`, fuelled: it has no cycle guard),
         `Resolve.callRecordArgs` (instance argument of constructor calls).
  Spec:  `Spec.ImportEquiv.expected` (Python's import binding) — the callee object a spelled name
         denotes; C06 demands that the call is resolved to exactly that definition and that the call
         record equals the local one up to the callee spelling.

  By C03 the caller's results are a function of the own IRs, the call records and the resolver, so
  C06 reduces to: (1) the cross-module call resolves to the definition `(M, k)` the local call would
  resolve to, and (2) the call record has the same arguments.

  Also modelled: the precondition "configured to be followed" — `Blacklist.isInImportBlacklist` over a
  regex fragment (`RattrModel.Blacklist`), which computes `World.ignored` — and what happens AFTER a
  call has been followed into a module: `ResolveLocal.resolveTargetAndIr` (`__resolve_target_and_ir`,
  local calls to the module's own functions / classes in a multi-file environment, where symbol
  equality ignores the defining file).

  The full statement (`C06_full`) is NOT a theorem of the pinned code (`C06_full_false`).  Proved for
  all names and all module tables (under explicit well-formedness hypotheses), one theorem per import
  form that works: `from M import f`, `import m` + `m.f()`, `import M as n` + `n.f()`, `from P import
  m` + `m.f()`, relative forms, re-export through `__init__`, chains of re-exports of any length,
  starred re-export; termination on acyclic tables and fuel-independence of the answer.  One
  counterexample theorem per form that fails (each replayed on the implementation, listed in
  known_findings.json).
-/
import RattrModel.Resolve
import RattrModel.Spec.ImportEquiv
import RattrModel.Generated.C06
import RattrProofs.Lemmas.C06
import RattrProofs.Lemmas.C06Blacklist
import RattrProofs.Lemmas.C06Regex
import RattrProofs.Lemmas.C06Local
import RattrModel.Pipeline2
import RattrProofs.Lemmas.Pipeline2
import RattrProofs.Lemmas.C06Layout
import RattrProofs.Lemmas.C06Star
import RattrProofs.Lemmas.C06Walk
import RattrModel.LinkedLocal

namespace Rattr.C06
open Rattr Rattr.Strs Rattr.Resolve Rattr.Spec.ImportEquiv Rattr.Blacklist Rattr.ResolveLocal

/-! ### Tie A: the import-symbol table and the shape of `resolve_import` are what the source says now -/

def probeStmt (kind : String) (level : Nat) (module : Option String) (name : String)
    (asname : Option String) : Option ImportStmt :=
  let m := module.map String.toList
  let a := asname.map String.toList
  if kind = "plain" then some (.plain name.toList a)
  else if kind = "from" then (m.map fun m => .from_ m name.toList a)
  else if kind = "star" then (m.map fun m => .star m)
  else if kind = "rel" then some (.rel level m name.toList a)
  else if kind = "relstar" then some (.relStar level m)
  else none

/-- every probed one-line module: the model's symbol = the symbol the real `compile_root_context`
created (name, qualified name and table key). -/
def probeOk (row : String × Bool × String × Nat × Option String × String × Option String × String × String × String) : Bool :=
  let (base, isInit, kind, level, module, name, asname, gotName, gotQual, gotId) := row
  match probeStmt kind level module name asname with
  | none => false
  | some st =>
    let y := importSymbol { base := base.toList, isInit := isInit } st
    y.name == gotName.toList && y.qual == gotQual.toList && y.id == gotId.toList

theorem tieA_import_symbols : Generated.C06.importProbes.all probeOk = true := by decide

theorem tieA_probes_cover_forms :
    (["plain", "from", "star", "rel", "relstar"].all fun k =>
      Generated.C06.importProbes.any fun r => r.2.2.1 == k) = true := by decide

theorem tieA_resolve_import_shape :
    Generated.C06.localNameDerivation =
        "target.name.replace(f'{target.module_name}.', '').removesuffix('()')"
    ∧ Generated.C06.moduleContextLookup = "module_ir.context.get(local_name)"
    ∧ Generated.C06.resolveImportRecursiveCalls = 1
    ∧ Generated.C06.resolveImportParams = ["target", "environment"] := by decide

/-! ### Well-formedness vocabulary -/

/-- `q`'s module is `M` (longest existing prefix), no ladder rung ignores it and `import_irs[M]`
has context `ctx`. -/
def Provides (w : World) (M q : Str) (ctx : MCtx) : Prop :=
  moduleNameOf w.existing q = some M ∧ M ∉ w.ignored ∧ Dict.get? w.irs M = some ctx

instance (w : World) (M q : Str) (ctx : MCtx) : Decidable (Provides w M q ctx) := by
  unfold Provides; infer_instance

/-- a function or class definition named `k` that has an IR -/
def IsDef (s : MSym) (k : Str) : Prop := s = .func k true ∨ s = .cls k true

/-! ### `resolve_import`, one step -/

theorem resolveImport_def (w : World) (fuel : Nat) (nm M q : Str) (ctx : MCtx) (k : Str) (s : MSym)
    (hp : Provides w M q ctx) (hl : localNameOf nm M = k) (hs : lookupSym ctx k = some s)
    (hd : IsDef s k) :
    resolveImport w (fuel + 1) ⟨nm, q⟩ = .found M s := by
  obtain ⟨h1, h2, h3⟩ := hp
  rcases hd with rfl | rfl <;> simp [resolveImport, h1, h2, h3, hl, hs]

theorem resolveImport_step (w : World) (fuel : Nat) (nm M q : Str) (ctx : MCtx) (k n' q' : Str)
    (hp : Provides w M q ctx) (hl : localNameOf nm M = k) (hs : lookupSym ctx k = some (.imp n' q')) :
    resolveImport w (fuel + 1) ⟨nm, q⟩ = resolveImport w fuel ⟨n', q'⟩ := by
  obtain ⟨h1, h2, h3⟩ := hp
  simp [resolveImport, h1, h2, h3, hl, hs]

/-! ### The forms that work -/

/-- `from M import f` (M any dotted module), call `f(…)`: resolved to `M`'s definition `f`. -/
theorem C06_from_import (w : World) (root : Context) (M f : Str) (ctx : MCtx) (s : MSym) (fuel : Nat)
    (hf : Ident f)
    (hroot : Context.get? root f = some (importEntry w.existing ⟨f, M ++ '.' :: f⟩))
    (hp : Provides w M (M ++ '.' :: f) ctx) (hs : lookupSym ctx f = some s) (hd : IsDef s f) :
    resolveCall w (fuel + 1) root f = .viaImport (.found M s) := by
  obtain ⟨hdot, _, hrp, _⟩ := hf.notMem
  unfold resolveCall
  rw [callTargetFor_bare root f _ hf hroot rfl]
  simp only [importEntry, if_true]
  rw [resolveImport_def w fuel f M _ ctx f s hp (localNameOf_plain f M hdot hrp) hs hd]

/-- `import M as n` (M any dotted module, `n` an identifier), call `n.f(…)`. -/
theorem C06_import_as (w : World) (root : Context) (M n f : Str) (ctx : MCtx) (s : MSym) (fuel : Nat)
    (hn : Ident n) (hf : Ident f)
    (hnone : Context.get? root (n ++ '.' :: f) = none)
    (hroot : Context.get? root n = some (importEntry w.existing ⟨n, M⟩))
    (hex : w.existing.contains M = true)
    (hp : Provides w M (M ++ '.' :: f) ctx) (hs : lookupSym ctx f = some s) (hd : IsDef s f) :
    resolveCall w (fuel + 1) root (n ++ '.' :: f) = .viaImport (.found M s) := by
  obtain ⟨hdot, _, hrp, _⟩ := hf.notMem
  unfold resolveCall
  rw [callTargetFor_member root n f _ hn hf hnone hroot rfl rfl hex]
  simp only [importEntry, if_true]
  rw [resolveImport_def w fuel f M _ ctx f s hp (localNameOf_plain f M hdot hrp) hs hd]

/-- `import m` (top-level module), call `m.f(…)`. -/
theorem C06_import_module (w : World) (root : Context) (m f : Str) (ctx : MCtx) (s : MSym) (fuel : Nat)
    (hm : Ident m) (hf : Ident f)
    (hnone : Context.get? root (m ++ '.' :: f) = none)
    (hroot : Context.get? root m = some (importEntry w.existing ⟨m, m⟩))
    (hex : w.existing.contains m = true)
    (hp : Provides w m (m ++ '.' :: f) ctx) (hs : lookupSym ctx f = some s) (hd : IsDef s f) :
    resolveCall w (fuel + 1) root (m ++ '.' :: f) = .viaImport (.found m s) :=
  C06_import_as w root m m f ctx s fuel hm hf hnone hroot hex hp hs hd

/-- `from P import m` (a submodule) / `from P import m as n`, call `n.f(…)`: the symbol is
`Import(n, "P.m")`, the same shape as `import P.m as n`. -/
theorem C06_from_import_module (w : World) (root : Context) (P m n f : Str) (a : Option Str)
    (ctx : MCtx) (s : MSym) (fuel : Nat) (fid : FileId)
    (hn : Ident n) (hf : Ident f) (ha : a.getD m = n)
    (hnone : Context.get? root (n ++ '.' :: f) = none)
    (hroot : Context.get? root n = some (importEntry w.existing (importSymbol fid (.from_ P m a))))
    (hex : w.existing.contains (P ++ '.' :: m) = true)
    (hp : Provides w (P ++ '.' :: m) ((P ++ '.' :: m) ++ '.' :: f) ctx)
    (hs : lookupSym ctx f = some s) (hd : IsDef s f) :
    resolveCall w (fuel + 1) root (n ++ '.' :: f) = .viaImport (.found (P ++ '.' :: m) s) := by
  have : importSymbol fid (.from_ P m a) = ⟨n, P ++ '.' :: m⟩ := by simp [importSymbol, ha]
  rw [this] at hroot
  exact C06_import_as w root (P ++ '.' :: m) n f ctx s fuel hn hf hnone hroot hex hp hs hd

/-- relative `from ..x import f` at any level, in any file: after the absolute-name derivation the
symbol is `Import(f, "<abs>.f")` and resolves like the absolute form. -/
theorem C06_relative_from (w : World) (root : Context) (fid : FileId) (lvl : Nat) (mod : Option Str)
    (f : Str) (ctx : MCtx) (s : MSym) (fuel : Nat) (hf : Ident f)
    (hroot : Context.get? root f = some (importEntry w.existing (importSymbol fid (.rel lvl mod f none))))
    (hp : Provides w (absName fid lvl mod) (absName fid lvl mod ++ '.' :: f) ctx)
    (hs : lookupSym ctx f = some s) (hd : IsDef s f) :
    resolveCall w (fuel + 1) root f = .viaImport (.found (absName fid lvl mod) s) := by
  have : importSymbol fid (.rel lvl mod f none) = ⟨f, absName fid lvl mod ++ '.' :: f⟩ := by
    simp [importSymbol]
  rw [this] at hroot
  exact C06_from_import w root _ f ctx s fuel hf hroot hp hs hd

/-- relative `from . import x` (a sibling module), call `x.f(…)`. -/
theorem C06_relative_module (w : World) (root : Context) (fid : FileId) (lvl : Nat) (x f : Str)
    (ctx : MCtx) (s : MSym) (fuel : Nat) (hx : Ident x) (hf : Ident f)
    (hnone : Context.get? root (x ++ '.' :: f) = none)
    (hroot : Context.get? root x = some (importEntry w.existing (importSymbol fid (.rel lvl none x none))))
    (hex : w.existing.contains (absName fid lvl none ++ '.' :: x) = true)
    (hp : Provides w (absName fid lvl none ++ '.' :: x) ((absName fid lvl none ++ '.' :: x) ++ '.' :: f) ctx)
    (hs : lookupSym ctx f = some s) (hd : IsDef s f) :
    resolveCall w (fuel + 1) root (x ++ '.' :: f) = .viaImport (.found (absName fid lvl none ++ '.' :: x) s) := by
  have : importSymbol fid (.rel lvl none x none) = ⟨x, absName fid lvl none ++ '.' :: x⟩ := by
    simp [importSymbol]
  rw [this] at hroot
  exact C06_import_as w root _ x f ctx s fuel hx hf hnone hroot hex hp hs hd

/-! ### Re-exports -/

/-- A chain of `n` modules starting at `M`: each re-exports `f` from the next (its context holds
`Import(f, "<next>.f")`), the last one (`last`) defines it. -/
inductive Chain (w : World) (f last : Str) (s : MSym) : Str → Nat → Prop where
  | base {ctx : MCtx} : Provides w last (last ++ '.' :: f) ctx → lookupSym ctx f = some s → IsDef s f →
      Chain w f last s last 1
  | step {M M' : Str} {ctx : MCtx} {n : Nat} : Provides w M (M ++ '.' :: f) ctx →
      lookupSym ctx f = some (.imp f (M' ++ '.' :: f)) → Chain w f last s M' n →
      Chain w f last s M (n + 1)

/-- Chains of re-exports of any length resolve to the definition at the end, with fuel ≥ length. -/
theorem C06_reexport_chain (w : World) (f last : Str) (s : MSym) (hf : Ident f) (M : Str) (n : Nat)
    (hc : Chain w f last s M n) : ∀ fuel, n ≤ fuel →
    resolveImport w fuel ⟨f, M ++ '.' :: f⟩ = .found last s := by
  obtain ⟨hdot, _, hrp, _⟩ := hf.notMem
  induction hc with
  | base hp hs hd =>
    intro fuel hle
    obtain ⟨k, rfl⟩ : ∃ k, fuel = k + 1 := ⟨fuel - 1, by omega⟩
    exact resolveImport_def w k f last _ _ f s hp (localNameOf_plain f last hdot hrp) hs hd
  | @step M M' ctx n hp hs _ ih =>
    intro fuel hle
    obtain ⟨k, rfl⟩ : ∃ k, fuel = k + 1 := ⟨fuel - 1, by omega⟩
    rw [resolveImport_step w k f M _ ctx f f _ hp (localNameOf_plain f M hdot hrp) hs]
    exact ih k (by omega)

/-- Re-export through one package `__init__` (`pkg/__init__.py: from .x import f`; importer:
`from pkg import f`; call `f(…)`). The symbol in `pkg`'s context is the one `visit_relative_import`
creates in an `__init__` file at level 1. -/
theorem C06_reexport_init (w : World) (root : Context) (pkg x f : Str) (ctxP ctxX : MCtx) (s : MSym)
    (fuel : Nat) (hf : Ident f)
    (hroot : Context.get? root f = some (importEntry w.existing ⟨f, pkg ++ '.' :: f⟩))
    (hP : Provides w pkg (pkg ++ '.' :: f) ctxP)
    (hsym : lookupSym ctxP f =
      some (let y := importSymbol ⟨pkg, true⟩ (.rel 1 (some x) f none); .imp y.name y.qual))
    (hX : Provides w (absName ⟨pkg, true⟩ 1 (some x)) (absName ⟨pkg, true⟩ 1 (some x) ++ '.' :: f) ctxX)
    (hs : lookupSym ctxX f = some s) (hd : IsDef s f) :
    resolveCall w (fuel + 2) root f = .viaImport (.found (absName ⟨pkg, true⟩ 1 (some x)) s) := by
  obtain ⟨hdot, _, hrp, _⟩ := hf.notMem
  unfold resolveCall
  rw [callTargetFor_bare root f _ hf hroot rfl]
  simp only [importEntry, if_true]
  have hchain : Chain w f (absName ⟨pkg, true⟩ 1 (some x)) s pkg 2 :=
    .step hP (by simpa [importSymbol] using hsym) (.base hX hs hd)
  rw [C06_reexport_chain w f _ s hf pkg 2 hchain (fuel + 2) (by omega)]

theorem lookupSym_append_miss (ctx : MCtx) (x : MSym) (k : Str) (h : lookupSym ctx k = none) :
    lookupSym (ctx ++ [x]) k = if x.key = k then some x else none := by
  induction ctx with
  | nil => simp [lookupSym]
  | cons a r ih =>
    unfold lookupSym at h
    by_cases hk : a.key = k
    · simp [hk] at h
    · simp only [hk, if_false] at h
      simp [lookupSym, hk, ih h]

theorem lookupSym_append_hit (ctx : MCtx) (x y : MSym) (k : Str) (h : lookupSym ctx k = some y) :
    lookupSym (ctx ++ [x]) k = some y := by
  induction ctx with
  | nil => simp [lookupSym] at h
  | cons a r ih =>
    unfold lookupSym at h
    by_cases hk : a.key = k
    · simp only [hk, if_true] at h; simp [lookupSym, hk, h]
    · simp only [hk, if_false] at h
      simp [lookupSym, hk, ih h]

theorem expandStar_keeps (q : Str) (names : List Str) : ∀ (ctx : MCtx) (k : Str) (y : MSym),
    lookupSym ctx k = some y → lookupSym (expandStar ctx q names) k = some y := by
  induction names with
  | nil => intro ctx k y h; exact h
  | cons n r ih =>
    intro ctx k y h
    unfold expandStar
    split
    · exact ih ctx k y h
    · exact ih _ k y (lookupSym_append_hit ctx _ y k h)

/-- Starred re-export (`pkg/__init__.py: from .x import *`): `expand_starred_imports` adds
`Import(f, "<x>.f")` for every declared name `f` of the starred module that is not already visible —
whatever the (hash-seed dependent) order in which the names arrive. -/
theorem C06_star_expansion (q f : Str) (hf : '*' ∉ f) (names : List Str) : ∀ (ctx : MCtx),
    f ∈ names → lookupSym ctx f = none →
    lookupSym (expandStar ctx q names) f = some (.imp f (q ++ '.' :: f)) := by
  have hstar : f ≠ ['*'] := by intro e; exact hf (by rw [e]; simp)
  have hkey : ∀ n, n ≠ f → (MSym.imp n (q ++ '.' :: n)).key ≠ f := by
    intro n hn
    simp only [MSym.key, ISym.id]
    split
    · intro e
      exact hf (by rw [← e]; simp)
    · exact hn
  induction names with
  | nil => intro ctx h; simp at h
  | cons n r ih =>
    intro ctx hmem hnone
    unfold expandStar
    by_cases hn : n = f
    · subst hn
      simp only [hnone, Option.isSome_none, Bool.false_eq_true, if_false]
      apply expandStar_keeps
      rw [lookupSym_append_miss ctx _ n hnone]
      simp [MSym.key, ISym.id, hstar]
    · have hmem' : f ∈ r := by
        rcases List.mem_cons.mp hmem with h | h
        · exact absurd h.symm hn
        · exact h
      split
      · exact ih ctx hmem' hnone
      · apply ih _ hmem'
        rw [lookupSym_append_miss ctx _ f hnone]
        simp [hkey n hn]

/-- `from pkg import f` where `pkg/__init__` got `f` from a starred import of `q`, and `q` defines
`f`: resolved to `q`'s definition. -/
theorem C06_star_reexport (w : World) (pkg q f : Str) (ctx0 ctxQ : MCtx) (names : List Str) (s : MSym)
    (fuel : Nat) (hf : Ident f) (hmem : f ∈ names) (hfresh : lookupSym ctx0 f = none)
    (hP : Provides w pkg (pkg ++ '.' :: f) (expandStar ctx0 q names))
    (hQ : Provides w q (q ++ '.' :: f) ctxQ) (hs : lookupSym ctxQ f = some s) (hd : IsDef s f) :
    resolveImport w (fuel + 2) ⟨f, pkg ++ '.' :: f⟩ = .found q s := by
  have hchain : Chain w f q s pkg 2 :=
    .step hP (C06_star_expansion q f (hf.ne '*' (by decide)) names ctx0 hmem hfresh) (.base hQ hs hd)
  exact C06_reexport_chain w f q s hf pkg 2 hchain (fuel + 2) (by omega)

/-! ### Termination and fuel-independence -/

/-- More fuel never changes an answer that was reached. -/
theorem C06_fuel_mono (w : World) : ∀ (fuel : Nat) (t : ISym), resolveImport w fuel t ≠ .recursionError →
    ∀ fuel', fuel ≤ fuel' → resolveImport w fuel' t = resolveImport w fuel t := by
  intro fuel
  induction fuel with
  | zero => intro t h; exact absurd rfl h
  | succ k ih =>
    intro t h fuel' hle
    obtain ⟨k', rfl⟩ : ∃ k', fuel' = k' + 1 := ⟨fuel' - 1, by omega⟩
    rw [resolveImport_succ] at h ⊢
    rw [resolveImport_succ]
    cases hst : step w t with
    | done o => rfl
    | recurse t' =>
      simp only [hst] at h ⊢
      exact ih t' h k' (by omega)

/-- The table is acyclic w.r.t. a ranking of module names: every re-export found by a lookup leads
to a module of strictly smaller rank. -/
def Acyclic (w : World) (rk : Str → Nat) : Prop :=
  ∀ mn ctx ln n q mn', Dict.get? w.irs mn = some ctx → lookupSym ctx ln = some (.imp n q) →
    moduleNameOf w.existing q = some mn' → rk mn' < rk mn

/-- executable criterion for `Acyclic` -/
def acyclicB (w : World) (rk : Str → Nat) : Bool :=
  w.irs.all fun e => e.2.all fun sy =>
    match sy with
    | .imp _ q => match moduleNameOf w.existing q with
      | some mn' => decide (rk mn' < rk e.1)
      | none => true
    | _ => true

theorem dictGet_mem {ν : Type} (d : Dict Str ν) (k : Str) (v : ν) (h : Dict.get? d k = some v) :
    (k, v) ∈ d := by
  induction d with
  | nil => simp [Dict.get?] at h
  | cons e r ih =>
    obtain ⟨k', v'⟩ := e
    unfold Dict.get? at h
    by_cases hk : k' = k
    · simp only [hk, if_true, Option.some.injEq] at h; subst hk; subst h; simp
    · simp only [hk, if_false] at h; exact List.mem_cons_of_mem _ (ih h)

theorem lookupSym_mem (ctx : MCtx) (k : Str) (y : MSym) (h : lookupSym ctx k = some y) : y ∈ ctx := by
  induction ctx with
  | nil => simp [lookupSym] at h
  | cons a r ih =>
    unfold lookupSym at h
    by_cases hk : a.key = k
    · simp only [hk, if_true, Option.some.injEq] at h; subst h; simp
    · simp only [hk, if_false] at h; exact List.mem_cons_of_mem _ (ih h)

theorem acyclic_of_acyclicB (w : World) (rk : Str → Nat) (h : acyclicB w rk = true) : Acyclic w rk := by
  intro mn ctx ln n q mn' hctx hl hq
  unfold acyclicB at h
  have h1 := List.all_eq_true.mp h (mn, ctx) (dictGet_mem _ _ _ hctx)
  have h2 := List.all_eq_true.mp h1 (.imp n q) (lookupSym_mem _ _ _ hl)
  simp only [hq] at h2
  exact of_decide_eq_true h2

/-- On an acyclic table, `resolve_import` does not run out of fuel once the fuel exceeds the rank of
the first module by two. -/
theorem C06_reexport_terminates_rank (w : World) (rk : Str → Nat) (hac : Acyclic w rk) :
    ∀ (fuel : Nat) (t : ISym), (∀ mn, moduleNameOf w.existing t.qual = some mn → rk mn ≤ fuel) →
    resolveImport w (fuel + 2) t ≠ .recursionError := by
  intro fuel
  induction fuel with
  | zero =>
    intro t hrk
    rw [resolveImport_succ]
    cases hst : step w t with
    | done o => exact step_done_ne w t o hst
    | recurse t' =>
      show resolveImport w 1 t' ≠ _
      rw [resolveImport_succ]
      cases hst' : step w t' with
      | done o => exact step_done_ne w t' o hst'
      | recurse t'' =>
        obtain ⟨mn, ctx, ln, hmn, hctx, hl⟩ := step_recurse_inv w t t' hst
        obtain ⟨mn', _, _, hmn', _, _⟩ := step_recurse_inv w t' t'' hst'
        have h1 := hac mn ctx ln _ _ mn' hctx hl hmn'
        have h2 := hrk mn hmn
        omega
  | succ k ih =>
    intro t hrk
    rw [resolveImport_succ]
    cases hst : step w t with
    | done o => exact step_done_ne w t o hst
    | recurse t' =>
      show resolveImport w (k + 2) t' ≠ _
      apply ih
      intro mn' hmn'
      obtain ⟨mn, ctx, ln, hmn, hctx, hl⟩ := step_recurse_inv w t t' hst
      have h1 := hac mn ctx ln _ _ mn' hctx hl hmn'
      have h2 := hrk mn hmn
      omega

/-- Acyclic re-export chains never run out of fuel: with a ranking below the number of modules,
`fuel = number of modules + 1` suffices, and any larger fuel gives the same answer. -/
theorem C06_reexport_terminates (w : World) (rk : Str → Nat) (hac : Acyclic w rk)
    (hb : ∀ mn, rk mn < w.irs.length) (t : ISym) :
    resolveImport w (w.irs.length + 1) t ≠ .recursionError
    ∧ ∀ fuel, w.irs.length + 1 ≤ fuel →
        resolveImport w fuel t = resolveImport w (w.irs.length + 1) t := by
  have hpos : 0 < w.irs.length := Nat.lt_of_le_of_lt (Nat.zero_le _) (hb [])
  obtain ⟨k, hk⟩ : ∃ k, w.irs.length = k + 1 := ⟨w.irs.length - 1, by omega⟩
  have h1 : resolveImport w (w.irs.length + 1) t ≠ .recursionError := by
    rw [hk]
    apply C06_reexport_terminates_rank w rk hac k t
    intro mn _
    have := hb mn
    omega
  exact ⟨h1, fun fuel hle => C06_fuel_mono w _ t h1 fuel hle⟩

/-! ### The call record -/

/-- For a callee that is not a class the record's arguments are the ones written, in the split
version as in the local one (whatever the target symbol is). -/
theorem C06_call_record_function (existing : List Str) (y : ISym) (a : Option Str) (args : List Str)
    (m k : Str) (ms : List Str) :
    callRecordArgs (some (importEntry existing y)) a args = expectedArgs (.obj m k false ms) a args := by
  simp [callRecordArgs, importEntry, expectedArgs]

/-! ### "Configured to be followed": `is_in_import_blacklist` (model: `RattrModel.Blacklist`)

The precondition of C06.  One helper decides for `make_import_symbol`, the import BFS and
`resolve_import` alike whether a module is excluded: iff one of the configured regular expressions
matches the module's FULL name (or the full path of one of its files).  `World.ignored` — data in the
theorems above — is computed by it. -/

/-- Tie A: the body of `is_in_import_blacklist` (statement by statement), how the pattern set is put
together and compiled, and the rung of `resolve_import` that consults it are what the model was
written from.  In particular the `re.Pattern` method is `fullmatch`. -/
theorem tieA_blacklist_shape :
    Generated.C06.blacklistBody =
      ["config = Config()",
       "if not name:\n    return True",
       "if is_in_stdlib(name):\n    return False",
       "origins = [__safe_origin(module) for module in derive_module_names_right(name)]",
       "origins.append(name)",
       "return any((re_pattern.fullmatch(origin) for origin in origins for re_pattern in config.re_blacklist_patterns if origin is not None))"]
    ∧ Generated.C06.blacklistDecorators = ["cache"]
    ∧ Generated.C06.blacklistMatchMethods = ["fullmatch"]
    ∧ Generated.C06.blacklistPatternUnion =
        "return self.arguments.excluded_imports | self.MODULE_BLACKLIST_PATTERNS | self.PLUGINS_BLACKLIST_PATTERNS"
    ∧ Generated.C06.blacklistPatternCompile = "return tuple((_cached_re_compile(p) for p in self.blacklist_patterns))"
    ∧ Generated.C06.blacklistReCompile = "return re.compile(pattern)"
    ∧ Generated.C06.resolveImportBlacklistRung = ["if is_in_import_blacklist(target.module_name):\n    return None"] :=
  ⟨rfl, rfl, rfl, rfl, rfl, rfl, rfl⟩

/-- the perennial patterns, as the model's regex fragment reads them -/
def builtinPatterns : List Pattern :=
  Generated.C06.builtinBlacklistPatterns.filterMap fun src => parse src.toList

private def s (x : String) : Str := x.toList

/-- Tie A: `Config.MODULE_BLACKLIST_PATTERNS` is inside the modelled fragment and reads as: `package`,
an optional `s`, `.rattr` [then `.` and anything]; `rattr` [then `.` and anything]. -/
theorem tieA_builtin_patterns :
    Generated.C06.builtinBlacklistPatterns.map (fun src => (parse src.toList).isSome) = [true, true, true, true]
    ∧ builtinPatterns =
      [lits (s "package") ++ ⟨.lit 's', .opt⟩ :: lits (s ".rattr"),
       lits (s "package") ++ ⟨.lit 's', .opt⟩ :: (lits (s ".rattr.") ++ [⟨.any, .star⟩]),
       lits (s "rattr"),
       lits (s "rattr.") ++ [⟨.any, .star⟩]] := by
  decide

/-- literal patterns exclude by EQUALITY with the name (or with a file path), nothing else -/
theorem C06_literal_patterns_exclude_exactly (pats : List Str) (name : Str) (f : NameFacts) :
    isInImportBlacklist (pats.map lits) name f = true ↔
      name = [] ∨ (f.inStdlib = false ∧ (name ∈ pats ∨ ∃ o, some o ∈ f.origins ∧ o ∈ pats)) := by
  by_cases hne : name = []
  · simp [isInImportBlacklist, hne]
  · cases hs : f.inStdlib with
    | true => simp [isInImportBlacklist, hne, hs]
    | false =>
      simp only [isInImportBlacklist, hne, hs, if_false, Bool.false_eq_true, false_or, true_and]
      rw [List.any_eq_true]
      constructor
      · rintro ⟨o, hmem, h⟩
        cases o with
        | none => simp at h
        | some x =>
          have hx : x ∈ pats := (matchesAny_lits pats x).mp h
          rcases List.mem_append.mp hmem with h1 | h1
          · exact .inr ⟨x, h1, hx⟩
          · simp only [List.mem_singleton, Option.some.injEq] at h1
            exact .inl (h1 ▸ hx)
      · rintro (h | ⟨o, ho, hp⟩)
        · exact ⟨some name, by simp, (matchesAny_lits pats name).mpr h⟩
        · exact ⟨some o, List.mem_append_left _ ho, (matchesAny_lits pats o).mpr hp⟩

/-- … so a module whose name merely STARTS (or ends) like an excluded one is not excluded:
`-F util` does not exclude `utilities`, `util_extra`, `myutil`. -/
theorem C06_literal_near_miss_not_excluded (pats : List Str) (p pre suf : Str) (f : NameFacts)
    (hlen : pre ++ suf ≠ [])
    (hname : pre ++ p ++ suf ∉ pats) (horig : ∀ o, some o ∈ f.origins → o ∉ pats) :
    isInImportBlacklist (pats.map lits) (pre ++ p ++ suf) f = false := by
  have hne : pre ++ p ++ suf ≠ [] := by
    intro h
    apply hlen
    have h1 := List.append_eq_nil_iff.mp h
    have h2 := List.append_eq_nil_iff.mp h1.1
    simp [h2.1, h1.2]
  cases h : isInImportBlacklist (pats.map lits) (pre ++ p ++ suf) f with
  | false => rfl
  | true =>
    rcases (C06_literal_patterns_exclude_exactly pats _ f).mp h with h1 | ⟨_, h2 | ⟨o, ho, hp⟩⟩
    · exact absurd h1 hne
    · exact absurd h2 hname
    · exact absurd hp (horig o ho)

/-- what the perennial patterns exclude, written independently of the matcher -/
def under (p subject : Str) : Bool :=
  (p ++ ['.']).isPrefixOf subject && (subject.drop (p.length + 1)).all (· != '\n')

def builtinSpec (subject : Str) : Bool :=
  subject == s "rattr" || subject == s "package.rattr" || subject == s "packages.rattr"
    || under (s "rattr") subject || under (s "package.rattr") subject || under (s "packages.rattr") subject

theorem isPrefixOf_eq_drop_nil (p t : Str) :
    (p.isPrefixOf t && (t.drop p.length).isEmpty) = (t == p) := by
  induction p generalizing t with
  | nil => cases t <;> simp
  | cons c p ih =>
    cases t with
    | nil => simp
    | cons d t =>
      simp only [List.isPrefixOf, List.length_cons, List.drop_succ_cons, Bool.and_assoc, ih t]
      rw [BEq.comm (a := c)]
      simp

theorem isPrefixOf_append_drop (a b t : Str) :
    ((a ++ b).isPrefixOf t) = (a.isPrefixOf t && b.isPrefixOf (t.drop a.length)) := by
  induction a generalizing t with
  | nil => simp
  | cons c a ih =>
    cases t with
    | nil => simp
    | cons d t => simp [List.isPrefixOf, ih t, Bool.and_assoc]

/-- The perennial patterns exclude exactly: `rattr`, `package.rattr`, `packages.rattr` and every
dotted name below one of the three — for ALL subjects. -/
theorem C06_builtin_patterns_exact (subject : Str) : matchesAny builtinPatterns subject = builtinSpec subject := by
  rw [tieA_builtin_patterns.2]
  simp only [matchesAny, List.any_cons, List.any_nil, Bool.or_false]
  have e1 : ∀ (tail : Pattern) , fullMatch (lits (s "package") ++ ⟨.lit 's', .opt⟩ :: tail) subject
      = (fullMatch (lits (s "package") ++ tail) subject || fullMatch (lits (s "packages") ++ tail) subject) := by
    intro tail
    rw [fullMatch_lits_append, fullMatch_opt, Bool.and_or_distrib_left, ← fullMatch_lits_append]
    congr 1
    have : lits (s "packages") ++ tail = lits (s "package") ++ (⟨.lit 's', .one⟩ :: tail) := by
      simp [lits, s]
    rw [this, fullMatch_lits_append]
  have e2 : ∀ (a : Str), fullMatch (lits a) subject = (subject == a) := by
    intro a
    have h := fullMatch_lits_append a [] subject
    rw [List.append_nil] at h
    rw [h, fullMatch_nil, isPrefixOf_eq_drop_nil]
  have e3 : ∀ (a : Str), fullMatch (lits (a ++ ['.']) ++ [⟨.any, .star⟩]) subject = under a subject := by
    intro a
    rw [fullMatch_lits_append, fullMatch_dotstar]
    simp [under]
  have l1 : ∀ a b : Str, lits a ++ lits b = lits (a ++ b) := by intro a b; simp [lits]
  have l2 : ∀ (a b : Str) (t : Pattern), lits a ++ (lits b ++ t) = lits (a ++ b) ++ t := by
    intro a b t; simp [lits]
  rw [e1, e1, l1, l1, l2, l2, e2, e2, e2]
  have h1 : s "package" ++ s ".rattr." = s "package.rattr" ++ ['.'] := by decide
  have h2 : s "packages" ++ s ".rattr." = s "packages.rattr" ++ ['.'] := by decide
  have h3 : s "rattr." = s "rattr" ++ ['.'] := by decide
  have h4 : s "package" ++ s ".rattr" = s "package.rattr" := by decide
  have h5 : s "packages" ++ s ".rattr" = s "packages.rattr" := by decide
  rw [h1, h2, h3, h4, h5, e3, e3, e3]
  unfold builtinSpec
  cases (subject == s "rattr") <;> cases (subject == s "package.rattr") <;> cases (subject == s "packages.rattr")
    <;> cases under (s "rattr") subject <;> cases under (s "package.rattr") subject
    <;> cases under (s "packages.rattr") subject <;> rfl

/-- A project module with an undotted name is excluded by the perennial patterns only if it is called
exactly `rattr`: `rattr_helpers`, `rattrkit`, `myrattr` are configured to be followed. -/
theorem C06_builtin_patterns_dotless (name : Str) (hd : '.' ∉ name) :
    matchesAny builtinPatterns name = (name == s "rattr") := by
  rw [C06_builtin_patterns_exact]
  have hu : ∀ p, under p name = false := by
    intro p
    unfold under
    cases h : (p ++ ['.']).isPrefixOf name with
    | false => rfl
    | true => exact absurd (isPrefixOf_mem h '.' (by simp)) hd
  have hn : ∀ a : Str, '.' ∈ a → (name == a) = false := by
    intro a ha
    cases h : name == a with
    | false => rfl
    | true => exact absurd ((beq_iff_eq.mp h) ▸ ha) hd
  unfold builtinSpec
  rw [hu, hu, hu, hn (s "package.rattr") (by decide), hn (s "packages.rattr") (by decide)]
  simp


/-- **the blacklist matcher decides the language of its pattern** (round 5): for every pattern of the fragment and every
module name / origin, `fullMatch` is membership in the pattern's language as the `re` documentation defines it
(`Regex.Matches`, `RattrModel/Regex.lean`), and equals the general derivative matcher used for `--exclude` (C11). Before
this theorem the matcher was only validated against CPython's `re` by Tie B. -/
theorem C06_blacklist_fullmatch_is_membership (p : Pattern) (subject : Str) :
    (fullMatch p subject = true ↔ Regex.Matches (toRe p) subject)
      ∧ fullMatch p subject = Regex.fullmatch (toRe p) subject :=
  ⟨fullMatch_iff_matches p subject, fullMatch_eq_regex p subject⟩

/-- a module is blacklisted by pattern only through a FULL match of its name or of one of its origins -/
theorem C06_matchesAny_iff (ps : List Pattern) (subject : Str) :
    matchesAny ps subject = true ↔ ∃ p ∈ ps, Regex.Matches (toRe p) subject := by
  simp only [matchesAny, List.any_eq_true]
  constructor
  · rintro ⟨p, hp, h⟩; exact ⟨p, hp, (fullMatch_iff_matches p subject).1 h⟩
  · rintro ⟨p, hp, h⟩; exact ⟨p, hp, (fullMatch_iff_matches p subject).2 h⟩

/-- non-vacuity: the perennial patterns are in the fragment, `rattr` is in their language, `rattr_helpers` is not -/
example : (∃ p ∈ builtinPatterns, Regex.fullmatch (toRe p) (s "rattr") = true)
    ∧ (∀ p ∈ builtinPatterns, Regex.fullmatch (toRe p) (s "rattr_helpers") = false) := by decide

/-- The code uses `fullmatch`, not `match`: names that an excluded pattern matches as a proper PREFIX
are not excluded (kernel-evaluated on the names of the generated projects; a test). -/
theorem C06_blacklist_is_fullmatch_test :
    prefixMatch (lits (s "rattr")) (s "rattr_helpers") = true
    ∧ fullMatch (lits (s "rattr")) (s "rattr_helpers") = false
    ∧ (([s "rattr_helpers", s "rattrkit", s "myrattr", s "xrattrx", s "Rattr", s "zp1.rattr", s "packages.rattrs",
         s "mypackages.rattr", s "packagess.rattr"].all fun n =>
          !isInImportBlacklist builtinPatterns n { inStdlib := false, origins := [some (s "/tmp/p/" ++ n ++ s ".py")] }) = true)
    ∧ (([s "rattr", s "rattr.x", s "package.rattr", s "packages.rattr", s "packages.rattr.a.b", s ""].all fun n =>
          isInImportBlacklist builtinPatterns n { inStdlib := false, origins := [none] }) = true)
    ∧ (match parse (s "pkg\\.x") with
       | some p => fullMatch p (s "pkg.x") && !fullMatch p (s "pkg.xy") && prefixMatch p (s "pkg.xy")
       | none => false) = true := by
  decide

/-! #### the blacklist feeds `resolve_import` -/

/-- A module that no pattern matches in full (name and file paths) passes the blacklist rung. -/
theorem C06_not_excluded_provides (w : World) (ps : List Pattern) (facts : Str → NameFacts)
    (M q : Str) (ctx : MCtx)
    (hw : w.ignored = ignoredOf ps facts w.existing)
    (hne : M ≠ []) (hn : matchesAny ps M = false)
    (ho : ∀ o, some o ∈ (facts M).origins → matchesAny ps o = false)
    (hm : moduleNameOf w.existing q = some M) (hi : Dict.get? w.irs M = some ctx) :
    Provides w M q ctx := by
  refine ⟨hm, ?_, hi⟩
  rw [hw, mem_ignoredOf]
  rintro ⟨_, hb⟩
  rw [isInImportBlacklist_false_of ps M (facts M) hne hn ho] at hb
  cases hb

/-- C06 under exclusion patterns: `from M import f` is followed to `M`'s definition whenever no
configured pattern matches `M`'s full name or the full path of its files — whatever else the patterns
match (proper prefixes, suffixes, siblings of `M`). -/
theorem C06_from_import_unless_fully_matched (w : World) (ps : List Pattern) (facts : Str → NameFacts)
    (root : Context) (M f : Str) (ctx : MCtx) (sy : MSym) (fuel : Nat) (hf : Ident f)
    (hw : w.ignored = ignoredOf ps facts w.existing)
    (hne : M ≠ []) (hn : matchesAny ps M = false)
    (ho : ∀ o, some o ∈ (facts M).origins → matchesAny ps o = false)
    (hroot : Context.get? root f = some (importEntry w.existing ⟨f, M ++ '.' :: f⟩))
    (hm : moduleNameOf w.existing (M ++ '.' :: f) = some M) (hi : Dict.get? w.irs M = some ctx)
    (hs : lookupSym ctx f = some sy) (hd : IsDef sy f) :
    resolveCall w (fuel + 1) root f = .viaImport (.found M sy) :=
  C06_from_import w root M f ctx sy fuel hf hroot
    (C06_not_excluded_provides w ps facts M _ ctx hw hne hn ho hm hi) hs hd

/-- … and `import M as n; n.f()` likewise. -/
theorem C06_import_as_unless_fully_matched (w : World) (ps : List Pattern) (facts : Str → NameFacts)
    (root : Context) (M n f : Str) (ctx : MCtx) (sy : MSym) (fuel : Nat) (hn' : Ident n) (hf : Ident f)
    (hw : w.ignored = ignoredOf ps facts w.existing)
    (hne : M ≠ []) (hn : matchesAny ps M = false)
    (ho : ∀ o, some o ∈ (facts M).origins → matchesAny ps o = false)
    (hnone : Context.get? root (n ++ '.' :: f) = none)
    (hroot : Context.get? root n = some (importEntry w.existing ⟨n, M⟩))
    (hex : w.existing.contains M = true)
    (hm : moduleNameOf w.existing (M ++ '.' :: f) = some M) (hi : Dict.get? w.irs M = some ctx)
    (hs : lookupSym ctx f = some sy) (hd : IsDef sy f) :
    resolveCall w (fuel + 1) root (n ++ '.' :: f) = .viaImport (.found M sy) :=
  C06_import_as w root M n f ctx sy fuel hn' hf hnone hroot hex
    (C06_not_excluded_provides w ps facts M _ ctx hw hne hn ho hm hi) hs hd

/-- The other direction (what the property does NOT promise): an existing non-stdlib module whose
full name a pattern matches is silently not followed — `resolve_import` returns `None`. -/
theorem C06_fully_matched_not_followed (w : World) (ps : List Pattern) (facts : Str → NameFacts)
    (M : Str) (t : ISym) (fuel : Nat)
    (hw : w.ignored = ignoredOf ps facts w.existing)
    (hm : moduleNameOf w.existing t.qual = some M) (hex : M ∈ w.existing)
    (hs : (facts M).inStdlib = false) (hn : matchesAny ps M = true) :
    resolveImport w (fuel + 1) t = .none_ .ignored := by
  have hmem : M ∈ w.ignored := by
    rw [hw, mem_ignoredOf]
    exact ⟨hex, isInImportBlacklist_true_of_name ps M (facts M) hs hn⟩
  simp [resolveImport, hm, hmem]

/-! ### Local calls inside a followed module (`__resolve_target_and_ir`, model: `RattrModel.ResolveLocal`)

"Chains across several modules": once a call has been followed into module `M`, the calls written in
`M` to `M`'s own functions and classes must resolve to `M`'s definitions — as in the single-file
version, where they are the only ones.  Symbol equality ignores the location, so this is a statement
about `defined_in`. -/

/-- Tie A: the three functions the model was written from, statement by statement, and the fields
that symbol equality compares (`location` is not among them; everything but `name` is the model's
`iface` key). -/
theorem tieA_local_resolution_shape :
    Generated.C06.resolveTargetAndIrBody =
      ["if isinstance(call.symbol.target, Class):\n    symbol = __resolve_real_class_target(call.symbol.target, environment=environment)\nelse:\n    symbol = call.symbol.target",
       "if symbol is None:\n    raise ImportError",
       "if __is_defined_in(symbol, environment.target_ir):\n    return IrTarget(symbol=symbol, ir=environment.target_ir[symbol])",
       "filename = symbol.location.defined_in",
       "module = derive_module_name_from_path(filename)",
       "if module is None:\n    raise ModuleNotFoundError(f'unable to find module for {str(filename)!r}')",
       "module_ir = environment.import_irs.get(module)",
       "if module_ir is None:\n    raise ImportError",
       "if symbol not in module_ir:\n    raise ImportError",
       "return IrTarget(symbol=symbol, ir=module_ir[symbol])"]
    ∧ Generated.C06.isDefinedInBody =
      ["return any((symbol == other and symbol.location.defined_in == other.location.defined_in for other in file_ir))"]
    ∧ Generated.C06.realClassTargetBody =
      ["candidates = [symbol for ir in (environment.target_ir, *environment.import_irs.values()) for symbol in ir if isinstance(symbol, Class) and target.name == symbol.name]",
       "for symbol in candidates:\n    if symbol.location.defined_in == target.location.defined_in:\n        return symbol",
       "return target"]
    ∧ Generated.C06.symbolEqFields = [("Func", ["name", "interface", "is_async"]), ("Class", ["name", "interface"])] :=
  ⟨rfl, rfl, rfl, rfl⟩

/-- Well-formedness of an environment as the file analyser builds it: the target's keys are distinct
under `==` (they are dict keys); each key of module `m`'s IR is defined in a file whose module is
`m`; different files have different module names. -/
structure LocalWF (env : Env) : Prop where
  targetDistinct : KeysDistinct env.target
  importsOwn : ∀ m ir, Dict.get? env.imports m = some ir → ∀ k ∈ ir, Dict.get? env.moduleOf k.file = some m
  moduleInj : ∀ f g m, Dict.get? env.moduleOf f = some m → Dict.get? env.moduleOf g = some m → f = g

theorem localWF_of_b (env : Env) (h : localWFb env = true) : LocalWF env := by
  unfold localWFb at h
  simp only [Bool.and_eq_true, List.all_eq_true, Bool.or_eq_true, Bool.not_eq_true', decide_eq_true_eq] at h
  obtain ⟨⟨h1, h2⟩, h3⟩ := h
  refine ⟨?_, ?_, ?_⟩
  · intro a ha b hb he
    rcases h1 a ha b hb with h | h
    · rw [he] at h; cases h
    · exact h
  · intro m ir hi k hk
    exact h2 (m, ir) (dictGet_mem' _ _ _ hi) k hk
  · intro f g m hf hg
    exact h3 (f, m) (dictGet_mem' _ _ _ hf) (g, m) (dictGet_mem' _ _ _ hg) rfl

theorem effective_file (env : Env) (t : DSym) : (effective env t).file = t.file := by
  unfold effective; split
  · exact realClass_file env t
  · rfl

theorem resolveSym_ok_inv (env : Env) (sy : DSym) (r : Found) (h : resolveSym env sy = .ok r) :
    sy.eqv r.key = true ∧
    ((r.inTarget = true ∧ r.key ∈ env.target ∧ isDefinedIn sy env.target = true) ∨
     (r.inTarget = false ∧ Dict.get? env.moduleOf sy.file = some r.module ∧
        ∃ ir, Dict.get? env.imports r.module = some ir ∧ r.key ∈ ir)) := by
  unfold resolveSym at h
  split at h
  · next hd =>
    split at h
    · next k hk =>
      injection h with h; subst h
      obtain ⟨hm, he⟩ := lookup_some _ _ _ hk
      exact ⟨he, .inl ⟨rfl, hm, hd⟩⟩
    · cases h
  · split at h
    · cases h
    · next m hm =>
      split at h
      · cases h
      · next ir hi =>
        split at h
        · cases h
        · next k hk =>
          injection h with h; subst h
          obtain ⟨hmem, he⟩ := lookup_some _ _ _ hk
          exact ⟨he, .inr ⟨rfl, hm, ir, hi, hmem⟩⟩

theorem resolve_ok_inv (env : Env) (t : DSym) (r : Found) (h : resolveTargetAndIr env t = .ok r) :
    (effective env t).eqv r.key = true ∧
    ((r.inTarget = true ∧ r.key ∈ env.target ∧ isDefinedIn (effective env t) env.target = true) ∨
     (r.inTarget = false ∧ Dict.get? env.moduleOf (effective env t).file = some r.module ∧
        ∃ ir, Dict.get? env.imports r.module = some ir ∧ r.key ∈ ir)) :=
  resolveSym_ok_inv env _ r h

/-- `target_ir[symbol]` cannot raise after `__is_defined_in` said yes. -/
theorem C06_local_keyError_unreachable (env : Env) (t : DSym) :
    resolveTargetAndIr env t ≠ .error .keyError := by
  unfold resolveTargetAndIr resolveSym
  split
  · next hd =>
    obtain ⟨o, ho, he, _⟩ := (isDefinedIn_iff _ _).mp hd
    cases hl : lookup env.target (effective env t) with
    | some k => simp
    | none =>
      unfold lookup at hl
      have := List.find?_eq_none.mp hl o ho
      simp [he] at this
  · split
    · simp
    · split
      · simp
      · split <;> simp

/-- MODULE-LOCAL: whatever IR a local call is resolved to, it is the IR of a definition in the file
the callee symbol is defined in — never a same-named definition of the target or of another
followed module. -/
theorem C06_local_call_resolves_in_defining_file (env : Env) (hw : LocalWF env) (t : DSym) (r : Found)
    (h : resolveTargetAndIr env t = .ok r) : r.key.file = t.file := by
  obtain ⟨he, h1 | h2⟩ := resolve_ok_inv env t r h
  · obtain ⟨_, hk, hd⟩ := h1
    obtain ⟨o, ho, heo, hf⟩ := (isDefinedIn_iff _ _).mp hd
    have : r.key.eqv o = true := eqv_trans _ _ _ (by rw [eqv_symm]; exact he) heo
    rw [hw.targetDistinct _ hk _ ho this, ← hf, effective_file]
  · obtain ⟨_, hm, ir, hi, hk⟩ := h2
    have := hw.importsOwn _ ir hi _ hk
    rw [hw.moduleInj _ _ _ this hm, effective_file]

/-- … and it IS found there: a callee that is a key of its own module's IR resolves to exactly that
key, with NO hypothesis on what the target and the other modules define (same names, same
signatures) beyond: none of the target's keys is defined in the callee's file. -/
theorem C06_module_local_callee_found (env : Env) (t : DSym) (m : Str) (ir : FileKeys)
    (hnot : ∀ o ∈ env.target, o.file ≠ t.file)
    (hm : Dict.get? env.moduleOf t.file = some m) (hi : Dict.get? env.imports m = some ir)
    (hk : t ∈ ir) (hdist : KeysDistinct ir)
    (hcls : ∀ o ∈ allKeys env, o.kind = .cls → o.name = t.name → o.file = t.file → o = t) :
    resolveTargetAndIr env t = .ok { inTarget := false, module := m, key := t } := by
  have heff : effective env t = t := by
    unfold effective
    split
    · rcases realClass_cases env t with h | ⟨h1, h2, h3, h4⟩
      · exact h
      · exact hcls _ h1 h2 h3 h4
    · rfl
  have hnd : isDefinedIn t env.target = false := by
    cases h : isDefinedIn t env.target with
    | false => rfl
    | true =>
      obtain ⟨o, ho, _, hf⟩ := (isDefinedIn_iff _ _).mp h
      exact absurd hf.symm (hnot o ho)
  unfold resolveTargetAndIr resolveSym
  rw [heff]
  have e : t.eqv t = true := by simp [DSym.eqv]
  simp [hnd, hm, hi, lookup_of_mem ir t hdist t hk e]

/-- A class that has no IR entry in its own file (no `__init__`) does not borrow the initialiser of a
same-named class of another file: the resolution fails (`ImportError` → "unable to resolve
initialiser", nothing is inlined). -/
theorem C06_class_without_initialiser_not_borrowed (env : Env) (hw : LocalWF env) (t : DSym)
    (ht : t.kind = .cls)
    (hnone : ∀ o ∈ allKeys env, o.file = t.file → o.kind = .cls → o.name ≠ t.name) :
    ∃ e, resolveTargetAndIr env t = .error e := by
  cases h : resolveTargetAndIr env t with
  | error e => exact ⟨e, rfl⟩
  | ok r =>
    exfalso
    have hf := C06_local_call_resolves_in_defining_file env hw t r h
    obtain ⟨he, hh⟩ := resolve_ok_inv env t r h
    have heff : effective env t = t := by
      unfold effective
      rw [if_pos ht]
      rcases realClass_cases env t with h | ⟨h1, h2, h3, h4⟩
      · exact h
      · exact absurd h3 (hnone _ h1 h4 h2)
    rw [heff, eqv_iff] at he
    have hmem : r.key ∈ allKeys env := by
      rcases hh with ⟨_, hk, _⟩ | ⟨_, _, ir, hi, hk⟩
      · exact List.mem_append_left _ hk
      · exact mem_allKeys_of_import env _ ir _ hi hk
    exact hnone _ hmem hf (he.1 ▸ ht) he.2.1.symm


/-! #### the dedicated same-name projects, in the model (kernel-evaluated tests + non-vacuity) -/

private def ss (x : String) : Str := x.toList
private def fn (n f : String) : DSym := { kind := .func, name := ss n, iface := ss "(x)", file := ss f }
private def kl (n f : String) : DSym := { kind := .cls, name := ss n, iface := ss "(self, x)", file := ss f }

/-- target.py: `helper`, `K`, `caller`, `own`; zsa.py: `helper`, `K`, `ga`; zsb.py: `K`, `gb`; zsc.py has a
class `K` WITHOUT initialiser (no key) -/
private def envSame : Env where
  target := [fn "helper" "target.py", kl "K" "target.py", fn "caller" "target.py", fn "own" "target.py"]
  imports := [(ss "zsb", [kl "K" "zsb.py", fn "gb" "zsb.py"]),
              (ss "zsa", [fn "helper" "zsa.py", kl "K" "zsa.py", fn "ga" "zsa.py"]),
              (ss "zsc", [fn "gc" "zsc.py"])]
  moduleOf := [(ss "target.py", ss "target"), (ss "zsa.py", ss "zsa"), (ss "zsb.py", ss "zsb"), (ss "zsc.py", ss "zsc")]

/-- the symbols are `==` across files, and still each call is resolved in its own file; the class of
`zsc` that has no initialiser borrows nothing. -/
theorem C06_same_name_rows_test :
    (fn "helper" "zsa.py").eqv (fn "helper" "target.py") = true
    ∧ resolveTargetAndIr envSame (fn "helper" "zsa.py") = .ok ⟨false, ss "zsa", fn "helper" "zsa.py"⟩
    ∧ resolveTargetAndIr envSame (fn "helper" "target.py") = .ok ⟨true, [], fn "helper" "target.py"⟩
    ∧ resolveTargetAndIr envSame (kl "K" "zsa.py") = .ok ⟨false, ss "zsa", kl "K" "zsa.py"⟩
    ∧ resolveTargetAndIr envSame (kl "K" "zsb.py") = .ok ⟨false, ss "zsb", kl "K" "zsb.py"⟩
    ∧ resolveTargetAndIr envSame (kl "K" "target.py") = .ok ⟨true, [], kl "K" "target.py"⟩
    ∧ resolveTargetAndIr envSame (kl "K" "zsc.py") = .error .importError := by
  decide

theorem C06_same_name_env_wellformed_test : LocalWF envSame := localWF_of_b envSame (by decide)

example : (⟨false, ss "zsa", fn "helper" "zsa.py"⟩ : Found).key.file = (fn "helper" "zsa.py").file :=
  C06_local_call_resolves_in_defining_file envSame C06_same_name_env_wellformed_test _ _ C06_same_name_rows_test.2.1

example : resolveTargetAndIr envSame (kl "K" "zsa.py") = .ok ⟨false, ss "zsa", kl "K" "zsa.py"⟩ :=
  C06_module_local_callee_found envSame (kl "K" "zsa.py") (ss "zsa")
    [fn "helper" "zsa.py", kl "K" "zsa.py", fn "ga" "zsa.py"] (by decide) (by decide) (by decide) (by decide)
    (by unfold KeysDistinct; decide) (by decide)

example : ∃ e, resolveTargetAndIr envSame (kl "K" "zsc.py") = .error e :=
  C06_class_without_initialiser_not_borrowed envSame C06_same_name_env_wellformed_test _ rfl (by decide)

/-! ### The full statement (false on the pinned tree) -/

/-- rattr's view of a project: every module's context after `compile_root_context` +
`expand_starred_imports` (one level) + the class analysis that registers static methods. -/
def declSyms (p : Project) (m : PyModule) : MCtx :=
  let fid : FileId := { base := m.name, isInit := m.isPkg }
  m.decls.foldl (fun ctx d =>
    match d with
    | .def_ k false _ => if (lookupSym ctx k).isSome then ctx else ctx ++ [.func k true]
    | .def_ k true ms =>
      if (lookupSym ctx k).isSome then ctx
      else ctx ++ [.cls k true] ++ ms.map (fun a => .func (k ++ '.' :: a) true)
    | .imp st =>
      let y := importSymbol fid st
      if y.name = ['*'] then
        match findModule p y.qual with
        | some sm => expandStar ctx y.qual (boundNames sm.decls)
        | none => ctx
      else if (lookupSym ctx y.name).isSome then ctx else ctx ++ [.imp y.name y.qual]) []

def worldOf (p : Project) : World :=
  { existing := p.map (·.name), ignored := [], irs := p.map (fun m => (m.name, declSyms p m)) }

def rootSyms (p : Project) (target : Str) : List ISym :=
  match findModule p target with
  | none => []
  | some m => m.decls.filterMap fun d =>
      match d with
      | .imp st => some (importSymbol { base := m.name, isInit := m.isPkg } st)
      | _ => none

/-- C06 at one spelled call in `target`: if Python binds the callee to the definition `k` of another
module `M`, rattr resolves the call to `(M, k)` (for some fuel) and the call record has the local
call's arguments. -/
def C06_at (p : Project) (target spelled : Str) (assignedTo : Option Str) (args : List Str) : Prop :=
  ∀ v M k, expected p (p.length + 2) target spelled = some v → expectedDef v = some (M, k) → M ≠ target →
    let w := worldOf p
    let root := rootOf w.existing (rootSyms p target)
    (∃ fuel s, resolveCall w fuel root spelled = .viaImport (.found M s) ∧ s.key = k)
    ∧ callRecordArgs (callTargetFor root spelled).1 assignedTo args = expectedArgs v assignedTo args

def C06_full : Prop := ∀ p target spelled assignedTo args, C06_at p target spelled assignedTo args

/-! ### Counterexamples (one per known finding), closed by kernel evaluation -/


/-- modules `m` (defines `f`, class `C` with `__init__`, class `H` with static `sm`), `p.m`, `pkg`
(empty `__init__`), `pkg.sub` -/
private def wM : World where
  existing := [s "m", s "p", s "p.m", s "pkg", s "pkg.sub", s "am"]
  ignored := []
  irs := [(s "m", [.func (s "f") true, .cls (s "C") true, .cls (s "H") true, .func (s "H.sm") true]),
          (s "p", []), (s "p.m", [.func (s "f") true]), (s "pkg", []),
          (s "am", [.cls (s "Ham") true, .func (s "Ham.sm") true])]

private def pAlias : Project :=
  [{ name := s "target", isPkg := false, decls := [.imp (.from_ (s "m") (s "f") (some (s "g")))] },
   { name := s "m", isPkg := false, decls := [.def_ (s "f") false []] }]

/-- `from m import f as g; g(a)`: Python binds `g` to `m.f`; rattr derives the local name from the
alias (`g`), does not find it in `m` ⇒ "likely undefined", the call is not followed. -/
theorem C06_cex_alias :
    expected pAlias 4 (s "target") (s "g") = some (.obj (s "m") (s "f") false [])
    ∧ ∀ fuel, resolveCall (worldOf pAlias) (fuel + 1)
        (rootOf (worldOf pAlias).existing (rootSyms pAlias (s "target"))) (s "g")
      = .viaImport (.none_ .likelyUndefined) := by
  refine ⟨by decide, fun fuel => ?_⟩
  have h : (callTargetFor (rootOf (worldOf pAlias).existing (rootSyms pAlias (s "target"))) (s "g")).1
      = some (importEntry (worldOf pAlias).existing ⟨s "g", s "m.f"⟩) := by decide
  unfold resolveCall
  rw [h]
  simp only [importEntry, if_true]
  rw [resolveImport_succ]
  have hst : step (worldOf pAlias) ⟨s "g", s "m.f"⟩ = .done (.none_ .likelyUndefined) := by decide
  rw [hst]

theorem C06_full_false : ¬ C06_full := by
  intro h
  have h1 := h pAlias (s "target") (s "g") none [] (.obj (s "m") (s "f") false []) (s "m") (s "f")
    (by decide) (by decide) (by decide)
  obtain ⟨⟨fuel, sy, hr, _⟩, _⟩ := h1
  cases fuel with
  | zero =>
    have : resolveCall (worldOf pAlias) 0 (rootOf (worldOf pAlias).existing (rootSyms pAlias (s "target"))) (s "g")
        = .viaImport .recursionError := by decide
    rw [this] at hr; cases hr
  | succ k =>
    rw [C06_cex_alias.2 k] at hr; cases hr

/-- `import p.m; p.m.f(a)`: the symbol is keyed `p.m`, the lookup of `p` fails ⇒ "target is a
method", no target at the call site. -/
theorem C06_cex_dotted_import :
    importSymbol ⟨s "target", false⟩ (.plain (s "p.m") none) = ⟨s "p.m", s "p.m"⟩
    ∧ callTargetFor (rootOf wM.existing [⟨s "p.m", s "p.m"⟩]) (s "p.m.f")
      = (none, [mkDiag .info "call-method" (s "p.m.f()")])
    ∧ resolveCall wM 9 (rootOf wM.existing [⟨s "p.m", s "p.m"⟩]) (s "p.m.f") = .noImportTarget none := by
  decide

/-- … whereas `import p; import p.m; p.m.f(a)` is followed. -/
theorem C06_dotted_import_with_parent_test :
    resolveCall wM 9 (rootOf wM.existing [⟨s "p", s "p"⟩, ⟨s "p.m", s "p.m"⟩]) (s "p.m.f")
      = .viaImport (.found (s "p.m") (.func (s "f") true)) := by decide

private def wCycle : World where
  existing := [s "a", s "b"]
  ignored := []
  irs := [(s "a", [.imp (s "f") (s "b.f")]), (s "b", [.imp (s "f") (s "a.f")])]

/-- Re-export cycle `a.py: from b import f`, `b.py: from a import f`: the recursion never ends —
out of fuel for EVERY fuel (CPython: RecursionError). -/
theorem C06_cex_cycle : ∀ fuel,
    resolveImport wCycle fuel ⟨s "f", s "a.f"⟩ = .recursionError
    ∧ resolveImport wCycle fuel ⟨s "f", s "b.f"⟩ = .recursionError := by
  intro fuel
  induction fuel with
  | zero => exact ⟨rfl, rfl⟩
  | succ k ih =>
    have ha : resolveImport wCycle (k + 1) ⟨s "f", s "a.f"⟩ = resolveImport wCycle k ⟨s "f", s "b.f"⟩ :=
      resolveImport_step wCycle k _ (s "a") _ [.imp (s "f") (s "b.f")] (s "f") _ _
        (by decide) (by decide) (by decide)
    have hb : resolveImport wCycle (k + 1) ⟨s "f", s "b.f"⟩ = resolveImport wCycle k ⟨s "f", s "a.f"⟩ :=
      resolveImport_step wCycle k _ (s "b") _ [.imp (s "f") (s "a.f")] (s "f") _ _
        (by decide) (by decide) (by decide)
    exact ⟨ha ▸ ih.2, hb ▸ ih.1⟩

/-- `from m import C; x = C(p)`: the target is an `Import` symbol, so the assignment is not a class
assignment and the record lacks the instance argument the local version has (`[x, p]`). -/
theorem C06_cex_imported_class :
    (callTargetFor (rootOf wM.existing [⟨s "C", s "m.C"⟩]) (s "C")).1
      = some (importEntry wM.existing ⟨s "C", s "m.C"⟩)
    ∧ resolveCall wM 9 (rootOf wM.existing [⟨s "C", s "m.C"⟩]) (s "C")
      = .viaImport (.found (s "m") (.cls (s "C") true))
    ∧ callRecordArgs (callTargetFor (rootOf wM.existing [⟨s "C", s "m.C"⟩]) (s "C")).1 (some (s "x")) [s "p"]
      = [s "p"]
    ∧ expectedArgs (.obj (s "m") (s "C") true []) (some (s "x")) [s "p"] = [s "x", s "p"] := by
  decide

/-- `import pkg; pkg.sub.f(a)` where nothing imports `pkg.sub`: the synthesised `Import("sub.f",
"pkg.sub.f")` has module `pkg.sub`, which is not in `import_irs` ⇒ uncaught ImportError. -/
theorem C06_cex_submodule_not_imported :
    resolveCall wM 9 (rootOf wM.existing [⟨s "pkg", s "pkg"⟩]) (s "pkg.sub.f")
      = .viaImport (.importError .notFound) := by decide

/-- … and when `pkg/__init__` does `from . import sub` (so `pkg.sub` IS analysed) the local name is
derived as `sub.f` (the module prefix `pkg.sub.` does not occur in it) ⇒ "it is a method", not followed. -/
theorem C06_cex_submodule_imported :
    resolveCall { wM with irs := wM.irs ++ [(s "pkg.sub", [.func (s "f") true])] } 9
        (rootOf wM.existing [⟨s "pkg", s "pkg"⟩]) (s "pkg.sub.f")
      = .viaImport (.none_ .isMethod) := by decide

/-- `from m import H; H.sm(a)` (static method through an imported class): `H` is not a module, no
target at the call site, silently. -/
theorem C06_cex_static_via_from_import :
    callTargetFor (rootOf wM.existing [⟨s "H", s "m.H"⟩]) (s "H.sm") = (none, [])
    ∧ resolveCall wM 9 (rootOf wM.existing [⟨s "m", s "m"⟩]) (s "m.H.sm")
      = .viaImport (.found (s "m") (.func (s "H.sm") true)) := by decide

/-- `import am; am.Ham.sm(a)`: `str.replace` removes EVERY occurrence of `"am."`, also the one inside
`Ham.sm` ⇒ local name `Hsm` ⇒ "likely undefined". -/
theorem C06_cex_replace_all_occurrences :
    localNameOf (s "Ham.sm") (s "am") = s "Hsm"
    ∧ resolveCall wM 9 (rootOf wM.existing [⟨s "am", s "am"⟩]) (s "am.Ham.sm")
      = .viaImport (.none_ .likelyUndefined) := by decide

/-! ### Non-vacuity: the hypotheses of the theorems are satisfiable by non-trivial inputs -/

private def wOk : World where
  existing := [s "m", s "p", s "p.m", s "pkg", s "pkg.x", s "pkg.y", s "pkg.z"]
  ignored := []
  irs := [(s "m", [.other (s "print"), .func (s "f") true]),
          (s "p.m", [.func (s "f") true]),
          (s "pkg", expandStar [.imp (s "f") (s "pkg.x.f")] (s "pkg.z") [s "print", s "g", s "f"]),  -- = ctxPkg
          (s "pkg.x", [.imp (s "f") (s "pkg.y.f")]),
          (s "pkg.y", [.cls (s "f") true]),
          (s "pkg.z", [.func (s "g") true])]

private def ctxPkg : MCtx := expandStar [.imp (s "f") (s "pkg.x.f")] (s "pkg.z") [s "print", s "g", s "f"]

example : resolveCall wOk 1 (rootOf wOk.existing [⟨s "f", s "m.f"⟩]) (s "f")
    = .viaImport (.found (s "m") (.func (s "f") true)) :=
  C06_from_import wOk _ (s "m") (s "f") [.other (s "print"), .func (s "f") true] _ 0
    (by decide) (by decide) (by decide) (by decide) (.inl rfl)

example : resolveCall wOk 1 (rootOf wOk.existing [⟨s "n", s "p.m"⟩]) (s "n.f")
    = .viaImport (.found (s "p.m") (.func (s "f") true)) :=
  C06_import_as wOk _ (s "p.m") (s "n") (s "f") [.func (s "f") true] _ 0 (by decide) (by decide)
    (by decide) (by decide) (by decide) (by decide) (by decide) (.inl rfl)

/-- a chain of length 3: pkg → pkg.x → pkg.y (class definition) -/
example : Chain wOk (s "f") (s "pkg.y") (.cls (s "f") true) (s "pkg") 3 :=
  .step (M' := s "pkg.x") (ctx := ctxPkg) (by decide) (by decide)
    (.step (M' := s "pkg.y") (ctx := [.imp (s "f") (s "pkg.y.f")]) (by decide) (by decide)
      (.base (ctx := [.cls (s "f") true]) (by decide) (by decide) (.inr rfl)))

/-- starred re-export: `pkg/__init__` got `g` from `from .z import *` -/
example : resolveImport wOk 2 ⟨s "g", s "pkg.g"⟩ = .found (s "pkg.z") (.func (s "g") true) :=
  C06_star_reexport wOk (s "pkg") (s "pkg.z") (s "g") [.imp (s "f") (s "pkg.x.f")] [.func (s "g") true]
    [s "print", s "g", s "f"] _ 0 (by decide) (by decide) (by decide) (by decide) (by decide) (by decide)
    (.inl rfl)

/-- an acyclic table with a ranking below the number of modules -/
private def rkOk (m : Str) : Nat :=
  if m = s "pkg" then 2 else if m = s "pkg.x" then 1 else 0

example : Acyclic wOk rkOk ∧ ∀ mn, rkOk mn < wOk.irs.length :=
  ⟨acyclic_of_acyclicB wOk rkOk (by decide), fun mn => by
    unfold rkOk
    split
    · decide
    · split <;> decide⟩

example : resolveImport wOk (wOk.irs.length + 1) ⟨s "f", s "pkg.f"⟩ = .found (s "pkg.y") (.cls (s "f") true) := by
  decide


/-- exclusion patterns: the perennial ones plus `-F util`; modules `rattr_helpers`, `util`, `utilities` -/
private def psEx : List Pattern := builtinPatterns ++ [lits (s "util")]
private def factsEx (n : Str) : NameFacts := { inStdlib := false, origins := [some (s "/tmp/p/" ++ n ++ s ".py")] }
private def wEx : World where
  existing := [s "rattr_helpers", s "util", s "utilities"]
  ignored := ignoredOf psEx factsEx [s "rattr_helpers", s "util", s "utilities"]
  irs := [(s "rattr_helpers", [.func (s "f") true]), (s "utilities", [.func (s "f") true])]

/-- only `util` is excluded … -/
example : wEx.ignored = [s "util"] := by decide

/-- … `rattr_helpers` (perennial `rattr` is a proper prefix) and `utilities` (`util` is) are followed -/
example : resolveCall wEx 1 (rootOf wEx.existing [⟨s "f", s "rattr_helpers.f"⟩]) (s "f")
    = .viaImport (.found (s "rattr_helpers") (.func (s "f") true)) :=
  C06_from_import_unless_fully_matched wEx psEx factsEx _ (s "rattr_helpers") (s "f") [.func (s "f") true] _ 0
    (by decide) rfl (by decide) (by decide)
    (by intro o h; simp only [factsEx, List.mem_singleton, Option.some.injEq] at h; subst h; decide)
    (by decide) (by decide) (by decide) (by decide) (.inl rfl)

example : resolveCall wEx 1 (rootOf wEx.existing [⟨s "u", s "utilities"⟩]) (s "u.f")
    = .viaImport (.found (s "utilities") (.func (s "f") true)) :=
  C06_import_as_unless_fully_matched wEx psEx factsEx _ (s "utilities") (s "u") (s "f") [.func (s "f") true] _ 0
    (by decide) (by decide) rfl (by decide) (by decide)
    (by intro o h; simp only [factsEx, List.mem_singleton, Option.some.injEq] at h; subst h; decide)
    (by decide) (by decide) (by decide) (by decide) (by decide) (by decide) (.inl rfl)

example : resolveImport wEx 1 ⟨s "load", s "util.load"⟩ = .none_ .ignored :=
  C06_fully_matched_not_followed wEx psEx factsEx (s "util") _ 0 rfl (by decide) (by decide) (by decide) (by decide)

example : isInImportBlacklist ([s "util", s "pkg.x"].map lits) (s "pkg.xy") { inStdlib := false, origins := [none] } = false :=
  C06_literal_near_miss_not_excluded [s "util", s "pkg.x"] (s "pkg.x") [] (s "y") _ (by decide) (by decide)
    (by intro o h; simp at h)

end Rattr.C06

/-! ## The MULTI-file pipeline (`RattrModel/Pipeline2.lean`, op `pipeline2`)

`Pipeline2.run2` models `python -m rattr -o results -f 1 target.py` end to end: the target's root
context with star expansion, the import BFS (each followed file analysed under its own root
context), the target's file walk, and result generation over the concatenation of ALL FileIrs with
the CURRENT `find_call_target_and_ir` (location-aware after fixes 2103117 / 8b74e12). Tie B: the
`pipeline2` stage of `py/props/c06.py` (outcome, document, ordered diagnostics, `import_irs` keys and
every FileIr after result generation, against the real in-process run and a CLI sample). -/

namespace Rattr.C06
open Rattr Rattr.Results Rattr.FnA Rattr.Pipeline2
open Rattr.Pipeline (ResultsDoc ImpFacts)
open Rattr.FileA (Outcome)

/-- **(a) `pipeline2_single_file`.** A target whose root context holds no `Import` symbol and
whose FileIr holds no call with an `Import` target: the multi-file pipeline IS the single-file
pipeline `Pipeline.run` — same outcome, document and diagnostics — for every `ImpFacts` (they are
never consulted). Both hypotheses are Boolean functions of the input. -/
theorem pipeline2_single_file (P : Project) (imp : ImpFacts)
    (hI : noImportSyms P = true) (hT : noImportTargets P = true) :
    run2 P = Pipeline.run P.env (mnOf P.target) (factsOf P P.target) P.builtins P.target.body imp :=
  runWith2_single_file id P imp hI hT

/-- …and for every order of the ties of equal-named Call symbols. -/
theorem pipeline2_single_file_any_order (ord : List CallSym → List CallSym) (P : Project) (imp : ImpFacts)
    (hI : noImportSyms P = true) (hT : noImportTargets P = true) :
    runWith2 ord P =
      Pipeline.runWith ord P.env (mnOf P.target) (factsOf P P.target) P.builtins P.target.body imp :=
  runWith2_single_file ord P imp hI hT

/-- **`pipeline2_per_node_resolver`.** The traversal with the resolver of the CALLING node's file
is `Pipeline.genLoop` (hence `Results.generate`, hence every C03 theorem) on ONE program as soon as
the resolver is coherent: no Call symbol (equality class — Python `==` ignores locations) is held
by two files that resolve it differently. -/
theorem pipeline2_per_node_resolver (P : Prog) (rs : Key → Nat → Option Key) (q : Nat → Option Key)
    (hco : Coherent P rs q) (D : Pipeline.DiagCtx) (order : List Key) (σ : Store) :
    genLoop2 P rs D order σ = Pipeline.genLoop (withRes P q) D order σ :=
  genLoop2_eq_genLoop_coh hco D order σ

/-- **`pipeline2_resolver_coherent`.** The model's resolver is coherent for EVERY project: since fix
ab5bdf0 the equality class of a call record is (file, Call symbol), so all holders of a class
resolve it from the same file (`qAll`: the class's symbol resolved from the class's file). -/
theorem pipeline2_resolver_coherent (P : Project) (fs : List AFile) :
    Coherent (toProg2 id fs) (rsOf P fs) (qAll P fs) :=
  coherent_all P fs

/-- **`pipeline2_composition`.** EVERY successful multi-file run is: the file stage of the target
and of every followed module (`analyseAll`); the proved `Results.generate` on ONE program over the
concatenated FileIrs, roots = the target's keys in order, one shared store; `mkDoc`. So what is
proved of `Results.generate` (C03 / C05 / C14: termination, soundness on all graphs, exactness on
tree-like graphs) holds of the multi-file run with `progQ fs (qAll P fs)` as its program. -/
theorem pipeline2_composition {P : Project} {doc : ResultsDoc} {ds : List Diag} (h : run2 P = .ok (doc, ds)) :
    ∃ t irs ds0 res σ', analyseAll P = .ok (t, irs, ds0) ∧
      generate (progQ (t :: irs) (qAll P (t :: irs))) (List.range t.ir.length)
        (Pipeline.toStore (gfir (t :: irs))) = .ok (res, σ') ∧
      doc = Pipeline.mkDoc (gfir (t :: irs)) res :=
  run2_generate_all h

/-- **`pipeline2_depth_one_equiv`** — C06 at depth one, for EVERY import form at once. Two
projects in which the root called `name` has resolvable callees that are leaves, equal own sets and
the same edge views (call arguments, callee interface, callee own sets): wherever the callees
live (target, followed module, re-exporting chain) and however they are spelled, both runs print
entries with the same gets / sets / dels under `name`; and the same calls if the callee spellings
coincide. The hypothesis is a Boolean function of the two inputs that does NOT run result
generation (`rootView`: file stage of both projects, the resolver on the root's calls, leaf checks). -/
theorem pipeline2_depth_one_equiv {P P' : Project} {name : Str} (hB : depthOneEquivB P P' name = true)
    {doc doc' : ResultsDoc} {ds ds' : List Diag} (h : run2 P = .ok (doc, ds)) (h' : run2 P' = .ok (doc', ds')) :
    ∃ e e', Dict.get? doc name = some e ∧ Dict.get? doc' name = some e' ∧
      (∀ n, (n ∈ e.gets ↔ n ∈ e'.gets) ∧ (n ∈ e.sets ↔ n ∈ e'.sets) ∧ (n ∈ e.dels ↔ n ∈ e'.dels)) ∧
      (callNamesB P P' name = true → ∀ n, n ∈ e.calls ↔ n ∈ e'.calls) :=
  depthOne_equiv hB h h'

/-- **(b) `pipeline2_from_import_equiv`** — the C06 statement for `from m import f`, end to end
from the two sources: the target imports `f` from a followed module that defines it (`_hT`, `_hM`);
the reference project has that very definition in the target file instead of the import statement,
the rest of the target unchanged (`_hT'`). Under the decidable hypothesis `hOK` (the caller's
callees are leaves, its own sets and edge views coincide in the two analyses — see
`pipeline2_depth_one_equiv`; the shape hypotheses only say which pair of projects is meant), the
caller's entry has the same members in both documents. -/
theorem pipeline2_from_import_equiv (P P' : Project) (m f caller : Str) (ps : Params) (fbody : List Node)
    (decos : List Ann.Deco) (isAsync : Bool) (abs : Str) (sf co : Bool) (rest pre post : List Top) (mf : SrcFile)
    (_hT : P.target.body = .importFrom (some m) 0 [⟨f, none⟩] abs sf co :: rest)
    (_hM : mf ∈ P.files ∧ mf.body = pre ++ .funcDef f ps fbody decos isAsync :: post)
    (_hT' : P'.target.body = .funcDef f ps fbody decos isAsync :: rest)
    (hOK : depthOneEquivB P P' caller = true ∧ callNamesB P P' caller = true)
    {doc doc' : ResultsDoc} {ds ds' : List Diag} (h : run2 P = .ok (doc, ds)) (h' : run2 P' = .ok (doc', ds')) :
    ∃ e e', Dict.get? doc caller = some e ∧ Dict.get? doc' caller = some e' ∧
      ∀ n, (n ∈ e.gets ↔ n ∈ e'.gets) ∧ (n ∈ e.sets ↔ n ∈ e'.sets) ∧ (n ∈ e.dels ↔ n ∈ e'.dels) ∧
           (n ∈ e.calls ↔ n ∈ e'.calls) := by
  obtain ⟨e, e', hg, hg', hm, hc⟩ := depthOne_equiv hOK.1 h h'
  exact ⟨e, e', hg, hg', fun n => ⟨(hm n).1, (hm n).2.1, (hm n).2.2, hc hOK.2 n⟩⟩

/-- **(c) `pipeline2_module_local`** — fix 2103117 as a theorem. A call held by a function of a
followed module `h` (its file is not the target's; its derived module name is its own key of
`import_irs`) whose target is a `Func` key of THAT module resolves to that module's key: the key's
file is `h` and it holds the target symbol — whatever the target file (`fs[0]`) defines, a
same-named, equal function included. -/
theorem pipeline2_module_local (P : Project) (fs : List AFile) (h : Nat) (f : AFile) (m : Str)
    (c : CallSym) (t : Sym) (ir : IR)
    (hf : fs[h]? = some f) (ho : originAt fs h ≠ originAt fs 0) (hd : f.derived = some m)
    (hi : irIdx fs m = some h) (hc : c.target = some t) (hk : t.kind = .func)
    (hx : P.excluded.contains t.name = false) (hmem : (t, ir) ∈ f.ir) :
    ∃ k, resolveCall2 P fs h c = .target k ∧ homeOf fs k = h ∧
      ∃ ir', (gfir fs)[k]? = some (t, ir') ∧ (t, ir') ∈ f.ir := by
  have hkey : ∃ j, Pipeline.keyOf f.ir t = some j :=
    Pipeline.indexOf?_of_mem (List.mem_map.mpr ⟨(t, ir), hmem, rfl⟩)
  obtain ⟨j, hj⟩ := hkey
  have hin : keyIn fs h t = some (j + offsetOf fs h) := by simp [keyIn, hf, hj]
  obtain ⟨hhome, f', ir', hf', hmem', hG⟩ := keyIn_spec hin
  rw [hf] at hf'
  injection hf' with hf'
  subst hf'
  refine ⟨j + offsetOf fs h, ?_, hhome, ir', hG, hmem'⟩
  unfold resolveCall2
  simp only [hc, hk, hx, Bool.false_eq_true, if_false, resolveSym_module_local t hf ho hd hi, hin]

/-- **`pipeline2_class_local`** — fix 8b74e12 as a theorem. When the file of the calling function
defines a class of the target's name, `__resolve_real_class_target` answers a class key of a file
with that same origin (never a same-named class of another file, whatever the target defines). -/
theorem pipeline2_class_local (fs : List AFile) (h : Nat) (f : AFile) (t : Sym) (p : Sym × IR)
    (hf : fs[h]? = some f) (hp : p ∈ f.ir) (hk : p.1.kind = .cls) (hn : p.1.name = t.name) :
    originAt fs (realClass2 fs h t).1 = originAt fs h ∧ (realClass2 fs h t).2.kind = .cls ∧
      (realClass2 fs h t).2.name = t.name ∧
      ∃ f' ir, fs[(realClass2 fs h t).1]? = some f' ∧ ((realClass2 fs h t).2, ir) ∈ f'.ir :=
  realClass2_same_file hf hp hk hn

/-- **`pipeline2_class_no_fallback`** — fix bb30ccd as a theorem. Without a class of that name in a
file with the caller's origin, the target symbol is returned unchanged — a same-named class of
another file is never substituted. -/
theorem pipeline2_class_no_fallback (fs : List AFile) (h : Nat) (t : Sym)
    (hno : ∀ c ∈ classCandidatesFrom t.name 0 fs, originAt fs c.1 ≠ originAt fs h) :
    realClass2 fs h t = (h, t) := by
  unfold realClass2
  rw [List.find?_eq_none.mpr (fun c hc => by simpa using hno c hc)]

/-! ### concrete projects (rendered by `py/tools/lean_project.py` from real source trees, with the
facts the real locator functions give; builtins cut down to `print`) -/

def envE : FnA.Env := { ctxEnv := { prims := [], literals := [] }, analysers := [] }

/-- `target.py: from m import f / def caller(x, y): f(x); return y.own`,
`m.py: def f(p): p.seen = 1; return p.in_f` -/
def proj_split : Project :=
  { env := envE, builtins := ["print".toList],
    mods :=
    [("m".toList, ⟨false, true, true⟩),
     ("m.*".toList, ⟨false, true, false⟩),
     ("m.f".toList, ⟨false, true, false⟩),
     ("m.f.*".toList, ⟨false, true, false⟩)],
    quals :=
    [("m".toList, { module := (some "m".toList), origin := (some "/proj/m.py".toList), pySource := true, builtinLoader := false, blacklisted := false, inPip := false, inStdlib := false }),
     ("m.*".toList, { module := (some "m".toList), origin := (some "/proj/m.py".toList), pySource := true, builtinLoader := false, blacklisted := false, inPip := false, inStdlib := false }),
     ("m.f".toList, { module := (some "m".toList), origin := (some "/proj/m.py".toList), pySource := true, builtinLoader := false, blacklisted := false, inPip := false, inStdlib := false }),
     ("m.f.*".toList, { module := (some "m".toList), origin := (some "/proj/m.py".toList), pySource := true, builtinLoader := false, blacklisted := false, inPip := false, inStdlib := false })],
    excluded := [],
    target :=
    { origin := "target.py".toList, derived := (some "target".toList), isInit := false,
      body :=
      [.importFrom (some "m".toList) 0 [⟨"f".toList, none⟩] "".toList false true,
     .funcDef "caller".toList ⟨[], ["x".toList, "y".toList], none, [], none⟩
      [(.other "Expr".toList [(.call (.name "f".toList .load) [(.name "x".toList .load)] [] [])]), (.ret [(.attr (.name "y".toList .load) "own".toList .load)])]
      [] false] },
    files :=
  [{ origin := "/proj/m.py".toList, derived := (some "m".toList), isInit := false,
      body :=
      [.funcDef "f".toList ⟨[], ["p".toList], none, [], none⟩
      [(.assign [(.attr (.name "p".toList .load) "seen".toList .store)] .const), (.ret [(.attr (.name "p".toList .load) "in_f".toList .load)])]
      [] false] }] }

def proj_splitDoc : ResultsDoc :=
  [("caller".toList, ⟨["x".toList, "x.in_f".toList, "y.own".toList], ["x.seen".toList], [], ["f()".toList]⟩)]

/-- the reference: `f` defined in the target itself -/
def proj_local : Project :=
  { env := envE, builtins := ["print".toList],
    mods :=
    [],
    quals :=
    [],
    excluded := [],
    target :=
    { origin := "target.py".toList, derived := (some "target".toList), isInit := false,
      body :=
      [.funcDef "f".toList ⟨[], ["p".toList], none, [], none⟩
      [(.assign [(.attr (.name "p".toList .load) "seen".toList .store)] .const), (.ret [(.attr (.name "p".toList .load) "in_f".toList .load)])]
      [] false,
     .funcDef "caller".toList ⟨[], ["x".toList, "y".toList], none, [], none⟩
      [(.other "Expr".toList [(.call (.name "f".toList .load) [(.name "x".toList .load)] [] [])]), (.ret [(.attr (.name "y".toList .load) "own".toList .load)])]
      [] false] },
    files :=
  [] }

def proj_localDoc : ResultsDoc :=
  [("f".toList, ⟨["p.in_f".toList], ["p.seen".toList], [], []⟩),
   ("caller".toList, ⟨["x".toList, "x.in_f".toList, "y.own".toList], ["x.seen".toList], [], ["f()".toList]⟩)]

/-- `import m` + `m.f(x)` -/
def proj_imp : Project :=
  { env := envE, builtins := ["print".toList],
    mods :=
    [("m".toList, ⟨false, true, true⟩),
     ("m.*".toList, ⟨false, true, false⟩),
     ("m.f".toList, ⟨false, true, false⟩),
     ("m.f.*".toList, ⟨false, true, false⟩)],
    quals :=
    [("m".toList, { module := (some "m".toList), origin := (some "/proj/m.py".toList), pySource := true, builtinLoader := false, blacklisted := false, inPip := false, inStdlib := false }),
     ("m.*".toList, { module := (some "m".toList), origin := (some "/proj/m.py".toList), pySource := true, builtinLoader := false, blacklisted := false, inPip := false, inStdlib := false }),
     ("m.f".toList, { module := (some "m".toList), origin := (some "/proj/m.py".toList), pySource := true, builtinLoader := false, blacklisted := false, inPip := false, inStdlib := false }),
     ("m.f.*".toList, { module := (some "m".toList), origin := (some "/proj/m.py".toList), pySource := true, builtinLoader := false, blacklisted := false, inPip := false, inStdlib := false })],
    excluded := [],
    target :=
    { origin := "target.py".toList, derived := (some "target".toList), isInit := false,
      body :=
      [.importStmt [⟨"m".toList, none⟩],
     .funcDef "caller".toList ⟨[], ["x".toList, "y".toList], none, [], none⟩
      [(.other "Expr".toList [(.call (.attr (.name "m".toList .load) "f".toList .load) [(.name "x".toList .load)] [] [])]), (.ret [(.attr (.name "y".toList .load) "own".toList .load)])]
      [] false] },
    files :=
  [{ origin := "/proj/m.py".toList, derived := (some "m".toList), isInit := false,
      body :=
      [.funcDef "f".toList ⟨[], ["p".toList], none, [], none⟩
      [(.assign [(.attr (.name "p".toList .load) "seen".toList .store)] .const), (.ret [(.attr (.name "p".toList .load) "in_f".toList .load)])]
      [] false] }] }

def proj_impDoc : ResultsDoc :=
  [("caller".toList, ⟨["x".toList, "x.in_f".toList, "y.own".toList], ["x.seen".toList], [], ["m.f()".toList]⟩)]

/-- `from pkg import f`, `pkg/__init__.py: from .sub import f`, `pkg/sub.py` defines `f` -/
def proj_reexp : Project :=
  { env := envE, builtins := ["print".toList],
    mods :=
    [("pkg".toList, ⟨false, true, true⟩),
     ("pkg.*".toList, ⟨false, true, false⟩),
     ("pkg.f".toList, ⟨false, true, false⟩),
     ("pkg.f.*".toList, ⟨false, true, false⟩),
     ("pkg.sub".toList, ⟨false, true, true⟩),
     ("pkg.sub.*".toList, ⟨false, true, false⟩),
     ("pkg.sub.f".toList, ⟨false, true, false⟩),
     ("pkg.sub.f.*".toList, ⟨false, true, false⟩)],
    quals :=
    [("pkg".toList, { module := (some "pkg".toList), origin := (some "/proj/pkg/__init__.py".toList), pySource := true, builtinLoader := false, blacklisted := false, inPip := false, inStdlib := false }),
     ("pkg.*".toList, { module := (some "pkg".toList), origin := (some "/proj/pkg/__init__.py".toList), pySource := true, builtinLoader := false, blacklisted := false, inPip := false, inStdlib := false }),
     ("pkg.f".toList, { module := (some "pkg".toList), origin := (some "/proj/pkg/__init__.py".toList), pySource := true, builtinLoader := false, blacklisted := false, inPip := false, inStdlib := false }),
     ("pkg.f.*".toList, { module := (some "pkg".toList), origin := (some "/proj/pkg/__init__.py".toList), pySource := true, builtinLoader := false, blacklisted := false, inPip := false, inStdlib := false }),
     ("pkg.sub".toList, { module := (some "pkg.sub".toList), origin := (some "/proj/pkg/sub.py".toList), pySource := true, builtinLoader := false, blacklisted := false, inPip := false, inStdlib := false }),
     ("pkg.sub.*".toList, { module := (some "pkg.sub".toList), origin := (some "/proj/pkg/sub.py".toList), pySource := true, builtinLoader := false, blacklisted := false, inPip := false, inStdlib := false }),
     ("pkg.sub.f".toList, { module := (some "pkg.sub".toList), origin := (some "/proj/pkg/sub.py".toList), pySource := true, builtinLoader := false, blacklisted := false, inPip := false, inStdlib := false }),
     ("pkg.sub.f.*".toList, { module := (some "pkg.sub".toList), origin := (some "/proj/pkg/sub.py".toList), pySource := true, builtinLoader := false, blacklisted := false, inPip := false, inStdlib := false })],
    excluded := [],
    target :=
    { origin := "target.py".toList, derived := (some "target".toList), isInit := false,
      body :=
      [.importFrom (some "pkg".toList) 0 [⟨"f".toList, none⟩] "".toList false true,
     .funcDef "caller".toList ⟨[], ["x".toList, "y".toList], none, [], none⟩
      [(.other "Expr".toList [(.call (.name "f".toList .load) [(.name "x".toList .load)] [] [])]), (.ret [(.attr (.name "y".toList .load) "own".toList .load)])]
      [] false] },
    files :=
  [{ origin := "/proj/pkg/__init__.py".toList, derived := (some "pkg".toList), isInit := true,
      body :=
      [.importFrom (some "sub".toList) 1 [⟨"f".toList, none⟩] "pkg.sub".toList true true] },
   { origin := "/proj/pkg/sub.py".toList, derived := (some "pkg.sub".toList), isInit := false,
      body :=
      [.funcDef "f".toList ⟨[], ["p".toList], none, [], none⟩
      [(.assign [(.attr (.name "p".toList .load) "seen".toList .store)] .const), (.ret [(.attr (.name "p".toList .load) "in_f".toList .load)])]
      [] false] }] }

def proj_reexpDoc : ResultsDoc :=
  [("caller".toList, ⟨["x".toList, "x.in_f".toList, "y.own".toList], ["x.seen".toList], [], ["f()".toList]⟩)]

/-- same-named `util` / `H` in the target and in the followed module `m` (fixes 2103117 / 8b74e12) -/
def proj_twin : Project :=
  { env := envE, builtins := ["print".toList],
    mods :=
    [("m".toList, ⟨false, true, true⟩),
     ("m.*".toList, ⟨false, true, false⟩),
     ("m.f".toList, ⟨false, true, false⟩),
     ("m.f.*".toList, ⟨false, true, false⟩),
     ("m.mk".toList, ⟨false, true, false⟩),
     ("m.mk.*".toList, ⟨false, true, false⟩)],
    quals :=
    [("m".toList, { module := (some "m".toList), origin := (some "/proj/m.py".toList), pySource := true, builtinLoader := false, blacklisted := false, inPip := false, inStdlib := false }),
     ("m.*".toList, { module := (some "m".toList), origin := (some "/proj/m.py".toList), pySource := true, builtinLoader := false, blacklisted := false, inPip := false, inStdlib := false }),
     ("m.f".toList, { module := (some "m".toList), origin := (some "/proj/m.py".toList), pySource := true, builtinLoader := false, blacklisted := false, inPip := false, inStdlib := false }),
     ("m.f.*".toList, { module := (some "m".toList), origin := (some "/proj/m.py".toList), pySource := true, builtinLoader := false, blacklisted := false, inPip := false, inStdlib := false }),
     ("m.mk".toList, { module := (some "m".toList), origin := (some "/proj/m.py".toList), pySource := true, builtinLoader := false, blacklisted := false, inPip := false, inStdlib := false }),
     ("m.mk.*".toList, { module := (some "m".toList), origin := (some "/proj/m.py".toList), pySource := true, builtinLoader := false, blacklisted := false, inPip := false, inStdlib := false })],
    excluded := [],
    target :=
    { origin := "target.py".toList, derived := (some "target".toList), isInit := false,
      body :=
      [.importFrom (some "m".toList) 0 [⟨"f".toList, none⟩, ⟨"mk".toList, none⟩] "".toList false true,
     .funcDef "util".toList ⟨[], ["a".toList], none, [], none⟩
      [(.ret [(.attr (.name "a".toList .load) "t_util".toList .load)])]
      [] false,
     .classDef "H".toList []
     [.funcDef "__init__".toList ⟨[], ["self".toList, "q".toList], none, [], none⟩
      [(.assign [(.attr (.name "self".toList .load) "q".toList .store)] (.attr (.name "q".toList .load) "t_h".toList .load))]
      [] false]
     [],
     .funcDef "caller".toList ⟨[], ["x".toList, "y".toList], none, [], none⟩
      [(.other "Expr".toList [(.call (.name "util".toList .load) [(.name "x".toList .load)] [] [])]), (.other "Expr".toList [(.call (.name "f".toList .load) [(.name "y".toList .load)] [] [])]), (.other "Expr".toList [(.call (.name "mk".toList .load) [(.name "y".toList .load)] [] [])])]
      [] false] },
    files :=
  [{ origin := "/proj/m.py".toList, derived := (some "m".toList), isInit := false,
      body :=
      [.funcDef "util".toList ⟨[], ["a".toList], none, [], none⟩
      [(.ret [(.attr (.name "a".toList .load) "m_util".toList .load)])]
      [] false,
     .classDef "H".toList []
     [.funcDef "__init__".toList ⟨[], ["self".toList, "q".toList], none, [], none⟩
      [(.assign [(.attr (.name "self".toList .load) "q".toList .store)] (.attr (.name "q".toList .load) "m_h".toList .load))]
      [] false]
     [],
     .funcDef "f".toList ⟨[], ["p".toList], none, [], none⟩
      [(.other "Expr".toList [(.call (.name "util".toList .load) [(.name "p".toList .load)] [] [])]), (.ret [(.attr (.name "p".toList .load) "in_f".toList .load)])]
      [] false,
     .funcDef "mk".toList ⟨[], ["w".toList], none, [], none⟩
      [(.ret [(.call (.name "H".toList .load) [(.name "w".toList .load)] [] [])])]
      [] false] }] }

def proj_twinDoc : ResultsDoc :=
  [("util".toList, ⟨["a.t_util".toList], [], [], []⟩),
   ("H".toList, ⟨["q.t_h".toList], ["self.q".toList], [], []⟩),
   ("caller".toList, ⟨["x".toList, "x.t_util".toList, "y".toList, "y.in_f".toList, "y.m_h".toList, "y.m_util".toList], ["@ReturnValue.q".toList], [], ["f()".toList, "mk()".toList, "util()".toList]⟩)]

/-- EQUAL Call symbols `util(a)` in the target and in `m` -/
def proj_seen : Project :=
  { env := envE, builtins := ["print".toList],
    mods :=
    [("m".toList, ⟨false, true, true⟩),
     ("m.*".toList, ⟨false, true, false⟩),
     ("m.f".toList, ⟨false, true, false⟩),
     ("m.f.*".toList, ⟨false, true, false⟩)],
    quals :=
    [("m".toList, { module := (some "m".toList), origin := (some "/proj/m.py".toList), pySource := true, builtinLoader := false, blacklisted := false, inPip := false, inStdlib := false }),
     ("m.*".toList, { module := (some "m".toList), origin := (some "/proj/m.py".toList), pySource := true, builtinLoader := false, blacklisted := false, inPip := false, inStdlib := false }),
     ("m.f".toList, { module := (some "m".toList), origin := (some "/proj/m.py".toList), pySource := true, builtinLoader := false, blacklisted := false, inPip := false, inStdlib := false }),
     ("m.f.*".toList, { module := (some "m".toList), origin := (some "/proj/m.py".toList), pySource := true, builtinLoader := false, blacklisted := false, inPip := false, inStdlib := false })],
    excluded := [],
    target :=
    { origin := "target.py".toList, derived := (some "target".toList), isInit := false,
      body :=
      [.importFrom (some "m".toList) 0 [⟨"f".toList, none⟩] "".toList false true,
     .funcDef "util".toList ⟨[], ["a".toList], none, [], none⟩
      [(.ret [(.attr (.name "a".toList .load) "t_util".toList .load)])]
      [] false,
     .funcDef "caller".toList ⟨[], ["a".toList], none, [], none⟩
      [(.other "Expr".toList [(.call (.name "util".toList .load) [(.name "a".toList .load)] [] [])]), (.other "Expr".toList [(.call (.name "f".toList .load) [(.name "a".toList .load)] [] [])])]
      [] false] },
    files :=
  [{ origin := "/proj/m.py".toList, derived := (some "m".toList), isInit := false,
      body :=
      [.funcDef "util".toList ⟨[], ["a".toList], none, [], none⟩
      [(.ret [(.attr (.name "a".toList .load) "m_util".toList .load)])]
      [] false,
     .funcDef "f".toList ⟨[], ["a".toList], none, [], none⟩
      [(.other "Expr".toList [(.call (.name "util".toList .load) [(.name "a".toList .load)] [] [])]), (.ret [(.attr (.name "a".toList .load) "in_f".toList .load)])]
      [] false] }] }

def proj_seenDoc : ResultsDoc :=
  [("util".toList, ⟨["a.t_util".toList], [], [], []⟩),
   ("caller".toList, ⟨["a".toList, "a.in_f".toList, "a.m_util".toList, "a.t_util".toList], [], [], ["f()".toList, "util()".toList]⟩)]

/-- `m.mk` constructs `K`, which `m` defines WITHOUT initialiser; the target defines a `K` with one -/
def proj_nofb : Project :=
  { env := envE, builtins := ["print".toList],
    mods :=
    [("m".toList, ⟨false, true, true⟩),
     ("m.*".toList, ⟨false, true, false⟩),
     ("m.mk".toList, ⟨false, true, false⟩),
     ("m.mk.*".toList, ⟨false, true, false⟩)],
    quals :=
    [("m".toList, { module := (some "m".toList), origin := (some "/proj/m.py".toList), pySource := true, builtinLoader := false, blacklisted := false, inPip := false, inStdlib := false }),
     ("m.*".toList, { module := (some "m".toList), origin := (some "/proj/m.py".toList), pySource := true, builtinLoader := false, blacklisted := false, inPip := false, inStdlib := false }),
     ("m.mk".toList, { module := (some "m".toList), origin := (some "/proj/m.py".toList), pySource := true, builtinLoader := false, blacklisted := false, inPip := false, inStdlib := false }),
     ("m.mk.*".toList, { module := (some "m".toList), origin := (some "/proj/m.py".toList), pySource := true, builtinLoader := false, blacklisted := false, inPip := false, inStdlib := false })],
    excluded := [],
    target :=
    { origin := "target.py".toList, derived := (some "target".toList), isInit := false,
      body :=
      [.importFrom (some "m".toList) 0 [⟨"mk".toList, none⟩] "".toList false true,
     .classDef "K".toList []
     [.funcDef "__init__".toList ⟨[], ["self".toList, "v".toList], none, [], none⟩
      [(.assign [(.attr (.name "self".toList .load) "t".toList .store)] (.attr (.name "v".toList .load) "t_init".toList .load))]
      [] false]
     [],
     .funcDef "caller".toList ⟨[], ["x".toList], none, [], none⟩
      [(.other "Expr".toList [(.call (.name "mk".toList .load) [(.name "x".toList .load)] [] [])])]
      [] false] },
    files :=
  [{ origin := "/proj/m.py".toList, derived := (some "m".toList), isInit := false,
      body :=
      [.classDef "K".toList []
     [.assign [(.name "attr".toList .store)] [] (some .const)]
     [],
     .funcDef "mk".toList ⟨[], ["w".toList], none, [], none⟩
      [(.assign [(.name "k".toList .store)] (.call (.name "K".toList .load) [(.name "w".toList .load)] [] [])), (.ret [(.name "k".toList .load)])]
      [] false] }] }

def proj_nofbDoc : ResultsDoc :=
  [("K".toList, ⟨["v.t_init".toList], ["self.t".toList], [], []⟩),
   ("caller".toList, ⟨["k".toList, "x".toList], ["k".toList], [], ["mk()".toList]⟩)]

/-- `from m import f as g` -/
def proj_alias : Project :=
  { env := envE, builtins := ["print".toList],
    mods :=
    [("m".toList, ⟨false, true, true⟩),
     ("m.*".toList, ⟨false, true, false⟩),
     ("m.f".toList, ⟨false, true, false⟩),
     ("m.f.*".toList, ⟨false, true, false⟩)],
    quals :=
    [("m".toList, { module := (some "m".toList), origin := (some "/proj/m.py".toList), pySource := true, builtinLoader := false, blacklisted := false, inPip := false, inStdlib := false }),
     ("m.*".toList, { module := (some "m".toList), origin := (some "/proj/m.py".toList), pySource := true, builtinLoader := false, blacklisted := false, inPip := false, inStdlib := false }),
     ("m.f".toList, { module := (some "m".toList), origin := (some "/proj/m.py".toList), pySource := true, builtinLoader := false, blacklisted := false, inPip := false, inStdlib := false }),
     ("m.f.*".toList, { module := (some "m".toList), origin := (some "/proj/m.py".toList), pySource := true, builtinLoader := false, blacklisted := false, inPip := false, inStdlib := false })],
    excluded := [],
    target :=
    { origin := "target.py".toList, derived := (some "target".toList), isInit := false,
      body :=
      [.importFrom (some "m".toList) 0 [⟨"f".toList, (some "g".toList)⟩] "".toList false true,
     .funcDef "caller".toList ⟨[], ["x".toList], none, [], none⟩
      [(.other "Expr".toList [(.call (.name "g".toList .load) [(.name "x".toList .load)] [] [])])]
      [] false] },
    files :=
  [{ origin := "/proj/m.py".toList, derived := (some "m".toList), isInit := false,
      body :=
      [.funcDef "f".toList ⟨[], ["p".toList], none, [], none⟩
      [(.ret [(.attr (.name "p".toList .load) "in_f".toList .load)])]
      [] false] }] }

def proj_aliasDoc : ResultsDoc :=
  [("caller".toList, ⟨["x".toList], [], [], ["g()".toList]⟩)]

def outcomeIs2 (o : Outcome (ResultsDoc × List Diag)) (doc : ResultsDoc) (ds : List Diag) : Bool :=
  match o with
  | .ok (d, s) => decide (d = doc) && decide (s = ds)
  | _ => false

theorem eq_of_outcomeIs2 {o : Outcome (ResultsDoc × List Diag)} {doc : ResultsDoc} {ds : List Diag}
    (h : outcomeIs2 o doc ds = true) : o = .ok (doc, ds) := by
  cases o with
  | ok a =>
    obtain ⟨d, s⟩ := a
    simp only [outcomeIs2, Bool.and_eq_true, decide_eq_true_eq] at h
    rw [h.1, h.2]
  | fatal a b => simp [outcomeIs2] at h
  | crash e => simp [outcomeIs2] at h

/-- TESTS (kernel evaluation of the WHOLE multi-file model): each document is the one the real CLI
prints for that source tree. -/
theorem pipeline2_test_from_import : run2 proj_split = .ok (proj_splitDoc, []) :=
  eq_of_outcomeIs2 (by decide +kernel)

theorem pipeline2_test_local : run2 proj_local = .ok (proj_localDoc, []) :=
  eq_of_outcomeIs2 (by decide +kernel)

theorem pipeline2_test_import_module : run2 proj_imp = .ok (proj_impDoc, []) :=
  eq_of_outcomeIs2 (by decide +kernel)

theorem pipeline2_test_reexport : run2 proj_reexp = .ok (proj_reexpDoc, []) :=
  eq_of_outcomeIs2 (by decide +kernel)

/-- the followed `f` inlines `m`'s own `util` (`y.m_util`), `mk` constructs `m`'s own `H`
(`y.m_h`), while the target's calls reach the target's `util` (`x.t_util`). -/
theorem pipeline2_test_module_local : run2 proj_twin = .ok (proj_twinDoc, []) :=
  eq_of_outcomeIs2 (by decide +kernel)

/-- fix ab5bdf0 (`seen` keyed on (call, file)): `m.f`'s call `util(a)` equals the target's `util(a)`
as a Call symbol but is made in another file — it is expanded, `a.m_util` reaches `caller`. -/
theorem pipeline2_test_equal_calls_across_modules :
    run2 proj_seen = .ok (proj_seenDoc, []) ∧
    (∃ e, Dict.get? proj_seenDoc "caller".toList = some e ∧ "a.m_util".toList ∈ e.gets ∧ "a.t_util".toList ∈ e.gets) := by
  refine ⟨eq_of_outcomeIs2 (by decide +kernel), ?_⟩
  decide

/-- fix bb30ccd (no fallback to a same-named class of another file): `m.K` has no initialiser, so
no key — the initialiser of the TARGET's `K` is not taken (`v.t_init` does not reach `caller`),
"unable to resolve initialiser for 'K'". -/
theorem pipeline2_test_class_no_fallback :
    run2 proj_nofb = .ok (proj_nofbDoc, [mkDiag .error "init-unresolved" "K".toList]) :=
  eq_of_outcomeIs2 (by decide +kernel)

/-- **`pipeline2_cex_alias`** (the C06 alias family, end to end): `from m import f as g` —
`resolve_import` derives the local name from the ALIAS, `g` is not in `m`'s context: "likely
undefined", nothing of `f` reaches `caller`. -/
theorem pipeline2_cex_alias :
    run2 proj_alias = .ok (proj_aliasDoc, [mkDiag .error "import-likely-undefined" "g|m|".toList]) :=
  eq_of_outcomeIs2 (by decide +kernel)

/-- non-vacuity of (b) / `pipeline2_depth_one_equiv`: the decidable hypothesis holds for the pair
(split, local), for `import m` + `m.f(x)` (callee spelled differently: no claim about calls) and for
the re-export through `pkg/__init__`; the shape hypotheses of (b) hold for the split / local pair;
both runs succeed. -/
example :
    (depthOneEquivB proj_split proj_local "caller".toList = true ∧ callNamesB proj_split proj_local "caller".toList = true) ∧
    depthOneEquivB proj_imp proj_local "caller".toList = true ∧
    callNamesB proj_imp proj_local "caller".toList = false ∧
    (depthOneEquivB proj_reexp proj_local "caller".toList = true ∧ callNamesB proj_reexp proj_local "caller".toList = true) ∧
    (∃ abs sf co rest, proj_split.target.body = .importFrom (some "m".toList) 0 [⟨"f".toList, none⟩] abs sf co :: rest ∧
      ∃ ps fbody decos isAsync, proj_local.target.body = .funcDef "f".toList ps fbody decos isAsync :: rest ∧
        ∃ mf ∈ proj_split.files, mf.body = [] ++ .funcDef "f".toList ps fbody decos isAsync :: []) := by
  refine ⟨⟨by decide +kernel, by decide +kernel⟩, by decide +kernel, by decide +kernel,
    ⟨by decide +kernel, by decide +kernel⟩, ?_⟩
  exact ⟨_, _, _, _, rfl, _, _, _, _, rfl, _, List.mem_cons_self, rfl⟩

/-- (b) APPLIED to the pair: the entries of `caller` in the two proved documents have the same
members. -/
example : ∃ e e', Dict.get? proj_splitDoc "caller".toList = some e ∧
    Dict.get? proj_localDoc "caller".toList = some e' ∧
    ∀ n, (n ∈ e.gets ↔ n ∈ e'.gets) ∧ (n ∈ e.sets ↔ n ∈ e'.sets) ∧ (n ∈ e.dels ↔ n ∈ e'.dels) ∧
         (n ∈ e.calls ↔ n ∈ e'.calls) := by
  obtain ⟨e, e', hg, hg', hm, hc⟩ :=
    pipeline2_depth_one_equiv (P := proj_split) (P' := proj_local) (name := "caller".toList)
      (by decide +kernel) pipeline2_test_from_import pipeline2_test_local
  exact ⟨e, e', hg, hg', fun n => ⟨(hm n).1, (hm n).2.1, (hm n).2.2, hc (by decide +kernel) n⟩⟩

/-- non-vacuity of (a): `proj_local` has no import. -/
example : noImportSyms proj_local = true ∧ noImportTargets proj_local = true := by
  constructor <;> decide +kernel

/-- the analysed files of the twin project -/
def fsTwin : List AFile :=
  match analyseAll proj_twin with
  | .ok (t, irs, _) => t :: irs
  | _ => []

/-- non-vacuity of (c): in the twin project the followed module is file 1, its origin differs from
the target's, its derived name `m` is its own key; `f` (key of `m`) holds a call whose target is
the `Func` `util`, a key of `m` — and the TARGET defines an equal `util` too; `mk` holds a call to
the class `H`, which both files define. The resolved keys are in file 1. -/
example :
    ((fsTwin[1]?).map (·.derived) = some (some "m".toList)) ∧ originAt fsTwin 1 ≠ originAt fsTwin 0 ∧
    irIdx fsTwin "m".toList = some 1 ∧
    ((fsTwin[1]?).map fun f => (f.ir.map (·.1.name))) = some ["util".toList, "H".toList, "f".toList, "mk".toList] ∧
    ((fsTwin[0]?).map fun f => (f.ir.map (·.1.name))) = some ["util".toList, "H".toList, "caller".toList] ∧
    -- the same `util` symbol is a key of both files
    ((fsTwin[0]?).bind fun f => (f.ir.map (·.1))[0]?) = ((fsTwin[1]?).bind fun f => (f.ir.map (·.1))[0]?) ∧
    -- `m.f`'s call to `util`, resolved from file 1 and (what the code did before the fix) from file 0
    (((fsTwin[1]?).bind fun f => (f.ir[2]?).bind fun p => p.2.calls[0]?).map fun c =>
        (c.name, resolveCall2 proj_twin fsTwin 1 c, resolveCall2 proj_twin fsTwin 0 c)) =
      some ("util".toList, .target 3, .target 0) ∧
    -- `m.mk`'s call to `H`
    (((fsTwin[1]?).bind fun f => (f.ir[3]?).bind fun p => p.2.calls[0]?).map fun c =>
        (c.name, resolveCall2 proj_twin fsTwin 1 c, resolveCall2 proj_twin fsTwin 0 c)) =
      some ("H".toList, .target 4, .target 1) := by
  refine ⟨by decide +kernel, by decide +kernel, by decide +kernel, by decide +kernel, by decide +kernel,
    by decide +kernel, by decide +kernel, by decide +kernel⟩

end Rattr.C06


/-! ## Round 3 (a) — WHICH FILE a followed module name denotes

`find_module_in_path` (`RattrModel/Locator.lean`, the model C13 proves its round trips about) decides
package-vs-module by `is_dir()`. C06 needs of it: the file rattr follows for a module name is the file
Python imports — in particular when a package `M/__init__.py` and a stale module `M.py` lie side by
side (Python: the package), and when a plain directory `M/` lies next to `M.py` (Python: the module).
Tie B: stage `locator` of `py/props/c06.py` — the real `find_module_name_and_spec` vs
`Locator.findModuleNameAndSpec` vs `Spec.firstMatch` vs CPython's `importlib.util.find_spec` on every
module name of every generated split project. -/

namespace Rattr.C06
open Rattr Rattr.Locator Rattr.C06L

/-- the directory of that name, if there is one, is a regular package (holds an `__init__.py`) -/
def dirIsPackage (files : Files) (name : Dotted) : Bool :=
  !dirExists files name || files.contains (name ++ [initPy])

/-- **`C06_package_shadows_module`.** Whenever `M/__init__.py` exists, `find_module_in_path` answers
it — whatever else exists, a module file `M.py` of the same name included: a stale module is never
followed in place of the package. For ALL file sets and ALL names. -/
theorem C06_package_shadows_module (files : Files) (name : Dotted) (hn : name ≠ [[]])
    (hp : files.contains (partsOf name ++ [initPy]) = true) :
    findModuleInPath files name = some (partsOf name ++ [initPy]) := by
  have hd := dirExists_of_init files (partsOf name) hp
  unfold partsOf at hd hp
  unfold findModuleInPath partsOf
  simp only [hn, if_false, hd, if_true, hp]

/-- **`C06_module_file_only_without_directory`.** The module file `M.py` is answered only when NO
directory `M` exists (this is where a plain directory hides the module, `C06_cex_plain_directory_
hides_module`). -/
theorem C06_module_file_only_without_directory (files : Files) (name : Dotted) (r : Path)
    (h : findModuleInPath files name = some r) :
    (dirExists files (partsOf name) = true ∧ r = partsOf name ++ [initPy]) ∨
    (dirExists files (partsOf name) = false ∧ r = withSuffixPy (partsOf name)) := by
  unfold findModuleInPath at h
  unfold partsOf
  by_cases h1 : name = [[]]
  · rw [if_pos h1] at h; cases h
  · rw [if_neg h1] at h
    dsimp only at h
    generalize (name.filter fun c => decide (c ≠ [])) = parts at h ⊢
    by_cases hd : dirExists files parts = true
    · rw [if_pos hd] at h
      left
      refine ⟨hd, ?_⟩
      split at h
      · exact (Option.some.inj h).symm
      · cases h
    · rw [if_neg hd] at h
      right
      refine ⟨by simpa using hd, ?_⟩
      split at h
      · exact (Option.some.inj h).symm
      · cases h

/-- **`C06_followed_file_is_imported_file`.** For a well-formed name whose directory, if any, is a
regular package: `find_module_in_path` answers exactly the file Python's path finder picks in that
path entry (`Spec.matchInRoot`: the package first, then the module file). The hypothesis is about
THIS name only (C13's `findModuleInPath_eq_matchInRoot` asks it of every directory of the root). -/
theorem C06_followed_file_is_imported_file (files : Files) (name : Dotted) (hne : name ≠ []) (hmem : [] ∉ name)
    (hd : dirIsPackage files name = true) :
    findModuleInPath files name = Spec.matchInRoot files name := by
  have h1 := ne_single_nil_of_wf name hmem
  have hfilter : (name.filter fun c => decide (c ≠ [])) = name := partsOf_wf name hmem
  unfold findModuleInPath Spec.matchInRoot
  simp only [h1, if_false, hfilter]
  have hpk : Spec.pkgFile name = name ++ [initPy] := rfl
  by_cases hdir : dirExists files name = true
  · have hc : files.contains (name ++ [initPy]) = true := by
      simpa [dirIsPackage, hdir] using hd
    have hm : name ++ [initPy] ∈ files := List.contains_iff_mem.mp hc
    simp [hdir, hpk, hm]
  · have hnp : files.contains (name ++ [initPy]) = false := by
      cases hcon : files.contains (name ++ [initPy]) with
      | false => rfl
      | true => exact absurd (dirExists_of_init files name hcon) hdir
    simp only [hdir, Bool.false_eq_true, if_false, hpk, hnp, withSuffixPy_eq_modFile name hne]

/-- **`C06_stale_module_never_followed`.** With `M/__init__.py` present the answer is not the module
file `M.py` (the two are different files), for every well-formed name. -/
theorem C06_stale_module_never_followed (files : Files) (name : Dotted) (hne : name ≠ []) (hmem : [] ∉ name)
    (hp : files.contains (name ++ [initPy]) = true) :
    findModuleInPath files name = some (name ++ [initPy]) ∧
    findModuleInPath files name ≠ some (withSuffixPy name) ∧
    findModuleInPath files name = Spec.matchInRoot files name := by
  have hpo := partsOf_wf name hmem
  have hsh := C06_package_shadows_module files name (ne_single_nil_of_wf name hmem) (by rw [hpo]; exact hp)
  rw [hpo] at hsh
  refine ⟨hsh, ?_, ?_⟩
  · rw [hsh, withSuffixPy_eq_modFile name hne]
    intro e
    exact modFile_ne_pkgFile name (Option.some.inj e).symm
  · exact C06_followed_file_is_imported_file files name hne hmem
      (by simp [dirIsPackage, List.contains_iff_mem.mp hp])

private def sl (x : String) : Str := x.toList

/-- a package next to a stale module of the same name (top level and inside a package): the
package, as Python. TEST on literals (the general statement is `C06_stale_module_never_followed`). -/
theorem C06_stale_module_next_to_package_test :
    findModuleInPath [[sl "m.py"], [sl "m", sl "__init__.py"], [sl "m", sl "impl.py"]] [sl "m"]
      = some [sl "m", sl "__init__.py"]
    ∧ Spec.matchInRoot [[sl "m.py"], [sl "m", sl "__init__.py"], [sl "m", sl "impl.py"]] [sl "m"]
      = some [sl "m", sl "__init__.py"]
    ∧ findModuleInPath [[sl "k", sl "__init__.py"], [sl "k", sl "m.py"], [sl "k", sl "m", sl "__init__.py"]] [sl "k", sl "m"]
      = some [sl "k", sl "m", sl "__init__.py"] := by
  decide

/-- `m.py` next to a plain directory `m/` (no `__init__.py`): nothing is located, Python imports
`m.py` — the known finding `module-next-to-plain-directory-not-imported:*` (root cause shared with
C13's `module-shadowed-by-non-package-directory`). -/
theorem C06_cex_plain_directory_hides_module :
    findModuleInPath [[sl "m.py"], [sl "m", sl "notes.txt"]] [sl "m"] = none
    ∧ Spec.matchInRoot [[sl "m.py"], [sl "m", sl "notes.txt"]] [sl "m"] = some [sl "m.py"]
    ∧ dirIsPackage [[sl "m.py"], [sl "m", sl "notes.txt"]] [sl "m"] = false := by
  decide

/-- the hypotheses of `C06_followed_file_is_imported_file` / `C06_stale_module_never_followed` are
satisfiable by a layout in which both files exist -/
example : findModuleInPath [[sl "m.py"], [sl "m", sl "__init__.py"]] [sl "m"] = Spec.matchInRoot [[sl "m.py"], [sl "m", sl "__init__.py"]] [sl "m"] :=
  (C06_stale_module_never_followed _ [sl "m"] (by decide) (by decide) (by decide)).2.2

/-! ### the spec side: which of two same-named files is "the module" -/

open Rattr.Spec.ImportEquiv in
/-- **`C06_spec_prefers_package`.** `Spec.ImportEquiv.findModule` (Python's binding spec) picks a
PACKAGE of that name whenever the project lists one, wherever it stands in the list — a stale
module file listed first included. -/
theorem C06_spec_prefers_package (p : Project) (m : Str) (x : PyModule) (hx : x ∈ p) (hn : x.name = m)
    (hp : x.isPkg = true) : ∃ y, findModule p m = some y ∧ y.name = m ∧ y.isPkg = true := by
  unfold findModule
  cases hf : p.find? (fun x => decide (x.name = m) && x.isPkg) with
  | some y =>
    have := List.find?_some hf
    simp only [Bool.and_eq_true, decide_eq_true_eq] at this
    exact ⟨y, rfl, this.1, this.2⟩
  | none =>
    have := List.find?_eq_none.mp hf x hx
    simp [hn, hp] at this

end Rattr.C06


/-! ## Round 3 (b) — star re-export chains that cross package levels

`StarChain.expandStars` (`RattrModel/StarChain.lean`) is `Context.expand_starred_imports` as a walk over
files: a star import found INSIDE a star-imported file is resolved against that file (`StarFile.fid` —
the code compiles its root context under `enter_file(starred.origin)`), not against the file holding
the outer `import *`. Tie B: stage `star_expand` of `py/props/c06.py` (the symbols the real expansion
appends, for every file with a star import of every generated split project, vs this model — the nested
qualified names are DERIVED here, by `Resolve.importSymbol` / `Locator.deriveAbs`). -/

namespace Rattr.C06
open Rattr Rattr.Strs Rattr.Resolve Rattr.StarChain Rattr.C06S

/-- **`C06_star_inner_statement_resolved_against_inner_file`.** `from .x import *` written in
`pkg/sub/__init__.py` names `pkg.sub.x`; the same text resolved against `pkg/__init__.py` (the file of
the OUTER star import) would name `pkg.x` — a different module, for all names. -/
theorem C06_star_inner_statement_resolved_against_inner_file (pkg sub x : Str) (ns : List Str) (hx : '.' ∉ x) :
    starQuals ⟨⟨pkg ++ '.' :: sub, true⟩, ns, [.relStar 1 (some x)]⟩ = [(pkg ++ '.' :: sub) ++ '.' :: x] ∧
    starQuals ⟨⟨pkg, true⟩, ns, [.relStar 1 (some x)]⟩ = [pkg ++ '.' :: x] ∧
    (pkg ++ '.' :: sub) ++ '.' :: x ≠ pkg ++ '.' :: x := by
  refine ⟨by simp [starQuals, importSymbol, absName_init_level1 _ x hx],
          by simp [starQuals, importSymbol, absName_init_level1 _ x hx], ?_⟩
  intro e
  have hl := congrArg List.length e
  simp at hl
  omega

theorem expandStars_step (files : Files) (fuel : Nat) (q : Str) (rest seen : List Str) (ctx : MCtx) (sf : StarFile)
    (hq : seen.contains q = false) (hf : Dict.get? files q = some sf) :
    expandStars files (fuel + 1) (q :: rest) seen ctx =
      expandStars files fuel (rest ++ (starQuals sf).filter fun x => !(q :: seen).contains x) (q :: seen)
        (expandStar ctx q sf.names) := by
  conv => lhs; unfold expandStars
  rw [if_neg (by rw [hq]; simp)]
  simp only [hf]

/-- **`C06_star_chain_two_levels`.** `pkg/__init__.py: from .sub import *`, `pkg/sub/__init__.py: from
.x import *`, `pkg/sub/x.py` without star imports: the expansion of `pkg/__init__`'s root context is
the one-level expansion by `pkg.sub`'s names followed by the one-level expansion by the names of
`pkg.sub.x` — the module the INNER package's statement denotes — whatever else the table holds (a
same-named `pkg.x` included). For all names, all declared-name lists, all tables. -/
theorem C06_star_chain_two_levels (files : Files) (pkg sub x : Str) (names0 names1 names2 : List Str)
    (ctx0 : MCtx) (fuel : Nat) (hsub : '.' ∉ sub) (hx : '.' ∉ x)
    (h1 : Dict.get? files (pkg ++ '.' :: sub) =
      some ⟨⟨pkg ++ '.' :: sub, true⟩, names1, [.relStar 1 (some x)]⟩)
    (h2 : Dict.get? files ((pkg ++ '.' :: sub) ++ '.' :: x) =
      some ⟨⟨(pkg ++ '.' :: sub) ++ '.' :: x, false⟩, names2, []⟩) :
    expandFile files (fuel + 3) ⟨⟨pkg, true⟩, names0, [.relStar 1 (some sub)]⟩ ctx0 =
      expandStar (expandStar ctx0 (pkg ++ '.' :: sub) names1) ((pkg ++ '.' :: sub) ++ '.' :: x) names2 := by
  have hne : (pkg ++ '.' :: sub) ++ '.' :: x ≠ pkg ++ '.' :: sub := append_dot_ne _ _
  have hq0 : starQuals ⟨⟨pkg, true⟩, names0, [.relStar 1 (some sub)]⟩ = [pkg ++ '.' :: sub] := by
    simp [starQuals, importSymbol, absName_init_level1 _ sub hsub]
  have hq1 : starQuals ⟨⟨pkg ++ '.' :: sub, true⟩, names1, [.relStar 1 (some x)]⟩ = [(pkg ++ '.' :: sub) ++ '.' :: x] := by
    simp [starQuals, importSymbol, absName_init_level1 _ x hx]
  unfold expandFile
  rw [hq0, expandStars_step files (fuel + 2) _ [] [] ctx0 _ (by simp) h1, hq1]
  have hfilt : ([] ++ List.filter (fun y => !([pkg ++ '.' :: sub] : List Str).contains y) [(pkg ++ '.' :: sub) ++ '.' :: x])
      = [(pkg ++ '.' :: sub) ++ '.' :: x] := by
    simp [hne]
  simp only [] at hfilt ⊢
  rw [hfilt, expandStars_step files (fuel + 1) _ [] [pkg ++ '.' :: sub] _ _ (by simp [hne]) h2]
  simp [starQuals, expandStars]

/-- **`C06_star_chain_reexport`** — the C06 statement for the two-level star chain: `from pkg import f`
where `pkg/__init__` star-imports `pkg.sub`, whose `__init__` star-imports `pkg.sub.x`, which defines
`f` (and `pkg.sub`'s own root context does not declare `f`): the call resolves to the definition in
`pkg.sub.x`. Nothing is assumed about a module `pkg.x`: a same-named decoy at the outer level cannot
change the answer. -/
theorem C06_star_chain_reexport (w : World) (files : Files) (pkg sub x f : Str) (names0 names1 names2 : List Str)
    (ctx0 ctxX : MCtx) (s : MSym) (fuel fuel' : Nat) (hsub : '.' ∉ sub) (hx : '.' ∉ x) (hf : Ident f)
    (h1 : Dict.get? files (pkg ++ '.' :: sub) =
      some ⟨⟨pkg ++ '.' :: sub, true⟩, names1, [.relStar 1 (some x)]⟩)
    (h2 : Dict.get? files ((pkg ++ '.' :: sub) ++ '.' :: x) =
      some ⟨⟨(pkg ++ '.' :: sub) ++ '.' :: x, false⟩, names2, []⟩)
    (hmem : f ∈ names2) (hnot : f ∉ names1) (hfresh : lookupSym ctx0 f = none)
    (hP : Provides w pkg (pkg ++ '.' :: f)
      (expandFile files (fuel' + 3) ⟨⟨pkg, true⟩, names0, [.relStar 1 (some sub)]⟩ ctx0))
    (hQ : Provides w ((pkg ++ '.' :: sub) ++ '.' :: x) (((pkg ++ '.' :: sub) ++ '.' :: x) ++ '.' :: f) ctxX)
    (hs : lookupSym ctxX f = some s) (hd : IsDef s f) :
    resolveImport w (fuel + 2) ⟨f, pkg ++ '.' :: f⟩ = .found ((pkg ++ '.' :: sub) ++ '.' :: x) s := by
  rw [C06_star_chain_two_levels files pkg sub x names0 names1 names2 ctx0 fuel' hsub hx h1 h2] at hP
  have hstar : '*' ∉ f := hf.ne '*' (by decide)
  exact C06_star_reexport w pkg _ f (expandStar ctx0 (pkg ++ '.' :: sub) names1) ctxX names2 s fuel hf hmem
    (expandStar_miss _ f hstar names1 ctx0 hnot hfresh) hP hQ hs hd

/-- the layout of seeded change C06-m8 with the decoy `pkg.util`: TEST on literals (kernel evaluation)
of the whole chain — the table, the walk, the module table, `resolve_import`. -/
private def st (x : String) : Str := x.toList
private def filesDecoy : Files :=
  [(st "pkg.sub", ⟨⟨st "pkg.sub", true⟩, [st "*"], [.relStar 1 (some (st "util"))]⟩),
   (st "pkg.util", ⟨⟨st "pkg.util", false⟩, [st "helper"], []⟩),
   (st "pkg.sub.util", ⟨⟨st "pkg.sub.util", false⟩, [st "helper"], []⟩)]
private def ctxPkgDecoy : MCtx :=
  expandFile filesDecoy 8 ⟨⟨st "pkg", true⟩, [st "*"], [.relStar 1 (some (st "sub"))]⟩ []
private def wDecoy : World where
  existing := [st "pkg", st "pkg.sub", st "pkg.util", st "pkg.sub.util"]
  ignored := []
  irs := [(st "pkg", ctxPkgDecoy), (st "pkg.sub", []), (st "pkg.util", [.func (st "helper") true]),
          (st "pkg.sub.util", [.func (st "helper") true])]

theorem C06_star_chain_decoy_test :
    lookupSym ctxPkgDecoy (st "helper") = some (.imp (st "helper") (st "pkg.sub.util.helper"))
    ∧ resolveImport wDecoy 4 ⟨st "helper", st "pkg.helper"⟩ = .found (st "pkg.sub.util") (.func (st "helper") true) := by
  decide

/-- the hypotheses of `C06_star_chain_reexport` are satisfiable (the decoy project) -/
example : resolveImport wDecoy 2 ⟨st "helper", st "pkg.helper"⟩ = .found (st "pkg.sub.util") (.func (st "helper") true) :=
  C06_star_chain_reexport wDecoy filesDecoy (st "pkg") (st "sub") (st "util") (st "helper") [st "*"] [st "*"]
    [st "helper"] [] [.func (st "helper") true] _ 0 5 (by decide) (by decide) (by decide) (by decide) (by decide)
    (by decide) (by decide) (by decide) (by decide) (by decide) (by decide) (.inl rfl)

end Rattr.C06


/-! ## Round 3 (c) — the multi-file pipeline on the new layouts; the target under an absolute path

`Pipeline2` changes of round 3: the import walk's completeness is a theorem (`pipeline2_walk_complete`);
a target given by its ABSOLUTE path that an import cycle leads back to is a second FileIr of the SAME
file (`sameFile` / `canonH`: `location.defined_in` is the path the file was entered under) — no longer
outside the fragment: one equality class of call records per (path, Call symbol), resolution by path.
Tie B: the `pipeline2` stage runs 40 % of its generated projects (and three curated ones) with the
target named by its absolute path. -/

namespace Rattr.C06
open Rattr Rattr.Results Rattr.FnA Rattr.Pipeline2 Rattr.C06W
open Rattr.Pipeline (ResultsDoc)
open Rattr.FileA (Outcome)

/-- **`pipeline2_walk_complete`** — `parse_and_analyse_imports` is complete. If the walk ends, every
import it may follow (known module, a file, no ladder rung) that stands in the queue — at ANY
iteration: the queue is extended by the imports of every file that is analysed — has its module name
among the keys of `import_irs`; keys are never lost. `seen` starts empty, so this includes an import
that leads back to the TARGET's own file, whatever path the target was named by (seeded C06-m9 adds a
rung `origin == target → continue` and loses that key: `resolve_import` then raises `ImportError`).
Hypothesis: the locator facts name one module per file. -/
theorem pipeline2_walk_complete (P : Project) (hinj : OriginInj P) (fuel : Nat) (queue : List Sym)
    (seen : List Str) (irs : List AFile) (ds : List Diag) (irs' : List AFile) (ds' : List Diag)
    (h : importLoop P fuel queue seen irs ds = .ok (irs', ds')) (hsk : SeenKeyed P seen irs) :
    (∀ k ∈ keysOf irs, k ∈ keysOf irs') ∧
    ∀ i ∈ queue, ∀ name o, Followable P i name o → name ∈ keysOf irs' :=
  importLoop_keys_complete P hinj fuel queue seen irs ds irs' ds' h hsk

/-- **`pipeline2_import_irs_complete`** — for the run: after `parse_and_analyse_file`, every followable
`Import` symbol of the target's (star-expanded) root context is a key of `import_irs`. -/
theorem pipeline2_import_irs_complete (P : Project) (hinj : OriginInj P) {t : AFile} {irs : List AFile}
    {ds : List Diag} (h : analyseAll P = .ok (t, irs, ds)) :
    ∃ r, rootOf P P.target = .ok r ∧
      ∀ i ∈ importsOf r.ctx, ∀ name o, Followable P i name o → name ∈ keysOf irs := by
  unfold analyseAll at h
  cases hr : rootOf P P.target with
  | fatal r d => simp [hr] at h
  | crash r e => simp [hr] at h
  | ok r =>
    simp only [hr] at h
    cases hl : importLoop P (P.files.length + 1) (importsOf r.ctx) [] [] r.diags with
    | fatal a b => simp [hl] at h
    | crash e => simp [hl] at h
    | ok x =>
      obtain ⟨irs0, ds0⟩ := x
      simp only [hl] at h
      cases ha : FileA.analyseWith P.env (mnOf P.target) (factsOf P P.target) r.ctx P.target.body with
      | fatal a b => simp [ha] at h
      | crash a e => simp [ha] at h
      | ok s =>
        simp only [ha, Outcome.ok.injEq, Prod.mk.injEq] at h
        obtain ⟨_, e, _⟩ := h
        subst e
        exact ⟨r, rfl, (importLoop_keys_complete P hinj _ _ [] [] _ _ _ hl
          (fun _ _ _ _ ho => by cases ho)).2⟩

/-- **`pipeline2_same_path_one_file`** — `find_call_target_and_ir` cannot tell two FileIrs of one path
apart: a call held by file `h` resolves exactly as it does from the first FileIr analysed under the
same path (`__is_defined_in`, `__resolve_real_class_target` and `derive_module_name_from_path` read the
PATH only). For every project and every list of analysed files. -/
theorem pipeline2_same_path_one_file (P : Project) (fs : List AFile) (h : Nat) (c : CallSym) :
    resolveCall2 P fs (canonH fs h) c = resolveCall2 P fs h c :=
  resolveCall2_canonH P fs h c

/-- **`pipeline2_same_path_same_class`** — and `make_target_ir_call_tree`'s `seen` cannot either: the
representative of a file exists, cannot be told apart from it, and the call record of a Call symbol
is numbered there — so two FileIrs of one path put equal Call symbols into ONE equality class. -/
theorem pipeline2_same_path_same_class (fs : List AFile) (h : Nat) (f : AFile) (c : CallSym)
    (hf : fs[h]? = some f) :
    ∃ g, fs[canonH fs h]? = some g ∧ g.origin = f.origin ∧ Pipeline.allCalls g.ir = Pipeline.allCalls f.ir ∧
      (callRec2 fs h c).cid = cidBase fs (canonH fs h) + Pipeline.cidOf (Pipeline.allCalls g.ir) c := by
  obtain ⟨g, hg, hs⟩ := canonH_spec hf
  refine ⟨g, hg, (sameFile_iff.mp hs).1, (sameFile_iff.mp hs).2.2, ?_⟩
  simp [callRec2, callsAt, hg]

/-! ### concrete projects (rendered from real source trees by `py/tools/lean_project.py`) -/

/-- seeded C06-m8's layout: `pkg/__init__: from .sub import *`, `pkg/sub/__init__: from .util import *`,
`helper` defined in `pkg/sub/util.py` AND (differently) in the decoy `pkg/util.py` -/
def proj_starChain : Project :=
  { env := envE, builtins := ["print".toList],
    mods :=
    [("pkg".toList, ⟨false, true, true⟩),
     ("pkg.*".toList, ⟨false, true, false⟩),
     ("pkg.helper".toList, ⟨false, true, false⟩),
     ("pkg.helper.*".toList, ⟨false, true, false⟩),
     ("pkg.sub".toList, ⟨false, true, true⟩),
     ("pkg.sub.*".toList, ⟨false, true, false⟩),
     ("pkg.sub.*.*".toList, ⟨false, true, false⟩),
     ("pkg.sub.util".toList, ⟨false, true, true⟩),
     ("pkg.sub.util.*".toList, ⟨false, true, false⟩),
     ("pkg.sub.util.*.*".toList, ⟨false, true, false⟩),
     ("pkg.sub.util.helper".toList, ⟨false, true, false⟩),
     ("pkg.sub.util.helper.*".toList, ⟨false, true, false⟩)],
    quals :=
    [("pkg".toList, { module := (some "pkg".toList), origin := (some "/proj/pkg/__init__.py".toList), pySource := true, builtinLoader := false, blacklisted := false, inPip := false, inStdlib := false }),
     ("pkg.*".toList, { module := (some "pkg".toList), origin := (some "/proj/pkg/__init__.py".toList), pySource := true, builtinLoader := false, blacklisted := false, inPip := false, inStdlib := false }),
     ("pkg.helper".toList, { module := (some "pkg".toList), origin := (some "/proj/pkg/__init__.py".toList), pySource := true, builtinLoader := false, blacklisted := false, inPip := false, inStdlib := false }),
     ("pkg.helper.*".toList, { module := (some "pkg".toList), origin := (some "/proj/pkg/__init__.py".toList), pySource := true, builtinLoader := false, blacklisted := false, inPip := false, inStdlib := false }),
     ("pkg.sub".toList, { module := (some "pkg.sub".toList), origin := (some "/proj/pkg/sub/__init__.py".toList), pySource := true, builtinLoader := false, blacklisted := false, inPip := false, inStdlib := false }),
     ("pkg.sub.*".toList, { module := (some "pkg.sub".toList), origin := (some "/proj/pkg/sub/__init__.py".toList), pySource := true, builtinLoader := false, blacklisted := false, inPip := false, inStdlib := false }),
     ("pkg.sub.*.*".toList, { module := (some "pkg.sub".toList), origin := (some "/proj/pkg/sub/__init__.py".toList), pySource := true, builtinLoader := false, blacklisted := false, inPip := false, inStdlib := false }),
     ("pkg.sub.util".toList, { module := (some "pkg.sub.util".toList), origin := (some "/proj/pkg/sub/util.py".toList), pySource := true, builtinLoader := false, blacklisted := false, inPip := false, inStdlib := false }),
     ("pkg.sub.util.*".toList, { module := (some "pkg.sub.util".toList), origin := (some "/proj/pkg/sub/util.py".toList), pySource := true, builtinLoader := false, blacklisted := false, inPip := false, inStdlib := false }),
     ("pkg.sub.util.*.*".toList, { module := (some "pkg.sub.util".toList), origin := (some "/proj/pkg/sub/util.py".toList), pySource := true, builtinLoader := false, blacklisted := false, inPip := false, inStdlib := false }),
     ("pkg.sub.util.helper".toList, { module := (some "pkg.sub.util".toList), origin := (some "/proj/pkg/sub/util.py".toList), pySource := true, builtinLoader := false, blacklisted := false, inPip := false, inStdlib := false }),
     ("pkg.sub.util.helper.*".toList, { module := (some "pkg.sub.util".toList), origin := (some "/proj/pkg/sub/util.py".toList), pySource := true, builtinLoader := false, blacklisted := false, inPip := false, inStdlib := false })],
    excluded := [],
    target :=
    { origin := "target.py".toList, derived := (some "target".toList), isInit := false,
      body :=
      [.importFrom (some "pkg".toList) 0 [⟨"helper".toList, none⟩] "".toList false true,
     .funcDef "caller".toList ⟨[], ["o".toList], none, [], none⟩
      [(.ret [(.call (.name "helper".toList .load) [(.name "o".toList .load)] [] [])])]
      [] false] },
    files :=
  [{ origin := "/proj/pkg/__init__.py".toList, derived := (some "pkg".toList), isInit := true,
      body :=
      [.importFrom (some "sub".toList) 1 [⟨"*".toList, none⟩] "pkg.sub".toList true true] },
   { origin := "/proj/pkg/sub/__init__.py".toList, derived := (some "pkg.sub".toList), isInit := true,
      body :=
      [.importFrom (some "util".toList) 1 [⟨"*".toList, none⟩] "pkg.sub.util".toList true true] },
   { origin := "/proj/pkg/sub/util.py".toList, derived := (some "pkg.sub.util".toList), isInit := false,
      body :=
      [.funcDef "helper".toList ⟨[], ["x".toList], none, [], none⟩
      [(.ret [(.attr (.name "x".toList .load) "sub_util".toList .load)])]
      [] false] }] }

def proj_starChainDoc : ResultsDoc :=
  [("caller".toList, ⟨["o".toList, "o.sub_util".toList], [], [], ["helper()".toList]⟩)]

/-- seeded C06-m7's layout: a stale `m.py` next to the package `m/` (`m/__init__: from .impl import f`);
the locator facts (from the real locator) name `m/__init__.py` -/
def proj_staleTwin : Project :=
  { env := envE, builtins := ["print".toList],
    mods :=
    [("m".toList, ⟨false, true, true⟩),
     ("m.*".toList, ⟨false, true, false⟩),
     ("m.f".toList, ⟨false, true, false⟩),
     ("m.f.*".toList, ⟨false, true, false⟩),
     ("m.impl".toList, ⟨false, true, true⟩),
     ("m.impl.*".toList, ⟨false, true, false⟩),
     ("m.impl.f".toList, ⟨false, true, false⟩),
     ("m.impl.f.*".toList, ⟨false, true, false⟩)],
    quals :=
    [("m".toList, { module := (some "m".toList), origin := (some "/proj/m/__init__.py".toList), pySource := true, builtinLoader := false, blacklisted := false, inPip := false, inStdlib := false }),
     ("m.*".toList, { module := (some "m".toList), origin := (some "/proj/m/__init__.py".toList), pySource := true, builtinLoader := false, blacklisted := false, inPip := false, inStdlib := false }),
     ("m.f".toList, { module := (some "m".toList), origin := (some "/proj/m/__init__.py".toList), pySource := true, builtinLoader := false, blacklisted := false, inPip := false, inStdlib := false }),
     ("m.f.*".toList, { module := (some "m".toList), origin := (some "/proj/m/__init__.py".toList), pySource := true, builtinLoader := false, blacklisted := false, inPip := false, inStdlib := false }),
     ("m.impl".toList, { module := (some "m.impl".toList), origin := (some "/proj/m/impl.py".toList), pySource := true, builtinLoader := false, blacklisted := false, inPip := false, inStdlib := false }),
     ("m.impl.*".toList, { module := (some "m.impl".toList), origin := (some "/proj/m/impl.py".toList), pySource := true, builtinLoader := false, blacklisted := false, inPip := false, inStdlib := false }),
     ("m.impl.f".toList, { module := (some "m.impl".toList), origin := (some "/proj/m/impl.py".toList), pySource := true, builtinLoader := false, blacklisted := false, inPip := false, inStdlib := false }),
     ("m.impl.f.*".toList, { module := (some "m.impl".toList), origin := (some "/proj/m/impl.py".toList), pySource := true, builtinLoader := false, blacklisted := false, inPip := false, inStdlib := false })],
    excluded := [],
    target :=
    { origin := "target.py".toList, derived := (some "target".toList), isInit := false,
      body :=
      [.importFrom (some "m".toList) 0 [⟨"f".toList, none⟩] "".toList false true,
     .funcDef "caller".toList ⟨[], ["o".toList], none, [], none⟩
      [(.ret [(.call (.name "f".toList .load) [(.name "o".toList .load)] [] [])])]
      [] false] },
    files :=
  [{ origin := "/proj/m/__init__.py".toList, derived := (some "m".toList), isInit := true,
      body :=
      [.importFrom (some "impl".toList) 1 [⟨"f".toList, none⟩] "m.impl".toList true true] },
   { origin := "/proj/m/impl.py".toList, derived := (some "m.impl".toList), isInit := false,
      body :=
      [.funcDef "f".toList ⟨[], ["x".toList], none, [], none⟩
      [(.ret [(.attr (.name "x".toList .load) "from_package".toList .load)])]
      [] false] }] }

def proj_staleTwinDoc : ResultsDoc :=
  [("caller".toList, ⟨["o".toList, "o.from_package".toList], [], [], ["f()".toList]⟩)]

/-- seeded C06-m9's shape, the target given by its ABSOLUTE path: `target: from a import fa`,
`a: from target import base; fa calls base` — the walk meets `/proj/target.py` again -/
def proj_cycleAbs : Project :=
  { env := envE, builtins := ["print".toList],
    mods :=
    [("a".toList, ⟨false, true, true⟩),
     ("a.*".toList, ⟨false, true, false⟩),
     ("a.fa".toList, ⟨false, true, false⟩),
     ("a.fa.*".toList, ⟨false, true, false⟩),
     ("target".toList, ⟨false, true, true⟩),
     ("target.*".toList, ⟨false, true, false⟩),
     ("target.base".toList, ⟨false, true, false⟩),
     ("target.base.*".toList, ⟨false, true, false⟩)],
    quals :=
    [("a".toList, { module := (some "a".toList), origin := (some "/proj/a.py".toList), pySource := true, builtinLoader := false, blacklisted := false, inPip := false, inStdlib := false }),
     ("a.*".toList, { module := (some "a".toList), origin := (some "/proj/a.py".toList), pySource := true, builtinLoader := false, blacklisted := false, inPip := false, inStdlib := false }),
     ("a.fa".toList, { module := (some "a".toList), origin := (some "/proj/a.py".toList), pySource := true, builtinLoader := false, blacklisted := false, inPip := false, inStdlib := false }),
     ("a.fa.*".toList, { module := (some "a".toList), origin := (some "/proj/a.py".toList), pySource := true, builtinLoader := false, blacklisted := false, inPip := false, inStdlib := false }),
     ("target".toList, { module := (some "target".toList), origin := (some "/proj/target.py".toList), pySource := true, builtinLoader := false, blacklisted := false, inPip := false, inStdlib := false }),
     ("target.*".toList, { module := (some "target".toList), origin := (some "/proj/target.py".toList), pySource := true, builtinLoader := false, blacklisted := false, inPip := false, inStdlib := false }),
     ("target.base".toList, { module := (some "target".toList), origin := (some "/proj/target.py".toList), pySource := true, builtinLoader := false, blacklisted := false, inPip := false, inStdlib := false }),
     ("target.base.*".toList, { module := (some "target".toList), origin := (some "/proj/target.py".toList), pySource := true, builtinLoader := false, blacklisted := false, inPip := false, inStdlib := false })],
    excluded := [],
    target :=
    { origin := "/proj/target.py".toList, derived := (some "target".toList), isInit := false,
      body :=
      [.importFrom (some "a".toList) 0 [⟨"fa".toList, none⟩] "".toList false true,
     .funcDef "base".toList ⟨[], ["b".toList], none, [], none⟩
      [(.ret [(.attr (.name "b".toList .load) "base_attr".toList .load)])]
      [] false,
     .funcDef "caller".toList ⟨[], ["o".toList], none, [], none⟩
      [(.ret [(.call (.name "fa".toList .load) [(.name "o".toList .load)] [] [])])]
      [] false] },
    files :=
  [{ origin := "/proj/a.py".toList, derived := (some "a".toList), isInit := false,
      body :=
      [.importFrom (some "target".toList) 0 [⟨"base".toList, none⟩] "".toList false true,
     .funcDef "fa".toList ⟨[], ["x".toList], none, [], none⟩
      [(.ret [(.call (.name "base".toList .load) [(.attr (.name "x".toList .load) "left".toList .load)] [] [])])]
      [] false] },
   { origin := "/proj/target.py".toList, derived := (some "target".toList), isInit := false,
      body :=
      [.importFrom (some "a".toList) 0 [⟨"fa".toList, none⟩] "".toList false true,
     .funcDef "base".toList ⟨[], ["b".toList], none, [], none⟩
      [(.ret [(.attr (.name "b".toList .load) "base_attr".toList .load)])]
      [] false,
     .funcDef "caller".toList ⟨[], ["o".toList], none, [], none⟩
      [(.ret [(.call (.name "fa".toList .load) [(.name "o".toList .load)] [] [])])]
      [] false] }] }

def proj_cycleAbsDoc : ResultsDoc :=
  [("base".toList, ⟨["b.base_attr".toList], [], [], []⟩),
   ("caller".toList, ⟨["o".toList, "o.left".toList, "x.left.base_attr".toList], [], [], ["fa()".toList]⟩)]

/-- …and with the same call text `helper(b)` in the target's `caller` and in the called-back `base`,
absolute target path -/
def proj_cycleAbsSeen : Project :=
  { env := envE, builtins := ["print".toList],
    mods :=
    [("a".toList, ⟨false, true, true⟩),
     ("a.*".toList, ⟨false, true, false⟩),
     ("a.fa".toList, ⟨false, true, false⟩),
     ("a.fa.*".toList, ⟨false, true, false⟩),
     ("target".toList, ⟨false, true, true⟩),
     ("target.*".toList, ⟨false, true, false⟩),
     ("target.base".toList, ⟨false, true, false⟩),
     ("target.base.*".toList, ⟨false, true, false⟩)],
    quals :=
    [("a".toList, { module := (some "a".toList), origin := (some "/proj/a.py".toList), pySource := true, builtinLoader := false, blacklisted := false, inPip := false, inStdlib := false }),
     ("a.*".toList, { module := (some "a".toList), origin := (some "/proj/a.py".toList), pySource := true, builtinLoader := false, blacklisted := false, inPip := false, inStdlib := false }),
     ("a.fa".toList, { module := (some "a".toList), origin := (some "/proj/a.py".toList), pySource := true, builtinLoader := false, blacklisted := false, inPip := false, inStdlib := false }),
     ("a.fa.*".toList, { module := (some "a".toList), origin := (some "/proj/a.py".toList), pySource := true, builtinLoader := false, blacklisted := false, inPip := false, inStdlib := false }),
     ("target".toList, { module := (some "target".toList), origin := (some "/proj/target.py".toList), pySource := true, builtinLoader := false, blacklisted := false, inPip := false, inStdlib := false }),
     ("target.*".toList, { module := (some "target".toList), origin := (some "/proj/target.py".toList), pySource := true, builtinLoader := false, blacklisted := false, inPip := false, inStdlib := false }),
     ("target.base".toList, { module := (some "target".toList), origin := (some "/proj/target.py".toList), pySource := true, builtinLoader := false, blacklisted := false, inPip := false, inStdlib := false }),
     ("target.base.*".toList, { module := (some "target".toList), origin := (some "/proj/target.py".toList), pySource := true, builtinLoader := false, blacklisted := false, inPip := false, inStdlib := false })],
    excluded := [],
    target :=
    { origin := "/proj/target.py".toList, derived := (some "target".toList), isInit := false,
      body :=
      [.importFrom (some "a".toList) 0 [⟨"fa".toList, none⟩] "".toList false true,
     .funcDef "helper".toList ⟨[], ["b".toList], none, [], none⟩
      [(.ret [(.attr (.name "b".toList .load) "h_attr".toList .load)])]
      [] false,
     .funcDef "base".toList ⟨[], ["b".toList], none, [], none⟩
      [(.other "Expr".toList [(.call (.name "helper".toList .load) [(.name "b".toList .load)] [] [])]), (.ret [(.attr (.name "b".toList .load) "base_attr".toList .load)])]
      [] false,
     .funcDef "caller".toList ⟨[], ["b".toList, "c".toList], none, [], none⟩
      [(.other "Expr".toList [(.call (.name "helper".toList .load) [(.name "b".toList .load)] [] [])]), (.ret [(.call (.name "fa".toList .load) [(.name "c".toList .load)] [] [])])]
      [] false] },
    files :=
  [{ origin := "/proj/a.py".toList, derived := (some "a".toList), isInit := false,
      body :=
      [.importStmt [⟨"target".toList, none⟩],
     .funcDef "fa".toList ⟨[], ["b".toList], none, [], none⟩
      [(.ret [(.call (.attr (.name "target".toList .load) "base".toList .load) [(.name "b".toList .load)] [] [])])]
      [] false] },
   { origin := "/proj/target.py".toList, derived := (some "target".toList), isInit := false,
      body :=
      [.importFrom (some "a".toList) 0 [⟨"fa".toList, none⟩] "".toList false true,
     .funcDef "helper".toList ⟨[], ["b".toList], none, [], none⟩
      [(.ret [(.attr (.name "b".toList .load) "h_attr".toList .load)])]
      [] false,
     .funcDef "base".toList ⟨[], ["b".toList], none, [], none⟩
      [(.other "Expr".toList [(.call (.name "helper".toList .load) [(.name "b".toList .load)] [] [])]), (.ret [(.attr (.name "b".toList .load) "base_attr".toList .load)])]
      [] false,
     .funcDef "caller".toList ⟨[], ["b".toList, "c".toList], none, [], none⟩
      [(.other "Expr".toList [(.call (.name "helper".toList .load) [(.name "b".toList .load)] [] [])]), (.ret [(.call (.name "fa".toList .load) [(.name "c".toList .load)] [] [])])]
      [] false] }] }

def proj_cycleAbsSeenDoc : ResultsDoc :=
  [("helper".toList, ⟨["b.h_attr".toList], [], [], []⟩),
   ("base".toList, ⟨["b".toList, "b.base_attr".toList, "b.h_attr".toList], [], [], ["helper()".toList]⟩),
   ("caller".toList, ⟨["b".toList, "b.h_attr".toList, "c".toList, "c.base_attr".toList], [], [], ["fa()".toList, "helper()".toList]⟩)]

/-- …the same source tree with the target named `target.py` -/
def proj_cycleRelSeen : Project :=
  { env := envE, builtins := ["print".toList],
    mods :=
    [("a".toList, ⟨false, true, true⟩),
     ("a.*".toList, ⟨false, true, false⟩),
     ("a.fa".toList, ⟨false, true, false⟩),
     ("a.fa.*".toList, ⟨false, true, false⟩),
     ("target".toList, ⟨false, true, true⟩),
     ("target.*".toList, ⟨false, true, false⟩),
     ("target.base".toList, ⟨false, true, false⟩),
     ("target.base.*".toList, ⟨false, true, false⟩)],
    quals :=
    [("a".toList, { module := (some "a".toList), origin := (some "/proj/a.py".toList), pySource := true, builtinLoader := false, blacklisted := false, inPip := false, inStdlib := false }),
     ("a.*".toList, { module := (some "a".toList), origin := (some "/proj/a.py".toList), pySource := true, builtinLoader := false, blacklisted := false, inPip := false, inStdlib := false }),
     ("a.fa".toList, { module := (some "a".toList), origin := (some "/proj/a.py".toList), pySource := true, builtinLoader := false, blacklisted := false, inPip := false, inStdlib := false }),
     ("a.fa.*".toList, { module := (some "a".toList), origin := (some "/proj/a.py".toList), pySource := true, builtinLoader := false, blacklisted := false, inPip := false, inStdlib := false }),
     ("target".toList, { module := (some "target".toList), origin := (some "/proj/target.py".toList), pySource := true, builtinLoader := false, blacklisted := false, inPip := false, inStdlib := false }),
     ("target.*".toList, { module := (some "target".toList), origin := (some "/proj/target.py".toList), pySource := true, builtinLoader := false, blacklisted := false, inPip := false, inStdlib := false }),
     ("target.base".toList, { module := (some "target".toList), origin := (some "/proj/target.py".toList), pySource := true, builtinLoader := false, blacklisted := false, inPip := false, inStdlib := false }),
     ("target.base.*".toList, { module := (some "target".toList), origin := (some "/proj/target.py".toList), pySource := true, builtinLoader := false, blacklisted := false, inPip := false, inStdlib := false })],
    excluded := [],
    target :=
    { origin := "target.py".toList, derived := (some "target".toList), isInit := false,
      body :=
      [.importFrom (some "a".toList) 0 [⟨"fa".toList, none⟩] "".toList false true,
     .funcDef "helper".toList ⟨[], ["b".toList], none, [], none⟩
      [(.ret [(.attr (.name "b".toList .load) "h_attr".toList .load)])]
      [] false,
     .funcDef "base".toList ⟨[], ["b".toList], none, [], none⟩
      [(.other "Expr".toList [(.call (.name "helper".toList .load) [(.name "b".toList .load)] [] [])]), (.ret [(.attr (.name "b".toList .load) "base_attr".toList .load)])]
      [] false,
     .funcDef "caller".toList ⟨[], ["b".toList, "c".toList], none, [], none⟩
      [(.other "Expr".toList [(.call (.name "helper".toList .load) [(.name "b".toList .load)] [] [])]), (.ret [(.call (.name "fa".toList .load) [(.name "c".toList .load)] [] [])])]
      [] false] },
    files :=
  [{ origin := "/proj/a.py".toList, derived := (some "a".toList), isInit := false,
      body :=
      [.importStmt [⟨"target".toList, none⟩],
     .funcDef "fa".toList ⟨[], ["b".toList], none, [], none⟩
      [(.ret [(.call (.attr (.name "target".toList .load) "base".toList .load) [(.name "b".toList .load)] [] [])])]
      [] false] },
   { origin := "/proj/target.py".toList, derived := (some "target".toList), isInit := false,
      body :=
      [.importFrom (some "a".toList) 0 [⟨"fa".toList, none⟩] "".toList false true,
     .funcDef "helper".toList ⟨[], ["b".toList], none, [], none⟩
      [(.ret [(.attr (.name "b".toList .load) "h_attr".toList .load)])]
      [] false,
     .funcDef "base".toList ⟨[], ["b".toList], none, [], none⟩
      [(.other "Expr".toList [(.call (.name "helper".toList .load) [(.name "b".toList .load)] [] [])]), (.ret [(.attr (.name "b".toList .load) "base_attr".toList .load)])]
      [] false,
     .funcDef "caller".toList ⟨[], ["b".toList, "c".toList], none, [], none⟩
      [(.other "Expr".toList [(.call (.name "helper".toList .load) [(.name "b".toList .load)] [] [])]), (.ret [(.call (.name "fa".toList .load) [(.name "c".toList .load)] [] [])])]
      [] false] }] }

def proj_cycleRelSeenDoc : ResultsDoc :=
  [("helper".toList, ⟨["b.h_attr".toList], [], [], []⟩),
   ("base".toList, ⟨["b".toList, "b.base_attr".toList, "b.h_attr".toList], [], [], ["helper()".toList]⟩),
   ("caller".toList, ⟨["b".toList, "b.h_attr".toList, "c".toList, "c.base_attr".toList, "c.h_attr".toList], [], [], ["fa()".toList, "helper()".toList]⟩)]

/-- what `parse_and_analyse_file` leaves: the keys of `import_irs`, their origins, the target's path -/
def walkView (P : Project) : Option (List Str × List Str × Str) :=
  match analyseAll P with
  | .ok (t, irs, _) => some (irs.map (·.key), irs.map (·.origin), t.origin)
  | _ => none

/-- TESTS (kernel evaluation of the whole multi-file model; each document is the one the real CLI
prints for that tree). The star chain binds `helper` to `pkg.sub.util`'s definition (`o.sub_util`),
not to the decoy's. -/
theorem pipeline2_test_star_chain_two_levels : run2 proj_starChain = .ok (proj_starChainDoc, []) :=
  eq_of_outcomeIs2 (by decide +kernel)

/-- the package is followed, not the stale module (`o.from_package`) -/
theorem pipeline2_test_package_next_to_stale_module : run2 proj_staleTwin = .ok (proj_staleTwinDoc, []) :=
  eq_of_outcomeIs2 (by decide +kernel)

/-- an import cycle through a target named by its absolute path: the target is analysed a second
time (key `target` of `import_irs`), the call-back resolves, the answer is the single-file one -/
theorem pipeline2_test_cycle_through_absolute_target :
    run2 proj_cycleAbs = .ok (proj_cycleAbsDoc, []) ∧
    walkView proj_cycleAbs = some (["a".toList, "target".toList], ["/proj/a.py".toList, "/proj/target.py".toList],
      "/proj/target.py".toList) := by
  refine ⟨eq_of_outcomeIs2 (by decide +kernel), ?_⟩
  decide +kernel

/-- **`pipeline2_cex_absolute_target_cycle_merges_calls`** — the known finding `import-cycle-through-
target-changes-answer:…:target-spelled-absolute`: the same tree, target named absolutely vs relatively.
Under the absolute path the copy's `helper(b)` is the target's own equality class (already seen) and
the copy's `base` was never simplified: `c.h_attr` is lost. -/
theorem pipeline2_cex_absolute_target_cycle_merges_calls :
    run2 proj_cycleAbsSeen = .ok (proj_cycleAbsSeenDoc, []) ∧
    run2 proj_cycleRelSeen = .ok (proj_cycleRelSeenDoc, []) ∧
    ((Dict.get? proj_cycleAbsSeenDoc "caller".toList).map fun e => decide ("c.h_attr".toList ∈ e.gets)) = some false ∧
    ((Dict.get? proj_cycleRelSeenDoc "caller".toList).map fun e => decide ("c.h_attr".toList ∈ e.gets)) = some true := by
  refine ⟨eq_of_outcomeIs2 (by decide +kernel), eq_of_outcomeIs2 (by decide +kernel), by decide, by decide⟩

/-- the hypotheses of `pipeline2_walk_complete` / `pipeline2_import_irs_complete` hold for the cycle
project (one module per origin), and the conclusion names the target's own key -/
example : ∃ t irs ds, analyseAll proj_cycleAbs = .ok (t, irs, ds) ∧ "target".toList ∈ keysOf irs := by
  have h2 := pipeline2_test_cycle_through_absolute_target.2
  unfold walkView at h2
  cases h : analyseAll proj_cycleAbs with
  | ok x =>
    obtain ⟨t, irs, ds⟩ := x
    refine ⟨t, irs, ds, rfl, ?_⟩
    rw [h] at h2
    simp only [Option.some.injEq, Prod.mk.injEq] at h2
    simp only [keysOf, h2.1]
    decide
  | fatal a b => rw [h] at h2; cases h2
  | crash e => rw [h] at h2; cases h2

end Rattr.C06


/-! ## Round 4 (a) — one definition per file: the submodule is NAMED AFTER the member it defines

`pkg/slugify.py` defines `slugify`, `pkg/__init__.py` re-exports it (`from .slugify import slugify`, `from .slugify
import *`, `from pkg.slugify import slugify`); the importer says `from pkg import slugify`, `import pkg; pkg.slugify()`
or `import pkg as p; p.slugify()`.  The qualified name of the symbol at the call site, `pkg.slugify`, is then ITSELF a
module name: `Import.module_name` (the longest dotted prefix that is a module) is `pkg.slugify`, not `pkg`, and
`resolve_import` looks `slugify` up in the submodule directly — the `__init__` hop is skipped.  `find_call_target_and_ir`
goes straight into `resolve_import` for every `Import` target (Tie A below): there is no "a module is not callable"
guard in front of it.  Tie B: the pair oracle on generated projects whose defining module carries the callee's name
(`submodule-named-after-member:*` in the distribution), the dedicated rows `package-reexports-from-submodule-named-
after-the-member:*`, and the `resolve_import` correspondence on the real symbols of those projects. -/

namespace Rattr.C06
open Rattr Rattr.Strs Rattr.Resolve Rattr.Spec.ImportEquiv

private def r4 (x : String) : Str := x.toList

/-- Tie A: (a) the `isinstance(target, Import)` branch of `find_call_target_and_ir` is the single statement
`return resolve_import(…)` — no test on the symbol in front of it (model: `resolveCall` hands every import target
to `resolveImport`); (b) `derive_module_name_from_path` takes the path as given (`LinkedLocal.pathNorm`). -/
theorem tieA_round4_shapes :
    Generated.C06.findCallTargetImportBranch = ["return resolve_import(target, environment=environment)"]
    ∧ Generated.C06.deriveModuleNamePathAssignments = ["filepath = Path(filepath)"]
    ∧ LinkedLocal.pathNorm = .asGiven := ⟨rfl, rfl, rfl⟩

/-- `from pkg import f` (call `f(…)`) where a submodule `pkg.f` exists and defines `f`: the call is resolved to
that definition, WHATEVER `pkg/__init__` contains (it is never consulted: `pkg.f` is the module of the name). -/
theorem C06_reexport_submodule_named_after_member (w : World) (root : Context) (pkg f : Str) (ctxF : MCtx)
    (s : MSym) (fuel : Nat) (hf : Ident f)
    (hroot : Context.get? root f = some (importEntry w.existing ⟨f, pkg ++ '.' :: f⟩))
    (hF : Provides w (pkg ++ '.' :: f) (pkg ++ '.' :: f) ctxF)
    (hs : lookupSym ctxF f = some s) (hd : IsDef s f) :
    resolveCall w (fuel + 1) root f = .viaImport (.found (pkg ++ '.' :: f) s) := by
  obtain ⟨hdot, _, hrp, _⟩ := hf.notMem
  unfold resolveCall
  rw [callTargetFor_bare root f _ hf hroot rfl]
  simp only [importEntry, if_true]
  rw [resolveImport_def w fuel f (pkg ++ '.' :: f) _ ctxF f s hF (localNameOf_plain f _ hdot hrp) hs hd]

/-- `import pkg` / `import pkg as n` (call `n.f(…)`), submodule `pkg.f` defines `f`: the synthesised symbol is
`Import(f, "pkg.f")`, the same as for `from pkg import f`. -/
theorem C06_package_attribute_submodule_named_after_member (w : World) (root : Context) (pkg n f : Str)
    (ctxF : MCtx) (s : MSym) (fuel : Nat) (hn : Ident n) (hf : Ident f)
    (hnone : Context.get? root (n ++ '.' :: f) = none)
    (hroot : Context.get? root n = some (importEntry w.existing ⟨n, pkg⟩))
    (hex : w.existing.contains pkg = true)
    (hF : Provides w (pkg ++ '.' :: f) (pkg ++ '.' :: f) ctxF)
    (hs : lookupSym ctxF f = some s) (hd : IsDef s f) :
    resolveCall w (fuel + 1) root (n ++ '.' :: f) = .viaImport (.found (pkg ++ '.' :: f) s) := by
  obtain ⟨hdot, _, hrp, _⟩ := hf.notMem
  unfold resolveCall
  rw [callTargetFor_member root n f _ hn hf hnone hroot rfl rfl hex]
  simp only [importEntry, if_true]
  rw [resolveImport_def w fuel f (pkg ++ '.' :: f) _ ctxF f s hF (localNameOf_plain f _ hdot hrp) hs hd]

/-- `textutils/__init__.py: from .slugify import slugify`, `textutils/slugify.py: def slugify` -/
private def pMember : Project :=
  [{ name := r4 "target", isPkg := false,
     decls := [.imp (.from_ (r4 "textutils") (r4 "slugify") none), .imp (.plain (r4 "textutils") (some (r4 "tu")))] },
   { name := r4 "textutils", isPkg := true, decls := [.imp (.rel 1 (some (r4 "slugify")) (r4 "slugify") none)] },
   { name := r4 "textutils.slugify", isPkg := false, decls := [.def_ (r4 "slugify") false []] }]

/-- the one-definition-per-file layout, end to end in the model (a test on literals): Python binds both spellings
to `textutils.slugify.slugify`, and so does rattr. -/
theorem C06_submodule_named_after_member_test :
    expected pMember 5 (r4 "target") (r4 "slugify") = some (.obj (r4 "textutils.slugify") (r4 "slugify") false [])
    ∧ expected pMember 5 (r4 "target") (r4 "tu.slugify") = some (.obj (r4 "textutils.slugify") (r4 "slugify") false [])
    ∧ resolveCall (worldOf pMember) 3 (rootOf (worldOf pMember).existing (rootSyms pMember (r4 "target"))) (r4 "slugify")
        = .viaImport (.found (r4 "textutils.slugify") (.func (r4 "slugify") true))
    ∧ resolveCall (worldOf pMember) 3 (rootOf (worldOf pMember).existing (rootSyms pMember (r4 "target"))) (r4 "tu.slugify")
        = .viaImport (.found (r4 "textutils.slugify") (.func (r4 "slugify") true)) := by
  decide

/-- `pkg/__init__.py: from .impl import f`, `pkg/impl.py: def f`, and a file `pkg/f.py` that ALSO defines an `f` -/
private def pShadow : Project :=
  [{ name := r4 "target", isPkg := false, decls := [.imp (.from_ (r4 "pkg") (r4 "f") none)] },
   { name := r4 "pkg", isPkg := true, decls := [.imp (.rel 1 (some (r4 "impl")) (r4 "f") none)] },
   { name := r4 "pkg.impl", isPkg := false, decls := [.def_ (r4 "f") false []] },
   { name := r4 "pkg.f", isPkg := false, decls := [.def_ (r4 "f") false []] }]

/-- Known finding `wrong-file-followed:submodule-with-the-called-name-instead-of-the-package-attribute:*` (found in
round 4): the shortcut of `C06_reexport_submodule_named_after_member` is taken whenever a file `pkg/f.py` exists —
also when the package attribute `f` comes from ELSEWHERE.  Python binds `from pkg import f` to the package attribute
(`pkg.impl.f`; `pkg/f.py` is never imported), rattr follows `pkg/f.py`. -/
theorem C06_cex_submodule_shadows_package_attribute :
    expected pShadow 6 (r4 "target") (r4 "f") = some (.obj (r4 "pkg.impl") (r4 "f") false [])
    ∧ resolveCall (worldOf pShadow) 4 (rootOf (worldOf pShadow).existing (rootSyms pShadow (r4 "target"))) (r4 "f")
        = .viaImport (.found (r4 "pkg.f") (.func (r4 "f") true)) := by
  decide

-- non-vacuity of the two general theorems: the literal project satisfies their hypotheses
example : resolveCall (worldOf pMember) 1 (rootOf (worldOf pMember).existing (rootSyms pMember (r4 "target"))) (r4 "slugify")
    = .viaImport (.found (r4 "textutils.slugify") (.func (r4 "slugify") true)) :=
  C06_reexport_submodule_named_after_member (worldOf pMember) _ (r4 "textutils") (r4 "slugify")
    [.func (r4 "slugify") true] _ 0 (by decide) (by decide) (by decide) (by decide) (.inl rfl)

example : resolveCall (worldOf pMember) 1 (rootOf (worldOf pMember).existing (rootSyms pMember (r4 "target"))) (r4 "tu.slugify")
    = .viaImport (.found (r4 "textutils.slugify") (.func (r4 "slugify") true)) :=
  C06_package_attribute_submodule_named_after_member (worldOf pMember) _ (r4 "textutils") (r4 "tu") (r4 "slugify")
    [.func (r4 "slugify") true] _ 0 (by decide) (by decide) (by decide) (by decide) (by decide) (by decide) (by decide)
    (.inl rfl)

end Rattr.C06


/-! ## Round 4 (b) — a followed module whose file is reached THROUGH A SYMBOLIC LINK, and its own helpers

Model: `RattrModel/LinkedLocal.lean` (`localKey`: the name `__resolve_target_and_ir` derives for a symbol of a
followed module; `envOf`: the environment of `ResolveLocal` computed from the locator's view).  A local call inside
the followed module `name` is resolved iff `localKey … name = some name` — the key `import_irs` holds.  With the path
taken as given this is `Locator.followBase`, which `Props/C13.C13_located_roundtrip` shows to be `some name` FOR EVERY
resolver (every structure of links below the search directory).  Tie B: the pair oracle on generated projects with
linked package directories / module files (`local-callee-in-followed-module:*:module-reached-through-symbolic-link`),
the dedicated rows `*-is-a-symbolic-link`, the `resolve_local` correspondence with the REAL `derive_module_name_from_
path` of every file (`moduleOf`) and its well-formedness verdict. -/

namespace Rattr.C06
open Rattr Rattr.Locator Rattr.LinkedLocal Rattr.ResolveLocal

/-- with the path taken as given, the derived name is the module name under which the file is analysed
(`Locator.followBase`, the round-trip object of C13) -/
theorem C06_local_key_is_follow_base (env : Locator.Env) (M : Mounts) (name : Dotted) :
    localKey env M .asGiven name = followBase env M name := by
  unfold localKey definedIn followBase deriveFrom
  cases findModuleSpecFast env name <;> rfl

/-- … and it depends on the resolver only through its value on the SEARCH DIRECTORIES: links below a search
directory (a linked package directory, a linked module file, links inside links) cannot change it. -/
theorem C06_local_key_independent_of_links_below_search_dir (env : Locator.Env) (M M' : Mounts)
    (hs : M.site = .searchDir) (hs' : M'.site = .searchDir) (hd : M'.dirs = M.dirs)
    (hrv : ∀ d ∈ M.dirs, M'.rv d = M.rv d) (name : Dotted) :
    localKey env M' .asGiven name = localKey env M .asGiven name := by
  have hspec : ∀ sp, specAbs M' sp = specAbs M sp := by
    intro sp
    unfold specAbs
    cases sp.origin with
    | none => rfl
    | some o =>
      cases o with
      | ext _ => rfl
      | file i rel =>
        simp only [hd, hs, hs', originAbs]
        cases hi : M.dirs[i]? with
        | none => rfl
        | some d => simp [hrv d (List.mem_of_getElem? hi)]
  unfold localKey definedIn deriveFrom
  cases findModuleSpecFast env name with
  | none => rfl
  | some sp => simp [hspec sp]

/-- a local call inside a followed module is resolved as soon as the module's name round-trips: with `moduleOf`
of the callee's file equal to the name `import_irs` holds the module under, the callee — a key of that IR — is
found there (`C06_module_local_callee_found` with the key supplied by `localKey`). -/
theorem C06_helper_of_followed_module_found (lenv : Locator.Env) (M : Mounts) (name : Dotted)
    (env : ResolveLocal.Env) (t : DSym) (ir : FileKeys)
    (hrt : localKey lenv M LinkedLocal.pathNorm name = some name)
    (hmo : Dict.get? env.moduleOf t.file = (localKey lenv M LinkedLocal.pathNorm name).map Strs.joinDot)
    (hnot : ∀ o ∈ env.target, o.file ≠ t.file)
    (hi : Dict.get? env.imports (Strs.joinDot name) = some ir)
    (hk : t ∈ ir) (hdist : KeysDistinct ir)
    (hcls : ∀ o ∈ allKeys env, o.kind = .cls → o.name = t.name → o.file = t.file → o = t) :
    resolveTargetAndIr env t = .ok { inTarget := false, module := Strs.joinDot name, key := t } := by
  rw [hrt] at hmo
  exact C06_module_local_callee_found env t _ ir hnot hmo hi hk hdist hcls

/-! the project of the seeded change: `textlib -> vendor/textlib_v2` (a link INSIDE the project, so the real
directory is importable under its own name too), `textlib/core.py` defines `norm` and `clean` (which calls `norm`). -/
private def lk (x : String) : Str := x.toList
private def lkEnv : Locator.Env :=
  { fs := [[[lk "textlib", initPy], [lk "textlib", lk "core.py"], [lk "textlib", lk "helpers.py"],
            [lk "vendor", lk "textlib_v2", initPy], [lk "vendor", lk "textlib_v2", lk "core.py"],
            [lk "vendor", lk "textlib_v2", lk "helpers.py"], [lk "target.py"]]], stdlib := [] }
private def lkM : Mounts :=
  { rv := resolveLinks [([lk "proj", lk "textlib"], [lk "proj", lk "vendor", lk "textlib_v2"])] 4,
    site := resolveSite, dirs := [[lk "proj"]] }
private def lkCore : Dotted := [lk "textlib", lk "core"]
private def lkMods : List (Dotted × FileKeys) :=
  [(lkCore, [funcIn lkEnv lkM lkCore (lk "norm"), funcIn lkEnv lkM lkCore (lk "clean")])]

/-- the pinned code on that project (a test on literals): the file is entered as `/proj/textlib/core.py`, the derived
name is `textlib.core` = the key of `import_irs`, the helper `norm` is found in its own module. -/
theorem C06_linked_package_helper_test :
    definedIn lkEnv lkM lkCore = some [lk "proj", lk "textlib", lk "core.py"]
    ∧ localKey lkEnv lkM LinkedLocal.pathNorm lkCore = some lkCore
    ∧ resolveTargetAndIr (envOf lkEnv lkM LinkedLocal.pathNorm [] lkMods) (funcIn lkEnv lkM lkCore (lk "norm"))
        = .ok { inTarget := false, module := lk "textlib.core", key := funcIn lkEnv lkM lkCore (lk "norm") }
    ∧ localWFb (envOf lkEnv lkM LinkedLocal.pathNorm [] lkMods) = true := by
  decide

/-- Why "the path as given" is load-bearing: normalising with `Path.resolve()` first maps the same file back to
the name of the link's destination, `vendor.textlib_v2.core` — importable, but not a key of `import_irs`: the
lookup raises `ImportError`, "unable to resolve call to 'norm' in 'clean'", and the helper's accesses are lost. -/
theorem C06_cex_resolved_path_loses_helper :
    localKey lkEnv lkM .resolved lkCore = some [lk "vendor", lk "textlib_v2", lk "core"]
    ∧ resolveTargetAndIr (envOf lkEnv lkM .resolved [] lkMods) (funcIn lkEnv lkM lkCore (lk "norm"))
        = .error .importError
    ∧ localWFb (envOf lkEnv lkM .resolved [] lkMods) = false := by
  decide

-- non-vacuity of `C06_helper_of_followed_module_found` and of the independence theorem
example : resolveTargetAndIr (envOf lkEnv lkM LinkedLocal.pathNorm [] lkMods) (funcIn lkEnv lkM lkCore (lk "norm"))
    = .ok { inTarget := false, module := Strs.joinDot lkCore, key := funcIn lkEnv lkM lkCore (lk "norm") } :=
  C06_helper_of_followed_module_found lkEnv lkM lkCore (envOf lkEnv lkM LinkedLocal.pathNorm [] lkMods)
    (funcIn lkEnv lkM lkCore (lk "norm")) [funcIn lkEnv lkM lkCore (lk "norm"), funcIn lkEnv lkM lkCore (lk "clean")]
    (by decide) (by decide) (by decide) (by decide) (by decide) (by unfold KeysDistinct; decide) (by decide)

example : localKey lkEnv { lkM with rv := id } .asGiven lkCore = localKey lkEnv lkM .asGiven lkCore :=
  C06_local_key_independent_of_links_below_search_dir lkEnv lkM { lkM with rv := id } rfl rfl rfl (by decide) lkCore

end Rattr.C06

/-
  C16 — diagnostic verbosity and path formatting never change the analysis.

  Model: `Diag.run` / `Diag.shown` / `Diag.render` (RattrModel/Diag.lean).

  Two halves:
  (1) static non-interference (Tie A, re-extracted on every run): the only code locations in
      `rattr/` that mention a verbosity / path-format option or a path renderer are the logging
      functions of the error module, the option/property definitions themselves and the CLI
      argument definitions (`C16_readers`). Hence the event list handed to `Diag.run` cannot depend
      on `-w -H -T`.
  (2) for ALL event lists and configurations (induction on the event list):
      * `C16_state_indep`   buckets, exit status and "output printed" do not depend on -w -H -T;
      * `C16_printed`       the printed lines are exactly the emitted diagnostics that pass the
                            filter, in order (so the filter only deletes lines);
      * `C16_subsequence`   printed at w₁ is a `List.Sublist` of printed at w₂ whenever w₁ ≤ w₂;
      * `C16_errors_always` error / fatal lines are printed at every level (and are the ones the
                            contract lists, `Spec.errorLines`);
      * `C16_render_only`   -H and -T do not enter `run` at all: they act only through `render`, which
                            is applied to the path field of a printed line.
  `C16_full` is the conjunction; it is a theorem (`C16_full_holds`).
-/
import RattrModel.Diag
import RattrModel.Spec.ExitCode
import RattrModel.Generated.C16
import RattrProofs.Props.C15

namespace Rattr.C16
open Rattr Rattr.Diag

/-! ### Tie A -/

/-- The model's warning-level table is the one `Arguments.show_warnings` computes now, and the
`-w` choices are the four levels in increasing order. -/
theorem C16_tieA_showWarnings :
    Generated.C16.showWarnings = Diag.showWarningsTable
    ∧ Generated.C16.warnChoices = WarnLevel.every.map WarnLevel.name
    ∧ Generated.C16.showFlags = Flag.every.map Flag.name := by
  decide

/-- `Arguments.format_path` is the pair of the two booleans (no hidden coupling). -/
theorem C16_tieA_formatPath :
    Generated.C16.formatPath =
      [(false, false, []), (false, true, ["truncate_deep_paths"]), (true, false, ["collapse_home"]),
       (true, true, ["collapse_home", "truncate_deep_paths"])] := by
  decide

/-- Code locations allowed to observe the verbosity / path-format options: the error module's
logging functions (filter + renderer), the `Arguments` / `Config` properties that define the
options, the CLI argument definitions, and the re-export in `rattr/error/__init__.py`. -/
def allowedReaders : List (String × String) :=
  [ ("rattr/error/error.py", "info"), ("rattr/error/error.py", "warning"),
    ("rattr/error/error.py", "error"), ("rattr/error/error.py", "fatal"),
    ("rattr/error/error.py", "rattr"),
    ("rattr/error/error.py", "get_file_and_line_info"),
    ("rattr/error/error.py", "__file_info"), ("rattr/error/error.py", "__line_info"),
    ("rattr/error/error.py", "__log"),
    ("rattr/error/__init__.py", "<module>"),
    ("rattr/config/_types.py", "Arguments.show_warnings"),
    ("rattr/config/_types.py", "Arguments.format_path"),
    ("rattr/config/_types.py", "Config.do_not_show_warnings"),
    ("rattr/config/_types.py", "Config.use_full_path"),
    ("rattr/config/_types.py", "Config.get_formatted_path"),
    ("rattr/config/_types.py", "Config.formatted_current_file_path"),
    ("rattr/config/_types.py", "Config.formatted_target_path"),
    ("rattr/cli/_arguments.py", "add_warning_level_argument"),
    ("rattr/cli/_arguments.py", "add_format_path_arguments") ]

/-- Static non-interference: nothing outside the filter, the renderer and the option definitions
mentions a verbosity / path-format option. -/
theorem C16_readers : ∀ x ∈ Generated.C16.verbosityReaders, x ∈ allowedReaders := by
  decide

/-! ### Changing only the verbosity options -/

def withVerbosity (cfg : Cfg) (w : WarnLevel) (h t : Bool) : Cfg :=
  { cfg with warnLevel := w, collapseHome := h, truncateDeep := t }

/-- `cfg` and `cfg'` agree on everything but -w, -H, -T. -/
def SameAnalysisOptions (cfg cfg' : Cfg) : Prop :=
  cfg.strict = cfg'.strict ∧ cfg.threshold = cfg'.threshold

theorem C16_state_indep (cfg cfg' : Cfg) (evs : List Event) (h : SameAnalysisOptions cfg cfg') :
    (run cfg evs).state = (run cfg' evs).state
    ∧ (run cfg evs).exit = (run cfg' evs).exit
    ∧ (run cfg evs).output = (run cfg' evs).output := by
  obtain ⟨h1, h2⟩ := h
  refine ⟨?_, ?_, ?_⟩
  · rw [C15.C15_buckets, C15.C15_buckets, h1]
  · rw [C15.C15_exit, C15.C15_exit, h1, h2]
  · rw [C15.C15_output, C15.C15_output, h1, h2]

/-! ### What is printed -/

/-- The line an emitted diagnostic leaves on stderr, if it passes the filter. -/
def lineOf (cfg : Cfg) (e : Event) : Option Line :=
  if shown cfg.warnLevel e.loc e.level then
    some ⟨if Spec.exits cfg.strict e then .fatal else e.level, e.loc⟩
  else none

theorem emit_printed (cfg : Cfg) (s : State) (e : Event) :
    (emit cfg s e).printed = (lineOf cfg e).toList := by
  cases e with
  | mk lv b l =>
    cases lv <;> simp only [emit, Diag.info, Diag.warning, Diag.error, Diag.fatal, lineOf, shown,
      doNotShow, Spec.exits, Spec.isFatal, Spec.isWeightedError] <;> (repeat' split) <;> simp_all

theorem runEvents_printed (cfg : Cfg) (s : State) (evs : List Event) :
    (runEvents cfg s evs).printed = (Spec.processed cfg.strict evs).filterMap (lineOf cfg) := by
  induction evs generalizing s with
  | nil => simp [runEvents, Spec.processed]
  | cons e es ih =>
    simp only [runEvents, Spec.processed]
    by_cases h : (emit cfg s e).exited = true
    · simp only [h, if_true]
      have h' := h
      rw [C15.emit_exited] at h'
      simp only [h', if_true, emit_printed]
      cases hl : lineOf cfg e <;> simp [hl]
    · simp only [h]
      have h' := h
      rw [C15.emit_exited] at h'
      simp only [Bool.not_eq_true] at h'
      simp only [h', Bool.false_eq_true, if_false, ih, emit_printed]
      cases hl : lineOf cfg e <;> simp [hl]

/-- The gate's own line. -/
def gateLine (cfg : Cfg) (evs : List Event) : List Line :=
  if Spec.gateFails cfg.strict cfg.threshold evs then [⟨.fatal, .none⟩] else []

/-- The printed lines are exactly the emitted diagnostics that pass the filter, in emission order,
followed by the gate's fatal when the threshold test fails. -/
theorem C16_printed (cfg : Cfg) (evs : List Event) :
    (run cfg evs).printed =
      (Spec.processed cfg.strict evs).filterMap (lineOf cfg) ++ gateLine cfg evs := by
  have hp := runEvents_printed cfg State.init evs
  have hx := C15.runEvents_exited cfg State.init evs
  have he := C15.C15_exit cfg evs
  unfold gateLine Spec.gateFails
  rw [← he]
  unfold run at he ⊢
  simp only at he ⊢
  by_cases h : (runEvents cfg State.init evs).exited = true
  · simp only [h, if_true] at he ⊢
    rw [hx] at h
    simp [h, hp]
  · simp only [h] at he ⊢
    rw [hx] at h
    simp only [Bool.not_eq_true] at h
    by_cases hw : withinThreshold cfg (runEvents cfg State.init evs).state = true
    · simp [hw, h, hp]
    · simp [hw, h, hp, Diag.fatal]

/-! ### The four levels form a chain -/

/-- A line shown at a lower level is shown at every higher level (whole finite table). -/
theorem shown_mono : ∀ (w₁ w₂ : WarnLevel) (l : Where) (lv : Level),
    w₁.rank ≤ w₂.rank → shown w₁ l lv = true → shown w₂ l lv = true := by
  intro w₁ w₂ l lv
  cases w₁ <;> cases w₂ <;> cases l <;> cases lv <;> decide

/-- Errors and fatals pass the filter at every level. -/
theorem shown_error_fatal (w : WarnLevel) (l : Where) :
    shown w l .error = true ∧ shown w l .fatal = true := ⟨rfl, rfl⟩

theorem filterMap_sublist {α β : Type} (f g : α → Option β) (l : List α)
    (h : ∀ a b, f a = some b → g a = some b) :
    (l.filterMap f).Sublist (l.filterMap g) := by
  induction l with
  | nil => simp
  | cons a r ih =>
    cases hf : f a with
    | none =>
      simp only [List.filterMap_cons, hf]
      cases hg : g a with
      | none => simpa using ih
      | some y => simpa using List.Sublist.cons y ih
    | some x =>
      have hg := h a x hf
      simp only [List.filterMap_cons, hf, hg]
      exact List.Sublist.cons_cons x ih

/-- Lower verbosity prints a subsequence of what higher verbosity prints (same run otherwise). -/
theorem C16_subsequence (cfg : Cfg) (w₁ w₂ : WarnLevel) (h₁ t₁ h₂ t₂ : Bool) (evs : List Event)
    (hw : w₁.rank ≤ w₂.rank) :
    (run (withVerbosity cfg w₁ h₁ t₁) evs).printed.Sublist
      (run (withVerbosity cfg w₂ h₂ t₂) evs).printed := by
  rw [C16_printed, C16_printed]
  apply List.Sublist.append
  · apply filterMap_sublist
    intro e b hb
    simp only [lineOf, withVerbosity] at hb ⊢
    by_cases hs : shown w₁ e.loc e.level = true
    · simp only [hs, if_true] at hb
      simp only [shown_mono w₁ w₂ e.loc e.level hw hs, if_true]
      exact hb
    · simp [hs] at hb
  · simp only [gateLine, withVerbosity]
    exact List.Sublist.refl _

/-! ### Errors and fatals are always printed -/

def isErrLine (l : Line) : Bool := l.level = .error || l.level = .fatal

theorem filterMap_cons_toList {α β : Type} (f : α → Option β) (a : α) (l : List α) :
    (a :: l).filterMap f = (f a).toList ++ l.filterMap f := by
  cases h : f a <;> simp [h]

theorem errLine_one (cfg : Cfg) (e : Event) :
    (lineOf cfg e).toList.filter isErrLine = (Spec.errorLine cfg.strict e).toList := by
  cases e with
  | mk lv b l =>
    cases lv <;>
      simp [lineOf, shown, Spec.errorLine, Spec.exits, Spec.isFatal, Spec.isWeightedError, isErrLine]
    cases cfg.strict <;> simp; omega

theorem errLines_filterMap (cfg : Cfg) (evs : List Event) :
    (evs.filterMap (lineOf cfg)).filter isErrLine = evs.filterMap (Spec.errorLine cfg.strict) := by
  induction evs with
  | nil => rfl
  | cons e es ih =>
    rw [filterMap_cons_toList, filterMap_cons_toList, List.filter_append, ih, errLine_one]

/-- Whatever the warning level, the error / fatal lines on stderr are exactly the ones the contract
lists: one per emitted error-level or fatal diagnostic, plus the gate's. -/
theorem C16_errors_always (cfg : Cfg) (evs : List Event) :
    (run cfg evs).printed.filter isErrLine = Spec.errorLines cfg.strict cfg.threshold evs := by
  rw [C16_printed, List.filter_append, errLines_filterMap]
  unfold Spec.errorLines gateLine
  congr 1
  split <;> simp [isErrLine]

/-- In particular they are the same lines at every verbosity. -/
theorem C16_errors_same (cfg cfg' : Cfg) (evs : List Event) (h : SameAnalysisOptions cfg cfg') :
    (run cfg evs).printed.filter isErrLine = (run cfg' evs).printed.filter isErrLine := by
  rw [C16_errors_always, C16_errors_always, h.1, h.2]

/-! ### -H / -T act only through the renderer -/

theorem C16_render_only (cfg : Cfg) (h t : Bool) (evs : List Event) :
    run { cfg with collapseHome := h, truncateDeep := t } evs = run cfg evs := by
  have key : ∀ (s : State) (e : Event),
      emit { cfg with collapseHome := h, truncateDeep := t } s e = emit cfg s e := by
    intro s e; rfl
  have loop : ∀ (es : List Event) (s : State),
      runEvents { cfg with collapseHome := h, truncateDeep := t } s es = runEvents cfg s es := by
    intro es
    induction es with
    | nil => intro s; rfl
    | cons e es ih => intro s; simp only [runEvents, key, ih]
  unfold run
  simp only [loop]
  rfl

/-- With both switches off the renderer only makes the path project-relative. -/
theorem render_plain (root home p : Diag.Path) :
    render false false root home p = (match relativeTo p root with | some r => r | none => p) := by
  rfl

/-! ### The full statement -/

def C16_full : Prop :=
  (∀ x ∈ Generated.C16.verbosityReaders, x ∈ allowedReaders)
  ∧ (∀ (cfg cfg' : Cfg) (evs : List Event), SameAnalysisOptions cfg cfg' →
      (run cfg evs).state = (run cfg' evs).state ∧ (run cfg evs).exit = (run cfg' evs).exit
      ∧ (run cfg evs).output = (run cfg' evs).output
      ∧ (run cfg evs).printed.filter isErrLine = (run cfg' evs).printed.filter isErrLine)
  ∧ (∀ (cfg : Cfg) (w₁ w₂ : WarnLevel) (h₁ t₁ h₂ t₂ : Bool) (evs : List Event),
      w₁.rank ≤ w₂.rank →
      (run (withVerbosity cfg w₁ h₁ t₁) evs).printed.Sublist
        (run (withVerbosity cfg w₂ h₂ t₂) evs).printed)

theorem C16_full_holds : C16_full :=
  ⟨C16_readers,
   fun cfg cfg' evs h =>
     let ⟨a, b, c⟩ := C16_state_indep cfg cfg' evs h
     ⟨a, b, c, C16_errors_same cfg cfg' evs h⟩,
   C16_subsequence⟩

/-! ### Non-vacuity (tests by evaluation, labelled as such) -/

private def evs1 : List Event :=
  [⟨.warning, 1, .import_⟩, ⟨.info, 0, .import_⟩, ⟨.info, 0, .target⟩, ⟨.warning, 1, .target⟩,
   ⟨.error, 5, .target⟩, ⟨.info, 0, .none⟩, ⟨.error, 5, .none⟩]

private def cfgw (w : WarnLevel) : Cfg := ⟨false, 0, w, false, false⟩

example : (run (cfgw .none) evs1).printed = [⟨.error, .target⟩, ⟨.error, .none⟩] := by decide
example : (run (cfgw .local_) evs1).printed =
    [⟨.warning, .target⟩, ⟨.error, .target⟩, ⟨.error, .none⟩] := by decide
example : (run (cfgw .default) evs1).printed =
    [⟨.warning, .import_⟩, ⟨.warning, .target⟩, ⟨.error, .target⟩, ⟨.error, .none⟩] := by decide
example : (run (cfgw .all) evs1).printed.length = 7 := by decide
example : (run (cfgw .none) evs1).state = ⟨6, 1, 5⟩ ∧ (run (cfgw .all) evs1).state = ⟨6, 1, 5⟩ := by decide
/-- the gate's fatal is printed at `-w none` too. -/
example : (run ⟨false, 3, .none, true, true⟩ evs1).printed =
    [⟨.error, .target⟩, ⟨.error, .none⟩, ⟨.fatal, .none⟩] := by decide
/-- rendering: project-relative; home collapse; truncation keeps the first and the last three parts. -/
example : (render true true ⟨true, ["h", "u", "proj"]⟩ ⟨true, ["h", "u"]⟩
    ⟨true, ["h", "u", "src", "a", "b", "c", "d", "t.py"]⟩).posix = "~/.../c/d/t.py" := by decide
example : (render false true ⟨true, ["h", "u", "proj"]⟩ ⟨true, ["h", "u"]⟩
    ⟨true, ["h", "u", "src", "a", "b", "c", "d", "t.py"]⟩).posix = "/.../c/d/t.py" := by decide
example : (render true true ⟨true, ["h", "u", "proj"]⟩ ⟨true, ["h", "u"]⟩
    ⟨true, ["h", "u", "proj", "pkg", "m.py"]⟩).posix = "pkg/m.py" := by decide

end Rattr.C16

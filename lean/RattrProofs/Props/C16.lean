/-
  C16 — diagnostic verbosity and path formatting never change the analysis.

  Model: `Diag.run` / `Diag.shown` / `Diag.render` (RattrModel/Diag.lean).

  Two halves:
  (1) static non-interference (Tie A, re-extracted on every run): the only code locations in
      `rattr/` that mention a verbosity / path-format option or a path renderer are the logging
      functions of the error module, the option/property definitions themselves and the CLI
      argument definitions (`C16_readers`). Hence the event list handed to `Diag.run` cannot depend
      on `-w -H -T`.
  (2) for ALL event lists and configurations (induction on the event list):
      * `C16_state_indep`   buckets, exit status and "output printed" do not depend on -w -H -T;
      * `C16_printed`       the printed lines are exactly the emitted diagnostics that pass the
                            filter, in order (so the filter only deletes lines);
      * `C16_subsequence`   printed at w₁ is a `List.Sublist` of printed at w₂ whenever w₁ ≤ w₂;
      * `C16_errors_always` error / fatal lines are printed at every level (and are the ones the
                            contract lists, `Spec.errorLines`);
      * `C16_render_only`   -H and -T do not enter `run` at all: they act only through `render`, which
                            is applied to the path field of a printed line.
  `C16_full` is the conjunction; it is a theorem (`C16_full_holds`).
-/
import RattrModel.Diag
import RattrModel.Spec.ExitCode
import RattrModel.Generated.C16
import RattrModel.DiagSites
import RattrModel.MainRun
import RattrModel.MainCache
import RattrModel.Generated.C15
import RattrProofs.Props.C15

namespace Rattr.C16
open Rattr Rattr.Diag

/-! ### Tie A -/

/-- The model's warning-level table is the one `Arguments.show_warnings` computes now, and the
`-w` choices are the four levels in increasing order. -/
theorem C16_tieA_showWarnings :
    Generated.C16.showWarnings = Diag.showWarningsTable
    ∧ Generated.C16.warnChoices = WarnLevel.every.map WarnLevel.name
    ∧ Generated.C16.showFlags = Flag.every.map Flag.name := by
  decide

/-- `Arguments.format_path` is the pair of the two booleans (no hidden coupling). -/
theorem C16_tieA_formatPath :
    Generated.C16.formatPath =
      [(false, false, []), (false, true, ["truncate_deep_paths"]), (true, false, ["collapse_home"]),
       (true, true, ["collapse_home", "truncate_deep_paths"])] := by
  decide

/-- Code locations allowed to observe the verbosity / path-format options (the table lives in the
model, `DiagSites.allowedReaders`, so that the harness reads the same one). -/
def allowedReaders : List (String × String) := DiagSites.allowedReaders

/-- Static non-interference: nothing outside the filter, the renderer and the option definitions
mentions a verbosity / path-format option. -/
theorem C16_readers : ∀ x ∈ Generated.C16.verbosityReaders, x ∈ allowedReaders := by
  decide

/-! ### Tie A: the diagnostic call sites -/

open DiagSites in
/-- Every call of a level function in today's source has a class in the model's table: a new
diagnostic call site breaks this until somebody says in which phase it fires (and the harness'
corpus is extended to reach it). -/
theorem C16_sites_classified : ∀ s ∈ Generated.C16.diagSites, (classOf s).isSome = true := by
  have h : (Generated.C16.diagSites.all fun s => (classOf s).isSome) = true := by
    set_option maxRecDepth 8192 in decide
  simpa [List.all_eq_true] using h

open DiagSites in
/-- … and the table has no stale rows: every classified function and every overridden site still
contains / is a diagnostic call site. -/
theorem C16_sites_no_stale :
    (∀ r ∈ fnClass, ∃ s ∈ Generated.C16.diagSites, s.1 = r.1 ∧ s.2.1 = r.2.1)
    ∧ (∀ o ∈ siteOverride, o.1 ∈ Generated.C16.diagSites) := by
  have h1 : (fnClass.all fun r => Generated.C16.diagSites.any fun s => s.1 = r.1 ∧ s.2.1 = r.2.1) = true := by
    set_option maxRecDepth 8192 in decide
  have h2 : (siteOverride.all fun o => Generated.C16.diagSites.contains o.1) = true := by
    set_option maxRecDepth 8192 in decide
  constructor
  · intro r hr
    have := (List.all_eq_true.mp h1) r hr
    obtain ⟨s, hs, h⟩ := List.any_eq_true.mp this
    exact ⟨s, hs, by simpa using h⟩
  · intro o ho
    have := (List.all_eq_true.mp h2) o ho
    simpa using this

open DiagSites in
/-- A site that fires during result generation or at the gate can only be `Where.none`; a site that
fires during analysis is never `Where.none`; dead sites have no place at all. -/
theorem C16_site_places (c : SiteClass) :
    (c = .simplification ∨ c = .gate → c.wheres = [.none])
    ∧ (c = .analysis → Where.none ∉ c.wheres)
    ∧ (c = .dead → c.wheres = []) := by
  cases c <;> decide

/-- A diagnostic from a program-reachable site class is filtered by `-w` according to its level and
place only: whatever the site, an error / fatal passes at every level, and an info / warning shown
at a lower level is shown at every higher one. (Stated over the class' possible places.) -/
theorem C16_site_filter (c : DiagSites.SiteClass) (l : Where) (_ : l ∈ c.wheres) (w₁ w₂ : WarnLevel)
    (lv : Diag.Level) (hw : w₁.rank ≤ w₂.rank) :
    (shown w₁ l .error = true ∧ shown w₁ l .fatal = true)
    ∧ (shown w₁ l lv = true → shown w₂ l lv = true) := by
  refine ⟨⟨rfl, rfl⟩, ?_⟩
  cases w₁ <;> cases w₂ <;> cases l <;> cases lv <;> revert hw <;> decide

/-! ### Changing only the verbosity options -/

def withVerbosity (cfg : Cfg) (w : WarnLevel) (h t : Bool) : Cfg :=
  { cfg with warnLevel := w, collapseHome := h, truncateDeep := t }

/-- `cfg` and `cfg'` agree on everything but -w, -H, -T. -/
def SameAnalysisOptions (cfg cfg' : Cfg) : Prop :=
  cfg.strict = cfg'.strict ∧ cfg.threshold = cfg'.threshold

theorem C16_state_indep (cfg cfg' : Cfg) (evs : List Event) (h : SameAnalysisOptions cfg cfg') :
    (run cfg evs).state = (run cfg' evs).state
    ∧ (run cfg evs).exit = (run cfg' evs).exit
    ∧ (run cfg evs).output = (run cfg' evs).output := by
  obtain ⟨h1, h2⟩ := h
  refine ⟨?_, ?_, ?_⟩
  · rw [C15.C15_buckets, C15.C15_buckets, h1]
  · rw [C15.C15_exit, C15.C15_exit, h1, h2]
  · rw [C15.C15_output, C15.C15_output, h1, h2]

/-! ### What is printed -/

/-- The line an emitted diagnostic leaves on stderr, if it passes the filter. -/
def lineOf (cfg : Cfg) (e : Event) : Option Line :=
  if shown cfg.warnLevel e.loc e.level then
    some ⟨if Spec.exits cfg.strict e then .fatal else e.level, e.loc⟩
  else none

theorem emit_printed (cfg : Cfg) (s : State) (e : Event) :
    (emit cfg s e).printed = (lineOf cfg e).toList := by
  cases e with
  | mk lv b l =>
    cases lv <;> simp only [emit, Diag.info, Diag.warning, Diag.error, Diag.fatal, lineOf, shown,
      doNotShow, Spec.exits, Spec.isFatal, Spec.isWeightedError] <;> (repeat' split) <;> simp_all

theorem runEvents_printed (cfg : Cfg) (s : State) (evs : List Event) :
    (runEvents cfg s evs).printed = (Spec.processed cfg.strict evs).filterMap (lineOf cfg) := by
  induction evs generalizing s with
  | nil => simp [runEvents, Spec.processed]
  | cons e es ih =>
    simp only [runEvents, Spec.processed]
    by_cases h : (emit cfg s e).exited = true
    · simp only [h, if_true]
      have h' := h
      rw [C15.emit_exited] at h'
      simp only [h', if_true, emit_printed]
      cases hl : lineOf cfg e <;> simp [hl]
    · simp only [h]
      have h' := h
      rw [C15.emit_exited] at h'
      simp only [Bool.not_eq_true] at h'
      simp only [h', Bool.false_eq_true, if_false, ih, emit_printed]
      cases hl : lineOf cfg e <;> simp [hl]

/-- The gate's own line. -/
def gateLine (cfg : Cfg) (evs : List Event) : List Line :=
  if Spec.gateFails cfg.strict cfg.threshold evs then [⟨.fatal, .none⟩] else []

/-- The printed lines are exactly the emitted diagnostics that pass the filter, in emission order,
followed by the gate's fatal when the threshold test fails. -/
theorem C16_printed (cfg : Cfg) (evs : List Event) :
    (run cfg evs).printed =
      (Spec.processed cfg.strict evs).filterMap (lineOf cfg) ++ gateLine cfg evs := by
  have hp := runEvents_printed cfg State.init evs
  have hx := C15.runEvents_exited cfg State.init evs
  have he := C15.C15_exit cfg evs
  unfold gateLine Spec.gateFails
  rw [← he]
  unfold run at he ⊢
  simp only at he ⊢
  by_cases h : (runEvents cfg State.init evs).exited = true
  · simp only [h, if_true] at he ⊢
    rw [hx] at h
    simp [h, hp]
  · simp only [h] at he ⊢
    rw [hx] at h
    simp only [Bool.not_eq_true] at h
    by_cases hw : withinThreshold cfg (runEvents cfg State.init evs).state = true
    · simp [hw, h, hp]
    · simp [hw, h, hp, Diag.fatal]

/-! ### The four levels form a chain -/

/-- A line shown at a lower level is shown at every higher level (whole finite table). -/
theorem shown_mono : ∀ (w₁ w₂ : WarnLevel) (l : Where) (lv : Diag.Level),
    w₁.rank ≤ w₂.rank → shown w₁ l lv = true → shown w₂ l lv = true := by
  intro w₁ w₂ l lv
  cases w₁ <;> cases w₂ <;> cases l <;> cases lv <;> decide

/-- Errors and fatals pass the filter at every level. -/
theorem shown_error_fatal (w : WarnLevel) (l : Where) :
    shown w l .error = true ∧ shown w l .fatal = true := ⟨rfl, rfl⟩

theorem filterMap_sublist {α β : Type} (f g : α → Option β) (l : List α)
    (h : ∀ a b, f a = some b → g a = some b) :
    (l.filterMap f).Sublist (l.filterMap g) := by
  induction l with
  | nil => simp
  | cons a r ih =>
    cases hf : f a with
    | none =>
      simp only [List.filterMap_cons, hf]
      cases hg : g a with
      | none => simpa using ih
      | some y => simpa using List.Sublist.cons y ih
    | some x =>
      have hg := h a x hf
      simp only [List.filterMap_cons, hf, hg]
      exact List.Sublist.cons_cons x ih

/-- Lower verbosity prints a subsequence of what higher verbosity prints (same run otherwise). -/
theorem C16_subsequence (cfg : Cfg) (w₁ w₂ : WarnLevel) (h₁ t₁ h₂ t₂ : Bool) (evs : List Event)
    (hw : w₁.rank ≤ w₂.rank) :
    (run (withVerbosity cfg w₁ h₁ t₁) evs).printed.Sublist
      (run (withVerbosity cfg w₂ h₂ t₂) evs).printed := by
  rw [C16_printed, C16_printed]
  apply List.Sublist.append
  · apply filterMap_sublist
    intro e b hb
    simp only [lineOf, withVerbosity] at hb ⊢
    by_cases hs : shown w₁ e.loc e.level = true
    · simp only [hs, if_true] at hb
      simp only [shown_mono w₁ w₂ e.loc e.level hw hs, if_true]
      exact hb
    · simp [hs] at hb
  · simp only [gateLine, withVerbosity]
    exact List.Sublist.refl _

/-! ### Errors and fatals are always printed -/

def isErrLine (l : Line) : Bool := l.level = .error || l.level = .fatal

theorem filterMap_cons_toList {α β : Type} (f : α → Option β) (a : α) (l : List α) :
    (a :: l).filterMap f = (f a).toList ++ l.filterMap f := by
  cases h : f a <;> simp [h]

theorem errLine_one (cfg : Cfg) (e : Event) :
    (lineOf cfg e).toList.filter isErrLine = (Spec.errorLine cfg.strict e).toList := by
  cases e with
  | mk lv b l =>
    cases lv <;>
      simp [lineOf, shown, Spec.errorLine, Spec.exits, Spec.isFatal, Spec.isWeightedError, isErrLine]
    cases cfg.strict <;> simp; omega

theorem errLines_filterMap (cfg : Cfg) (evs : List Event) :
    (evs.filterMap (lineOf cfg)).filter isErrLine = evs.filterMap (Spec.errorLine cfg.strict) := by
  induction evs with
  | nil => rfl
  | cons e es ih =>
    rw [filterMap_cons_toList, filterMap_cons_toList, List.filter_append, ih, errLine_one]

/-- Whatever the warning level, the error / fatal lines on stderr are exactly the ones the contract
lists: one per emitted error-level or fatal diagnostic, plus the gate's. -/
theorem C16_errors_always (cfg : Cfg) (evs : List Event) :
    (run cfg evs).printed.filter isErrLine = Spec.errorLines cfg.strict cfg.threshold evs := by
  rw [C16_printed, List.filter_append, errLines_filterMap]
  unfold Spec.errorLines gateLine
  congr 1
  split <;> simp [isErrLine]

/-- In particular they are the same lines at every verbosity. -/
theorem C16_errors_same (cfg cfg' : Cfg) (evs : List Event) (h : SameAnalysisOptions cfg cfg') :
    (run cfg evs).printed.filter isErrLine = (run cfg' evs).printed.filter isErrLine := by
  rw [C16_errors_always, C16_errors_always, h.1, h.2]

/-! ### -H / -T act only through the renderer -/

theorem C16_render_only (cfg : Cfg) (h t : Bool) (evs : List Event) :
    run { cfg with collapseHome := h, truncateDeep := t } evs = run cfg evs := by
  have key : ∀ (s : State) (e : Event),
      emit { cfg with collapseHome := h, truncateDeep := t } s e = emit cfg s e := by
    intro s e; rfl
  have loop : ∀ (es : List Event) (s : State),
      runEvents { cfg with collapseHome := h, truncateDeep := t } s es = runEvents cfg s es := by
    intro es
    induction es with
    | nil => intro s; rfl
    | cons e es ih => intro s; simp only [runEvents, key, ih]
  unfold run
  simp only [loop]
  rfl

/-- With both switches off the renderer only makes the path project-relative. -/
theorem render_plain (root home p : Diag.Path) :
    render false false root home p = (match relativeTo p root with | some r => r | none => p) := by
  rfl

/-- The truncation step of `get_formatted_path`, on its own. -/
def truncate (p : Diag.Path) : Diag.Path :=
  if p.parts.length > 5 then
    match p.parts with
    | [] => p
    | first :: _ =>
      if first = "/" then ⟨true, "..." :: lastN 3 p.parts⟩
      else ⟨false, first :: "..." :: lastN 3 p.parts⟩
  else p

/-- `-T` acts after everything else: it truncates what would have been rendered without it. -/
theorem render_T_eq (h : Bool) (root home p : Diag.Path) :
    render h true root home p = truncate (render h false root home p) := by
  unfold render
  simp only [Bool.false_and, Bool.true_and, decide_eq_true_eq, Bool.false_eq_true, if_false]
  cases h <;> cases relativeTo p root <;> simp only [Bool.false_eq_true, if_false, if_true]
  all_goals first
    | rfl
    | (split <;> rfl)

/-- `-T` is the identity on a rendered path of at most five parts: truncation can only matter for a
file six or more components below the point it is rendered from (the generator's deep layouts). -/
theorem render_T_shallow (h : Bool) (root home p : Diag.Path)
    (hs : (render h false root home p).parts.length ≤ 5) :
    render h true root home p = render h false root home p := by
  rw [render_T_eq]
  unfold truncate
  simp [Nat.not_lt.mpr hs]

/-- … and on a longer one it always changes it: the rendered path contains the component `...`
(a rendered path is not a path: nothing that needs the file may be given it). -/
theorem render_T_deep (h : Bool) (root home p : Diag.Path)
    (hd : (render h false root home p).parts.length > 5) :
    "..." ∈ (render h true root home p).comps := by
  rw [render_T_eq]
  unfold truncate
  simp only [hd, if_true]
  split
  · rename_i heq
    rw [heq] at hd
    simp at hd
  · split <;> simp

/-! ### The whole `main` on a single file (`MainRun` = `Pipeline` ∘ `Diag`)

`MainRun.mainOf cfg st` is what `python -m rattr <cfg> -f 0 file.py` prints and returns, for the
staged pipeline result `st` of ANY module (`MainRun.stagedWith`). -/

/-- Tie A: the weights `MainRun` gives the pipeline's diagnostics are today's defaults of the level
functions, and no call site of the single-file pipeline overrides them. -/
theorem C16_tieA_weights :
    Generated.C15.diagDefaults = MainRun.weightTable
    ∧ ∀ o ∈ Generated.C15.diagOverrides, o.2.1 = "parse_and_analyse_imports" := by
  decide

/-- `MainRun.stagedWith` is `Pipeline.runWith` with the phases kept apart (1): results. -/
theorem C16_staged_ok (ord : List CallSym → List CallSym) (env : FnA.Env) (mn : Str) (f : Facts)
    (b : List Str) (body : List Top) (imp : Pipeline.ImpFacts) (doc : Pipeline.ResultsDoc) (ds : List Rattr.Diag)
    (h : Pipeline.runWith ord env mn f b body imp = .ok (doc, ds)) :
    ∃ st, MainRun.stagedWith ord env mn f b body imp = .ok st ∧ st.doc = some doc
      ∧ st.analysis ++ st.simpl = ds := by
  unfold Pipeline.runWith at h
  unfold MainRun.stagedWith
  cases hc : RootCtx.compile f b body with
  | fatal r d => simp [hc] at h
  | crash r e => simp [hc] at h
  | ok r =>
    simp only [hc] at h ⊢
    by_cases hst : Pipeline.hasStarred r.ctx = true
    · simp [hst] at h
    · simp only [hst] at h ⊢
      cases ha : FileA.analyseWith env mn f r.ctx body with
      | fatal s d => simp [ha] at h
      | crash s e => simp [ha] at h
      | ok s =>
        simp only [ha] at h ⊢
        cases hr : Pipeline.results ord f imp s.ir with
        | fatal ds' d => simp [hr] at h
        | crash e => simp [hr] at h
        | ok p =>
          obtain ⟨doc', ds'⟩ := p
          simp only [hr] at h ⊢
          injection h with h
          injection h with h1 h2
          exact ⟨_, rfl, by simp [h1], by simp [← h2, List.append_assoc]⟩

/-- (2): an uncaught exception is an uncaught exception. -/
theorem C16_staged_crash (ord : List CallSym → List CallSym) (env : FnA.Env) (mn : Str) (f : Facts)
    (b : List Str) (body : List Top) (imp : Pipeline.ImpFacts) (e : Str)
    (h : Pipeline.runWith ord env mn f b body imp = .crash e) :
    MainRun.stagedWith ord env mn f b body imp = .error e := by
  unfold Pipeline.runWith at h
  unfold MainRun.stagedWith
  cases hc : RootCtx.compile f b body with
  | fatal r d => simp [hc] at h
  | crash r e' => simp [hc] at h; simp [h]
  | ok r =>
    simp only [hc] at h ⊢
    by_cases hst : Pipeline.hasStarred r.ctx = true
    · simp [hst] at h; simp [hst, h]
    · simp only [hst] at h ⊢
      cases ha : FileA.analyseWith env mn f r.ctx body with
      | fatal s d => simp [ha] at h
      | crash s e' => simp [ha] at h; simp [h]
      | ok s =>
        simp only [ha] at h ⊢
        cases hr : Pipeline.results ord f imp s.ir with
        | fatal ds' d => simp [hr] at h
        | crash e' => simp [hr] at h; simp [h]
        | ok p => obtain ⟨doc', ds'⟩ := p; simp [hr] at h

/-- (3): a fatal diagnostic ends the pipeline: no document, the same diagnostics. -/
theorem C16_staged_fatal (ord : List CallSym → List CallSym) (env : FnA.Env) (mn : Str) (f : Facts)
    (b : List Str) (body : List Top) (imp : Pipeline.ImpFacts) (ds : List Rattr.Diag) (d : Rattr.Diag)
    (h : Pipeline.runWith ord env mn f b body imp = .fatal ds d) :
    ∃ st, MainRun.stagedWith ord env mn f b body imp = .ok st ∧ st.doc = none
      ∧ st.analysis ++ st.simpl = ds := by
  unfold Pipeline.runWith at h
  unfold MainRun.stagedWith
  cases hc : RootCtx.compile f b body with
  | fatal r d' => simp [hc] at h; exact ⟨_, rfl, rfl, by simp [h.1]⟩
  | crash r e => simp [hc] at h
  | ok r =>
    simp only [hc] at h ⊢
    by_cases hst : Pipeline.hasStarred r.ctx = true
    · simp [hst] at h
    · simp only [hst] at h ⊢
      cases ha : FileA.analyseWith env mn f r.ctx body with
      | fatal s d' => simp [ha] at h; exact ⟨_, rfl, rfl, by simp [h.1]⟩
      | crash s e => simp [ha] at h
      | ok s =>
        simp only [ha] at h ⊢
        cases hr : Pipeline.results ord f imp s.ir with
        | fatal ds' d' => simp [hr] at h; exact ⟨_, rfl, rfl, by simp [h.1, List.append_assoc]⟩
        | crash e => simp [hr] at h
        | ok p => obtain ⟨doc', ds'⟩ := p; simp [hr] at h

/-- The diagnostics machinery of `main` is `Diag.run` on the staged events. -/
theorem main_diag (cfg : Cfg) (st : MainRun.Staged) :
    (MainRun.mainOf cfg st).diag = run cfg (MainRun.events st) := rfl

/-- C16 for the whole `main`: what is on stdout (the results document, or nothing), the badness
buckets and the exit status do not depend on -w / -H / -T — for every module and every strict /
threshold setting. -/
theorem C16_main_indep (cfg cfg' : Cfg) (st : MainRun.Staged) (h : SameAnalysisOptions cfg cfg') :
    (MainRun.mainOf cfg st).stdout = (MainRun.mainOf cfg' st).stdout
    ∧ (MainRun.mainOf cfg st).diag.state = (MainRun.mainOf cfg' st).diag.state
    ∧ (MainRun.mainOf cfg st).diag.exit = (MainRun.mainOf cfg' st).diag.exit := by
  obtain ⟨a, b, c⟩ := C16_state_indep cfg cfg' (MainRun.events st) h
  refine ⟨?_, a, b⟩
  simp only [MainRun.mainOf, c]

/-- … stated on the source: any module, any facts, any order of hash ties. -/
theorem C16_main_whole (cfg cfg' : Cfg) (h : SameAnalysisOptions cfg cfg')
    (ord : List CallSym → List CallSym) (env : FnA.Env) (mn : Str) (f : Facts) (b : List Str) (body : List Top)
    (imp : Pipeline.ImpFacts) :
    (MainRun.mainWith cfg ord env mn f b body imp).map (fun r => (r.stdout, r.diag.state, r.diag.exit))
      = (MainRun.mainWith cfg' ord env mn f b body imp).map (fun r => (r.stdout, r.diag.state, r.diag.exit)) := by
  unfold MainRun.mainWith
  cases MainRun.stagedWith ord env mn f b body imp with
  | error e => rfl
  | ok st =>
    obtain ⟨h1, h2, h3⟩ := C16_main_indep cfg cfg' st h
    simp only [Except.map, h1, h2, h3]

/-- Lower verbosity prints a subsequence of what higher verbosity prints, for the whole `main`. -/
theorem C16_main_subsequence (cfg : Cfg) (w₁ w₂ : WarnLevel) (h₁ t₁ h₂ t₂ : Bool) (st : MainRun.Staged)
    (hw : w₁.rank ≤ w₂.rank) :
    (MainRun.mainOf (withVerbosity cfg w₁ h₁ t₁) st).diag.printed.Sublist
      (MainRun.mainOf (withVerbosity cfg w₂ h₂ t₂) st).diag.printed :=
  C16_subsequence cfg w₁ w₂ h₁ t₁ h₂ t₂ (MainRun.events st) hw

/-- The error / fatal lines of the whole `main` are the contract's, at every verbosity. -/
theorem C16_main_errors (cfg : Cfg) (st : MainRun.Staged) :
    (MainRun.mainOf cfg st).diag.printed.filter isErrLine
      = Spec.errorLines cfg.strict cfg.threshold (MainRun.events st) :=
  C16_errors_always cfg (MainRun.events st)

/-- Without `--strict` / `--threshold`, and if the pipeline raised no fatal, `main` prints exactly the
pipeline's document and exits 0 — whatever -w / -H / -T are (link to the C03 pipeline theorems). -/
theorem C16_main_permissive (cfg : Cfg) (st : MainRun.Staged) (hs : cfg.strict = false)
    (ht : cfg.threshold = 0) (hf : (MainRun.events st).any Spec.isFatal = false) :
    (MainRun.mainOf cfg st).stdout = st.doc ∧ (MainRun.mainOf cfg st).diag.exit = 0 := by
  have he : (run cfg (MainRun.events st)).exit = 0 := by
    rw [C15.C15_exit, hs, ht]
    simp [Spec.exit, hf]
  have ho : (run cfg (MainRun.events st)).output = true := by
    rw [C15.C15_output, Spec.outputPrinted, ← C15.C15_exit, he]
    simp
  exact ⟨by simp [MainRun.mainOf, ho], he⟩

/-- Under `--strict` nothing is printed on stdout as soon as the module has a weighted error or any
badness in the target / simplification buckets — again whatever the verbosity. -/
theorem C16_main_strict_silent (cfg : Cfg) (st : MainRun.Staged) (hs : cfg.strict = true)
    (hb : Spec.countedBadness (MainRun.events st) ≠ 0) :
    (MainRun.mainOf cfg st).stdout = none ∧ (MainRun.mainOf cfg st).diag.exit = 1 := by
  have he : (run cfg (MainRun.events st)).exit = 1 := by
    rw [C15.C15_exit, hs]
    simp [Spec.exit, hb]
  have ho : (run cfg (MainRun.events st)).output = false := by
    rw [C15.C15_output, Spec.outputPrinted, ← C15.C15_exit, he]
    simp
  exact ⟨by simp [MainRun.mainOf, ho], he⟩

/-! ### Every output mode and every spelling of the target (`MainRun.mainOut`)

`MainRun.mainOut mode target cfg st` is what `python -m rattr <cfg> -o <mode> -f 0 <target>` prints and
returns; `target` is the argument as it was spelled. -/

/-- The diagnostics machinery is the same whatever is printed and however the target is spelled. -/
theorem C16_out_diag (mode : MainRun.OutMode) (target : Str) (cfg : Cfg) (st : MainRun.Staged) :
    (MainRun.mainOut mode target cfg st).diag = run cfg (MainRun.events st) := rfl

/-- `-o results` of `mainOut` is `mainOf` (the model the earlier theorems are about). -/
theorem C16_out_results (target : Str) (cfg : Cfg) (st : MainRun.Staged) :
    (MainRun.mainOut .results target cfg st).stdout = (MainRun.mainOf cfg st).stdout.map MainRun.Printed.results
    ∧ (MainRun.mainOut .results target cfg st).diag = (MainRun.mainOf cfg st).diag := by
  refine ⟨?_, rfl⟩
  simp only [MainRun.mainOut, MainRun.mainOf, MainRun.printedOf]
  split <;> simp

/-- C16 for every output mode: the document on stdout (or its absence), the buckets and the exit status
do not depend on -w / -H / -T — for every mode, every spelling of the target, every module. -/
theorem C16_out_indep (mode : MainRun.OutMode) (target : Str) (cfg cfg' : Cfg) (st : MainRun.Staged)
    (h : SameAnalysisOptions cfg cfg') :
    (MainRun.mainOut mode target cfg st).stdout = (MainRun.mainOut mode target cfg' st).stdout
    ∧ (MainRun.mainOut mode target cfg st).diag.state = (MainRun.mainOut mode target cfg' st).diag.state
    ∧ (MainRun.mainOut mode target cfg st).diag.exit = (MainRun.mainOut mode target cfg' st).diag.exit := by
  obtain ⟨a, b, c⟩ := C16_state_indep cfg cfg' (MainRun.events st) h
  refine ⟨?_, a, b⟩
  simp only [MainRun.mainOut, c, a, h.2]

/-- … stated on the source. -/
theorem C16_out_whole (mode : MainRun.OutMode) (target : Str) (cfg cfg' : Cfg) (h : SameAnalysisOptions cfg cfg')
    (ord : List CallSym → List CallSym) (env : FnA.Env) (mn : Str) (f : Facts) (b : List Str) (body : List Top)
    (imp : Pipeline.ImpFacts) :
    (MainRun.mainOutWith mode target cfg ord env mn f b body imp).map (fun r => (r.stdout, r.diag.state, r.diag.exit))
      = (MainRun.mainOutWith mode target cfg' ord env mn f b body imp).map (fun r => (r.stdout, r.diag.state, r.diag.exit)) := by
  unfold MainRun.mainOutWith
  cases MainRun.stagedWith ord env mn f b body imp with
  | error e => rfl
  | ok st =>
    obtain ⟨h1, h2, h3⟩ := C16_out_indep mode target cfg cfg' st h
    simp only [Except.map, h1, h2, h3]

/-- What is printed is a document of the selected mode; `-o silent` prints nothing. -/
theorem C16_out_mode (mode : MainRun.OutMode) (target : Str) (cfg : Cfg) (st : MainRun.Staged) (p : MainRun.Printed)
    (h : (MainRun.mainOut mode target cfg st).stdout = some p) : p.mode = mode ∧ mode ≠ .silent := by
  simp only [MainRun.mainOut] at h
  split at h
  · cases mode <;> simp only [MainRun.printedOf] at h
    · injection h with h; subst h; exact ⟨rfl, by decide⟩
    · cases hd : st.doc <;> simp [hd] at h; subst h; exact ⟨rfl, by decide⟩
    · cases hd : st.doc <;> simp [hd] at h; subst h; exact ⟨rfl, by decide⟩
    · cases hd : st.doc <;> simp [hd] at h; subst h; exact ⟨rfl, by decide⟩
    · cases h
  · cases h

/-- **Every field of every printed document that names the target file is the target as given** — the
command-line spelling, untouched by `-H` / `-T` (and by the project root, the home directory, the
working directory: none of them is an input of `mainOut`). -/
theorem C16_out_paths (mode : MainRun.OutMode) (target : Str) (cfg : Cfg) (st : MainRun.Staged) (p : MainRun.Printed)
    (h : (MainRun.mainOut mode target cfg st).stdout = some p) : ∀ x ∈ p.paths, x = target := by
  simp only [MainRun.mainOut] at h
  split at h
  · cases mode <;> simp only [MainRun.printedOf] at h
    · injection h with h; subst h; simp [MainRun.Printed.paths]
    · cases hd : st.doc <;> simp [hd] at h
      subst h
      intro x hx
      simp only [MainRun.Printed.paths, List.mem_cons, List.mem_map] at hx
      rcases hx with rfl | rfl | ⟨e, he, rfl⟩
      · rfl
      · rfl
      · obtain ⟨k, _, rfl⟩ := he
        rfl
    · cases hd : st.doc <;> simp [hd] at h
      subst h; simp [MainRun.Printed.paths]
    · cases hd : st.doc <;> simp [hd] at h
      subst h; simp [MainRun.Printed.paths]
    · cases h
  · cases h

/-- The `-o ir` document: `"filename"`, the context's file and every symbol's file are the target as
given, `"import_irs"` is empty (follow-imports 0), the symbols are the `FileIr` keys. -/
theorem C16_out_filename (target : Str) (cfg : Cfg) (st : MainRun.Staged) (d : MainRun.IrDoc)
    (h : (MainRun.mainOut .ir target cfg st).stdout = some (.ir d)) :
    d.filename = target ∧ d.contextFile = target ∧ (∀ e ∈ d.symbols, e.2 = target)
    ∧ d.symbols.map (·.1) = st.keys ∧ d.importIrs = [] := by
  simp only [MainRun.mainOut, MainRun.printedOf] at h
  split at h
  · cases hd : st.doc <;> simp [hd] at h
    subst h
    refine ⟨rfl, rfl, ?_, ?_, rfl⟩
    · intro e he
      simp only [List.mem_map] at he
      obtain ⟨k, _, rfl⟩ := he
      rfl
    · simp [List.map_map, Function.comp_def]
  · cases h

/-- The `-o cacheable` document: `"filepath"` is the target as given and `"results"` is the results
document. -/
theorem C16_out_filepath (target : Str) (cfg : Cfg) (st : MainRun.Staged) (d : MainRun.CacheDoc)
    (h : (MainRun.mainOut .cacheable target cfg st).stdout = some (.cacheable d)) :
    d.filepath = target ∧ st.doc = some d.results := by
  simp only [MainRun.mainOut, MainRun.printedOf] at h
  split at h
  · cases hd : st.doc <;> simp [hd] at h
    subst h
    exact ⟨rfl, rfl⟩
  · cases h

/-- Two runs that both print an IR document print the same `"filename"`, whatever ALL their options
are (not only -w / -H / -T: strict and the threshold decide whether a document is printed, never what
its path fields say). -/
theorem C16_out_filename_any_cfg (target : Str) (cfg cfg' : Cfg) (st : MainRun.Staged) (d d' : MainRun.IrDoc)
    (h : (MainRun.mainOut .ir target cfg st).stdout = some (.ir d))
    (h' : (MainRun.mainOut .ir target cfg' st).stdout = some (.ir d')) : d = d' := by
  simp only [MainRun.mainOut, MainRun.printedOf] at h h'
  split at h <;> split at h'
  · cases hd : st.doc <;> simp [hd] at h h'
    rw [← h, ← h']
  all_goals simp at h h'

/-! ### Where a path formatter WOULD be visible (`Diag.render` = `Config.get_formatted_path`)

The document fields above are the target as given. Had one of them been passed through
`get_formatted_path` (the diagnostics' renderer), the four -H / -T settings would print different
documents exactly on the spellings below — and on no others: this is the input class the harness
must generate (a short relative target renders the same under all four settings and shows nothing). -/

/-- the formatter is invisible on a path outside the project root and outside the home directory
with at most five parts: all four settings render the path itself. -/
theorem C16_formatted_invisible (h t : Bool) (root home p : Diag.Path)
    (hr : relativeTo p root = none) (hh : relativeTo p home = none) (hs : p.parts.length ≤ 5) :
    render h t root home p = p := by
  unfold render
  simp only [hr, hh]
  cases h <;> cases t <;> simp [Nat.not_lt.mpr hs]

/-- … and on a project-relative path of at most five parts that is not below the home directory as a
relative path (always, for a relative path and an absolute home) all four settings agree. -/
theorem C16_formatted_short_agree (h t : Bool) (root home p r : Diag.Path)
    (hr : relativeTo p root = some r) (hh : relativeTo r home = none) (hs : r.parts.length ≤ 5) :
    render h t root home p = r := by
  unfold render
  simp only [hr, hh]
  cases h <;> cases t <;> simp [Nat.not_lt.mpr hs]

/-- `-T` is visible on every path whose untruncated rendering has more than five parts and no `...`
component of its own (a deep relative target; almost any absolute target). -/
theorem C16_formatted_depends_on_T (h : Bool) (root home p : Diag.Path)
    (hd : (render h false root home p).parts.length > 5)
    (hn : "..." ∉ (render h false root home p).comps) :
    render h true root home p ≠ render h false root home p := by
  intro heq
  have := render_T_deep h root home p hd
  rw [heq] at this
  exact hn this

theorem truncate_abs (x : Diag.Path) (ha : x.abs = true) : (truncate x).abs = true := by
  have hp : x.parts = "/" :: x.comps := by simp [Diag.Path.parts, ha]
  unfold truncate
  rw [hp]
  split
  · simp
  · exact ha

/-- `-H` is visible on every absolute path below the home directory and outside the project root
(whose collapsed form has at most five parts: otherwise `-T` truncates both, see above). -/
theorem C16_formatted_depends_on_H (t : Bool) (root home p r : Diag.Path) (ha : p.abs = true)
    (hr : relativeTo p root = none) (hh : relativeTo p home = some r) (hs : (r.comps.length + 1) ≤ 5) :
    render true t root home p ≠ render false t root home p
    ∧ render true t root home p = ⟨false, "~" :: r.comps⟩ := by
  have hT : render true false root home p = ⟨false, "~" :: r.comps⟩ := by
    unfold render
    simp [hr, hh]
  have hL : render true t root home p = ⟨false, "~" :: r.comps⟩ := by
    cases t
    · exact hT
    · rw [render_T_shallow true root home p (by rw [hT]; simpa [Diag.Path.parts] using hs), hT]
  have hP : render false false root home p = p := by
    rw [render_plain, hr]
  have hR : (render false t root home p).abs = true := by
    cases t
    · rw [hP]; exact ha
    · rw [render_T_eq, hP]; exact truncate_abs p ha
  refine ⟨?_, hL⟩
  intro heq
  rw [hL] at heq
  rw [← heq] at hR
  cases hR

theorem truncate_rel (x : Diag.Path) (ha : x.abs = false) (hc : x.comps.head? ≠ some "/") :
    (truncate x).abs = false := by
  have hp : x.parts = x.comps := by simp [Diag.Path.parts, ha]
  unfold truncate
  rw [hp]
  split
  · cases hx : x.comps with
    | nil => simpa using ha
    | cons first rest =>
      have hne : first ≠ "/" := by
        intro e
        apply hc
        simp [hx, e]
      simp [hne]
  · exact ha

/-- An absolute spelling of a file inside the project root is rendered project-relative even with
both switches off: a formatted field differs from the target as given on this spelling at EVERY
setting (the correspondence check `filename = target as given` sees it, the metamorphic one cannot). -/
theorem C16_formatted_in_root (h t : Bool) (root home p r : Diag.Path)
    (hr : relativeTo p root = some r) (hc : r.comps.head? ≠ some "/") :
    (render h t root home p).abs = false := by
  have hra : r.abs = false := by
    unfold relativeTo at hr
    split at hr
    · cases hs : stripPrefix root.comps p.comps <;> simp [hs] at hr
      rw [← hr]
    · cases hr
  have hf : (render h false root home p).abs = false
      ∧ (render h false root home p).comps.head? ≠ some "/" := by
    unfold render
    simp only [hr]
    cases h
    · simp [hra, hc]
    · cases hh : relativeTo r home with
      | none => simp [hra, hc]
      | some q => simp
  cases t
  · exact hf.1
  · rw [render_T_eq]
    exact truncate_rel _ hf.1 hf.2

/-! ### The full statement -/

def C16_full : Prop :=
  (∀ x ∈ Generated.C16.verbosityReaders, x ∈ allowedReaders)
  ∧ (∀ (cfg cfg' : Cfg) (evs : List Event), SameAnalysisOptions cfg cfg' →
      (run cfg evs).state = (run cfg' evs).state ∧ (run cfg evs).exit = (run cfg' evs).exit
      ∧ (run cfg evs).output = (run cfg' evs).output
      ∧ (run cfg evs).printed.filter isErrLine = (run cfg' evs).printed.filter isErrLine)
  ∧ (∀ (cfg : Cfg) (w₁ w₂ : WarnLevel) (h₁ t₁ h₂ t₂ : Bool) (evs : List Event),
      w₁.rank ≤ w₂.rank →
      (run (withVerbosity cfg w₁ h₁ t₁) evs).printed.Sublist
        (run (withVerbosity cfg w₂ h₂ t₂) evs).printed)

theorem C16_full_holds : C16_full :=
  ⟨C16_readers,
   fun cfg cfg' evs h =>
     let ⟨a, b, c⟩ := C16_state_indep cfg cfg' evs h
     ⟨a, b, c, C16_errors_same cfg cfg' evs h⟩,
   C16_subsequence⟩

/-- The property for the whole `main` of the model (any module, through `MainRun.stagedWith`): the
results document on stdout, the badness buckets, the exit status and the error / fatal lines are the
same at every verbosity and path format; the printed lines of a lower level are a subsequence of
those of a higher one. -/
def C16_full_main : Prop :=
  (∀ (st : MainRun.Staged) (cfg cfg' : Cfg), SameAnalysisOptions cfg cfg' →
      (MainRun.mainOf cfg st).stdout = (MainRun.mainOf cfg' st).stdout
      ∧ (MainRun.mainOf cfg st).diag.state = (MainRun.mainOf cfg' st).diag.state
      ∧ (MainRun.mainOf cfg st).diag.exit = (MainRun.mainOf cfg' st).diag.exit
      ∧ (MainRun.mainOf cfg st).diag.printed.filter isErrLine
          = (MainRun.mainOf cfg' st).diag.printed.filter isErrLine)
  ∧ (∀ (st : MainRun.Staged) (cfg : Cfg) (w₁ w₂ : WarnLevel) (h₁ t₁ h₂ t₂ : Bool), w₁.rank ≤ w₂.rank →
      (MainRun.mainOf (withVerbosity cfg w₁ h₁ t₁) st).diag.printed.Sublist
        (MainRun.mainOf (withVerbosity cfg w₂ h₂ t₂) st).diag.printed)

theorem C16_full_main_holds : C16_full_main :=
  ⟨fun st cfg cfg' h =>
     let ⟨a, b, c⟩ := C16_main_indep cfg cfg' st h
     ⟨a, b, c, C16_errors_same cfg cfg' (MainRun.events st) h⟩,
   fun st cfg w₁ w₂ h₁ t₁ h₂ t₂ hw => C16_main_subsequence cfg w₁ w₂ h₁ t₁ h₂ t₂ st hw⟩

/-- The property for every output mode and every spelling of the target, for the whole `main` of the
model: the printed document, the buckets, the exit status and the error / fatal lines are the same at
every verbosity and path format; lower verbosity prints a subsequence; every path field of the
document is the target as given. -/
def C16_full_out : Prop :=
  (∀ (mode : MainRun.OutMode) (target : Str) (st : MainRun.Staged) (cfg cfg' : Cfg), SameAnalysisOptions cfg cfg' →
      (MainRun.mainOut mode target cfg st).stdout = (MainRun.mainOut mode target cfg' st).stdout
      ∧ (MainRun.mainOut mode target cfg st).diag.state = (MainRun.mainOut mode target cfg' st).diag.state
      ∧ (MainRun.mainOut mode target cfg st).diag.exit = (MainRun.mainOut mode target cfg' st).diag.exit
      ∧ (MainRun.mainOut mode target cfg st).diag.printed.filter isErrLine
          = (MainRun.mainOut mode target cfg' st).diag.printed.filter isErrLine)
  ∧ (∀ (mode : MainRun.OutMode) (target : Str) (st : MainRun.Staged) (cfg : Cfg) (w₁ w₂ : WarnLevel)
      (h₁ t₁ h₂ t₂ : Bool), w₁.rank ≤ w₂.rank →
      (MainRun.mainOut mode target (withVerbosity cfg w₁ h₁ t₁) st).diag.printed.Sublist
        (MainRun.mainOut mode target (withVerbosity cfg w₂ h₂ t₂) st).diag.printed)
  ∧ (∀ (mode : MainRun.OutMode) (target : Str) (st : MainRun.Staged) (cfg : Cfg) (p : MainRun.Printed),
      (MainRun.mainOut mode target cfg st).stdout = some p → ∀ x ∈ p.paths, x = target)

theorem C16_full_out_holds : C16_full_out :=
  ⟨fun mode target st cfg cfg' h =>
     let ⟨a, b, c⟩ := C16_out_indep mode target cfg cfg' st h
     ⟨a, b, c, C16_errors_same cfg cfg' (MainRun.events st) h⟩,
   fun _ _ st cfg w₁ w₂ h₁ t₁ h₂ t₂ hw => C16_subsequence cfg w₁ w₂ h₁ t₁ h₂ t₂ (MainRun.events st) hw,
   fun mode target st cfg p h => C16_out_paths mode target cfg st p h⟩

/-! ### A cache file in play: `-C file`, with and without `-r` (`MainCache`)

`MainCache.mainCache s cfg evs` is `main` when a cache file is named: `s` = (`-r`?, what the gate finds
at the cache path, can the file be written), `evs` = what analysis + simplification would emit. -/

open MainCache in
/-- Tie A: the level-function calls of `main`, `write_cache_file` and the gate are the ones the model
has — one positional argument each (the message): no culprit, no explicit weight. -/
theorem C16_tieA_cache_shape : Generated.C16.cacheGateShape = MainCache.cacheGateShape := by decide

/-- The phases of `main` in which NO file is entered and no AST node / symbol exists to point at. -/
def filelessClass : DiagSites.SiteClass → Bool
  | .cache | .gate | .configuration => true
  | _ => false

/-- Tie A: no diagnostic call of the file-less phases (argument validation, cache gate, threshold gate,
cache write) passes a culprit (re-extracted from the source on every run). A culprit there could only
be an object the renderer cannot locate — see `C16_cex_foreign_culprit`. -/
theorem C16_tieA_fileless_no_culprit :
    ∀ x ∈ Generated.C16.siteCulprits, (DiagSites.classOf x.1).map filelessClass = some true → x.2 = "" := by
  have h : (Generated.C16.siteCulprits.all fun x =>
      !((DiagSites.classOf x.1).map filelessClass == some true) || x.2 == "") = true := by
    set_option maxRecDepth 16384 in decide
  intro x hx hc
  have := (List.all_eq_true.mp h) x hx
  simpa [hc] using this

theorem info_out (cfg : Cfg) (s : State) (l : Where) (b : Nat) :
    (info cfg s l b).state = bump s l b ∧ (info cfg s l b).exited = false
    ∧ (info cfg s l b).printed.filter isErrLine = [] := by
  unfold info
  by_cases h1 : doNotShow cfg = true
  · simp [h1]
  · simp only [h1]
    by_cases h2 : (if l = Where.target then Flag.targetLow else Flag.inheritedLow) ∈ cfg.warnLevel.flags
    · simp [h2, isErrLine]
    · simp [h2]

/-- The one line of the hit branch / of the gate: printed at `-w all` only. -/
theorem info_none_printed (cfg : Cfg) (s : State) (b : Nat) :
    (info cfg s .none b).printed = if cfg.warnLevel = .all then [⟨.info, .none⟩] else [] := by
  unfold info
  cases hw : cfg.warnLevel <;> simp [doNotShow, hw, WarnLevel.flags]

/-- A hit: exit 0, nothing on stdout, nothing booked, nothing written — at every verbosity; its single
line is printed at `-w all` only. -/
theorem C16_cache_hit (w : Bool) (cfg : Cfg) (evs : List Event) :
    (MainCache.mainCache ⟨false, .fresh, w⟩ cfg evs).diag.exit = 0
    ∧ (MainCache.mainCache ⟨false, .fresh, w⟩ cfg evs).diag.output = false
    ∧ (MainCache.mainCache ⟨false, .fresh, w⟩ cfg evs).diag.state = State.init
    ∧ (MainCache.mainCache ⟨false, .fresh, w⟩ cfg evs).cache = .unchanged
    ∧ (MainCache.mainCache ⟨false, .fresh, w⟩ cfg evs).diag.printed
        = if cfg.warnLevel = .all then [⟨.info, .none⟩] else [] := by
  refine ⟨rfl, rfl, ?_, rfl, ?_⟩
  · exact (info_out cfg State.init .none 0).1
  · exact info_none_printed cfg State.init 0

/-- What `finish` (the write, or its failure) adds to the run so far. -/
theorem finish_spec (s : MainCache.Setup) (r : Diag.Result) :
    (MainCache.finish s r).diag.state = r.state
    ∧ (MainCache.finish s r).diag.output = r.output
    ∧ (MainCache.finish s r).diag.exit = (if r.output && !s.writable then 1 else r.exit)
    ∧ (MainCache.finish s r).diag.printed = r.printed ++ (if r.output && !s.writable then [⟨.fatal, .none⟩] else [])
    ∧ (MainCache.finish s r).cache = (if r.output && s.writable then .written else MainCache.untouched s) := by
  unfold MainCache.finish
  cases ho : r.output <;> cases hw : s.writable <;> simp [Diag.fatal, bump, ho]

/-- **C16 with a cache file**: buckets, exit status, "the selected output is on stdout" and what has
happened to the cache file do not depend on -w / -H / -T — whatever is at the cache path, with and
without `-r`, writable or not, for every event list and strict / threshold setting. -/
theorem C16_cache_indep (s : MainCache.Setup) (cfg cfg' : Cfg) (evs : List Event) (h : SameAnalysisOptions cfg cfg') :
    (MainCache.mainCache s cfg evs).diag.state = (MainCache.mainCache s cfg' evs).diag.state
    ∧ (MainCache.mainCache s cfg evs).diag.exit = (MainCache.mainCache s cfg' evs).diag.exit
    ∧ (MainCache.mainCache s cfg evs).diag.output = (MainCache.mainCache s cfg' evs).diag.output
    ∧ (MainCache.mainCache s cfg evs).cache = (MainCache.mainCache s cfg' evs).cache := by
  unfold MainCache.mainCache
  split
  · refine ⟨?_, rfl, rfl, rfl⟩
    simp only [MainCache.hit]
    rw [(info_out cfg State.init .none 0).1, (info_out cfg' State.init .none 0).1]
  · obtain ⟨a, b, c⟩ := C16_state_indep cfg cfg' (MainCache.pre s ++ evs) h
    obtain ⟨f1, f2, f3, _, f5⟩ := finish_spec s (run cfg (MainCache.pre s ++ evs))
    obtain ⟨g1, g2, g3, _, g5⟩ := finish_spec s (run cfg' (MainCache.pre s ++ evs))
    simp only [MainCache.miss]
    rw [f1, f2, f3, f5, g1, g2, g3, g5, a, b, c]
    exact ⟨rfl, rfl, rfl, rfl⟩

/-- … the error / fatal lines are the same at every verbosity (the unwritable cache path's fatal included). -/
theorem C16_cache_errors_same (s : MainCache.Setup) (cfg cfg' : Cfg) (evs : List Event) (h : SameAnalysisOptions cfg cfg') :
    (MainCache.mainCache s cfg evs).diag.printed.filter isErrLine
      = (MainCache.mainCache s cfg' evs).diag.printed.filter isErrLine := by
  unfold MainCache.mainCache
  split
  · simp only [MainCache.hit]
    rw [(info_out cfg State.init .none 0).2.2, (info_out cfg' State.init .none 0).2.2]
  · obtain ⟨_, _, c⟩ := C16_state_indep cfg cfg' (MainCache.pre s ++ evs) h
    have e := C16_errors_same cfg cfg' (MainCache.pre s ++ evs) h
    simp only [MainCache.miss]
    rw [(finish_spec s (run cfg (MainCache.pre s ++ evs))).2.2.2.1, (finish_spec s (run cfg' (MainCache.pre s ++ evs))).2.2.2.1,
      List.filter_append, List.filter_append, e, c]

/-- … and lower verbosity prints a subsequence of what higher verbosity prints. -/
theorem C16_cache_subsequence (s : MainCache.Setup) (cfg : Cfg) (w₁ w₂ : WarnLevel) (h₁ t₁ h₂ t₂ : Bool) (evs : List Event)
    (hw : w₁.rank ≤ w₂.rank) :
    (MainCache.mainCache s (withVerbosity cfg w₁ h₁ t₁) evs).diag.printed.Sublist
      (MainCache.mainCache s (withVerbosity cfg w₂ h₂ t₂) evs).diag.printed := by
  unfold MainCache.mainCache
  split
  · simp only [MainCache.hit, info_none_printed, withVerbosity]
    cases w₁ <;> cases w₂ <;> simp [WarnLevel.rank] at hw ⊢
  · have c := (C16_state_indep (withVerbosity cfg w₁ h₁ t₁) (withVerbosity cfg w₂ h₂ t₂)
      (MainCache.pre s ++ evs) ⟨rfl, rfl⟩).2.2
    have e := C16_subsequence cfg w₁ w₂ h₁ t₁ h₂ t₂ (MainCache.pre s ++ evs) hw
    simp only [MainCache.miss]
    rw [(finish_spec s _).2.2.2.1, (finish_spec s _).2.2.2.1, c]
    exact List.Sublist.append e (List.Sublist.refl _)

/-- A cache file that cannot be read back is treated exactly as a missing one — at every verbosity
(the whole result: lines, buckets, exit, stdout flag, cache file). -/
theorem C16_cache_damaged_as_absent (r w : Bool) (cfg : Cfg) (evs : List Event) :
    MainCache.mainCache ⟨r, .malformed, w⟩ cfg evs = MainCache.mainCache ⟨r, .absent, w⟩ cfg evs := by
  cases r <;> rfl

/-- `-r`: the gate is not consulted — what was at the cache path does not matter. -/
theorem C16_cache_refresh_ignores_gate (g g' : MainCache.Gate) (w : Bool) (cfg : Cfg) (evs : List Event) :
    MainCache.mainCache ⟨true, g, w⟩ cfg evs = MainCache.mainCache ⟨true, g', w⟩ cfg evs := rfl

/-- With `-r`, or when the document at the cache path is out of date, the diagnostics of the run are
those of the run without a cache file (`Diag.run` on the same events) as long as the file can be written. -/
theorem C16_cache_miss_is_plain (s : MainCache.Setup) (cfg : Cfg) (evs : List Event)
    (hs : s.refresh = true ∨ s.gate = .stale) (hw : s.writable = true) :
    (MainCache.mainCache s cfg evs).diag = run cfg evs := by
  have hd : ∀ r : Diag.Result, (MainCache.finish s r).diag = r := by
    intro r
    unfold MainCache.finish
    cases ho : r.output <;> simp [hw]
  have hp : MainCache.pre s = [] := by
    unfold MainCache.pre
    rcases hs with hs | hs
    · simp [hs]
    · simp [hs, MainCache.gateEvents]
  have hu : (!s.refresh && s.gate.upToDate) = false := by
    rcases hs with hs | hs
    · simp [hs]
    · simp [hs, MainCache.Gate.upToDate]
  simp only [MainCache.mainCache, hu, MainCache.miss, hp, List.nil_append]
  exact hd _

/-- The document `write_cache_file` writes names the target as it was spelled, whatever the verbosity. -/
theorem C16_cache_written_filepath (s : MainCache.Setup) (mode : MainRun.OutMode) (target : Str) (cfg : Cfg)
    (st : MainRun.Staged) (d : MainRun.CacheDoc)
    (h : (MainCache.mainCacheOut s mode target cfg st).written = some d) : d.filepath = target := by
  simp only [MainCache.mainCacheOut] at h
  split at h
  · cases hd : st.doc <;> simp [hd] at h
    subst h; rfl
  · cases h

/-- … and stdout, the written document and the fate of the cache file are the same at every verbosity. -/
theorem C16_cache_out_indep (s : MainCache.Setup) (mode : MainRun.OutMode) (target : Str) (cfg cfg' : Cfg)
    (st : MainRun.Staged) (h : SameAnalysisOptions cfg cfg') :
    (MainCache.mainCacheOut s mode target cfg st).stdout = (MainCache.mainCacheOut s mode target cfg' st).stdout
    ∧ (MainCache.mainCacheOut s mode target cfg st).written = (MainCache.mainCacheOut s mode target cfg' st).written
    ∧ (MainCache.mainCacheOut s mode target cfg st).cache = (MainCache.mainCacheOut s mode target cfg' st).cache
    ∧ (MainCache.mainCacheOut s mode target cfg st).diag.exit = (MainCache.mainCacheOut s mode target cfg' st).diag.exit := by
  obtain ⟨a, b, c, d⟩ := C16_cache_indep s cfg cfg' (MainRun.events st) h
  simp only [MainCache.mainCacheOut, a, b, c, d, h.2]
  exact ⟨trivial, trivial, trivial, trivial⟩

/-! #### culprits: the one way a diagnostic CALL can couple outcome and verbosity -/

/-- A culprit the renderer cannot locate turns exactly the PRINTED lines into a traceback. -/
theorem C16_foreign_culprit_crashes_iff_printed (cfg : Cfg) (s : State) (e : Event) :
    MainCache.emitC cfg s ⟨e, .foreign⟩ = none ↔ (emit cfg s e).printed ≠ [] := by
  simp [MainCache.emitC, MainCache.Culprit.renders]

/-- With culprits the renderer can locate (none, an AST node, a symbol) the run is `Diag.runEvents`:
nothing of the rendering feeds back into the outcome. -/
theorem C16_culprits_render (cfg : Cfg) (evs : List MainCache.CEvent)
    (h : ∀ e ∈ evs, e.culprit.renders = true) (s : State) :
    MainCache.runEventsC cfg s evs = some (runEvents cfg s (evs.map (·.ev))) := by
  induction evs generalizing s with
  | nil => rfl
  | cons e es ih =>
    have he : e.culprit.renders = true := h e (List.mem_cons_self ..)
    have hes : ∀ x ∈ es, x.culprit.renders = true := fun x hx => h x (List.mem_cons_of_mem _ hx)
    simp only [MainCache.runEventsC, MainCache.emitC, he, Bool.or_true, if_true, List.map_cons, runEvents]
    split
    · rfl
    · rw [ih hes]

/-- Defect class (not in the code: Tie A `C16_tieA_fileless_no_culprit`): were the gate's "malformed"
diagnostic handed the exception as its culprit, the run would end in a traceback at `-w all` and be
fine at every other level — outcome depending on the verbosity. (test by evaluation) -/
theorem C16_cex_foreign_culprit :
    MainCache.runEventsC ⟨false, 0, .all, false, false⟩ State.init (MainCache.gateEventsC .foreign .malformed) = none
    ∧ MainCache.runEventsC ⟨false, 0, .default, false, false⟩ State.init (MainCache.gateEventsC .foreign .malformed)
        = some ⟨State.init, [], false⟩
    ∧ MainCache.runEventsC ⟨false, 0, .local_, false, false⟩ State.init (MainCache.gateEventsC .foreign .malformed)
        = some ⟨State.init, [], false⟩
    ∧ MainCache.runEventsC ⟨false, 0, .none, false, false⟩ State.init (MainCache.gateEventsC .foreign .malformed)
        = some ⟨State.init, [], false⟩
    ∧ MainCache.runEventsC ⟨false, 0, .all, false, false⟩ State.init (MainCache.gateEventsC .none .malformed)
        = some ⟨State.init, [⟨.info, .none⟩], false⟩ := by
  decide

/-- The property with a cache file in play, for the model. -/
def C16_full_cache : Prop :=
  (∀ (s : MainCache.Setup) (cfg cfg' : Cfg) (evs : List Event), SameAnalysisOptions cfg cfg' →
      (MainCache.mainCache s cfg evs).diag.state = (MainCache.mainCache s cfg' evs).diag.state
      ∧ (MainCache.mainCache s cfg evs).diag.exit = (MainCache.mainCache s cfg' evs).diag.exit
      ∧ (MainCache.mainCache s cfg evs).diag.output = (MainCache.mainCache s cfg' evs).diag.output
      ∧ (MainCache.mainCache s cfg evs).cache = (MainCache.mainCache s cfg' evs).cache
      ∧ (MainCache.mainCache s cfg evs).diag.printed.filter isErrLine
          = (MainCache.mainCache s cfg' evs).diag.printed.filter isErrLine)
  ∧ (∀ (s : MainCache.Setup) (cfg : Cfg) (w₁ w₂ : WarnLevel) (h₁ t₁ h₂ t₂ : Bool) (evs : List Event),
      w₁.rank ≤ w₂.rank →
      (MainCache.mainCache s (withVerbosity cfg w₁ h₁ t₁) evs).diag.printed.Sublist
        (MainCache.mainCache s (withVerbosity cfg w₂ h₂ t₂) evs).diag.printed)

theorem C16_full_cache_holds : C16_full_cache :=
  ⟨fun s cfg cfg' evs h =>
     let ⟨a, b, c, d⟩ := C16_cache_indep s cfg cfg' evs h
     ⟨a, b, c, d, C16_cache_errors_same s cfg cfg' evs h⟩,
   C16_cache_subsequence⟩

/-- non-vacuity (tests by evaluation): a malformed cache file, three diagnostics, `--threshold 5`;
an unwritable cache path; a hit. -/
example : (MainCache.mainCache ⟨false, .malformed, true⟩ ⟨false, 5, .all, true, false⟩
      [⟨.warning, 1, .target⟩, ⟨.error, 5, .import_⟩]).diag.printed = [⟨.info, .none⟩, ⟨.warning, .target⟩, ⟨.error, .import_⟩]
    ∧ (MainCache.mainCache ⟨false, .malformed, true⟩ ⟨false, 5, .none, false, true⟩
      [⟨.warning, 1, .target⟩, ⟨.error, 5, .import_⟩]).cache = .written
    ∧ (MainCache.mainCache ⟨false, .malformed, true⟩ ⟨false, 5, .none, false, true⟩
      [⟨.warning, 1, .target⟩, ⟨.error, 5, .target⟩]).cache = .unchanged
    ∧ (MainCache.mainCache ⟨true, .fresh, true⟩ ⟨false, 5, .none, false, true⟩
      [⟨.warning, 1, .target⟩, ⟨.error, 5, .target⟩]).cache = .removed
    ∧ (MainCache.mainCache ⟨false, .absent, false⟩ ⟨false, 0, .none, false, false⟩ [⟨.warning, 1, .target⟩]).diag
        = ⟨⟨1, 0, 0⟩, [⟨.fatal, .none⟩], 1, true⟩
    ∧ (MainCache.mainCache ⟨false, .fresh, true⟩ ⟨true, 0, .all, false, false⟩ [⟨.error, 5, .target⟩]).diag
        = ⟨State.init, [⟨.info, .none⟩], 0, false⟩ := by
  decide

/-! ### Non-vacuity (tests by evaluation, labelled as such) -/

private def evs1 : List Event :=
  [⟨.warning, 1, .import_⟩, ⟨.info, 0, .import_⟩, ⟨.info, 0, .target⟩, ⟨.warning, 1, .target⟩,
   ⟨.error, 5, .target⟩, ⟨.info, 0, .none⟩, ⟨.error, 5, .none⟩]

private def cfgw (w : WarnLevel) : Cfg := ⟨false, 0, w, false, false⟩

example : (run (cfgw .none) evs1).printed = [⟨.error, .target⟩, ⟨.error, .none⟩] := by decide
example : (run (cfgw .local_) evs1).printed =
    [⟨.warning, .target⟩, ⟨.error, .target⟩, ⟨.error, .none⟩] := by decide
example : (run (cfgw .default) evs1).printed =
    [⟨.warning, .import_⟩, ⟨.warning, .target⟩, ⟨.error, .target⟩, ⟨.error, .none⟩] := by decide
example : (run (cfgw .all) evs1).printed.length = 7 := by decide
example : (run (cfgw .none) evs1).state = ⟨6, 1, 5⟩ ∧ (run (cfgw .all) evs1).state = ⟨6, 1, 5⟩ := by decide
/-- the gate's fatal is printed at `-w none` too. -/
example : (run ⟨false, 3, .none, true, true⟩ evs1).printed =
    [⟨.error, .target⟩, ⟨.error, .none⟩, ⟨.fatal, .none⟩] := by decide
/-- rendering: project-relative; home collapse; truncation keeps the first and the last three parts. -/
example : (render true true ⟨true, ["h", "u", "proj"]⟩ ⟨true, ["h", "u"]⟩
    ⟨true, ["h", "u", "src", "a", "b", "c", "d", "t.py"]⟩).posix = "~/.../c/d/t.py" := by decide
example : (render false true ⟨true, ["h", "u", "proj"]⟩ ⟨true, ["h", "u"]⟩
    ⟨true, ["h", "u", "src", "a", "b", "c", "d", "t.py"]⟩).posix = "/.../c/d/t.py" := by decide
example : (render true true ⟨true, ["h", "u", "proj"]⟩ ⟨true, ["h", "u"]⟩
    ⟨true, ["h", "u", "proj", "pkg", "m.py"]⟩).posix = "pkg/m.py" := by decide

/-- `MainRun` on a hand-made staged result: an info and an error from the file walk, an error from
result generation; permissive prints the document, `--threshold 9` and `--strict` do not, at every -w. -/
private def stg : MainRun.Staged :=
  ⟨[mkDiag .info "x", mkDiag .error "y"], [mkDiag .error "z"], some [], ["f".toList, "K".toList]⟩

example : (MainRun.mainOf ⟨false, 0, .none, true, true⟩ stg).stdout = some []
    ∧ (MainRun.mainOf ⟨false, 9, .all, false, false⟩ stg).stdout = none
    ∧ (MainRun.mainOf ⟨false, 10, .none, false, true⟩ stg).stdout = some []
    ∧ (MainRun.mainOf ⟨true, 0, .default, false, false⟩ stg).stdout = none
    ∧ (MainRun.mainOf ⟨false, 9, .none, false, false⟩ stg).diag.printed
        = [⟨.error, .target⟩, ⟨.error, .none⟩, ⟨.fatal, .none⟩]
    ∧ (MainRun.mainOf ⟨true, 0, .all, false, false⟩ stg).diag.printed = [⟨.info, .target⟩, ⟨.fatal, .target⟩] := by
  decide

/-- every output mode on the hand-made staged result, target spelled six components deep: the IR
document names it as given under `-H -T`; the cacheable document likewise; `-o silent` prints nothing;
`--threshold 9` prints nothing in any mode. -/
private def deepT : Str := "src/app/core/services/billing/target.py".toList

example : (MainRun.mainOut .ir deepT ⟨false, 0, .none, true, true⟩ stg).stdout
      = some (.ir ⟨deepT, deepT, [("f".toList, deepT), ("K".toList, deepT)], []⟩)
    ∧ (MainRun.mainOut .ir deepT ⟨false, 0, .all, false, false⟩ stg).stdout
      = (MainRun.mainOut .ir deepT ⟨false, 0, .none, true, true⟩ stg).stdout
    ∧ ((MainRun.mainOut .cacheable deepT ⟨false, 10, .local_, false, true⟩ stg).stdout.map MainRun.Printed.paths) = some [deepT]
    ∧ ((MainRun.mainOut .stats deepT ⟨false, 10, .local_, false, true⟩ stg).stdout.map MainRun.Printed.mode) = some .stats
    ∧ (MainRun.mainOut .silent deepT ⟨false, 0, .all, false, false⟩ stg).stdout.isNone = true
    ∧ (MainRun.OutMode.every.all fun m => (MainRun.mainOut m deepT ⟨false, 9, .all, false, true⟩ stg).stdout.isNone) = true := by
  decide

/-- … whereas the diagnostics' formatter renders that spelling differently under `-T`, and an absolute
spelling below the home directory differently under `-H` (the hypotheses of
`C16_formatted_depends_on_T` / `_H` hold on the spellings the harness generates; those of
`C16_formatted_short_agree` on `target.py`). -/
example : (render false true ⟨true, ["h", "u", "proj"]⟩ ⟨true, ["h", "u"]⟩
      ⟨false, ["src", "app", "core", "services", "billing", "target.py"]⟩).posix = "src/.../services/billing/target.py"
    ∧ (render false false ⟨true, ["h", "u", "proj"]⟩ ⟨true, ["h", "u"]⟩
      ⟨false, ["src", "app", "core", "services", "billing", "target.py"]⟩).posix = "src/app/core/services/billing/target.py"
    ∧ (render true false ⟨true, ["h", "u", "proj"]⟩ ⟨true, ["h", "u"]⟩ ⟨true, ["h", "u", "scratch", "target.py"]⟩).posix
        = "~/scratch/target.py"
    ∧ (render false false ⟨true, ["h", "u", "proj"]⟩ ⟨true, ["h", "u"]⟩ ⟨true, ["h", "u", "scratch", "target.py"]⟩).posix
        = "/h/u/scratch/target.py"
    ∧ (render true true ⟨true, ["h", "u", "proj"]⟩ ⟨true, ["h", "u"]⟩ ⟨false, ["target.py"]⟩).posix = "target.py" := by
  decide

end Rattr.C16

/-
  C11 — rattr_ignore, rattr_results and exclusion patterns are honoured everywhere.

  Model: `RattrModel/Annotations.lean` (`safeEval`, `isName`, the validators, `parseResults`,
         `hasAnnotation` / `getAnnotation`, `fileDecision` / `classDecision` /
         `staticMethodDecision` / `lambdaDecision`, `irKeys`, `inlined`).
  Spec:  `RattrModel/Spec/Honoured.lean` (`isIdent`, `WellFormed`, `NoCrashShape`, `declared`,
         `evaluable`, `hashClosed`, `expectedEntry`).

  The full statement `C11_full` is NOT a theorem of the pinned code (`C11_full_false`). Proved for
  ALL decorator argument expressions (mutual structural induction over the nested inductive `Lit`)
  and all evaluated values (induction over lists):
    * `C11_evaluates_iff`: `safe_eval` succeeds on every argument iff the expressions contain no
      un-evaluable sub-expression and every set element / dict key is hashable; otherwise it ends
      in the "likely missing a comma" fatal (`C11_unevaluable_fatal_partial`) or — the defect —
      in `TypeError` (`C11_cex_unhashable_*`);
    * `C11_wellformed_ok`, `C11_declared_exact`: well-formed arguments are accepted with exactly
      the declared IR, and NOTHING else is accepted (no function body appears in the model at all);
    * `C11_malformed_fatal_partial`: ill-formed evaluated arguments are a fatal unless a call spec
      carries a non-dict in its keyword slot (`NoCrashShape`), where the code raises
      `AttributeError` (`C11_cex_kwargs_not_a_dict`);
    * `C11_crash_classes`: these two are the ONLY ways `parse_rattr_results_from_annotation` can
      raise — the exclusion classes are tight;
    * `C11_ignored_skipped`, `C11_excluded_skipped`, `C11_skip_no_entry`, `C11_not_inlined`: a
      module-level def / class that is ignored or excluded gets no IR entry and is never inlined;
      static methods and lambdas are the counterexamples (`C11_cex_static_*`, `C11_cex_lambda_*`);
    * callers (model `RattrModel/DeclaredInline.lean`, spec `RattrModel/Spec/DeclaredSubst.lean`):
      `C11_unbind_declared_name`, `C11_inline_declared_partial`, `C11_parse_then_inline_partial`: what one call of an annotated
      callable contributes to its caller is the declaration with the root of EVERY declared name replaced by
      the argument `construct_call_swaps` binds to that parameter — all names at once, each looked up exactly
      once, never `ValueError("never")` — whatever the arguments are called (`C11_simultaneous_ne_sequential`:
      a call whose arguments are spelled like other parameters of the callee tells the two readings apart);
      hypothesis `plainRoots`: no declared name has `[]` / `()` directly on its root — otherwise the name is not
      substituted at all (`C11_cex_subscripted_root`, `C11_subst_full_false`: a defect of the pinned `as_name`).
-/
import RattrProofs.Lemmas.C11
import RattrProofs.Lemmas.C11Subst
import RattrProofs.Lemmas.C11Regex
import RattrModel.Generated.C11

namespace Rattr.C11
open Rattr Rattr.Ann Rattr.Strs Rattr.Spec.Honoured Rattr.Results

/-! ### Tie A: what the model hard-codes is what the source says now -/

theorem tieA_regex : Generated.C11.reRattrName = "^[A-Za-z_][\\w\\(\\)\\[\\]\\.]*$" := by decide

/-- only `re.UNICODE` (32): no IGNORECASE / MULTILINE / DOTALL / VERBOSE -/
theorem tieA_regex_flags : Generated.C11.reRattrNameFlags = 32 := by decide

theorem tieA_prefixes : Generated.C11.isNamePrefixes = ["*", "@"] := by decide

theorem tieA_result_keys : Generated.C11.resultKeys.map String.toList = Ann.resultKeys := by decide

theorem tieA_result_defaults :
    Generated.C11.resultDefaults = ["set:0", "set:0", "set:0", "list:0"] := by decide

theorem tieA_validated_set_keys :
    Generated.C11.validatedSetKeys.map String.toList = [kGets, kSets, kDels] := by decide

theorem tieA_safe_eval_classes :
    Generated.C11.safeEvalClasses
      = ["Num", "Str", "Bytes", "NameConstant", "List", "Tuple", "Set", "Dict"] := by decide

theorem tieA_get_attrname_classes :
    Generated.C11.getAttrnameClasses = ["Name", "Attribute", "Call"] := by decide

theorem tieA_basename_expr : Generated.C11.basenameExpr = true := by decide

/-- `visit_AnyFunctionDef`: rattr_ignore, then the exclusion, then rattr_results — with the
annotation names the model uses -/
theorem tieA_fn_def_checks :
    Generated.C11.fnDefChecks
      = ["has_annotation:" ++ String.ofList nIgnore, "is_excluded_name",
         "has_annotation:" ++ String.ofList nResults] := by decide

theorem tieA_class_def_checks :
    Generated.C11.classDefChecks = ["has_annotation:rattr_ignore", "is_excluded_name"] := by decide

theorem tieA_initialiser_checks :
    Generated.C11.initialiserChecks
      = ["has_annotation:rattr_ignore", "has_annotation:rattr_results"] := by decide

/-- the two known gaps: neither consults annotations or exclusions -/
theorem tieA_static_method_checks : Generated.C11.staticMethodChecks = [] := by decide
theorem tieA_lambda_assign_checks : Generated.C11.lambdaAssignChecks = [] := by decide

theorem tieA_resolve_function_checks :
    Generated.C11.resolveFunctionChecks = ["is_excluded_name"] := by decide

/-- `unbind_ir_with_call_swaps` is one returned dict display: each of gets / sets / dels a comprehension
renaming every name ONCE by a lookup of its basename in the swaps; calls unchanged (→ `Results.unbindIr`) -/
theorem tieA_unbind_ir_shape :
    Generated.C11.unbindIrShape =
      ["gets = {unbind_name(n, swaps.get(n.basename, n.basename)) for n in ir['gets']}",
       "sets = {unbind_name(n, swaps.get(n.basename, n.basename)) for n in ir['sets']}",
       "dels = {unbind_name(n, swaps.get(n.basename, n.basename)) for n in ir['dels']}",
       "calls = ir['calls']"]
    ∧ Generated.C11.unbindIrParams = ["ir", "swaps"] := ⟨rfl, rfl⟩

/-- the statements of `unbind_name` (→ `Results.unbindName`) -/
theorem tieA_unbind_name_body :
    Generated.C11.unbindNameBody =
      ["if symbol.basename == new_basename: return symbol",
       "if symbol.name.startswith('*'): old, new = (f'*{symbol.basename}', f'*{new_basename}') else: old, new = (symbol.basename, new_basename)",
       "if not symbol.name.startswith(old): raise ValueError('never')",
       "new_name = symbol.name.replace(old, new, 1)",
       "return Name(name=new_name, basename=new_basename, location=symbol.location)"] := rfl

/-! ### identifiers -/

/-- the automaton is the documented identifier syntax -/
theorem C11_isName_eq_spec (s : Str) : isName s = isIdent s := isName_eq_isIdent s

/-- every accepted string starts, after the optional `*` / `@`, with a letter or `_`, and
continues in the character class -/
theorem C11_isName_head (s : Str) (h : isName s = true) :
    ∃ c r, stripPrefixes s = c :: r ∧ isIdStart c = true ∧ r.all isIdCont = true := by
  unfold isName at h
  rw [reFullmatch_eq] at h
  cases hs : stripPrefixes s with
  | nil => rw [hs] at h; cases h
  | cons c r =>
    rw [hs] at h
    simp only [Bool.and_eq_true] at h
    exact ⟨c, r, rfl, h.1, h.2⟩

theorem C11_isName_empty : isName [] = false ∧ isName ['*'] = false ∧ isName ['*', '@'] = false := by
  decide

/-- at most one `*` and then at most one `@` are stripped (a test, by `decide`) -/
theorem C11_isName_prefix_order :
    isName "*@x".toList = true ∧ isName "@*x".toList = false ∧ isName "**x".toList = false
    ∧ isName "x.y[]()".toList = true ∧ isName "1x".toList = false ∧ isName "a b".toList = false := by
  decide

/-- `as_name`: the base is the text before the first `.` of the name with `*` removed -/
theorem C11_asName_eq_spec (s : Str) : asName s = specName s := asName_eq_specName s

/-! ### (iii) the literal level: `safe_eval` on ALL expressions -/

theorem C11_safeEval_ok_iff (l : Lit) :
    (∃ v, safeEval l = .ok v) ↔ (evaluable l = true ∧ hashClosed l = true) := by
  have h := safeEval_char l
  constructor
  · rintro ⟨v, hv⟩
    rw [hv] at h
    exact ⟨h.1, h.2.1⟩
  · rintro ⟨h1, h2⟩
    cases hs : safeEval l with
    | ok v => exact ⟨v, rfl⟩
    | fatal f => rw [hs] at h; simp only [EvalChar] at h; rw [h1] at h; cases h.2
    | crash c => rw [hs] at h; simp only [EvalChar] at h; rw [h2] at h; cases h.2

/-- the only fatal of `safe_eval` is "unable to evaluate", and only on un-evaluable expressions -/
theorem C11_safeEval_fatal (l : Lit) (f : Fatal) (h : safeEval l = .fatal f) :
    f = .unableToEvaluate ∧ evaluable l = false := by
  have h' := safeEval_char l
  rw [h] at h'
  exact h'

/-- the only crash of `safe_eval` is the unhashable `TypeError`, and only when some set element /
dict key is unhashable -/
theorem C11_safeEval_crash (l : Lit) (c : Crash) (h : safeEval l = .crash c) :
    c = .unhashable ∧ hashClosed l = false := by
  have h' := safeEval_char l
  rw [h] at h'
  exact h'

theorem C11_safeEval_fatal_partial (l : Lit) (hc : hashClosed l = true) (he : evaluable l = false) :
    safeEval l = .fatal .unableToEvaluate := by
  have h := safeEval_char l
  cases hs : safeEval l with
  | ok v => rw [hs] at h; simp only [EvalChar] at h; rw [he] at h; cases h.1
  | fatal f => rw [hs] at h; simp only [EvalChar] at h; rw [h.1]
  | crash c => rw [hs] at h; simp only [EvalChar] at h; rw [hc] at h; cases h.2

/-- what an outcome of the keyword loop of `parse_annotation` says about the keyword values -/
def EvalCharK (o : Outcome KwVals) (ev hc : Bool) : Prop :=
  match o with
  | .ok _ => ev = true ∧ hc = true
  | .fatal f => f = .unableToEvaluate ∧ ev = false
  | .crash c => c = .unhashable ∧ hc = false

theorem evalKws_char (kws : List (Option Str × Lit)) (acc : KwVals) :
    EvalCharK (evalKws kws acc) (kwsEvaluable kws) (kwsHashClosed kws) := by
  induction kws generalizing acc with
  | nil => simp [evalKws, kwsEvaluable, kwsHashClosed, EvalCharK]
  | cons kl r ih =>
    obtain ⟨k, l⟩ := kl
    have h1 := safeEval_char l
    have eE : kwsEvaluable ((k, l) :: r) = (evaluable l && kwsEvaluable r) := by simp [kwsEvaluable]
    have eH : kwsHashClosed ((k, l) :: r) = (hashClosed l && kwsHashClosed r) := by simp [kwsHashClosed]
    rw [eE, eH]
    simp only [evalKws]
    cases hs : safeEval l with
    | ok v =>
      rw [hs] at h1
      simp only [EvalChar] at h1
      have h2 := ih (Dict.set acc k v)
      simp only [h1.1, h1.2.1, Bool.true_and]
      exact h2
    | fatal f => rw [hs] at h1; simp only [EvalChar] at h1; simp [EvalCharK, h1]
    | crash c => rw [hs] at h1; simp only [EvalChar] at h1; simp [EvalCharK, h1]

/-- `parse_annotation` succeeds on exactly the evaluable, hash-closed argument lists -/
theorem C11_evaluates_iff (pos : List Lit) (kws : List (Option Str × Lit)) :
    (∃ pv kv, evalArgs pos kws = .ok (pv, kv)) ↔
      (evaluableL pos = true ∧ kwsEvaluable kws = true ∧ hashClosedL pos = true ∧ kwsHashClosed kws = true) := by
  have h1 := safeEvalL_char pos
  have h2 := evalKws_char kws []
  unfold evalArgs
  cases hp : safeEvalL pos with
  | ok pv =>
    rw [hp] at h1
    simp only [EvalCharL] at h1
    cases hk : evalKws kws [] with
    | ok kv => rw [hk] at h2; simp only [EvalCharK] at h2; simp [h1.1, h1.2.1, h2]
    | fatal f => rw [hk] at h2; simp only [EvalCharK] at h2; simp [h2]
    | crash c => rw [hk] at h2; simp only [EvalCharK] at h2; simp [h2]
  | fatal f => rw [hp] at h1; simp only [EvalCharL] at h1; simp [h1]
  | crash c => rw [hp] at h1; simp only [EvalCharL] at h1; simp [h1]

/-- an argument list with an un-evaluable sub-expression (and no unhashable element) is rejected
with the "likely missing a comma" fatal -/
theorem C11_unevaluable_fatal_partial (pos : List Lit) (kws : List (Option Str × Lit))
    (hc : hashClosedL pos = true ∧ kwsHashClosed kws = true)
    (he : ¬ (evaluableL pos = true ∧ kwsEvaluable kws = true)) :
    parseResults pos kws = .fatal .likelyMissingComma := by
  have h1 := safeEvalL_char pos
  have h2 := evalKws_char kws []
  unfold parseResults evalArgs
  cases hp : safeEvalL pos with
  | ok pv =>
    rw [hp] at h1
    simp only [EvalCharL] at h1
    cases hk : evalKws kws [] with
    | ok kv => rw [hk] at h2; simp only [EvalCharK] at h2; exact absurd ⟨h1.1, h2.1⟩ he
    | fatal f => rfl
    | crash c => rw [hk] at h2; simp only [EvalCharK] at h2; rw [hc.2] at h2; cases h2.2
  | fatal f => rfl
  | crash c => rw [hp] at h1; simp only [EvalCharL] at h1; rw [hc.1] at h1; cases h1.2

/-! ### (ii) + (iii) on the evaluated arguments -/

theorem checkArgs_positional (pv : List PyVal) (kv : KwVals) (h0 : pv.isEmpty = false) :
    checkArgs pv kv = .fatal .positionalArgs := by simp [checkArgs, h0]

theorem checkArgs_unknown_key (pv : List PyVal) (kv : KwVals) (h0 : pv.isEmpty = true)
    (hk : (Dict.keys kv).all knownKey = false) : checkArgs pv kv = .fatal .unexpectedKeywords := by
  unfold checkArgs; rw [h0, hk]; rfl

theorem checkArgs_main (pv : List PyVal) (kv : KwVals) (h0 : pv.isEmpty = true)
    (hk : (Dict.keys kv).all knownKey = true) :
    checkArgs pv kv = (match validate (rawOf kv) with
      | .ok () => (match build (rawOf kv) with
        | some ir => .ok ir
        | none => .crash .buildRaised)
      | .fatal f => .fatal f
      | .crash c => .crash c) := by
  unfold checkArgs; rw [h0, hk]; rfl

/-- well-formed arguments are accepted, with exactly the declared IR -/
theorem C11_check_wellformed_ok (pv : List PyVal) (kv : KwVals) (h : WellFormed pv kv = true) :
    checkArgs pv kv = .ok (declared kv) := by
  have hn := wf_noCrash pv kv h
  simp only [WellFormed, Bool.and_eq_true] at h
  obtain ⟨⟨⟨⟨⟨h0, hk⟩, h1⟩, h2⟩, h3⟩, h4⟩ := h
  have hkeys : (Dict.keys kv).all knownKey = true := by
    rw [show knownKey = keyOk from funext knownKey_eq]; exact hk
  have hv : validate (rawOf kv) = .ok () := by
    unfold validate rawOf
    simp only [fieldSet_eq, h1, h2, h3, (calls_cases kv).1 hn, h4]
    rfl
  rw [checkArgs_main pv kv h0 hkeys, hv, build_of_fields kv h1 h2 h3 h4]

/-- whatever is accepted is well-formed, and the IR is exactly the declared one -/
theorem C11_check_ok_wellformed (pv : List PyVal) (kv : KwVals) (ir : DeclaredIr)
    (h : checkArgs pv kv = .ok ir) : WellFormed pv kv = true ∧ ir = declared kv := by
  have hw : WellFormed pv kv = true := by
    cases h0 : pv.isEmpty
    · rw [checkArgs_positional pv kv h0] at h; cases h
    cases hk : (Dict.keys kv).all knownKey
    · rw [checkArgs_unknown_key pv kv h0 hk] at h; cases h
    · rw [checkArgs_main pv kv h0 hk] at h
      cases hv : validate (rawOf kv) with
      | ok u =>
        obtain ⟨h1, h2, h3, h4⟩ := validate_ok kv hv
        have hk' : (Dict.keys kv).all keyOk = true := by
          rw [← show knownKey = keyOk from funext knownKey_eq]; exact hk
        simp [WellFormed, h0, hk', h1, h2, h3, h4]
      | fatal f => rw [hv] at h; cases h
      | crash c => rw [hv] at h; cases h
  refine ⟨hw, ?_⟩
  have := C11_check_wellformed_ok pv kv hw
  rw [this] at h
  injection h with h
  exact h.symm

/-- after `parse_annotation`, the only crash is `AttributeError`, and only on the crash shape
(in particular `as_name` / `as_call` never raise: `Crash.buildRaised` is unreachable) -/
theorem C11_check_crash (pv : List PyVal) (kv : KwVals) (c : Crash) (h : checkArgs pv kv = .crash c) :
    c = .noItemsAttr ∧ NoCrashShape kv = false := by
  cases h0 : pv.isEmpty
  · rw [checkArgs_positional pv kv h0] at h; cases h
  cases hk : (Dict.keys kv).all knownKey
  · rw [checkArgs_unknown_key pv kv h0 hk] at h; cases h
  · rw [checkArgs_main pv kv h0 hk] at h
    cases hv : validate (rawOf kv) with
    | ok u =>
      obtain ⟨h1, h2, h3, h4⟩ := validate_ok kv hv
      rw [hv, build_of_fields kv h1 h2 h3 h4] at h
      cases h
    | fatal f => rw [hv] at h; cases h
    | crash c' =>
      rw [hv] at h
      injection h with h
      subst h
      unfold validate rawOf at hv
      simp only [fieldSet_eq] at hv
      cases h1 : fieldOk setOfIdents (given kv kGets) <;> simp [h1] at hv
      cases h2 : fieldOk setOfIdents (given kv kSets) <;> simp [h2] at hv
      cases h3 : fieldOk setOfIdents (given kv kDels) <;> simp [h3] at hv
      cases h4 : isListOfCallSpecs (kwGet kv kCalls (PyVal.list [])) with
      | ok b => cases b <;> simp [h4] at hv
      | fatal f => simp [h4] at hv
      | crash c'' =>
        simp [h4] at hv
        subst hv
        exact (calls_cases kv).2.2.2 _ h4

/-- ill-formed evaluated arguments are rejected with a fatal diagnostic, outside the crash shape -/
theorem C11_check_malformed_fatal (pv : List PyVal) (kv : KwVals)
    (hw : WellFormed pv kv = false) (hn : NoCrashShape kv = true) :
    ∃ f, checkArgs pv kv = .fatal f := by
  cases h : checkArgs pv kv with
  | ok ir => rw [(C11_check_ok_wellformed pv kv ir h).1] at hw; cases hw
  | fatal f => exact ⟨f, rfl⟩
  | crash c => rw [(C11_check_crash pv kv c h).2] at hn; cases hn

/-! ### (ii) + (iii) on the expressions: the property statements -/

/-- **declared exactly**: if `rattr_results(pos…, kws…)` is accepted, its arguments evaluate, the
values are well-formed, and the IR is exactly the declared one — the body of the function is not
an input of the model at all. -/
theorem C11_declared_exact (pos : List Lit) (kws : List (Option Str × Lit)) (ir : DeclaredIr)
    (h : parseResults pos kws = .ok ir) :
    ∃ pv kv, evalArgs pos kws = .ok (pv, kv) ∧ WellFormed pv kv = true ∧ ir = declared kv := by
  unfold parseResults at h
  cases he : evalArgs pos kws with
  | ok p =>
    obtain ⟨pv, kv⟩ := p
    rw [he] at h
    exact ⟨pv, kv, rfl, C11_check_ok_wellformed pv kv ir h⟩
  | fatal f => simp [he] at h
  | crash c => simp [he] at h

/-- **well-formed ⇒ ok** -/
theorem C11_wellformed_ok (pos : List Lit) (kws : List (Option Str × Lit)) (pv : List PyVal) (kv : KwVals)
    (he : evalArgs pos kws = .ok (pv, kv)) (hw : WellFormed pv kv = true) :
    parseResults pos kws = .ok (declared kv) := by
  unfold parseResults
  rw [he]
  exact C11_check_wellformed_ok pv kv hw

/-- **ill-formed ⇒ fatal**, partial: outside the `AttributeError` shape -/
theorem C11_malformed_fatal_partial (pos : List Lit) (kws : List (Option Str × Lit)) (pv : List PyVal)
    (kv : KwVals) (he : evalArgs pos kws = .ok (pv, kv))
    (hw : WellFormed pv kv = false) (hn : NoCrashShape kv = true) :
    ∃ f, parseResults pos kws = .fatal f := by
  unfold parseResults
  rw [he]
  exact C11_check_malformed_fatal pv kv hw hn

/-- the two crash classes are the only ones: an exception out of
`parse_rattr_results_from_annotation` is either the unhashable `TypeError` of `safe_eval` (some
set element / dict key is unhashable) or the `AttributeError` of the call-spec validator (some
call spec has a non-dict keyword slot). -/
theorem C11_crash_classes (pos : List Lit) (kws : List (Option Str × Lit)) (c : Crash)
    (h : parseResults pos kws = .crash c) :
    (c = .unhashable ∧ ¬ (hashClosedL pos = true ∧ kwsHashClosed kws = true)) ∨
    (c = .noItemsAttr ∧ ∃ pv kv, evalArgs pos kws = .ok (pv, kv) ∧ NoCrashShape kv = false) := by
  unfold parseResults at h
  cases he : evalArgs pos kws with
  | ok p =>
    obtain ⟨pv, kv⟩ := p
    rw [he] at h
    exact .inr ⟨(C11_check_crash pv kv c h).1, pv, kv, rfl, (C11_check_crash pv kv c h).2⟩
  | fatal f => simp [he] at h
  | crash c' =>
    simp [he] at h
    subst h
    left
    have h1 := safeEvalL_char pos
    have h2 := evalKws_char kws []
    unfold evalArgs at he
    cases hp : safeEvalL pos with
    | ok pv =>
      rw [hp] at he
      cases hk : evalKws kws [] with
      | ok kv => simp [hk] at he
      | fatal f => simp [hk] at he
      | crash c'' =>
        rw [hk] at h2 he
        simp only [EvalCharK] at h2
        simp at he
        subst he
        exact ⟨h2.1, fun hh => by rw [hh.2] at h2; cases h2.2⟩
    | fatal f => simp [hp] at he
    | crash c'' =>
      rw [hp] at h1 he
      simp only [EvalCharL] at h1
      simp at he
      subst he
      exact ⟨h1.1, fun hh => by rw [hh.1] at h1; cases h1.2⟩

/-! ### (i) ignored / excluded callables -/

theorem hasAnnotation_allNamed (name : Str) (ds : List Deco) (h : allNamed ds = true) :
    hasAnnotation name ds = .ok (ds.any (fun d => d.head == .named name)) := by
  induction ds with
  | nil => rfl
  | cons d r ih =>
    simp only [allNamed, List.all_cons, Bool.and_eq_true] at h
    have ih' := ih (by simpa [allNamed] using h.2)
    cases hd : d.head with
    | bad => rw [hd] at h; simp at h
    | named n =>
      simp only [hasAnnotation, hd, List.any_cons]
      by_cases e : n = name
      · simp [e]
      · simp [e, ih']

/-- a def / class whose decorators name `rattr_ignore` is skipped -/
theorem C11_ignored_skipped (ds : List Deco) (v : List Bool)
    (hn : allNamed ds = true) (hi : ignored ds = true) : fileDecision ds v = .ok .skip := by
  unfold fileDecision
  rw [hasAnnotation_allNamed nIgnore ds hn]
  unfold ignored at hi
  simp [hi]

/-- a def / class whose name fully matches an exclusion pattern is skipped -/
theorem C11_excluded_skipped (ds : List Deco) (v : List Bool)
    (hn : allNamed ds = true) (hx : v.any id = true) : fileDecision ds v = .ok .skip := by
  unfold fileDecision
  rw [hasAnnotation_allNamed nIgnore ds hn]
  cases ds.any (fun d => d.head == .named nIgnore) <;> simp [isExcluded, hx]

/-- the spec's verdict: no entry expected ⇒ the model skips (module-level defs and classes) -/
theorem C11_expected_entry (ds : List Deco) (v : List Bool) (hn : allNamed ds = true)
    (he : expectedEntry ds v = false) : fileDecision ds v = .ok .skip ∧ classDecision ds v = .ok .skip := by
  have : fileDecision ds v = .ok .skip := by
    simp only [expectedEntry, Bool.not_eq_false', Bool.or_eq_true] at he
    rcases he with hi | hx
    · exact C11_ignored_skipped ds v hn hi
    · exact C11_excluded_skipped ds v hn hx
  exact ⟨this, this⟩

/-- a skipped callable has no IR entry: every key of the file IR belongs to a callable whose
decision is not `skip` -/
theorem C11_skip_no_entry (cs : List Callable) (ks : List Str) (h : irKeys cs = .ok ks) :
    ∀ k ∈ ks, ∃ c ∈ cs, c.name = k ∧ decisionOf c ≠ .ok .skip := by
  induction cs generalizing ks with
  | nil => simp [irKeys] at h; subst h; simp
  | cons c r ih =>
    simp only [irKeys] at h
    cases hd : decisionOf c with
    | ok d =>
      rw [hd] at h
      cases hr : irKeys r with
      | ok ks' =>
        rw [hr] at h
        simp only [Outcome.ok.injEq] at h
        intro k hk
        by_cases hs : d = .skip
        · simp [hs] at h
          subst h
          obtain ⟨c', hc', e1, e2⟩ := ih ks' hr k hk
          exact ⟨c', List.mem_cons_of_mem _ hc', e1, e2⟩
        · simp [hs] at h
          subst h
          rcases List.mem_cons.mp hk with e | hk'
          · exact ⟨c, List.mem_cons_self, e.symm, by rw [hd]; simpa using hs⟩
          · obtain ⟨c', hc', e1, e2⟩ := ih ks' hr k hk'
            exact ⟨c', List.mem_cons_of_mem _ hc', e1, e2⟩
      | fatal f => simp [hr] at h
      | crash k' => simp [hr] at h
    | fatal f => simp [hd] at h
    | crash k' => simp [hd] at h

/-- a call is inlined only if its target has an IR entry and (for function targets) matches no
exclusion: an ignored / excluded module-level def is never inlined, in the target or in an import -/
theorem C11_not_inlined (ks : List Str) (t : Str) (isFunc excl : Bool)
    (h : inlined ks t isFunc excl = true) : t ∈ ks ∧ ¬ (isFunc = true ∧ excl = true) := by
  unfold inlined at h
  cases isFunc <;> cases excl <;> simp at h ⊢ <;> exact h

/-- the entry of an annotated def is the parsed annotation, whatever the body is -/
theorem C11_declared_body_irrelevant (ds : List Deco) (v : List Bool) (ir : DeclaredIr)
    (h : fileDecision ds v = .ok (.declared ir)) : parseAnnotated ds = .ok ir := by
  unfold fileDecision at h
  cases h1 : hasAnnotation nIgnore ds with
  | ok b =>
    rw [h1] at h
    cases b <;> simp only at h
    · cases hx : isExcluded v <;> simp [hx] at h
      cases h2 : hasAnnotation nResults ds with
      | ok b2 =>
        rw [h2] at h
        cases b2 <;> simp only at h
        · cases h
        · cases h3 : parseAnnotated ds with
          | ok ir' => rw [h3] at h; simp at h; rw [h]
          | fatal f => rw [h3] at h; cases h
          | crash c => rw [h3] at h; cases h
      | fatal f => rw [h2] at h; cases h
      | crash c => rw [h2] at h; cases h
    · cases h
  | fatal f => rw [h1] at h; cases h
  | crash c => rw [h1] at h; cases h

/-! ### callers: declared names are inlined by SIMULTANEOUS substitution -/

/-- the basename `as_name` gives a well-formed declared spelling is its root (what parameters are compared with) -/
theorem C11_declared_basename_is_root (s : Str) (h : isIdent s = true) (hp : plainRoot s = true) :
    (asName s).base = rootOf s := by
  rw [asName_eq_specName]; exact (unbindName_specName s [] h hp).2

/-- `unbind_name` NEVER raises on a well-formed declared name (plain root or not) -/
theorem C11_unbind_declared_never_raises (s nb : Str) (h : isIdent s = true) :
    (Results.unbindName (asName s) nb).isSome = true := by
  rw [asName_eq_specName, (unbindName_specName_dot s nb h).1]; rfl

/-- `unbind_name` on a well-formed declared name never raises and is the root replacement of the spec -/
theorem C11_unbind_declared_name (s nb : Str) (h : isIdent s = true) (hp : plainRoot s = true) :
    Results.unbindName (asName s) nb = some { full := substSpelling s nb, base := nb } := by
  rw [asName_eq_specName]; exact (unbindName_specName s nb h hp).1

/-- **substitution, any swaps dictionary**: `unbind_ir_with_call_swaps` on the IR of a well-formed annotation is
the simultaneous substitution of the spec — for EVERY dictionary (cycles, chains, swaps, identity). -/
theorem C11_unbind_declared_partial (pv : List PyVal) (kv : KwVals) (sw : Dict Str Str)
    (h : WellFormed pv kv = true) (hp : plainRoots kv = true) :
    unbindDeclared sw (declared kv) = some (substDeclared sw kv) := by
  unfold WellFormed at h
  unfold plainRoots at hp
  simp only [Bool.and_eq_true] at h hp
  obtain ⟨⟨pg, ps⟩, pd⟩ := hp
  obtain ⟨⟨⟨⟨⟨_, _⟩, hg⟩, hs⟩, hd⟩, _⟩ := h
  obtain ⟨eg, ig⟩ := declaredNames_field _ hg
  obtain ⟨es, is_⟩ := declaredNames_field _ hs
  obtain ⟨ed, id_⟩ := declaredNames_field _ hd
  unfold unbindDeclared Results.unbindIr DeclaredIr.toSets declared
  simp only [eg, es, ed, unbindList_declared sw _ ig pg, unbindList_declared sw _ is_ ps, unbindList_declared sw _ id_ pd]
  rfl

/-- **one call of an annotated callable**: the caller receives the declaration under the binding
`construct_call_swaps` computes, all names at once. (That this binding is CPython's is C04's theorem
`C04_partial_sharp`.) -/
theorem C11_inline_declared_partial (si : StandIns Str) (f : Iface Str) (call : CallArgs Str)
    (pv : List PyVal) (kv : KwVals) (h : WellFormed pv kv = true) (hp : plainRoots kv = true) :
    (inlineDeclared si f call (declared kv)).1 = some (substDeclared (Swaps.construct si f call).1 kv) :=
  C11_unbind_declared_partial pv kv _ h hp

/-- from the decorator EXPRESSIONS: whatever is accepted is inlined by simultaneous substitution, and result
generation never meets `ValueError("never")` on a declared IR. -/
theorem C11_parse_then_inline_partial (pos : List Lit) (kws : List (Option Str × Lit)) (ir : DeclaredIr)
    (si : StandIns Str) (f : Iface Str) (call : CallArgs Str) (hp : parseResults pos kws = .ok ir) :
    ∃ pv kv, evalArgs pos kws = .ok (pv, kv) ∧
      (plainRoots kv = true →
        (inlineDeclared si f call ir).1 = some (substDeclared (Swaps.construct si f call).1 kv)) := by
  obtain ⟨pv, kv, he, hw, rfl⟩ := C11_declared_exact pos kws ir hp
  exact ⟨pv, kv, he, C11_inline_declared_partial si f call pv kv hw⟩

/-- the full substitution statement: every well-formed declaration is inlined by the property's substitution -/
def C11_subst_full : Prop :=
  ∀ (pv : List PyVal) (kv : KwVals) (sw : Dict Str Str), WellFormed pv kv = true →
    unbindDeclared sw (declared kv) = some (substDeclared sw kv)

/-- **defect** (found by the round-4 substitution stream): a declared name whose root carries `[]` / `()`
directly — `gets={"a[]"}` — gets the basename `a[]` from `as_name`, which is no parameter: the caller of
`f(a)` called as `f(p)` shows `a[]`, not `p[]` (the same access written in a body is renamed). -/
theorem C11_cex_subscripted_root :
    WellFormed [] [(some kGets, .set [.str "a[]".toList, .str "a.x".toList])] = true
    ∧ plainRoots [(some kGets, .set [.str "a[]".toList, .str "a.x".toList])] = false
    ∧ unbindDeclared [("a".toList, "p".toList)] (declared [(some kGets, .set [.str "a[]".toList, .str "a.x".toList])])
        = some { gets := [⟨"a[]".toList, "a[]".toList⟩, ⟨"p.x".toList, "p".toList⟩], sets := [], dels := [] }
    ∧ substDeclared [("a".toList, "p".toList)] [(some kGets, .set [.str "a[]".toList, .str "a.x".toList])]
        = { gets := [⟨"p[]".toList, "p".toList⟩, ⟨"p.x".toList, "p".toList⟩], sets := [], dels := [] } := by decide

theorem C11_subst_full_false : ¬ C11_subst_full := by
  intro h
  have h1 := h [] [(some kGets, .set [.str "a[]".toList, .str "a.x".toList])] [("a".toList, "p".toList)] (by decide)
  rw [C11_cex_subscripted_root.2.2.1] at h1
  exact absurd h1 (by decide)

/-- a declared name whose root is no key of the swaps stays as written -/
theorem C11_unbound_root_unchanged (s : Str) (sw : Dict Str Str)
    (hn : Dict.get? sw (rootOf s) = none) : (substName sw s).base = rootOf s := by
  simp [substName, applyBinding, hn]

def siS : StandIns Str := { tuple := "@Tuple".toList, dict := "@Dict".toList }

def kvTransfer : KwVals :=
  [(some kGets, .set [.str "src.balance".toList, .str "log.level".toList]),
   (some kSets, .set [.str "dst.balance".toList]),
   (some kDels, .set [.str "*src.lock[]".toList])]

def ifaceTransfer : Iface Str :=
  { posonly := [], args := ["src".toList, "dst".toList, "log".toList], vararg := none, kwonly := [], kwarg := none }

/-- test (decide): `transfer(src, dst, log)` called as `transfer(dst, src, journal)` and, shifted, as
`transfer(dst, log, sink)`: the model inlines the simultaneous reading -/
theorem C11_inline_transfer_swapped :
    (inlineDeclared siS ifaceTransfer { args := ["dst".toList, "src".toList, "journal".toList], kwargs := [] }
        (declared kvTransfer)).1
      = some { gets := [⟨"dst.balance".toList, "dst".toList⟩, ⟨"journal.level".toList, "journal".toList⟩],
               sets := [⟨"src.balance".toList, "src".toList⟩],
               dels := [⟨"*dst.lock[]".toList, "dst".toList⟩] }
    ∧ (inlineDeclared siS ifaceTransfer { args := [], kwargs := [("log".toList, "sink".toList), ("dst".toList, "log".toList), ("src".toList, "dst".toList)] }
        (declared kvTransfer)).1
      = some { gets := [⟨"dst.balance".toList, "dst".toList⟩, ⟨"sink.level".toList, "sink".toList⟩],
               sets := [⟨"log.balance".toList, "log".toList⟩],
               dels := [⟨"*dst.lock[]".toList, "dst".toList⟩] } := by decide

/-- the two readings differ exactly on such calls: applying the bindings one after the other collapses the swapped
names onto one variable -/
theorem C11_simultaneous_ne_sequential :
    let b := [("src".toList, "dst".toList), ("dst".toList, "src".toList), ("log".toList, "journal".toList)]
    (["src.balance".toList, "dst.balance".toList].map (fun s => (substName b s).full))
        = ["dst.balance".toList, "src.balance".toList]
    ∧ substSequential b ["src.balance".toList, "dst.balance".toList]
        = ["src.balance".toList, "src.balance".toList] := by decide

/-! ### the full statement, and why it is false on the pinned tree -/

/-- C11 in full: (i) every callable that is ignored or excluded is skipped; (iii) parsing a
`rattr_results` annotation never raises. ((ii) holds: `C11_declared_exact`.) -/
def C11_full : Prop :=
  (∀ c : Callable, allNamed c.decos = true → expectedEntry c.decos c.verdicts = false →
      decisionOf c = .ok .skip)
  ∧ (∀ pos kws, (parseResults pos kws).isCrash = false)

private def sA : Str := ['a']
private def sB : Str := ['b']
private def sF : Str := ['f']
private def sK : Str := ['k']
private def dNamed (n : Str) : Deco := { head := .named n, call := none }

/-- `@rattr_results(calls=[("f", (["a"], ["b"]))])` → `AttributeError` (DESIGN C07-K7) -/
theorem C11_cex_kwargs_not_a_dict :
    parseResults [] [(some kCalls, .list [.tuple [.str sF, .tuple [.list [.str sA], .list [.str sB]]]])]
      = .crash .noItemsAttr := by decide

/-- `@rattr_results(gets={["a"]})` → `TypeError: unhashable type: 'list'` -/
theorem C11_cex_unhashable_set_element :
    parseResults [] [(some kGets, .set [.list [.str sA]])] = .crash .unhashable := by decide

/-- `@rattr_results(calls=[("f", (["a"], {["k"]: "a"}))])` → `TypeError: unhashable type: 'list'` -/
theorem C11_cex_unhashable_dict_key :
    parseResults [] [(some kCalls, .list [.tuple [.str sF, .tuple [.list [.str sA],
        .dict [(.list [.str sK], .str sA)]]]])] = .crash .unhashable := by decide

/-- [interp] `@rattr_results(gets=None)` — the decorator's own default — is a fatal -/
theorem C11_cex_gets_none :
    parseResults [] [(some kGets, .nameConst .none)] = .fatal (.expectsSetOfNames kGets) := by decide

/-- `-x 'C\.sm'`: the static method is analysed although the spec expects no entry -/
theorem C11_cex_static_excluded :
    decisionOf { name := "C.sm".toList, kind := .static [] [false], decos := [], verdicts := [true] }
      = .ok .analyse ∧ expectedEntry [] [true] = false := by decide

/-- `@staticmethod @rattr_ignore def sm`: analysed -/
theorem C11_cex_static_ignored :
    decisionOf { name := "C.sm".toList, kind := .static [] [], decos := [dNamed nIgnore], verdicts := [] }
      = .ok .analyse ∧ expectedEntry [dNamed nIgnore] [] = false := by decide

/-- `@staticmethod @rattr_results(gets=None) def sm`: the (even ill-formed) annotation is never parsed -/
theorem C11_cex_static_results :
    decisionOf { name := "C.sm".toList, kind := .static [] [],
                 decos := [{ head := .named nResults, call := some ([], [(some kGets, .nameConst .none)]) }],
                 verdicts := [] } = .ok .analyse := by decide

/-- `-x tl` with `tl = lambda z: …`: analysed -/
theorem C11_cex_lambda_excluded :
    decisionOf { name := "tl".toList, kind := .lam, decos := [], verdicts := [true] } = .ok .analyse
      ∧ expectedEntry [] [true] = false := by decide

/-- resolution does re-check exclusions for function targets: the excluded static method / lambda
is in the IR but never inlined -/
theorem C11_excluded_never_inlined (ks : List Str) (t : Str) : inlined ks t true true = false := rfl

theorem C11_full_false : ¬ C11_full := by
  intro h
  have := h.1 { name := "C.sm".toList, kind := .static [] [false], decos := [], verdicts := [true] }
    (by decide) (by decide)
  rw [C11_cex_static_excluded.1] at this
  cases this

/-- the second conjunct fails too -/
theorem C11_full_false_crash : ¬ (∀ pos kws, (parseResults pos kws).isCrash = false) := by
  intro h
  have := h [] [(some kGets, .set [.list [.str sA]])]
  rw [C11_cex_unhashable_set_element] at this
  cases this

/-! ### non-vacuity: the hypotheses of the theorems are met by non-trivial inputs -/

/-- a full, well-formed annotation: accepted with the declared IR (names with `*`, `.`, `[]`, a
call with positional and keyword arguments, a call name written with `()`) -/
example :
    parseResults []
      [(some kGets, .set [.str "a.x".toList, .str "*b".toList]),
       (some kCalls, .list [.tuple [.str "f()".toList, .tuple [.list [.str sA], .dict [(.str sK, .str "b.y[]".toList)]]]])]
    = .ok { gets := [⟨"a.x".toList, sA⟩, ⟨"*b".toList, sB⟩], sets := [], dels := [],
            calls := [{ name := sF, args := [sA], kwargs := [(sK, "b.y[]".toList)] }] } := by decide

/-- `C11_malformed_fatal_partial` applies: evaluable, ill-formed, no crash shape -/
example : evalArgs [] [(some kGets, .list [.str sA])] = .ok ([], [(some kGets, .list [.str sA])])
    ∧ WellFormed [] [(some kGets, PyVal.list [.str sA])] = false
    ∧ NoCrashShape [(some kGets, PyVal.list [.str sA])] = true
    ∧ parseResults [] [(some kGets, .list [.str sA])] = .fatal (.expectsSetOfNames kGets) := by
  refine ⟨rfl, by decide, by decide, by decide⟩

/-- `C11_unevaluable_fatal_partial` applies (`gets=set()`), -/
example : parseResults [] [(some kGets, .other)] = .fatal .likelyMissingComma := by decide

/-- positional arguments, unknown keywords, `**{…}`: fatal -/
example : parseResults [.set [.str sA]] [] = .fatal .positionalArgs
    ∧ parseResults [] [(some "foo".toList, .set [.str sA])] = .fatal .unexpectedKeywords
    ∧ parseResults [] [(none, .dict [(.str kGets, .set [.str sA])])] = .fatal .unexpectedKeywords := by decide

/-- a later duplicate key of the keyword dict shadows the earlier one, as in Python:
`{"k": 3, "k": "a"}` is a valid keyword map -/
example :
    parseResults [] [(some kCalls, .list [.tuple [.str sF, .tuple [.list [],
        .dict [(.str sK, .num ['3']), (.str sK, .str sA)]]]])]
    = .ok { gets := [], sets := [], dels := [], calls := [{ name := sF, args := [], kwargs := [(sK, sA)] }] } := by
  decide

/-- decisions: ignored (also attribute-qualified / called: same `get_attrname`), excluded,
annotated, duplicated annotation, un-nameable decorator before / after `rattr_ignore` -/
example : fileDecision [dNamed "other".toList, dNamed nIgnore] [] = .ok .skip
    ∧ fileDecision [] [false, true] = .ok .skip
    ∧ fileDecision [dNamed nResults] [false] = .ok (.declared ⟨[], [], [], []⟩)
    ∧ fileDecision [dNamed nResults, dNamed nResults] [] = .fatal .duplicatedAnnotation
    ∧ fileDecision [dNamed nIgnore, { head := .bad, call := none }] [] = .ok .skip
    ∧ fileDecision [{ head := .bad, call := none }, dNamed nIgnore] [] = .crash .decoratorShape
    ∧ fileDecision [dNamed "x".toList] [false] = .ok .analyse := by decide

/-- `C11_skip_no_entry` on a three-callable file: only the un-skipped one has a key -/
example :
    irKeys [{ name := sA, kind := .func, decos := [dNamed nIgnore], verdicts := [] },
            { name := sB, kind := .func, decos := [], verdicts := [true] },
            { name := sF, kind := .func, decos := [], verdicts := [false] }] = .ok [sF] := by decide

/-! ### (i′) the exclusion verdicts themselves: `Pattern.fullmatch`, modelled (round 5)

`fileDecision ds verdicts` above takes the per-pattern verdicts as given. `RattrModel/Regex.lean`
models where they come from — `is_excluded_name` = `any(p.fullmatch(name) …)` over the compiled
`--exclude` patterns — as a derivative matcher on the regular fragment of `re`; the lemmas in
`Lemmas/C11Regex.lean` prove it decides the LANGUAGE of the pattern (`Regex.Matches`, the
documentation's reading of a pattern), for every pattern and every name. -/

/-- Tie A: `is_excluded_name` is one `any(... fullmatch ...)` over `re_excluded_names`, compiled with no
flag but `re.UNICODE` -/
theorem tieA_is_excluded_name_body :
    Generated.C11.isExcludedNameBody =
      ["config = Config()",
       "return any((pattern.fullmatch(name) is not None for pattern in config.arguments.re_excluded_names))"] := by
  decide

theorem tieA_excluded_pattern_flags : Generated.C11.excludedPatternFlags = 32 := by decide

/-- the model of `Pattern.fullmatch` is language membership: **all** patterns of the fragment, **all** names -/
theorem C11_fullmatch_is_membership (r : Regex.Re) (name : Str) :
    Regex.fullmatch r name = true ↔ Regex.Matches r name := Regex.fullmatch_iff r name

/-- `is_excluded_name(name)` ⇔ the name is in the language of some `--exclude` pattern -/
theorem C11_is_excluded_name_iff (pats : List Regex.Re) (name : Str) :
    Regex.isExcludedName pats name = true ↔ ∃ p ∈ pats, Regex.Matches p name :=
  Regex.isExcludedName_iff pats name

/-- **excluded ⇒ skipped, from the patterns**: a module-level def / class whose name is in the language of
some exclusion pattern gets no IR entry (with `C11_skip_no_entry`), whatever else decorates it -/
theorem C11_excluded_by_pattern_skipped (ds : List Deco) (pats : List Regex.Re) (name : Str)
    (hn : allNamed ds = true) (hx : ∃ p ∈ pats, Regex.Matches p name) :
    fileDecision ds (Regex.verdicts pats name) = .ok .skip
      ∧ classDecision ds (Regex.verdicts pats name) = .ok .skip := by
  have hv : (Regex.verdicts pats name).any id = true := by
    rw [Regex.verdicts_any]; exact (Regex.isExcludedName_iff pats name).2 hx
  have he : expectedEntry ds (Regex.verdicts pats name) = false := by
    simp [expectedEntry, hv]
  exact C11_expected_entry ds _ hn he

/-- **only a FULL match excludes**: an unmarked def whose name is in the language of no pattern is analysed —
in particular a name that merely starts with, or contains, a match (`C11_prefix_match_is_not_full`) -/
theorem C11_not_excluded_by_pattern_analysed (pats : List Regex.Re) (name : Str)
    (hx : ¬ ∃ p ∈ pats, Regex.Matches p name) :
    fileDecision [] (Regex.verdicts pats name) = .ok .analyse := by
  have hv : (Regex.verdicts pats name).any id = false := by
    rw [Regex.verdicts_any]
    cases h : Regex.isExcludedName pats name with
    | false => rfl
    | true => exact absurd ((Regex.isExcludedName_iff pats name).1 h) hx
  simp [fileDecision, hasAnnotation, isExcluded, hv]

/-- `Pattern.match` (a prefix match) is what a full match must not be replaced by: it accepts every full match … -/
theorem C11_full_match_is_a_prefix_match (r : Regex.Re) (name : Str)
    (h : Regex.fullmatch r name = true) : Regex.prefixmatch r name = true ∧ Regex.searchmatch r name = true :=
  ⟨Regex.fullmatch_imp_prefixmatch r name h,
   Regex.prefixmatch_imp_searchmatch r name (Regex.fullmatch_imp_prefixmatch r name h)⟩

/-- … and strictly more: `-x get` must not exclude `get_all`, and `-x all` must not exclude `get_all`
(witnesses by `decide`; the general statements are `Regex.prefixmatch_iff` / `C11_fullmatch_is_membership`) -/
theorem C11_prefix_match_is_not_full :
    Regex.prefixmatch (Regex.Re.ofStr "get".toList) "get_all".toList = true
      ∧ Regex.fullmatch (Regex.Re.ofStr "get".toList) "get_all".toList = false
      ∧ Regex.searchmatch (Regex.Re.ofStr "all".toList) "get_all".toList = true
      ∧ Regex.prefixmatch (Regex.Re.ofStr "all".toList) "get_all".toList = false := by decide

/-- what the two weaker questions ask, for every pattern and name: `match` = some PREFIX of the name is in the language,
`search` = some INFIX is — a replacement of `fullmatch` by either excludes every name that merely starts with / contains
an excluded one -/
theorem C11_prefix_and_search_semantics (r : Regex.Re) (name : Str) :
    (Regex.prefixmatch r name = true ↔ ∃ p t, name = p ++ t ∧ Regex.Matches r p)
      ∧ (Regex.searchmatch r name = true ↔ ∃ a p t, name = a ++ p ++ t ∧ Regex.Matches r p) :=
  ⟨Regex.prefixmatch_iff r name, Regex.searchmatch_iff r name⟩

/-- a literal pattern excludes exactly the callable of that name -/
theorem C11_literal_pattern_excludes_only_that_name (p name : Str) :
    Regex.fullmatch (Regex.Re.ofStr p) name = true ↔ name = p := by
  rw [Regex.fullmatch_iff]; exact Regex.matches_ofStr p name

/-- non-vacuity: `-x '_.*' -x 'C\.sm'` on `_helper` (excluded), `helper_` (not), `C.sm` (excluded), `CXsm` (not: the
dot is escaped) -/
example :
    let pats : List Regex.Re :=
      [.cat (.cls (.lit '_')) (.star (.cls .any)),
       Regex.Re.ofStr "C.sm".toList]
    Regex.verdicts pats "_helper".toList = [true, false]
      ∧ Regex.verdicts pats "helper_".toList = [false, false]
      ∧ Regex.verdicts pats "C.sm".toList = [false, true]
      ∧ Regex.verdicts pats "CXsm".toList = [false, false]
      ∧ fileDecision [] (Regex.verdicts pats "_helper".toList) = .ok .skip
      ∧ fileDecision [] (Regex.verdicts pats "helper_".toList) = .ok .analyse := by decide

end Rattr.C11

/-
  C18 — serialised output is canonical JSON and round-trips.

  Model: `RattrModel/Serialise.lean` (`un*` = the registered unstructure hooks, `st*` = the
  structure hooks, on `JVal`); Python sets are lists in iteration order, `sorted(…, key=…)` is the
  stable insertion sort `sortBy` on that key, dicts are insertion-ordered key lists.

  [interp] "canonical" = the document is invariant under every permutation of every set's
  iteration order and of every hook-sorted dict's insertion order. "round-trips" = `structure ∘
  unstructure` returns an object that is equal *as Python compares* (sets up to order; the model
  is stricter on symbols: it also demands equal locations), and unstructuring that object again
  gives the same document.

  Since a47e117 the file-IR hook sorts the members of each set on the pair
  `(s["name"], json.dumps(s, sort_keys=True))`: the former tie counterexample is now the positive
  `C18_ties_resolved`, and `C18_ir_canonical` needs no hypothesis on names and NO assumption on json:
  the model's printer is PROVED injective on every JSON value (`C18_json_printer_injective`,
  prefix-free form `C18_json_printer_prefix_free`; lemmas in `Lemmas/C18Json.lean`), `sort_keys=True`
  is proved to forget exactly the order of a `Call`'s keyword arguments (`symKey_separates`), and
  Python's `==` ignores that order too (`kwargs` is a `frozendict`; `Symbol.pyEq`), so the sort key
  separates the members of every Python set (`sortKeyInj_of_isSet`). The remaining hypothesis is the
  data-type invariant "the list stands for a set" (`IsSet`: no two members `==`);
  `C18_cex_kwargs_order` shows it cannot be dropped for plain lists. The abstract condition
  `SortKeyInj` survives only in the `…_of_sortKeyInj` general forms (and as a redundant evaluation in
  the driver). Scope of the printer theorem: model strings are lists of Unicode scalar values (Lean
  `Char`); a Python `str` holding two LONE surrogates is outside it (real `json.dumps` prints
  `chr(0xd83d)+chr(0xde00)` and `chr(0x1f600)` alike, with `ensure_ascii`) — identifiers cannot
  contain them; only a string literal with lone-surrogate escapes used as a dynamic attribute name
  (`getattr(a, "\\ud83d\\ude00")`) could bring one in, and the final document is printed by the same
  `json.dumps`, which prints the two alike as well.

  The ORDER of `import_irs` in the `-o ir` document (no hook sorts that dict) is modelled since the
  import BFS is in the model (`RattrModel/IrDocument.lean` on top of `RattrModel/Imports.lean`): the
  keys of the `"import_irs"` object are the BFS analysis order (`C18_importirs_in_bfs_order`), the whole
  document of a run is a function of the module graph with import lists in symbol-table order and of
  the file IRs as Python objects (`C18_irdocument_canonical`), and it is NOT a function of the graph
  with import SETS (`C18_ir_document_order_free_false`; smallest witness: an imported module importing
  two followed modules) — the code is right only because every level of the queue is fed from the
  ordered `symbol_table.symbols` (`tieA_import_queue`, and Tie B op `ir_document` under several hash
  seeds). The cache document's `imports` list is sorted on `filepath`, hence independent of the BFS
  order and of set iteration (`C18_cache_imports_canonical`, `…_bfs_order_free`, `…_sorted`).

  Full statement `C18_full` is NOT a theorem (`C18_full_false`):
    * `C18_cex_symtab_order`  the context hook emits `symbol_table` in insertion order (the
                              hash-order insertion of star-import expansions was fixed upstream in
                              b3940ea; the hook's order sensitivity remains a fact);
    * `C18_cex_dup_id`        two keys of one FileIr with the same id collapse (known finding,
                              synthesised objects only).
  Every other conjunct of `C18_full` is a theorem (`C18_full_but_symtab`).
  Proved for all objects, no size bound: results documents are canonical; IR documents are
  canonical when the dict keys have distinct names and the member lists are sets; the sort-key
  document is one line of printable ASCII (`C18_dumps_ascii`); symbols, function IRs, contexts, whole
  file IRs, results and cacheable results round-trip; re-serialisation is
  idempotent. (A further known finding, the location a set member carries after result generation,
  arises before serialisation — stage S6 — and has no counterpart in this model, whose input is
  the object to serialise.)
-/
import RattrModel.Serialise
import RattrModel.IrDocument
import RattrModel.Generated.C18
import RattrProofs.Lemmas.C18
import RattrProofs.Lemmas.C18Json
import RattrProofs.Lemmas.C18Imports

namespace Rattr.C18
open Rattr Rattr.Ser Rattr.C18L Rattr.C18J

/-! ### Tie A: the constants the model hard-codes are what the source says now -/

theorem tieA_tags :
    Generated.C18.symbolTags.map str = [tagName, tagBuiltin, tagImport, tagFunc, tagClass, tagCall]
    ∧ str Generated.C18.anySentinel = anySentinel := by decide

theorem tieA_symbol_fields :
    Generated.C18.fieldsName.map str = fieldsName
    ∧ Generated.C18.fieldsBuiltin.map str = fieldsBuiltin
    ∧ Generated.C18.fieldsImport.map str = fieldsImport
    ∧ Generated.C18.fieldsFunc.map str = fieldsFunc
    ∧ Generated.C18.fieldsClass.map str = fieldsClass
    ∧ Generated.C18.fieldsCall.map str = fieldsCall
    ∧ Generated.C18.fieldsLocation.map str = fieldsLocation
    ∧ Generated.C18.fieldsIface.map str = fieldsIface
    ∧ Generated.C18.fieldsCallArgs.map str = fieldsCallArgs := by decide

theorem tieA_container_fields :
    Generated.C18.fieldsFileIr.map str = fieldsFileIr
    ∧ Generated.C18.fieldsContext.map str = fieldsContext
    ∧ Generated.C18.fieldsFnIr.map str = fieldsFnIr
    ∧ Generated.C18.fieldsOutputIrs.map str = fieldsOutputIrs
    ∧ Generated.C18.fieldsTargetIr.map str = fieldsTargetIr
    ∧ Generated.C18.fieldsFnResults.map str = fieldsFnIr
    ∧ Generated.C18.fieldsCacheable.map str = fieldsCacheable
    ∧ Generated.C18.fieldsImportInfo.map str = fieldsImportInfo := by decide

/-- Every `sorted(` of the helpers, in source order: the results hook sorts its four sets and its
keys naturally; the file-IR hook sorts its keys naturally (`Symbol.__lt__` compares `name`) and
its four unstructured sets on the pair `(s["name"], json.dumps(s, sort_keys=True))` (a47e117) —
exactly where `sortBy` occurs in the model, with `irKey` as the key. -/
theorem tieA_sorted_calls :
    Generated.C18.sortedCalls =
      [("serialise_file_results", "values/natural"), ("serialise_file_results", "values/natural"),
       ("serialise_file_results", "values/natural"), ("serialise_file_results", "values/natural"),
       ("serialise_file_results", "keys/natural"),
       ("serialise_file_ir", "keys/natural"),
       ("serialise_file_ir", "unstructured/tuple:item:name|call:json.dumps(s;sort_keys=True)"),
       ("serialise_file_ir", "unstructured/tuple:item:name|call:json.dumps(s;sort_keys=True)"),
       ("serialise_file_ir", "unstructured/tuple:item:name|call:json.dumps(s;sort_keys=True)"),
       ("serialise_file_ir", "unstructured/tuple:item:name|call:json.dumps(s;sort_keys=True)"),
       ("serialise_file_ir", "keys/natural")]
    ∧ Generated.C18.symbolLtCompares = "name<name"
    ∧ str "name" = irSortKey
    ∧ Generated.C18.cacheImportsSorted = [("make_cacheable_import_info", "values/attr:filepath")] := by
  decide

/-- What `json.dumps(·, sort_keys=True)` prints for a probe value (separators `", "`/`": "`, keys
sorted at every level, ASCII escapes) is what the model's `dumpSorted` computes for it. -/
theorem tieA_dumps_probe :
    str Generated.C18.dumpsProbe =
      dumpSorted (.obj [(str "b", .arr [.num 1, .str (str "x\"y"), .null, .bool true]),
                        (str "a", .obj [(str "d", .num (-2)), (str "c", .str (str "é"))])]) := by
  decide

/-! ### Sets as lists: the equivalences the statements quantify over -/

def FnSetEq (a b : FnResults) : Prop :=
  a.gets.Perm b.gets ∧ a.sets.Perm b.sets ∧ a.dels.Perm b.dels ∧ a.calls.Perm b.calls

/-- Two `FileResults` that are the same mapping function ↦ four sets: the entries of one are a
permutation of the other's, and corresponding sets are permutations. -/
def ResultsSetEq (r₁ r₂ : FileResults) : Prop :=
  ∃ r, r.Perm r₁ ∧ Forall2 (fun p q => p.1 = q.1 ∧ FnSetEq p.2 q.2) r r₂

def FnIrSetEq (a b : FunctionIr) : Prop :=
  a.gets.Perm b.gets ∧ a.sets.Perm b.sets ∧ a.dels.Perm b.dels ∧ a.calls.Perm b.calls

def FileIrSetEq (f₁ f₂ : FileIr) : Prop :=
  unContext f₁.context = unContext f₂.context ∧
  ∃ es, es.Perm f₁.fileIr ∧ Forall2 (fun p q => p.1 = q.1 ∧ FnIrSetEq p.2 q.2) es f₂.fileIr

/-- The key the file-IR hook sorts an unstructured member on. -/
def symKey (s : Symbol) : Str × Str := irKey (unSymbol s)

/-- The sort key separates distinct members: two members with the same
`(name, json.dumps(·, sort_keys=True))` have the same document. PROVED of every list that stands
for a Python set (`sortKeyInj_of_isSet`) and of every list without reordered keyword arguments
(`sortKeyInj_of_kwOrderFixed`); decidable, and still evaluated by the driver as a cross-check. -/
def SortKeyInj (l : List Symbol) : Prop :=
  ∀ a b, a ∈ l → b ∈ l → symKey a = symKey b → unSymbol a = unSymbol b

/-- The stronger condition the pre-a47e117 hook needed: `name` alone separates the members. -/
def NamesDistinct (l : List Symbol) : Prop := ∀ a b, a ∈ l → b ∈ l → a.nm = b.nm → a = b

def FnIrSortKeyInj (ir : FunctionIr) : Prop :=
  SortKeyInj ir.gets ∧ SortKeyInj ir.sets ∧ SortKeyInj ir.dels ∧ SortKeyInj ir.calls

/-- Keys of the `_file_ir` dict have pairwise different names (they come from a context lookup by
id), and the sort key separates the members of every set (the second part follows from
`FileIrSets`: `fileIrSortKeyInj_of_sets`). -/
def FileIrSortKeyInj (f : FileIr) : Prop :=
  (∀ p q, p ∈ f.fileIr → q ∈ f.fileIr → p.1.nm = q.1.nm → p = q) ∧
  ∀ p, p ∈ f.fileIr → FnIrSortKeyInj p.2

/-! ### Canonical form: results (full) -/

theorem sortStr_perm {a b : List Str} (h : a.Perm b) : sortStr a = sortStr b :=
  sortBy_perm_eq strLe id strLe_order h (fun _ _ _ _ e => e)

theorem unFnResults_setEq {a b : FnResults} (h : FnSetEq a b) : unFnResults a = unFnResults b := by
  unfold unFnResults
  rw [sortStr_perm h.1, sortStr_perm h.2.1, sortStr_perm h.2.2.1, sortStr_perm h.2.2.2]

/-- C18 (canonical, results): the results document is a function of the mapping
function ↦ sets alone — any permutation of the dict's insertion order and of every set's
iteration order gives the same document. (`Nodup` keys: it is a dict.) -/
theorem C18_results_canonical (r₁ r₂ : FileResults) (hk : (r₁.map Prod.fst).Nodup)
    (h : ResultsSetEq r₁ r₂) : unFileResults r₁ = unFileResults r₂ := by
  obtain ⟨r, hp, hf⟩ := h
  unfold unFileResults
  have e1 : sortBy strLe (fun p : Str × FnResults => p.1) r₁ = sortBy strLe (fun p => p.1) r := by
    apply sortBy_perm_eq strLe _ strLe_order hp.symm
    intro a b ha hb hab
    exact inj_of_nodup_map Prod.fst hk a b ha hb hab
  rw [e1]
  congr 1
  apply map_eq_of_forall₂ (R := fun p q => p.1 = q.1 ∧ FnSetEq p.2 q.2)
  · intro a c hac
    rw [hac.1, unFnResults_setEq hac.2]
  · exact sortBy_forall₂ strLe _ _ _ (fun a c hac => hac.1) hf

/-! ### Canonical form: IR (partial) and the tie counterexample -/

theorem jName_unSymbol (s : Symbol) : jName (unSymbol s) = s.nm := by
  cases s with
  | base t => cases t <;> rfl
  | call n a t l => rfl

theorem unSymbolSet_eq (l : List Symbol) :
    unSymbolSet l = .arr ((sortBy pairLe symKey l).map unSymbol) := by
  unfold unSymbolSet
  rw [sortBy_map]
  rfl

theorem sortKeyInj_of_namesDistinct {l : List Symbol} (h : NamesDistinct l) : SortKeyInj l := by
  intro a b ha hb hk
  have hn : a.nm = b.nm := by
    have := congrArg Prod.fst hk
    simpa [symKey, irKey, jName_unSymbol] using this
  rw [h a b ha hb hn]

/-- The driver's Boolean check is the hypothesis of the theorems. -/
theorem sortKeyInjB_iff (l : List Symbol) : sortKeyInjB l = true ↔ SortKeyInj l := by
  unfold sortKeyInjB SortKeyInj symKey
  simp only [List.all_eq_true, Bool.or_eq_true, Bool.not_eq_true', decide_eq_false_iff_not, decide_eq_true_eq]
  constructor
  · intro h a b ha hb hk
    rcases h a ha b hb with h' | h'
    · exact absurd hk h'
    · exact h'
  · intro h a ha b hb
    by_cases hk : irKey (unSymbol a) = irKey (unSymbol b)
    · exact Or.inr (h a b ha hb hk)
    · exact Or.inl hk

/-! ### The sort key separates the members of a set: proved, not assumed

`json.dumps` is injective; `sort_keys=True` forgets only the order of a `Call`'s keyword arguments
(every other object of a symbol document has a fixed key set); and Python's `==` ignores that order
too (`frozendict`). So two members of a Python set never share a sort key. -/

theorem Target.pyEq_comm (a b : Target) : a.pyEq b = b.pyEq a := by
  cases a <;> cases b <;> simp only [Target.pyEq] <;>
    (apply Bool.eq_iff_iff.mpr; simp only [Bool.and_eq_true, beq_iff_eq]; constructor <;> (intro h; simp_all))

theorem callArgsPyEq_comm (a b : CallArgs Str) : callArgsPyEq a b = callArgsPyEq b a := by
  unfold callArgsPyEq
  apply Bool.eq_iff_iff.mpr
  simp only [Bool.and_eq_true, beq_iff_eq, List.isPerm_iff]
  constructor <;> (intro h; exact ⟨h.1.symm, h.2.symm⟩)

theorem Symbol.pyEq_comm (a b : Symbol) : a.pyEq b = b.pyEq a := by
  cases a <;> cases b <;> simp only [Symbol.pyEq]
  · exact Target.pyEq_comm _ _
  · rename_i n a t l n' a' t' l'
    have ht : optPyEq t t' = optPyEq t' t := by
      cases t <;> cases t' <;> simp only [optPyEq]
      exact Target.pyEq_comm _ _
    rw [ht, callArgsPyEq_comm a a']
    apply Bool.eq_iff_iff.mpr
    simp only [Bool.and_eq_true, beq_iff_eq]
    constructor <;> (intro h; simp_all)

/-- A list that stands for a Python set: no two members are `==`. -/
def IsSet (l : List Symbol) : Prop := l.Pairwise (fun a b => Symbol.pyEq a b = false)

def FnIrIsSet (ir : FunctionIr) : Prop := IsSet ir.gets ∧ IsSet ir.sets ∧ IsSet ir.dels ∧ IsSet ir.calls

/-- Keys of the `_file_ir` dict have distinct names (the analyser's invariant: keys come from a
context lookup by id). -/
def KeysDistinct (f : FileIr) : Prop :=
  ∀ p q, p ∈ f.fileIr → q ∈ f.fileIr → p.1.nm = q.1.nm → p = q

/-- The driver's Boolean check is the hypothesis of the theorems. -/
theorem isSetB_iff : ∀ l : List Symbol, isSetB l = true ↔ IsSet l
  | [] => by simp [isSetB, IsSet]
  | a :: r => by
    have ih := isSetB_iff r
    unfold IsSet at ih ⊢
    simp only [isSetB, Bool.and_eq_true, List.all_eq_true, Bool.not_eq_true', List.pairwise_cons, ih]

/-- Every member list of every function IR of the file is a set. -/
def FileIrSets (f : FileIr) : Prop := ∀ p, p ∈ f.fileIr → FnIrIsSet p.2

/-- The model's `json.dumps` (default separators, `ensure_ascii`, keys in stored order) is injective
on EVERY JSON value: strings are uniquely decodable (quote, backslash, short escapes, `\uXXXX`,
surrogate pairs), numerals are delimited, the first character fixes the constructor. -/
theorem C18_json_printer_injective (a b : JVal) (h : JVal.renderSp a = JVal.renderSp b) : a = b :=
  renderSp_injective h

/-- The printer is prefix-free: a printed value followed by anything that does not start with a
digit can be read back in one way only. -/
theorem C18_json_printer_prefix_free (a b : JVal) (r₁ r₂ : Str) (h₁ : NDH r₁) (h₂ : NDH r₂)
    (h : JVal.renderSp a ++ r₁ = JVal.renderSp b ++ r₂) : a = b ∧ r₁ = r₂ :=
  renderSp_inj a b r₁ r₂ h₁ h₂ h

/-- `json.dumps(·, sort_keys=True)` is injective up to the key order it erases. -/
theorem C18_dumps_sorted_injective (a b : JVal) (h : dumpSorted a = dumpSorted b) :
    canon a = canon b :=
  renderSp_injective h

/-- The printed document is printable ASCII: one line, no raw newline or control character, nothing
outside `' '..'~'` (`ensure_ascii`). -/
theorem C18_dumps_ascii (j : JVal) : ∀ c, c ∈ dumpSorted j → 32 ≤ c.toNat ∧ c.toNat ≤ 126 :=
  renderSp_ascii (canon j)

theorem C18_dumps_one_line (j : JVal) : '\n' ∉ dumpSorted j := by
  intro h
  have := (C18_dumps_ascii j _ h).1
  revert this
  decide

/-- Two symbols with one sort key agree on every field (locations included), except possibly on
the ORDER of a `Call`'s keyword arguments. For ALL symbols. -/
theorem symKey_separates (a b : Symbol) (h : symKey a = symKey b) : SymEqModKw a b :=
  dumpSorted_unSymbol_inj (congrArg Prod.snd h)

/-- … hence they are `==` in Python. -/
theorem pyEq_of_symKey_eq (a b : Symbol) (h : symKey a = symKey b) : a.pyEq b = true :=
  pyEq_of_symEqModKw (symKey_separates a b h)

/-- `SortKeyInj` holds of EVERY Python set of symbols. -/
theorem sortKeyInj_of_isSet {l : List Symbol} (h : IsSet l) : SortKeyInj l := by
  intro a b ha hb hk
  by_cases hab : a = b
  · rw [hab]
  · have hne := pairwise_mem (R := fun a b => Symbol.pyEq a b = false)
      (fun a b h => by rw [Symbol.pyEq_comm]; exact h) h a b ha hb hab
    rw [pyEq_of_symKey_eq a b hk] at hne
    cases hne

/-- The weakest condition on a plain list: no two members carry the same keyword arguments in two
different orders. -/
def KwOrderFixed (l : List Symbol) : Prop :=
  ∀ a b, a ∈ l → b ∈ l → (symKwargs a).Perm (symKwargs b) → symKwargs a = symKwargs b

theorem sortKeyInj_of_kwOrderFixed {l : List Symbol} (h : KwOrderFixed l) : SortKeyInj l := by
  intro a b ha hb hk
  have hm := symKey_separates a b hk
  rw [eq_of_symEqModKw hm (h a b ha hb (symEqModKw_perm hm))]

/-- In particular `SortKeyInj` holds of EVERY list (set or not) whose calls have at most one
keyword argument each. -/
theorem sortKeyInj_of_kwargs_le_one {l : List Symbol}
    (h : ∀ s, s ∈ l → (symKwargs s).length ≤ 1) : SortKeyInj l := by
  apply sortKeyInj_of_kwOrderFixed
  intro a b ha hb hp
  have h1 := h a ha
  have h2 := h b hb
  match hx : symKwargs a, hy : symKwargs b with
  | [], [] => rfl
  | [], _ :: _ => rw [hx, hy] at hp; exact absurd hp.length_eq (by simp)
  | _ :: _, [] => rw [hx, hy] at hp; exact absurd hp.length_eq (by simp)
  | [x], [y] =>
    rw [hx, hy] at hp
    rw [List.singleton_perm_singleton.mp hp]
  | _ :: _ :: _, _ => rw [hx] at h1; simp at h1
  | _, _ :: _ :: _ => rw [hy] at h2; simp at h2

theorem fnIrSortKeyInj_of_isSet {ir : FunctionIr} (h : FnIrIsSet ir) : FnIrSortKeyInj ir :=
  ⟨sortKeyInj_of_isSet h.1, sortKeyInj_of_isSet h.2.1, sortKeyInj_of_isSet h.2.2.1,
    sortKeyInj_of_isSet h.2.2.2⟩

theorem fileIrSortKeyInj_of_sets {f : FileIr} (hk : KeysDistinct f) (hs : FileIrSets f) :
    FileIrSortKeyInj f :=
  ⟨hk, fun p hp => fnIrSortKeyInj_of_isSet (hs p hp)⟩

theorem unSymbolSet_perm {a b : List Symbol} (h : a.Perm b) (hd : SortKeyInj a) :
    unSymbolSet a = unSymbolSet b := by
  unfold unSymbolSet
  congr 1
  apply sortBy_perm_eq pairLe irKey pairLe_order (h.map unSymbol)
  intro x y hx hy hxy
  obtain ⟨a', ha', rfl⟩ := List.mem_map.mp hx
  obtain ⟨b', hb', rfl⟩ := List.mem_map.mp hy
  exact hd a' b' ha' hb' hxy

theorem unFnIr_setEq {a b : FunctionIr} (h : FnIrSetEq a b) (hd : FnIrSortKeyInj a) :
    unFnIr a = unFnIr b := by
  unfold unFnIr
  rw [unSymbolSet_perm h.1 hd.1, unSymbolSet_perm h.2.1 hd.2.1, unSymbolSet_perm h.2.2.1 hd.2.2.1,
    unSymbolSet_perm h.2.2.2 hd.2.2.2]

/-- The general form, under the abstract condition that the sort key separates the members of each
list (`FileIrSortKeyInj`); `C18_ir_canonical` below discharges that condition for sets. -/
theorem C18_ir_canonical_of_sortKeyInj (f₁ f₂ : FileIr) (hd : FileIrSortKeyInj f₁)
    (h : FileIrSetEq f₁ f₂) : unFileIr f₁ = unFileIr f₂ := by
  obtain ⟨hc, es, hp, hf⟩ := h
  unfold unFileIr sortedEntries
  have e1 : sortBy strLe (fun p : Symbol × FunctionIr => p.1.nm) f₁.fileIr
      = sortBy strLe (fun p => p.1.nm) es :=
    sortBy_perm_eq strLe _ strLe_order hp.symm hd.1
  have hf' := forall₂_and_left (P := fun p : Symbol × FunctionIr => FnIrSortKeyInj p.2) hf
    (fun a ha => hd.2 a (hp.mem_iff.mp ha))
  have hs := sortBy_forall₂ strLe (fun p : Symbol × FunctionIr => p.1.nm) (fun p => p.1.nm) _
    (fun (a c : Symbol × FunctionIr) (hac : (a.1 = c.1 ∧ FnIrSetEq a.2 c.2) ∧ FnIrSortKeyInj a.2) => by
      rw [hac.1.1]) hf'
  rw [hc, e1]
  simp only
  have m1 := map_eq_of_forall₂ (f := fun p : Symbol × FunctionIr => (p.1.id, unSymbol p.1))
    (g := fun p : Symbol × FunctionIr => (p.1.id, unSymbol p.1))
    (fun a c hac => by rw [hac.1.1]) hs
  have m2 := map_eq_of_forall₂ (f := fun p : Symbol × FunctionIr => (p.1.id, unFnIr p.2))
    (g := fun p : Symbol × FunctionIr => (p.1.id, unFnIr p.2))
    (fun a c hac => by rw [hac.1.1, unFnIr_setEq hac.1.2 hac.2]) hs
  rw [m1, m2]

/-- C18 (canonical, IR): the file-IR document does not depend on any iteration order — of the
`_file_ir` dict or of any of the sets, *with or without members sharing a name* — for every file IR
whose dict keys have distinct names and whose member lists are sets (no two members `==`). No
assumption on json: the printer is proved injective (`C18_json_printer_injective`), so the sort key
`(name, json.dumps(member, sort_keys=True))` separates the members (`sortKeyInj_of_isSet`). -/
theorem C18_ir_canonical (f₁ f₂ : FileIr) (hk : KeysDistinct f₁) (hs : FileIrSets f₁)
    (h : FileIrSetEq f₁ f₂) : unFileIr f₁ = unFileIr f₂ :=
  C18_ir_canonical_of_sortKeyInj f₁ f₂ (fileIrSortKeyInj_of_sets hk hs) h

/-- The set document alone: any two iteration orders of one set give one list. -/
theorem C18_symbolSet_canonical {a b : List Symbol} (h : a.Perm b) (hs : IsSet a) :
    unSymbolSet a = unSymbolSet b :=
  unSymbolSet_perm h (sortKeyInj_of_isSet hs)

/-- The function-IR document: any iteration orders of its four sets give one document. -/
theorem C18_fnir_canonical {a b : FunctionIr} (h : FnIrSetEq a b) (hs : FnIrIsSet a) :
    unFnIr a = unFnIr b :=
  unFnIr_setEq h (fnIrSortKeyInj_of_isSet hs)

/-- The `-o ir` document under the abstract condition `FileIrSortKeyInj`. -/
theorem C18_outputirs_canonical_of_sortKeyInj (o₁ o₂ : OutputIrs)
    (hn : o₁.targetName = o₂.targetName)
    (ht : FileIrSetEq o₁.targetIr o₂.targetIr) (htd : FileIrSortKeyInj o₁.targetIr)
    (hi : Forall2 (fun p q => p.1 = q.1 ∧ FileIrSetEq p.2 q.2 ∧ FileIrSortKeyInj p.2)
      o₁.importIrs o₂.importIrs) :
    unOutputIrs o₁ = unOutputIrs o₂ := by
  unfold unOutputIrs
  rw [hn, C18_ir_canonical_of_sortKeyInj _ _ htd ht]
  have := map_eq_of_forall₂ (f := fun p : Str × FileIr => (p.1, unFileIr p.2))
    (g := fun p : Str × FileIr => (p.1, unFileIr p.2))
    (fun a c hac => by rw [hac.1, C18_ir_canonical_of_sortKeyInj _ _ hac.2.2 hac.2.1]) hi
  simp only at this ⊢
  rw [this]

/-- C18 (canonical, `-o ir` document): the same, for the whole `OutputIrs` (every file IR with
distinct key names and member lists that are sets). -/
theorem C18_outputirs_canonical (o₁ o₂ : OutputIrs)
    (hn : o₁.targetName = o₂.targetName)
    (ht : FileIrSetEq o₁.targetIr o₂.targetIr)
    (htk : KeysDistinct o₁.targetIr) (hts : FileIrSets o₁.targetIr)
    (hi : Forall2 (fun p q => p.1 = q.1 ∧ FileIrSetEq p.2 q.2 ∧ KeysDistinct p.2 ∧ FileIrSets p.2)
      o₁.importIrs o₂.importIrs) :
    unOutputIrs o₁ = unOutputIrs o₂ := by
  unfold unOutputIrs
  rw [hn, C18_ir_canonical _ _ htk hts ht]
  have := map_eq_of_forall₂ (f := fun p : Str × FileIr => (p.1, unFileIr p.2))
    (g := fun p : Str × FileIr => (p.1, unFileIr p.2))
    (fun a c hac => by rw [hac.1, C18_ir_canonical _ _ hac.2.2.1 hac.2.2.2 hac.2.1]) hi
  simp only at this ⊢
  rw [this]

private def loc0 : Location := { lineno := 1, colOffset := 0, endLineno := none, endColOffset := none, file := str "t.py" }
private def callG (arg : String) : Symbol := .call (str "g") { args := [str arg], kwargs := [] } none loc0

/-- (test, by evaluation) Two calls `g(a)`, `g(b)` in one set — the witness of the former tie
defect: the two iteration orders now give ONE document, `g(a)` first. -/
theorem C18_ties_resolved :
    unSymbolSet [callG "a", callG "b"] = unSymbolSet [callG "b", callG "a"]
    ∧ unSymbolSet [callG "b", callG "a"] = .arr [unSymbol (callG "a"), unSymbol (callG "b")] := by
  decide

/-- The new hypothesis is strictly weaker than the old one: it holds of the tie witness, which
`NamesDistinct` excludes. -/
theorem C18_ties_sortKeyInj :
    SortKeyInj [callG "a", callG "b"] ∧ ¬ NamesDistinct [callG "a", callG "b"] := by
  constructor
  · intro a b ha hb
    simp only [List.mem_cons, List.not_mem_nil, or_false] at ha hb
    have hne : symKey (callG "a") ≠ symKey (callG "b") := by decide +kernel
    rcases ha with rfl | rfl <;> rcases hb with rfl | rfl
    · intro _; rfl
    · intro hk; exact absurd hk hne
    · intro hk; exact absurd hk.symm hne
    · intro _; rfl
  · intro h
    exact absurd (h (callG "a") (callG "b") (by simp) (by simp) (by decide)) (by decide)

private def callKw (kw : List (String × String)) : Symbol :=
  .call (str "g") { args := [], kwargs := kw.map fun p => (str p.1, str p.2) } none loc0

/-- Why the hypothesis is "the list is a set" and not nothing: `g(a=x, b=y)` and `g(b=y, a=x)` are
`==` in Python (`kwargs` is a `frozendict`) and share a sort key (`sort_keys=True`), yet their
documents differ. As two entries of ONE list — which no Python set can hold — they make the output
depend on the order; `SortKeyInj` fails of that list and `IsSet` rules it out. -/
theorem C18_cex_kwargs_order :
    (callKw [("a", "x"), ("b", "y")]).pyEq (callKw [("b", "y"), ("a", "x")]) = true
    ∧ symKey (callKw [("a", "x"), ("b", "y")]) = symKey (callKw [("b", "y"), ("a", "x")])
    ∧ unSymbol (callKw [("a", "x"), ("b", "y")]) ≠ unSymbol (callKw [("b", "y"), ("a", "x")])
    ∧ unSymbolSet [callKw [("a", "x"), ("b", "y")], callKw [("b", "y"), ("a", "x")]]
        ≠ unSymbolSet [callKw [("b", "y"), ("a", "x")], callKw [("a", "x"), ("b", "y")]] := by
  decide +kernel

theorem C18_cex_kwargs_order_not_set :
    ¬ SortKeyInj [callKw [("a", "x"), ("b", "y")], callKw [("b", "y"), ("a", "x")]]
    ∧ ¬ IsSet [callKw [("a", "x"), ("b", "y")], callKw [("b", "y"), ("a", "x")]] := by
  have h := C18_cex_kwargs_order
  constructor
  · intro hs
    exact h.2.2.1 (hs _ _ (by simp) (by simp) h.2.1)
  · intro hs
    have := (List.pairwise_cons.mp hs).1 _ (List.mem_singleton.mpr rfl)
    rw [h.1] at this
    cases this

private def symF : Symbol := .base (.func (str "f") loc0 (.mk ⟨[], [str "x"], none, [], none⟩) false)
private def symG : Symbol := .base (.func (str "g") loc0 .any false)
private def ctxAB : Context := .mk none [(str "f", symF), (str "g", symG)] (str "t.py")
private def ctxBA : Context := .mk none [(str "g", symG), (str "f", symF)] (str "t.py")

/-- The context hook emits `symbol_table` in the dict's insertion order: the same mapping
inserted in two orders gives two documents. -/
theorem C18_cex_symtab_order :
    (match ctxAB, ctxBA with
      | .mk _ t₁ _, .mk _ t₂ _ => t₁.Perm t₂)
    ∧ unContext ctxAB ≠ unContext ctxBA :=
  ⟨List.Perm.swap _ _ _, by decide⟩

private def emptyIr : FunctionIr := ⟨[], [], [], []⟩
private def symF2 : Symbol := .base (.func (str "f") loc0 (.mk ⟨[], [str "y"], none, [], none⟩) false)
private def dupF : FileIr := { context := .mk none [] (str "t.py"), fileIr := [(symF, emptyIr), (symF2, emptyIr)] }

/-- Two distinct keys with one id: `symbols`/`function_irs` are keyed by id, one key is lost. -/
theorem C18_cex_dup_id :
    symF.pyEq symF2 = false ∧
    (match stFileIr 2 (unFileIr dupF) with
      | .ok f => f.fileIr.length
      | .error _ => 0) = 1 := by decide

/-! ### Round trips -/

theorem rt_location (l : Location) : stLocation (unLocation l) = .ok l := by
  obtain ⟨a, b, c, d, f⟩ := l
  cases c <;> cases d <;> rfl

theorem rt_strList (l : List Str) : asStrList (JVal.ofStrList l) = .ok l :=
  mapM'_map JVal.str asStr (fun _ => rfl) l

theorem rt_optStr (o : Option Str) : asOptStr (JVal.ofOptStr o) = .ok o := by cases o <;> rfl

theorem stIface_shape (x1 x2 x3 x4 x5 : JVal) :
    stIface (.obj [(kPosonlyargs, x1), (kArgs, x2), (kVararg, x3), (kKwonlyargs, x4), (kKwarg, x5)])
      = (do
          let a ← asStrList x1
          let b ← asStrList x2
          let c ← asOptStr x3
          let d ← asStrList x4
          let e ← asOptStr x5
          return CallIface.mk { posonly := a, args := b, vararg := c, kwonly := d, kwarg := e }) := rfl

theorem rt_iface : ∀ i : CallIface, stIface (unIface i) = .ok i
  | .any => rfl
  | .mk ⟨p, a, v, k, w⟩ => by
    simp only [unIface, stIface_shape, rt_strList, rt_optStr]
    rfl

theorem rt_optIface : ∀ i : Option CallIface, stOptIface (unOptIface i) = .ok i
  | none => rfl
  | some .any => rfl
  | some (.mk i) => by
    have h := rt_iface (.mk i)
    simp only [unOptIface, unIface] at h ⊢
    simp only [stOptIface, h]

theorem stTarget_shape_name (n b : Str) (x1 x2 : JVal) :
    stTarget (.obj [(kType, .str tagName), (kName, .str n), (kBasename, .str b), (kLocation, x1), (kInterface, x2)])
      = (do
          let l ← stLocation x1
          let i ← stOptIface x2
          return Target.name n b l i) := rfl

theorem stTarget_shape_builtin (n : Str) (x1 x2 : JVal) :
    stTarget (.obj [(kType, .str tagBuiltin), (kName, .str n), (kLocation, x1), (kInterface, x2)])
      = (do
          let l ← stLocation x1
          let i ← stIface x2
          return Target.builtin n l i) := rfl

theorem stTarget_shape_import (n q : Str) (x1 x2 : JVal) :
    stTarget (.obj [(kType, .str tagImport), (kName, .str n), (kQualifiedName, .str q), (kLocation, x1), (kInterface, x2)])
      = (do
          let l ← stLocation x1
          let i ← stIface x2
          return Target.import_ n q l i) := rfl

theorem stTarget_shape_func (n : Str) (a : Bool) (x1 x2 : JVal) :
    stTarget (.obj [(kType, .str tagFunc), (kName, .str n), (kLocation, x1), (kInterface, x2), (kIsAsync, .bool a)])
      = (do
          let l ← stLocation x1
          let i ← stIface x2
          return Target.func n l i a) := rfl

theorem stTarget_shape_cls (n : Str) (x1 x2 : JVal) :
    stTarget (.obj [(kType, .str tagClass), (kName, .str n), (kLocation, x1), (kInterface, x2)])
      = (do
          let l ← stLocation x1
          let i ← stIface x2
          return Target.cls n l i) := rfl

theorem rt_target : ∀ t : Target, stTarget (unTarget t) = .ok t
  | .name n b l i => by
    simp only [unTarget, stTarget_shape_name, rt_location, rt_optIface]; rfl
  | .builtin n l i => by
    simp only [unTarget, stTarget_shape_builtin, rt_location, rt_iface]; rfl
  | .import_ n q l i => by
    simp only [unTarget, stTarget_shape_import, rt_location, rt_iface]; rfl
  | .func n l i a => by
    simp only [unTarget, stTarget_shape_func, rt_location, rt_iface]; rfl
  | .cls n l i => by
    simp only [unTarget, stTarget_shape_cls, rt_location, rt_iface]; rfl

theorem rt_optTarget : ∀ t : Option Target, stOptTarget (unOptTarget t) = .ok t
  | none => rfl
  | some t => by
    have h := rt_target t
    cases t <;> (simp only [unOptTarget, unTarget] at h ⊢; simp only [stOptTarget, h])

theorem rt_kwargs : ∀ kw : List (Str × Str), stKwargs (kw.map fun (k, v) => (k, JVal.str v)) = .ok kw
  | [] => rfl
  | (k, v) :: r => by
    have ih := rt_kwargs r
    simp only [List.map_cons, stKwargs, asStr, ih]

theorem stCallArgs_shape (x1 : JVal) (kv : List (Str × JVal)) :
    stCallArgs (.obj [(kArgs, x1), (kKwargs, .obj kv)])
      = (do
          let a ← asStrList x1
          let k ← stKwargs kv
          return ({ args := a, kwargs := k } : CallArgs Str)) := rfl

theorem rt_callArgs (a : CallArgs Str) : stCallArgs (unCallArgs a) = .ok a := by
  obtain ⟨args, kwargs⟩ := a
  simp only [unCallArgs, stCallArgs_shape, rt_strList, rt_kwargs]; rfl

theorem stSymbol_shape_call (n : Str) (x1 x2 x3 : JVal) :
    stSymbol (.obj [(kType, .str tagCall), (kName, .str n), (kArgs, x1), (kTarget, x2), (kLocation, x3)])
      = (do
          let t ← stOptTarget x2
          let a ← stCallArgs x1
          let l ← stLocation x3
          return Symbol.call n a t l) := rfl

theorem stSymbol_base (t : Target) :
    stSymbol (unTarget t) = (do let t' ← stTarget (unTarget t); return Symbol.base t') := by
  cases t <;> rfl

theorem rt_symbol : ∀ s : Symbol, stSymbol (unSymbol s) = .ok s
  | .base t => by
    simp only [unSymbol, stSymbol_base, rt_target]; rfl
  | .call n a t l => by
    simp only [unSymbol, stSymbol_shape_call, rt_optTarget, rt_callArgs, rt_location]; rfl

theorem isSet_sortBy {l : List Symbol} (h : IsSet l) : IsSet (sortBy pairLe symKey l) :=
  ((perm_sortBy pairLe symKey l).pairwise_iff
    (fun {x y} (hxy : Symbol.pyEq x y = false) => by rw [Symbol.pyEq_comm]; exact hxy)).mpr h

theorem rt_symbolSet (l : List Symbol) (h : IsSet l) :
    stSymbolSet (unSymbolSet l) = .ok (sortBy pairLe symKey l) := by
  rw [unSymbolSet_eq]
  simp only [stSymbolSet, mapM'_map unSymbol stSymbol rt_symbol]
  rw [dedupBy_of_pairwise _ _ (isSet_sortBy h)]

/-- C18 (round-trip, symbols): for every symbol of the algebra — every kind, every interface
(incl. the `any` sentinel and an absent interface), every `Call` with every kind of nested
`target` — structuring the unstructured symbol gives the symbol back (locations included). -/
theorem C18_roundtrip_symbol (s : Symbol) : stSymbol (unSymbol s) = .ok s := rt_symbol s

/-- The text determines the value: ANY JSON value that prints as the emitted symbol document
structures back to the symbol — the round trip does not depend on which (correct) reader produced
the value from the text. -/
theorem C18_roundtrip_symbol_text (s : Symbol) (j : JVal)
    (h : JVal.renderSp j = JVal.renderSp (unSymbol s)) : stSymbol j = .ok s := by
  rw [C18_json_printer_injective j _ h]
  exact rt_symbol s

/-- The `any` sentinel and the empty interface are told apart. -/
theorem C18_any_not_empty : unIface .any ≠ unIface (.mk ⟨[], [], none, [], none⟩) := by decide

def normIr (ir : FunctionIr) : FunctionIr :=
  { gets := sortBy pairLe symKey ir.gets, sets := sortBy pairLe symKey ir.sets,
    dels := sortBy pairLe symKey ir.dels, calls := sortBy pairLe symKey ir.calls }

theorem stFnIr_shape (x1 x2 x3 x4 : JVal) :
    stFnIr (.obj [(kGets, x1), (kSets, x2), (kDels, x3), (kCalls, x4)])
      = (do
          let g ← stSymbolSet x1
          let s ← stSymbolSet x2
          let d ← stSymbolSet x3
          let c ← stSymbolSet x4
          return ({ gets := g, sets := s, dels := d, calls := c } : FunctionIr)) := rfl

theorem normIr_setEq (ir : FunctionIr) : FnIrSetEq (normIr ir) ir :=
  ⟨perm_sortBy _ _ _, perm_sortBy _ _ _, perm_sortBy _ _ _, perm_sortBy _ _ _⟩

/-- C18 (round-trip, function IR): structuring the unstructured IR gives the same four sets
(as sets: the lists come back sorted). Holds with or without equal names. -/
theorem C18_roundtrip_fnir (ir : FunctionIr) (h : FnIrIsSet ir) :
    stFnIr (unFnIr ir) = .ok (normIr ir) ∧ FnIrSetEq (normIr ir) ir := by
  refine ⟨?_, normIr_setEq ir⟩
  simp only [unFnIr, stFnIr_shape, rt_symbolSet _ h.1, rt_symbolSet _ h.2.1, rt_symbolSet _ h.2.2.1,
    rt_symbolSet _ h.2.2.2]
  rfl

/-! #### results -/

def normFn (r : FnResults) : FnResults :=
  { gets := sortStr r.gets, sets := sortStr r.sets, dels := sortStr r.dels, calls := sortStr r.calls }

def normResults (r : FileResults) : FileResults :=
  (sortBy strLe (fun p : Str × FnResults => p.1) r).map fun p => (p.1, normFn p.2)

def FnNodup (r : FnResults) : Prop := r.gets.Nodup ∧ r.sets.Nodup ∧ r.dels.Nodup ∧ r.calls.Nodup

theorem rt_strSet (l : List Str) (h : l.Nodup) : stStrSet (JVal.ofStrList (sortStr l)) = .ok (sortStr l) := by
  have hm : mapM' asStr ((sortStr l).map JVal.str) = .ok (sortStr l) :=
    mapM'_map JVal.str asStr (fun _ => rfl) _
  have hn : (sortStr l).Nodup := (perm_sortBy strLe id l).nodup_iff.mpr h
  have hp : (sortStr l).Pairwise (fun a b => strEq a b = false) :=
    List.Pairwise.imp (fun {a b} (hab : a ≠ b) => by simp [strEq, hab]) hn
  simp only [JVal.ofStrList, stStrSet, hm]
  rw [dedupBy_of_pairwise _ _ hp]

theorem stFnResults_shape (x1 x2 x3 x4 : JVal) :
    stFnResults (.obj [(kGets, x1), (kSets, x2), (kDels, x3), (kCalls, x4)])
      = (do
          let g ← stStrSet x1
          let s ← stStrSet x2
          let d ← stStrSet x3
          let c ← stStrSet x4
          return ({ gets := g, sets := s, dels := d, calls := c } : FnResults)) := rfl

theorem rt_fnResults (r : FnResults) (h : FnNodup r) : stFnResults (unFnResults r) = .ok (normFn r) := by
  simp only [unFnResults, stFnResults_shape, rt_strSet _ h.1, rt_strSet _ h.2.1, rt_strSet _ h.2.2.1,
    rt_strSet _ h.2.2.2]
  rfl

theorem rt_fnResultsMap : ∀ m : List (Str × FnResults), (∀ p, p ∈ m → FnNodup p.2) →
    stFnResultsMap (m.map fun p => (p.1, unFnResults p.2)) = .ok (m.map fun p => (p.1, normFn p.2))
  | [], _ => rfl
  | p :: r, h => by
    have ih := rt_fnResultsMap r (fun q hq => h q (List.mem_cons_of_mem _ hq))
    have hp := rt_fnResults p.2 (h p List.mem_cons_self)
    simp only [List.map_cons, stFnResultsMap, hp, ih]

theorem normResults_setEq (r : FileResults) : ResultsSetEq r (normResults r) :=
  ⟨sortBy strLe (fun p => p.1) r, perm_sortBy _ _ _,
    forall₂_map_right _ (fun _ => ⟨rfl, (perm_sortBy _ _ _).symm, (perm_sortBy _ _ _).symm,
      (perm_sortBy _ _ _).symm, (perm_sortBy _ _ _).symm⟩) _⟩

/-- C18 (round-trip, results): structuring the results document gives the same mapping
function ↦ four sets. -/
theorem C18_roundtrip_results (r : FileResults) (h : ∀ p, p ∈ r → FnNodup p.2) :
    stFileResults (unFileResults r) = .ok (normResults r) ∧ ResultsSetEq r (normResults r) := by
  refine ⟨?_, normResults_setEq r⟩
  simp only [unFileResults, stFileResults]
  exact rt_fnResultsMap _ (fun p hp => h p ((mem_sortBy _ _).mp hp))

/-- C18 (re-serialisation is idempotent, results):
`serialise(deserialise(serialise(r))) = serialise(r)`. -/
theorem C18_reserialise_idem (r r' : FileResults) (hk : (r.map Prod.fst).Nodup)
    (h : ∀ p, p ∈ r → FnNodup p.2) (hst : stFileResults (unFileResults r) = .ok r') :
    unFileResults r' = unFileResults r := by
  have h1 := (C18_roundtrip_results r h).1
  rw [h1] at hst
  cases hst
  exact (C18_results_canonical r (normResults r) hk (normResults_setEq r)).symm

/-- Re-serialisation is idempotent for symbols. -/
theorem C18_reserialise_idem_symbol (s s' : Symbol) (hst : stSymbol (unSymbol s) = .ok s') :
    unSymbol s' = unSymbol s := by
  rw [rt_symbol] at hst
  cases hst
  rfl

/-- Re-serialisation is idempotent for a function IR (members sharing a name included). -/
theorem C18_reserialise_idem_fnir (ir ir' : FunctionIr) (h : FnIrIsSet ir)
    (hst : stFnIr (unFnIr ir) = .ok ir') : unFnIr ir' = unFnIr ir := by
  rw [(C18_roundtrip_fnir ir h).1] at hst
  cases hst
  have hn := normIr_setEq ir
  exact (unFnIr_setEq ⟨hn.1.symm, hn.2.1.symm, hn.2.2.1.symm, hn.2.2.2.symm⟩
    (fnIrSortKeyInj_of_isSet h)).symm

/-! #### cacheable results -/

theorem rt_importInfo (i : ImportInfo) : stImportInfo (unImportInfo i) = .ok i := by
  cases i; rfl

theorem stCacheable_shape (v a p fp fh : Str) (xs : List JVal) (x : JVal) :
    stCacheable (.obj [(kVersion, .str v), (kArgumentsHash, .str a), (kPluginsHash, .str p),
        (kFilepath, .str fp), (kFilehash, .str fh), (kImports, .arr xs), (kResults, x)])
      = (do
          let im ← mapM' stImportInfo xs
          let r ← stFileResults x
          return ({ version := v, argumentsHash := a, pluginsHash := p, filepath := fp, filehash := fh,
                    imports := im, results := r } : CacheableResults)) := rfl

/-- C18 (round-trip, cache document): every scalar and the import list come back exactly, the
results as the same mapping of sets. -/
theorem C18_roundtrip_cache (c : CacheableResults) (h : ∀ p, p ∈ c.results → FnNodup p.2) :
    stCacheable (unCacheable c) = .ok { c with results := normResults c.results }
    ∧ ResultsSetEq c.results (normResults c.results) := by
  refine ⟨?_, normResults_setEq _⟩
  simp only [unCacheable, stCacheable_shape, mapM'_map unImportInfo stImportInfo rt_importInfo,
    (C18_roundtrip_results c.results h).1]
  rfl

/-- The cache document is canonical: it depends on the results only as a mapping of sets. -/
theorem C18_cache_canonical (c₁ c₂ : CacheableResults) (hk : (c₁.results.map Prod.fst).Nodup)
    (hs : c₂ = { c₁ with results := c₂.results }) (h : ResultsSetEq c₁.results c₂.results) :
    unCacheable c₁ = unCacheable c₂ := by
  rw [hs]
  simp only [unCacheable]
  rw [C18_results_canonical _ _ hk h]

/-! #### file IR and context -/



theorem rt_symtab : ∀ t : List (Str × Symbol), stSymtab (t.map fun p => (p.1, unSymbol p.2)) = .ok t
  | [] => rfl
  | (k, s) :: r => by
    have ih := rt_symtab r
    simp only [List.map_cons, stSymtab, rt_symbol, ih]

theorem unSymtab_eq (t : List (Str × Symbol)) : unSymtab t = .obj (t.map fun p => (p.1, unSymbol p.2)) := rfl

theorem unContext_obj : ∀ c : Context, ∃ kv, unContext c = .obj kv
  | .mk none _ _ => ⟨_, rfl⟩
  | .mk (some _) _ _ => ⟨_, rfl⟩

theorem stContext_shape_null (n : Nat) (kv : List (Str × JVal)) (f : Str) :
    stContext (n + 1) (.obj [(kParent, .null), (kSymbolTable, .obj kv), (kFile, .str f)])
      = (do let t ← stSymtab kv; return Context.mk none t f) := rfl

theorem stContext_shape_some (n : Nat) (pk kv : List (Str × JVal)) (f : Str) (p : Context)
    (h : stContext n (.obj pk) = .ok p) :
    stContext (n + 1) (.obj [(kParent, .obj pk), (kSymbolTable, .obj kv), (kFile, .str f)])
      = (do let t ← stSymtab kv; return Context.mk (some p) t f) := by
  rw [stContext]
  have e1 : field [(kParent, JVal.obj pk), (kSymbolTable, JVal.obj kv), (kFile, JVal.str f)] kParent = .ok (.obj pk) := rfl
  have e2 : field [(kParent, JVal.obj pk), (kSymbolTable, JVal.obj kv), (kFile, JVal.str f)] kSymbolTable = .ok (.obj kv) := rfl
  have e3 : field [(kParent, JVal.obj pk), (kSymbolTable, JVal.obj kv), (kFile, JVal.str f)] kFile = .ok (.str f) := rfl
  simp only [asObj, e1, e2, e3, bind, Except.bind, h, asStr, pure, Except.pure]

theorem rt_context : ∀ c : Context, stContext c.depth (unContext c) = .ok c
  | .mk none t f => by
    simp only [unContext, Context.depth, unSymtab_eq]
    rw [show (1 : Nat) = 0 + 1 from rfl, stContext_shape_null, rt_symtab]; rfl
  | .mk (some p) t f => by
    have ih := rt_context p
    obtain ⟨pk, hpk⟩ := unContext_obj p
    simp only [unContext, Context.depth, unSymtab_eq, hpk] at ih ⊢
    rw [stContext_shape_some _ _ _ _ p ih, rt_symtab]; rfl

theorem rt_symtab_map {β : Type} (g : β → Str) (h : β → Symbol) (l : List β) :
    stSymtab (l.map fun p => (g p, unSymbol (h p))) = .ok (l.map fun p => (g p, h p)) := by
  have := rt_symtab (l.map fun p => (g p, h p))
  simpa [List.map_map, Function.comp_def] using this

theorem rt_fnIrs_map {β : Type} (g : β → Str) (h : β → FunctionIr) :
    ∀ l : List β, (∀ p, p ∈ l → FnIrIsSet (h p)) →
      stFnIrs (l.map fun p => (g p, unFnIr (h p))) = .ok (l.map fun p => (g p, normIr (h p)))
  | [], _ => rfl
  | p :: r, hs => by
    have ih := rt_fnIrs_map g h r (fun q hq => hs q (List.mem_cons_of_mem _ hq))
    have hp := (C18_roundtrip_fnir (h p) (hs p List.mem_cons_self)).1
    simp only [List.map_cons, stFnIrs, hp, ih]

theorem lookupStr_map {β ν : Type} (g : β → Str) (v : β → ν) :
    ∀ (l : List β) (q : β), q ∈ l → (l.map g).Nodup →
      lookupStr (l.map fun p => (g p, v p)) (g q) = some (v q)
  | [], q, hq, _ => by cases hq
  | p :: r, q, hq, hn => by
    simp only [List.map_cons, List.nodup_cons] at hn
    simp only [List.map_cons, lookupStr]
    rcases List.mem_cons.mp hq with rfl | hq'
    · simp
    · have hne : g p ≠ g q := by
        intro e
        exact hn.1 (e ▸ List.mem_map_of_mem hq')
      simp only [hne, if_false]
      exact lookupStr_map g v r q hq' hn.2

theorem pairs_eq {β : Type} (g : β → Str) (s : β → Symbol) (v : β → FunctionIr) (l : List β)
    (hn : (l.map g).Nodup) :
    (l.map fun p => (g p, s p)).filterMap
        (fun x : Str × Symbol => (lookupStr (l.map fun p => (g p, v p)) x.1).map fun ir => (x.2, ir))
      = l.map fun p => (s p, v p) := by
  rw [List.filterMap_map]
  apply filterMap_eq_map_of
  intro q hq
  simp only [Function.comp_apply, lookupStr_map g v l q hq hn, Option.map_some]

theorem Target.nm_of_pyEq {a b : Target} (h : a.pyEq b = true) : a.nm = b.nm := by
  cases a <;> cases b <;>
    simp only [Target.pyEq, Bool.and_eq_true, beq_iff_eq, Bool.false_eq_true] at h <;>
    (simp only [Target.nm]; simp_all)

theorem Symbol.nm_of_pyEq {a b : Symbol} (h : a.pyEq b = true) : a.nm = b.nm := by
  cases a <;> cases b <;> simp only [Symbol.pyEq, Bool.and_eq_true, beq_iff_eq] at h
  · exact Target.nm_of_pyEq h
  · exact absurd h (by simp)
  · exact absurd h (by simp)
  · simp only [Symbol.nm]; exact h.1.1

def normFileIr (f : FileIr) : FileIr :=
  { context := f.context, fileIr := (sortedEntries f.fileIr).map fun p => (p.1, normIr p.2) }

/-- What the analyser guarantees of a `FileIr` (and what a dict of symbols is): keys have pairwise
different names, are not star imports (`id = name`), and every IR member list is a set. -/

structure FileIrWf (f : FileIr) : Prop where
  keysNodup : (f.fileIr.map fun p => p.1.nm).Nodup
  idIsName : ∀ p, p ∈ f.fileIr → p.1.id = p.1.nm
  sets : ∀ p, p ∈ f.fileIr → FnIrIsSet p.2

theorem stFileIr_shape (n : Nat) (c : JVal) (sy fi : List (Str × JVal)) (ctx : Context)
    (h : stContext n c = .ok ctx) :
    stFileIr n (.obj [(kContext, c), (kSymbols, .obj sy), (kFunctionIrs, .obj fi)])
      = (do
          let syms ← stSymtab sy
          let irs ← stFnIrs fi
          return { context := ctx,
                   fileIr := dictOfBy Symbol.pyEq
                     (syms.filterMap fun x : Str × Symbol => (lookupStr irs x.1).map fun ir => (x.2, ir)) }) := by
  unfold stFileIr
  have e1 : field [(kContext, c), (kSymbols, JVal.obj sy), (kFunctionIrs, JVal.obj fi)] kContext = .ok c := rfl
  have e2 : JVal.get? [(kContext, c), (kSymbols, JVal.obj sy), (kFunctionIrs, JVal.obj fi)] kSymbols = some (.obj sy) := rfl
  have e3 : JVal.get? [(kContext, c), (kSymbols, JVal.obj sy), (kFunctionIrs, JVal.obj fi)] kFunctionIrs = some (.obj fi) := rfl
  simp only [asObj, e1, e2, e3, bind, Except.bind, h, pure, Except.pure]

theorem C18_roundtrip_ir (f : FileIr) (hw : FileIrWf f) :
    stFileIr f.context.depth (unFileIr f) = .ok (normFileIr f) := by
  have hp : (sortedEntries f.fileIr).Perm f.fileIr := perm_sortBy _ _ _
  have hmem : ∀ p, p ∈ sortedEntries f.fileIr → p ∈ f.fileIr := fun p h => hp.mem_iff.mp h
  have hids : (sortedEntries f.fileIr).map (fun p => p.1.id) = (sortedEntries f.fileIr).map (fun p => p.1.nm) :=
    List.map_congr_left (fun p h => hw.idIsName p (hmem p h))
  have hnm : ((sortedEntries f.fileIr).map fun p => p.1.nm).Nodup :=
    (hp.map _).nodup_iff.mpr hw.keysNodup
  have hidn : ((sortedEntries f.fileIr).map fun p => p.1.id).Nodup := by rw [hids]; exact hnm
  -- the two id-keyed dicts are the mapped lists themselves
  have hpw : ∀ {ν : Type} (v : Symbol × FunctionIr → ν),
      ((sortedEntries f.fileIr).map fun p => (p.1.id, v p)).Pairwise (fun a b => strEq a.1 b.1 = false) := by
    intro ν v
    rw [List.pairwise_map]
    have := List.pairwise_map.mp hidn
    exact this.imp (fun {a b} (hab : a.1.id ≠ b.1.id) => by simp [strEq, hab])
  unfold unFileIr
  simp only
  rw [dictOfBy_id strEq _ (hpw _), dictOfBy_id strEq _ (hpw _)]
  rw [stFileIr_shape _ _ _ _ _ (rt_context f.context)]
  rw [rt_symtab_map (fun p : Symbol × FunctionIr => p.1.id) (fun p => p.1)]
  rw [rt_fnIrs_map (fun p : Symbol × FunctionIr => p.1.id) (fun p => p.2) _ (fun p h => hw.sets p (hmem p h))]
  simp only [bind, Except.bind, pure, Except.pure]
  rw [pairs_eq (fun p : Symbol × FunctionIr => p.1.id) (fun p => p.1) (fun p => normIr p.2) _ hidn]
  rw [dictOfBy_id]
  · rfl
  · rw [List.pairwise_map]
    have := List.pairwise_map.mp hnm
    refine this.imp (fun {a b} (hab : a.1.nm ≠ b.1.nm) => ?_)
    cases hpe : Symbol.pyEq a.1 b.1
    · rfl
    · exact absurd (Symbol.nm_of_pyEq hpe) hab

theorem normFileIr_setEq (f : FileIr) : FileIrSetEq f (normFileIr f) :=
  ⟨rfl, sortedEntries f.fileIr, perm_sortBy _ _ _,
    forall₂_map_right _ (fun _ => ⟨rfl, (perm_sortBy _ _ _).symm, (perm_sortBy _ _ _).symm,
      (perm_sortBy _ _ _).symm, (perm_sortBy _ _ _).symm⟩) _⟩

/-- Re-serialisation is idempotent for a well-formed FileIr: `serialise(deserialise(serialise(f))) = serialise(f)`. -/

theorem C18_reserialise_idem_ir (f f' : FileIr) (hw : FileIrWf f)
    (hst : stFileIr f.context.depth (unFileIr f) = .ok f') : unFileIr f' = unFileIr f := by
  rw [C18_roundtrip_ir f hw] at hst
  cases hst
  exact (C18_ir_canonical f (normFileIr f)
    (inj_of_nodup_map (fun p : Symbol × FunctionIr => p.1.nm) hw.keysNodup) hw.sets
    (normFileIr_setEq f)).symm

private def wfIr : FileIr :=
  { context := .mk (some (.mk none [] (str "pkg/__init__.py"))) [(str "f", .base (.func (str "f") ⟨1, 0, some 2, some 9, str "t.py"⟩ .any false))] (str "t.py"),
    fileIr := [(.base (.func (str "g") ⟨4, 0, none, none, str "t.py"⟩ (.mk ⟨[], [str "x"], none, [], none⟩) false), ⟨[], [], [], []⟩),
               (.base (.cls (str "C") ⟨1, 0, none, none, str "t.py"⟩ .any), ⟨[.base (.name (str "a") (str "a") ⟨2, 0, none, none, str "t.py"⟩ none)], [], [], []⟩)] }

/-- `FileIrWf` is satisfiable by a two-key FileIr with a nested context, and its round trip
evaluates to the sorted FileIr (keys `C`, `g`). -/
example : FileIrWf wfIr ∧
    (match stFileIr 2 (unFileIr wfIr) with
      | .ok f => f.fileIr.map (fun p => p.1.nm)
      | .error _ => []) = [str "C", str "g"] := by
  refine ⟨⟨by decide, ?_, ?_⟩, by decide⟩
  · intro p hp
    simp only [wfIr, List.mem_cons, List.not_mem_nil, or_false] at hp
    rcases hp with rfl | rfl <;> rfl
  · intro p hp
    simp only [wfIr, List.mem_cons, List.not_mem_nil, or_false] at hp
    rcases hp with rfl | rfl <;>
      exact ⟨by simp [IsSet], by simp [IsSet], by simp [IsSet], by simp [IsSet]⟩

/-! ### The `-o ir` document as the import BFS assembles it; the `imports` list of the cache document

`import_irs` is an insertion-ordered dict and NO hook sorts it (`C18_cex_importirs_not_sorted`): the
order of the `"import_irs"` object of the document is the order in which `parse_and_analyse_imports`
assigned `import_irs[name] = …`, i.e. the analysis order of the BFS (`C18_importirs_in_bfs_order`).
So "the bytes are a function of the analysis alone" holds for the IR document exactly as far as the
BFS order is a function of the analysis: `Imports.bfs` is a function of the module graph whose import
LISTS are in symbol-table (declaration) order (`C18_irdocument_canonical`) and it is NOT invariant under
re-ordering those lists (`C18_ir_document_order_free_false`) — were the queue fed from a set, the
document would depend on the set's iteration order. That the code feeds the queue from the ordered
`symbol_table.symbols` view at every level is Tie A (`tieA_import_queue`), and that the model's BFS order
is the key order of the real `import_irs` is Tie B (op `ir_document`, under every hash seed tried).
The cache document sorts its `imports` on `filepath`, so it does not depend on the BFS order at all
(`C18_cache_imports_canonical`, `C18_cache_imports_bfs_order_free`). -/

section ImportBfs
open Rattr.Imports Rattr.C18I

/-- Tie A for the order of `import_irs`: the BFS queue is a `deque` of the target's `Import` symbols
taken from `context.symbol_table.symbols` by a list comprehension, popped on the left; the imports of an
analysed file are appended one by one from a list comprehension over ITS
`import_context.symbol_table.symbols`; `symbols` is `self._symbols.values()` of a `dict` (insertion
order); `import_irs` is a `{}` assigned by `import_irs[name] = import_ir` and returned as it is;
`serialise.py` contains no `sorted(` and a probe `serialise_irs` keeps the insertion order of
`import_irs`; `make_cacheable_import_info` walks `(target, *import_irs.values())` into a set
comprehension which it sorts (on `filepath`, `tieA_sorted_calls`). -/
theorem tieA_import_queue :
    Generated.C18.importQueue =
      [("caller:imports", "listcomp[s]:context.symbol_table.symbols|isinstance(s, Import)"),
       ("queue:init", "call:deque(param:imports)"),
       ("import_irs:init", "{}"),
       ("queue:popleft", ""),
       ("import_irs:store", "import_irs[name] = import_ir"),
       ("queue:append", "for:listcomp[symbol]:import_context.symbol_table.symbols|isinstance(symbol, Import)"),
       ("return", "(import_irs, import_stats)")]
    ∧ Generated.C18.symbolTableOrder =
      [("_symbols", "dict[Identifier, Symbol] = field(init=False, factory=dict)"),
       ("symbols", "return self._symbols.values()"),
       ("__setitem__", "return self._symbols.__setitem__(__key, __value)")]
    ∧ Generated.C18.serialiseIrsSortedCalls = []
    ∧ Generated.C18.importIrsProbeKeys = ["zz", "aa", "mm"]
    ∧ Generated.C18.cacheImportInfo =
      [("contexts", "(target_ir.context, *(import_.context for import_ in import_irs.values()))"),
       ("sorted-arg", "setcomp:contexts;context.symbol_table.symbols"), ("filters", "6")] := by
  decide

/-- The assignments never overwrite when no name repeats: the dict is the list of assignments. -/
theorem assignIrs_of_nodup (irOf : Str → FileIr) {l : List Str} (h : l.Nodup) :
    assignIrs irOf l = l.map fun n => (n, irOf n) := by
  unfold assignIrs
  apply dictOfBy_id
  rw [List.pairwise_map]
  unfold List.Nodup at h
  exact h.imp (fun hne => by simpa [strEq] using hne)

variable {ω : Type} [DecidableEq ω]

/-- **The `"import_irs"` object is in BFS order.** Whenever the stage finishes, the dict handed to
`serialise_irs` holds exactly the analysed modules, each with its own IR, in analysis order, and the
keys of the `"import_irs"` object of the printed document are that very list — for every module graph
(cycles, diamonds, any depth and fan-out) and every follow level. -/
theorem C18_importirs_in_bfs_order (g : Graph Str ω) (fl : Flags) (target : List (Imp Str))
    (irOf : Str → FileIr) (tn : Str) (tir : FileIr) (o : OutputIrs)
    (h : outputIrsOf g fl target irOf tn tir = some o) :
    o.importIrs = (bfs g fl (fuelBound g target) target).state.analysed.map (fun n => (n, irOf n))
    ∧ docImportKeys (unOutputIrs o) = (bfs g fl (fuelBound g target) target).state.analysed
    ∧ (bfs g fl (fuelBound g target) target).isDone = true := by
  have hn := bfs_analysed_nodup g fl (fuelBound g target) target
  unfold outputIrsOf at h
  cases hb : bfs g fl (fuelBound g target) target with
  | done st =>
    rw [hb] at h hn
    simp only [Option.some.injEq] at h
    subst h
    simp only [Out.state] at hn ⊢
    rw [assignIrs_of_nodup irOf hn]
    refine ⟨rfl, ?_, rfl⟩
    simp [docImportKeys, unOutputIrs, List.map_map, Function.comp_def]
  | fatal st => rw [hb] at h; cases h
  | crash st => rw [hb] at h; cases h
  | outOfFuel st => rw [hb] at h; cases h

/-- **C18 (canonical) for the `-o ir` document of a whole run.** Two runs (two processes, two hash
seeds) that see the same module graph — the `Import` symbols of every file in symbol-table order —
and whose file IRs are equal as Python objects (every set in whatever iteration order) print the same
document: same modules, same ORDER of `import_irs`, same bytes inside each file IR. -/
theorem C18_irdocument_canonical (g : Graph Str ω) (fl : Flags) (target : List (Imp Str))
    (irOf₁ irOf₂ : Str → FileIr) (tn : Str) (t₁ t₂ : FileIr)
    (ht : FileIrSetEq t₁ t₂) (htk : KeysDistinct t₁) (hts : FileIrSets t₁)
    (hi : ∀ n, n ∈ (bfs g fl (fuelBound g target) target).state.analysed →
      FileIrSetEq (irOf₁ n) (irOf₂ n) ∧ KeysDistinct (irOf₁ n) ∧ FileIrSets (irOf₁ n)) :
    irDocument g fl target irOf₁ tn t₁ = irDocument g fl target irOf₂ tn t₂ := by
  have hn := bfs_analysed_nodup g fl (fuelBound g target) target
  unfold irDocument outputIrsOf
  cases hb : bfs g fl (fuelBound g target) target with
  | done st =>
    rw [hb] at hi hn
    simp only [Out.state] at hi hn
    simp only [Option.map_some, Option.some.injEq]
    refine C18_outputirs_canonical { importIrs := assignIrs irOf₁ st.analysed, targetName := tn, targetIr := t₁ }
      { importIrs := assignIrs irOf₂ st.analysed, targetName := tn, targetIr := t₂ } rfl ht htk hts ?_
    simp only
    rw [assignIrs_of_nodup irOf₁ hn, assignIrs_of_nodup irOf₂ hn]
    clear hn hb
    generalize st.analysed = l at hi
    induction l with
    | nil => exact .nil
    | cons a r ih =>
      simp only [List.map_cons]
      have ha := hi a List.mem_cons_self
      exact .cons ⟨rfl, ha.1, ha.2.1, ha.2.2⟩ (ih (fun n hn => hi n (List.mem_cons_of_mem _ hn)))
  | fatal st => rfl
  | crash st => rfl
  | outOfFuel st => rfl

private def leafIr (file : String) : FileIr := { context := .mk none [] (str file), fileIr := [] }

/-- No hook sorts `import_irs`: the same two file IRs inserted in the other order give another
document (so the order of insertion is observable in the bytes). -/
theorem C18_cex_importirs_not_sorted :
    unOutputIrs { importIrs := [(str "b", leafIr "b.py"), (str "a", leafIr "a.py")], targetName := str "t.py",
                  targetIr := leafIr "t.py" }
    ≠ unOutputIrs { importIrs := [(str "a", leafIr "a.py"), (str "b", leafIr "b.py")], targetName := str "t.py",
                    targetIr := leafIr "t.py" } := by
  decide

private def imp (n : String) : Imp Str := { target := some (str n), declBlacklisted := false }
private def modl (n : String) (imports : List (Imp Str)) : Module Str String :=
  { name := str n, origin := some (n ++ ".py"), readable := true, blacklisted := false, inPip := false,
    inStdlib := false, excluded := false, imports := imports }
/-- target → `hub` → {`a`, `b`}; `hubImports` is the order in which the hub's imports are queued. -/
private def hubGraph (hubImports : List (Imp Str)) : Graph Str String :=
  [modl "hub" hubImports, modl "a" [], modl "b" []]
private def flLocal : Flags := { loc := true, pip := false, stdlib := false }
private def irOfName (n : Str) : FileIr := { context := .mk none [] (n ++ str ".py"), fileIr := [] }

/-- Two module graphs that differ only in the ORDER of the import lists of their modules (what two
iteration orders of one set of import symbols would give). -/
def GraphPermEq (g₁ g₂ : Graph Str ω) : Prop :=
  Forall2 (fun m₁ m₂ => m₁.imports.Perm m₂.imports ∧ m₂ = { m₁ with imports := m₂.imports }) g₁ g₂

/-- The reading "the IR document does not depend on the order in which a file's imports are queued"
(what would be needed if the queue were fed from a set). -/
def C18_ir_document_order_free : Prop :=
  ∀ (g₁ g₂ : Graph Str String) (fl : Flags) (target : List (Imp Str)) (irOf : Str → FileIr) (tn : Str)
    (tir : FileIr), GraphPermEq g₁ g₂ →
    irDocument g₁ fl target irOf tn tir = irDocument g₂ fl target irOf tn tir

/-- (test, by evaluation) the hub graph with its two imports queued as `a, b` and as `b, a`: the key
orders of `import_irs` are `hub, a, b` and `hub, b, a`. -/
theorem C18_cex_import_queue_order :
    (irDocument (hubGraph [imp "a", imp "b"]) flLocal [imp "hub"] irOfName (str "t.py") (leafIr "t.py")).map docImportKeys
      = some [str "hub", str "a", str "b"]
    ∧ (irDocument (hubGraph [imp "b", imp "a"]) flLocal [imp "hub"] irOfName (str "t.py") (leafIr "t.py")).map docImportKeys
      = some [str "hub", str "b", str "a"] := by
  decide

/-- It is false: the document DOES depend on the order in which the imports of an imported file are
queued — the property holds of the code only because every level of the BFS is fed from an ordered
collection (`tieA_import_queue`). An imported module that imports two followed modules is the
smallest witness. -/
theorem C18_ir_document_order_free_false : ¬ C18_ir_document_order_free := by
  intro h
  have hp : GraphPermEq (hubGraph [imp "a", imp "b"]) (hubGraph [imp "b", imp "a"]) :=
    .cons ⟨List.Perm.swap _ _ _, rfl⟩ (.cons ⟨.refl _, rfl⟩ (.cons ⟨.refl _, rfl⟩ .nil))
  have := congrArg (Option.map docImportKeys)
    (h _ _ flLocal [imp "hub"] irOfName (str "t.py") (leafIr "t.py") hp)
  rw [C18_cex_import_queue_order.1, C18_cex_import_queue_order.2] at this
  revert this
  decide

omit [DecidableEq ω] in
/-- A graph in which every imported module imports at most ONE module cannot show the dependence:
every permutation of such an import list is the list itself, so the permuted graph IS the graph. (Why
one level of imports below the target, or chains, never exercise the queueing of an imported file's
imports: it takes an imported module with a fan-out of two or more.) -/
theorem C18_single_import_lists_order_free (g₁ g₂ : Graph Str ω)
    (h : Forall2 (fun m₁ m₂ => m₁.imports.Perm m₂.imports ∧ m₂ = { m₁ with imports := m₂.imports }) g₁ g₂)
    (h1 : ∀ m, m ∈ g₁ → m.imports.length ≤ 1) : g₁ = g₂ := by
  induction h with
  | nil => rfl
  | @cons a b l m hab _ ih =>
    have hl := h1 a List.mem_cons_self
    have : a.imports = b.imports := by
      have hp := hab.1
      match hi : a.imports, hl with
      | [], _ => rw [hi] at hp; exact (List.nil_perm.mp hp).symm
      | [x], _ => rw [hi] at hp; exact (List.perm_singleton.mp hp.symm).symm
      | _ :: _ :: _, hl => simp at hl
    rw [ih (fun m hm => h1 m (List.mem_cons_of_mem _ hm))]
    congr 1
    rw [hab.2, ← this]

/-! #### the cache document's `imports` -/

/-- `sorted(set, key=filepath)`: whatever the iteration orders of the two sets and whatever the orders
in which the two runs met the import symbols, equal sets of infos (with one hash per file) give the
same list. -/
theorem C18_cache_imports_canonical (perm₁ perm₂ : List ImportInfo → List ImportInfo)
    (hp₁ : ∀ l, (perm₁ l).Perm l) (hp₂ : ∀ l, (perm₂ l).Perm l) (s₁ s₂ : List ImportInfo)
    (hmem : ∀ x, x ∈ s₁ ↔ x ∈ s₂)
    (hinj : ∀ a b, a ∈ s₁ → b ∈ s₁ → a.filepath = b.filepath → a = b) :
    cacheImports perm₁ s₁ = cacheImports perm₂ s₂ := by
  unfold cacheImports
  have hd : (dedupBy importInfoEq s₁).Perm (dedupBy importInfoEq s₂) :=
    (List.perm_ext_iff_of_nodup (nodup_dedupBy _ importInfoEq_iff s₁) (nodup_dedupBy _ importInfoEq_iff s₂)).mpr
      (fun x => by rw [mem_dedupBy _ importInfoEq_iff, mem_dedupBy _ importInfoEq_iff, hmem])
  apply sortBy_perm_eq strLe _ strLe_order (((hp₁ _).trans hd).trans (hp₂ _).symm)
  intro a b ha hb hab
  have ha' := (mem_dedupBy _ importInfoEq_iff s₁ a).mp ((hp₁ _).mem_iff.mp ha)
  have hb' := (mem_dedupBy _ importInfoEq_iff s₁ b).mp ((hp₁ _).mem_iff.mp hb)
  exact hinj a b ha' hb' hab

/-- In particular the cache document's `imports` do not depend on the ORDER of `import_irs` (the
contexts may be walked in any order), nor on the set's iteration order. -/
theorem C18_cache_imports_bfs_order_free (perm₁ perm₂ : List ImportInfo → List ImportInfo)
    (hp₁ : ∀ l, (perm₁ l).Perm l) (hp₂ : ∀ l, (perm₂ l).Perm l)
    (t : List (Option ImportInfo)) (infosOf : Str → List (Option ImportInfo)) (keys₁ keys₂ : List Str)
    (hk : keys₁.Perm keys₂)
    (hinj : ∀ a b, a ∈ cacheInfoStream t infosOf keys₁ → b ∈ cacheInfoStream t infosOf keys₁ →
      a.filepath = b.filepath → a = b) :
    cacheImports perm₁ (cacheInfoStream t infosOf keys₁) = cacheImports perm₂ (cacheInfoStream t infosOf keys₂) := by
  apply C18_cache_imports_canonical perm₁ perm₂ hp₁ hp₂ _ _ _ hinj
  intro x
  unfold cacheInfoStream
  simp only [List.mem_filterMap, List.mem_append, List.mem_flatMap, id]
  constructor
  · rintro ⟨y, (hy | ⟨k, hk', hy⟩), rfl⟩
    · exact ⟨_, .inl hy, rfl⟩
    · exact ⟨_, .inr ⟨k, hk.mem_iff.mp hk', hy⟩, rfl⟩
  · rintro ⟨y, (hy | ⟨k, hk', hy⟩), rfl⟩
    · exact ⟨_, .inl hy, rfl⟩
    · exact ⟨_, .inr ⟨k, hk.mem_iff.mpr hk', hy⟩, rfl⟩

/-- The result is sorted on `filepath` and holds exactly the infos of the stream. -/
theorem C18_cache_imports_sorted (perm : List ImportInfo → List ImportInfo) (hp : ∀ l, (perm l).Perm l)
    (s : List ImportInfo) :
    (cacheImports perm s).Pairwise (fun a b => strLe a.filepath b.filepath = true)
    ∧ (∀ x, x ∈ cacheImports perm s ↔ x ∈ s) ∧ (cacheImports perm s).Nodup := by
  unfold cacheImports
  refine ⟨sorted_sortBy strLe _ strLe_order _, fun x => ?_, ?_⟩
  · rw [mem_sortBy, (hp _).mem_iff, mem_dedupBy _ importInfoEq_iff]
  · exact ((perm_sortBy strLe _ _).trans (hp _)).nodup_iff.mpr (nodup_dedupBy _ importInfoEq_iff s)

/-! #### the sort key of the cache document's `imports`

`C18_cache_imports_canonical` needs the key to separate the members of the set (`hinj`). For the pinned
key — the path AS RECORDED — that is not an assumption about the project: every member is made by
`CacheableImportInfo.from_file`, whose hash is a function of the recorded path
(`C18_cache_sort_key_injective`), so the list is canonical for EVERY project, links and duplicate
contents included (`C18_cache_imports_canonical_from_file`). A coarser key (the resolved path, the
content hash, the file name) is not injective as soon as one file is imported under two names, and then
the list follows the set's iteration order (`C18_cache_imports_coarse_key_tie`). Which key the code sorts
on, how a member is made and how the key type compares is Tie A (`tieA_cache_sort_key`). -/

/-- Tie A for the sort key of `make_cacheable_import_info`, in full: `sorted` takes `key=` only (no
`reverse=`), the key is `lambda info: info.filepath` as written (not `.resolve()`, not `.name`, not the
hash), the members are `CacheableImportInfo.from_file(symbol.module_spec.origin)`; `from_file` records the
path it is given and hashes that file; the class is `attrs.frozen` with the two fields, both in `==` and
in `hash`; `Path(…)` keeps a link / `..` as written (`probe:recorded`) and orders component-wise
(`probe:order`). -/
theorem tieA_cache_sort_key :
    Generated.C18.cacheSortKey =
      [("sorted-keywords", "key"), ("key", "lambda info: info.filepath"),
       ("member", "CacheableImportInfo.from_file(symbol.module_spec.origin)"),
       ("class-decorators", "attrs.frozen"),
       ("field:filepath", "Path = field(converter=Path, factory=Path)"),
       ("field:filehash", "str = field(default='')"),
       ("from_file", "return CacheableImportInfo(filepath=filepath, filehash=hash_file_content(filepath))"),
       ("eq-fields", "filepath,filehash"), ("hash-fields", "filepath,filehash"),
       ("probe:recorded", "r/a/c.py|r/a.x/c.py|l/../m.py"),
       ("probe:order", "/abs/z.py|frozen|r/A/c.py|r/a/B.py|r/a/c.py|r/a-b/c.py|r/a.x/c.py|r/a_b/c.py")] := by
  decide

/-- The pinned `sorted` is the general one at `key := filepath`. -/
theorem cacheImports_eq_by (perm : List ImportInfo → List ImportInfo) (s : List ImportInfo) :
    cacheImports perm s = cacheImportsBy strLe (fun i => i.filepath) perm s := rfl

/-- Every member of the stream is `from_file` of some origin. -/
theorem mem_cacheInfoStreamOfOrigins {hashOf : Str → Str} {t : List (Option Str)}
    {originsOf : Str → List (Option Str)} {keys : List Str} {x : ImportInfo}
    (h : x ∈ cacheInfoStreamOfOrigins hashOf t originsOf keys) : ∃ o, x = infoFromFile hashOf o := by
  unfold cacheInfoStreamOfOrigins cacheInfoStream at h
  simp only [List.mem_filterMap, List.mem_append, List.mem_map, List.mem_flatMap, id] at h
  rcases h with ⟨y, (⟨o, _, rfl⟩ | ⟨_, _, o, _, rfl⟩), hy⟩
  · cases o with
    | none => simp at hy
    | some o => exact ⟨o, by simpa using hy.symm⟩
  · cases o with
    | none => simp at hy
    | some o => exact ⟨o, by simpa using hy.symm⟩

/-- **The sort key is injective on the recorded infos.** Two members of the import set with the same
recorded path are the same member — for every project (links, copies, one file under two module names),
every order of the contexts and every hash function. -/
theorem C18_cache_sort_key_injective (hashOf : Str → Str) (t : List (Option Str))
    (originsOf : Str → List (Option Str)) (keys : List Str) (a b : ImportInfo)
    (ha : a ∈ cacheInfoStreamOfOrigins hashOf t originsOf keys)
    (hb : b ∈ cacheInfoStreamOfOrigins hashOf t originsOf keys)
    (hk : a.filepath = b.filepath) : a = b := by
  obtain ⟨oa, rfl⟩ := mem_cacheInfoStreamOfOrigins ha
  obtain ⟨ob, rfl⟩ := mem_cacheInfoStreamOfOrigins hb
  simp only [infoFromFile] at hk
  rw [hk]

/-- **The `imports` list is canonical, with no hypothesis on the project**: whatever the iteration
orders of the two sets and whatever the order the contexts were walked in, the same origins give the
same list. -/
theorem C18_cache_imports_canonical_from_file (perm₁ perm₂ : List ImportInfo → List ImportInfo)
    (hp₁ : ∀ l, (perm₁ l).Perm l) (hp₂ : ∀ l, (perm₂ l).Perm l) (hashOf : Str → Str)
    (t : List (Option Str)) (originsOf : Str → List (Option Str)) (keys₁ keys₂ : List Str)
    (hk : keys₁.Perm keys₂) :
    cacheImports perm₁ (cacheInfoStreamOfOrigins hashOf t originsOf keys₁)
      = cacheImports perm₂ (cacheInfoStreamOfOrigins hashOf t originsOf keys₂) := by
  unfold cacheInfoStreamOfOrigins
  exact C18_cache_imports_bfs_order_free perm₁ perm₂ hp₁ hp₂ _ _ keys₁ keys₂ hk
    (fun a b ha hb => C18_cache_sort_key_injective hashOf t originsOf keys₁ a b ha hb)

/-- **A key that ties two members makes the list follow the set's iteration order**: for ANY key and
order, a set holding two different infos with equal keys is printed in two different ways under two
iteration orders. (So `key=lambda info: info.filepath.resolve()` — one file imported through a link —,
`key=filehash` — two copies —, `key=filepath.name` — `a/util.py`, `b/util.py` — are all not canonical.) -/
theorem C18_cache_imports_coarse_key_tie {κ : Type} (le : κ → κ → Bool) (key : ImportInfo → κ)
    (a b : ImportInfo) (hne : a ≠ b) (htie : key a = key b) (hrefl : le (key a) (key a) = true) :
    cacheImportsBy le key id [a, b] = [a, b] ∧ cacheImportsBy le key List.reverse [a, b] = [b, a]
    ∧ cacheImportsBy le key id [a, b] ≠ cacheImportsBy le key List.reverse [a, b] := by
  have hd : dedupBy importInfoEq [a, b] = [a, b] := by
    have : importInfoEq a b = false := by
      cases h : importInfoEq a b with
      | false => rfl
      | true => exact absurd ((importInfoEq_iff a b).mp h) hne
    simp [dedupBy, this]
  have h1 : cacheImportsBy le key id [a, b] = [a, b] := by
    simp [cacheImportsBy, hd, sortBy, insertBy, ← htie, hrefl]
  have h2 : cacheImportsBy le key List.reverse [a, b] = [b, a] := by
    simp [cacheImportsBy, hd, sortBy, insertBy, ← htie, hrefl]
  refine ⟨h1, h2, ?_⟩
  rw [h1, h2]
  intro h
  exact hne (List.cons.inj h).1

/-- (test, by evaluation) the reviewers' project: `real_mod.py` and a link `alias_one.py` to it, sorted
on the RESOLVED path (`resolveOf`): two iteration orders, two lists; sorted on the recorded path: one. -/
theorem C18_cex_cache_imports_resolved_key :
    let real : ImportInfo := ⟨str "/p/real_mod.py", str "h"⟩
    let link : ImportInfo := ⟨str "/p/alias_one.py", str "h"⟩
    let resolveOf : ImportInfo → Str := fun _ => str "/p/real_mod.py"
    cacheImportsBy strLe resolveOf id [real, link] ≠ cacheImportsBy strLe resolveOf List.reverse [real, link]
    ∧ cacheImports id [real, link] = cacheImports List.reverse [real, link] := by
  decide

end ImportBfs

/-! ### The full statement (kept visible; false on the pinned tree) -/

/-- C18 in full: every document is canonical (results, file IR — for *all* sets, with or without
equal names and with no assumption on json's printer — and the emitted symbol table, whose dict is
a mapping), and everything round-trips. -/
def C18_full : Prop :=
  (∀ r₁ r₂ : FileResults, (r₁.map Prod.fst).Nodup → ResultsSetEq r₁ r₂ →
      unFileResults r₁ = unFileResults r₂)
  ∧ (∀ f₁ f₂ : FileIr, KeysDistinct f₁ → FileIrSets f₁ → FileIrSetEq f₁ f₂ →
      unFileIr f₁ = unFileIr f₂)
  ∧ (∀ (p : Option Context) (t₁ t₂ : List (Str × Symbol)) (f : Str), t₁.Perm t₂ →
      unContext (.mk p t₁ f) = unContext (.mk p t₂ f))
  ∧ (∀ s : Symbol, stSymbol (unSymbol s) = .ok s)
  ∧ (∀ r : FileResults, (∀ p, p ∈ r → FnNodup p.2) →
      ∃ r', stFileResults (unFileResults r) = .ok r' ∧ ResultsSetEq r r')

private def tieIr (cs : List Symbol) : FileIr :=
  { context := .mk none [] (str "t.py"), fileIr := [(symF, ⟨[], [], [], cs⟩)] }

/-- (test, by evaluation) the former FileIr-level tie witness: one document for both orders. -/
theorem C18_ties_resolved_fileir :
    unFileIr (tieIr [callG "a", callG "b"]) = unFileIr (tieIr [callG "b", callG "a"]) := by decide

/-- `C18_full` still fails: its third conjunct asks the emitted symbol table to be a function of
the mapping, and the context hook emits the dict in insertion order (`C18_cex_symtab_order`).
(Since b3940ea the analyser hands the serialiser a deterministic insertion order, so this is no
longer observable as a hash-seed dependence; it remains a fact about the hook.) -/
theorem C18_full_false : ¬ C18_full := by
  intro h
  exact C18_cex_symtab_order.2
    (h.2.2.1 none [(str "f", symF), (str "g", symG)] [(str "g", symG), (str "f", symF)] (str "t.py")
      (List.Perm.swap _ _ _))

/-- Every conjunct of `C18_full` but the symbol-table one is a theorem. -/
theorem C18_full_but_symtab :
    (∀ r₁ r₂ : FileResults, (r₁.map Prod.fst).Nodup → ResultsSetEq r₁ r₂ →
        unFileResults r₁ = unFileResults r₂)
    ∧ (∀ f₁ f₂ : FileIr, KeysDistinct f₁ → FileIrSets f₁ → FileIrSetEq f₁ f₂ →
        unFileIr f₁ = unFileIr f₂)
    ∧ (∀ s : Symbol, stSymbol (unSymbol s) = .ok s)
    ∧ (∀ r : FileResults, (∀ p, p ∈ r → FnNodup p.2) →
        ∃ r', stFileResults (unFileResults r) = .ok r' ∧ ResultsSetEq r r') :=
  ⟨C18_results_canonical, C18_ir_canonical, rt_symbol,
    fun r h => ⟨_, (C18_roundtrip_results r h).1, (C18_roundtrip_results r h).2⟩⟩

/-! ### Non-vacuity: the hypotheses are satisfiable by non-trivial inputs -/

private def nm (n : String) : Symbol := .base (.name (str n) (str n) loc0 none)
private def resA : FileResults :=
  [(str "f", ⟨[str "b.x", str "a"], [str "a.y"], [], [str "g()", str "f()"]⟩), (str "C", ⟨[str "v"], [], [], []⟩)]
private def resB : FileResults :=
  [(str "C", ⟨[str "v"], [], [], []⟩), (str "f", ⟨[str "a", str "b.x"], [str "a.y"], [], [str "f()", str "g()"]⟩)]

/-- `C18_results_canonical`'s hypotheses on a two-function results object given in two different
orders; the documents are then literally equal (here checked by evaluation). -/
example : (resA.map Prod.fst).Nodup ∧ ResultsSetEq resA resB ∧ unFileResults resA = unFileResults resB := by
  refine ⟨by decide, ⟨[(str "C", ⟨[str "v"], [], [], []⟩),
      (str "f", ⟨[str "b.x", str "a"], [str "a.y"], [], [str "g()", str "f()"]⟩)], List.Perm.swap _ _ _, ?_⟩, by decide⟩
  exact .cons ⟨rfl, List.Perm.refl _, List.Perm.refl _, List.Perm.refl _, List.Perm.refl _⟩
    (.cons ⟨rfl, List.Perm.swap _ _ _, List.Perm.refl _, List.Perm.refl _, List.Perm.swap _ _ _⟩ .nil)

/-- `FileIrSortKeyInj` holds of a FileIr whose `calls` set has two members of one name. -/
example : FileIrSortKeyInj (tieIr [callG "a", callG "b"]) := by
  constructor
  · intro p q hp hq _
    simp only [tieIr, List.mem_singleton] at hp hq
    rw [hp, hq]
  · intro p hp
    simp only [tieIr, List.mem_singleton] at hp
    subst hp
    refine ⟨?_, ?_, ?_, C18_ties_sortKeyInj.1⟩ <;> (intro a b ha; cases ha)

/-- The hypotheses of `C18_ir_canonical` hold of that FileIr too (its `calls` list is a set although
two members share a name), and of a set whose two calls differ in their keyword arguments. -/
example : KeysDistinct (tieIr [callG "a", callG "b"]) ∧ FileIrSets (tieIr [callG "a", callG "b"])
    ∧ IsSet [callKw [("a", "x"), ("b", "y")], callKw [("b", "x"), ("a", "y")], callG "a"] := by
  refine ⟨?_, ?_, ?_⟩
  · intro p q hp hq _
    simp only [tieIr, List.mem_singleton] at hp hq
    rw [hp, hq]
  · intro p hp
    simp only [tieIr, List.mem_singleton] at hp
    subst hp
    refine ⟨by simp [IsSet], by simp [IsSet], by simp [IsSet], ?_⟩
    unfold IsSet
    simp only [List.pairwise_cons, List.mem_cons, List.not_mem_nil, or_false, forall_eq,
      List.Pairwise.nil, and_true, false_implies, implies_true]
    decide
  · unfold IsSet
    simp only [List.pairwise_cons, List.mem_cons, List.not_mem_nil, or_false, forall_eq_or_imp,
      forall_eq, List.Pairwise.nil, and_true, false_implies, implies_true]
    decide

/-- `KwOrderFixed` / `sortKeyInj_of_kwargs_le_one` apply to a list that is NOT a set (a repeated
member). -/
example : (∀ s, s ∈ [callG "a", callG "a", callKw [("k", "v")]] → (symKwargs s).length ≤ 1)
    ∧ ¬ IsSet [callG "a", callG "a", callKw [("k", "v")]] := by
  constructor
  · intro s hs
    simp only [List.mem_cons, List.not_mem_nil, or_false] at hs
    rcases hs with rfl | rfl | rfl <;> decide
  · intro h
    have := (List.pairwise_cons.mp h).1 (callG "a") (by simp)
    revert this
    decide

/-- The printer theorems are about non-trivial values: a string with every kind of escape (quote,
backslash, control, DEL, non-ASCII BMP, astral) nested in arrays and objects. -/
example : JVal.renderSp (.obj [(str "k\"", .arr [.str (str "a\\\n\u0001\u007fé😀"), .num (-12), .null]),
      (str "", .obj [])])
    = str "{\"k\\\"\": [\"a\\\\\\n\\u0001\\u007f\\u00e9\\ud83d\\ude00\", -12, null], \"\": {}}" := by
  decide +kernel

/-- `FnIrIsSet`/`FnNodup` are satisfiable, and the round trip of a `Call` with a nested `Func`
target evaluates as the theorem says. -/
example : FnIrIsSet ⟨[nm "a", nm "b"], [], [], [callG "a", callG "b"]⟩ := by
  unfold FnIrIsSet IsSet
  simp only [List.pairwise_cons, List.mem_cons, List.not_mem_nil, or_false, forall_eq, List.Pairwise.nil,
    and_true, false_implies, implies_true]
  decide

example : stSymbol (unSymbol (.call (str "f") ⟨[str "a"], [(str "k", str "b.c")]⟩
    (some (.func (str "f") loc0 (.mk ⟨[str "p"], [str "x"], some (str "va"), [str "k"], some (str "kw")⟩) true)) loc0))
    = .ok (.call (str "f") ⟨[str "a"], [(str "k", str "b.c")]⟩
    (some (.func (str "f") loc0 (.mk ⟨[str "p"], [str "x"], some (str "va"), [str "k"], some (str "kw")⟩) true)) loc0) := by
  decide

/-- `C18_irdocument_canonical` / `C18_importirs_in_bfs_order` on a run over the hub graph (depth 2,
fan-out 2) in which module `a` has a `calls` set met in two iteration orders: the hypotheses hold
(`tieIr …` has distinct keys and set members, see above), the stage finishes, the two documents are
equal and list `hub, a, b` (here also by evaluation); and on a diamond of depth 3
(target → {l, r}; l → {s, x}; r → {x, s}; s → {d}) the order is the BFS order `l, r, s, x, d`. -/
example :
    let ir₁ : Str → FileIr := fun n => if n = str "a" then tieIr [callG "a", callG "b"] else irOfName n
    let ir₂ : Str → FileIr := fun n => if n = str "a" then tieIr [callG "b", callG "a"] else irOfName n
    irDocument (hubGraph [imp "a", imp "b"]) flLocal [imp "hub"] ir₁ (str "t.py") (leafIr "t.py")
      = irDocument (hubGraph [imp "a", imp "b"]) flLocal [imp "hub"] ir₂ (str "t.py") (leafIr "t.py")
    ∧ (irDocument (hubGraph [imp "a", imp "b"]) flLocal [imp "hub"] ir₁ (str "t.py") (leafIr "t.py")).map docImportKeys
      = some [str "hub", str "a", str "b"]
    ∧ (irDocument [modl "l" [imp "s", imp "x"], modl "r" [imp "x", imp "s"], modl "s" [imp "d", imp "l"],
          modl "x" [], modl "d" []] flLocal [imp "l", imp "r"] irOfName (str "t.py") (leafIr "t.py")).map docImportKeys
      = some [str "l", str "r", str "s", str "x", str "d"] := by
  decide

/-- `C18_cache_imports_canonical`: a stream that meets `b.py` twice, iterated in reverse. -/
example : cacheImports List.reverse [⟨str "b.py", str "1"⟩, ⟨str "a.py", str "2"⟩, ⟨str "b.py", str "1"⟩]
    = [⟨str "a.py", str "2"⟩, ⟨str "b.py", str "1"⟩]
    ∧ cacheImports id [⟨str "a.py", str "2"⟩, ⟨str "b.py", str "1"⟩] = [⟨str "a.py", str "2"⟩, ⟨str "b.py", str "1"⟩] := by
  decide

end Rattr.C18

/-
  C17 — undefined-name warnings track Python's local binding rules.

  Model: `FnA.getAndVerify` (= `get_and_verify_name`), the context registrations / removals of the
  visitor (`addIdentifiers`, `removeIdentifiers`, `addArguments`, `withRegister`, push / pop) and
  `FnA.analyse` — RattrModel/FnAnalyser.lean; the scope chain — RattrModel/Context.lean.

  Proved for all inputs:
    * `C17_no_warning_when_bound` (+ `…_name_load`): a nameable whose BASE is in the context chain
      is never diagnosed;
    * `C17_warns_when_unbound`, `C17_store_never_warns`, `C17_literal_never_warns`;
    * `C17_params_bound`: all five kinds of parameter are in the context when the body starts;
    * `C17_assignment_registers` (+ bare-name / tuple corollaries, and the `for`, `with`,
      comprehension, plain-assignment paths): targets are registered BEFORE anything is visited;
    * `C17_scope_balance`: the depth of the scope chain after visiting ANY node equals the depth
      before (whole mutual block: comprehension / lambda / nested def push and pop, the custom
      analysers, `visit_ReturnValue`, the assignment diversions) — for a non-empty chain, which is
      what `analyse` provides (`C17_analyse_restores_depth`);
    * `del` (since fix adebbdf: visit first, then unbind by FULL name): `C17_del_statement_no_warning`,
      `C17_must_warn_after_del`, `C17_del_then_use` (nothing on the `del` statement, exactly one
      warning on the later use), `C17_attr_del_keeps_base` / `C17_item_del_keeps_base`,
      `C17_del_attr_statement`, `C17_del_attr_then_use` (`del p.attr; p.after` never warns);
      the two `del` clauses of `C17_full` now hold (`C17_clause_del_statement_holds`,
      `C17_clause_attr_del_holds`);
    * `C17_attr_store_registers_base`: `unravel_names` yields the BASE name of an attribute / item
      STORE target — the root of the remaining missing-warning defect classes.
  `C17_full` (the per-construct clauses of the property this model can express) is still false:
  `C17_full_false` (from the attribute-store clause; also walrus-in-comprehension and
  rebound-by-the-same-statement), with one `C17_cex_*` per remaining known-finding class, each a
  kernel evaluation of `FnA.analyse` on a minimal body.
-/
import RattrProofs.Lemmas.VisitCtx
import RattrProofs.Lemmas.RootContext
import RattrProofs.Lemmas.FileAnalyser
import RattrProofs.Lemmas.C17Options
import RattrModel.Generated.C17
import RattrModel.FnVisitSites

namespace Rattr.C17
open Rattr Rattr.FnA Rattr.Strs

def undefinedWarning (x : Str) : Diag := mkDiag .warning "undefined" x

/-! ### `get_and_verify_name` -/

/-- no diagnostic when the base name is visible in the scope chain: the continuation receives the
state unchanged. -/
theorem C17_no_warning_when_bound (s : St) (n : Node) (c : ECtx) (k : St → Str → Str → Res)
    (base full : Str) (hn : namesOf true n = .ok base full)
    (hb : Context.contains s.ctx base = true) :
    getAndVerify s n c k = k s base full := by
  rw [getAndVerify_ok s n c k base full hn, verifySt_bound s base c hb]

/-- in particular loading (or deleting) a bound bare name leaves `diags` unchanged. -/
theorem C17_no_warning_name (env : Env) (mn : Str) (x : Str) (c : ECtx) (s : St)
    (hb : Context.contains s.ctx x = true) :
    ∃ s', visit env mn (.name x c) s = .ok s' ∧ s'.diags = s.diags ∧ s'.ctx = s.ctx := by
  rw [visit.eq_def]
  simp only []
  rw [C17_no_warning_when_bound s _ c _ x x (by simp [namesOf]) hb]
  refine ⟨_, rfl, ?_, ?_⟩ <;> cases c <;> rfl

/-- the same for any compound name `x.a`, `x[i]`, `*x`, `x.a.b[i]` … with a nameable value part:
only the BASE matters. -/
theorem C17_no_warning_attr (env : Env) (mn : Str) (v : Node) (a : Str) (c : ECtx) (s : St)
    (base full : Str) (hv : v.isNameable = true) (hn : namesOf true (.attr v a c) = .ok base full)
    (hb : Context.contains s.ctx base = true) :
    ∃ s', visit env mn (.attr v a c) s = .ok s' ∧ s'.diags = s.diags ∧ s'.ctx = s.ctx := by
  rw [visit.eq_def]
  simp only []
  rw [C17_no_warning_when_bound s _ c _ base full hn hb]
  simp only [hv, Bool.not_true, Bool.false_eq_true, if_false, FnA.bind]
  refine ⟨_, rfl, ?_, ?_⟩ <;> cases c <;> rfl

/-- an unbound, non-literal base that is loaded or deleted gets exactly one `undefined` warning. -/
theorem C17_warns_when_unbound (env : Env) (mn : Str) (x : Str) (c : ECtx) (s : St)
    (hc : c ≠ .store) (hb : Context.contains s.ctx x = false) (hat : startsWith x ['@'] = false) :
    ∃ s', visit env mn (.name x c) s = .ok s' ∧ s'.diags = s.diags ++ [undefinedWarning x] ∧
      s'.ctx = s.ctx := by
  rw [visit.eq_def]
  simp only []
  rw [getAndVerify_ok s _ c _ x x (by simp [namesOf]), verifySt_unbound s x c hb hc hat]
  refine ⟨_, rfl, ?_, ?_⟩ <;> cases c <;> rfl

/-- a store never warns, bound or not. -/
theorem C17_store_never_warns (env : Env) (mn : Str) (x : Str) (s : St) :
    ∃ s', visit env mn (.name x .store) s = .ok s' ∧ s'.diags = s.diags ∧ s'.ctx = s.ctx := by
  rw [visit.eq_def]
  simp only []
  rw [getAndVerify_ok s _ .store _ x x (by simp [namesOf]), verifySt_store]
  exact ⟨_, rfl, rfl, rfl⟩

/-- literal stand-ins (`@Constant`, `@BinOp`, …) never warn. -/
theorem C17_literal_never_warns (s : St) (n : Node) (c : ECtx) (k : St → Str → Str → Res)
    (base full : Str) (hn : namesOf true n = .ok base full) (hat : startsWith base ['@'] = true) :
    getAndVerify s n c k = k s base full := by
  rw [getAndVerify_ok s n c k base full hn]
  simp [verifySt, hat]

/-! ### parameters -/

/-- `analyse` starts the body in a state whose context contains every parameter: positional-only,
positional, `*vararg`, keyword-only, `**kwarg`; no diagnostics yet. -/
theorem C17_params_bound (env : Env) (mn : Str) (root : Context) (ps : Params) (body : List Node) :
    ∃ s0 : St,
      analyse env mn root ps body
        = (visitList env mn body s0 >>>= fun s => .ok { s with ctx := Context.pop s.ctx }) ∧
      s0.diags = [] ∧
      ∀ x, (x ∈ ps.posonly ∨ x ∈ ps.args ∨ ps.vararg = some x ∨ x ∈ ps.kwonly ∨ ps.kwarg = some x) →
        Context.contains s0.ctx x = true := by
  refine ⟨addArguments { ctx := Context.push root } ps, rfl, rfl, ?_⟩
  intro x hx
  exact addArguments_contains _ ps x ((mem_params_all ps x).mpr hx)

/-- everything visible at module level (builtins, imports, definitions) stays visible. -/
theorem C17_root_names_bound (root : Context) (ps : Params) (x : Str)
    (h : Context.contains root x = true) :
    Context.contains (addArguments { ctx := Context.push root } ps).ctx x = true := by
  exact addArguments_contains_mono _ ps x (by simpa using h)

/-! ### `unravel_names` (base names: what a target registers) and `unravelFullNames` (what a `del` removes) -/

theorem unravelNames_name (x : Str) (c : ECtx) : unravelNames (.name x c) = .ok [x] := by
  simp [unravelNames, Node.isNameable, namesOf]

theorem unravelNamesL_names (xs : List Str) (c : ECtx) :
    unravelNamesL (xs.map fun x => Node.name x c) = .ok xs := by
  induction xs with
  | nil => simp [unravelNamesL]
  | cons x r ih => simp [unravelNamesL, unravelNames_name, ih]

theorem unravelNames_tuple (xs : List Str) (c c' : ECtx) :
    unravelNames (.seq "Tuple".toList (xs.map fun x => Node.name x c) c') = .ok xs := by
  simp [unravelNames, unravelNamesL_names]

/-- for an attribute target `x.a` it is the BASE name `x` that is yielded. -/
theorem C17_attr_target_unravels_to_base (x a : Str) (c c' : ECtx) :
    unravelNames (.attr (.name x c) a c') = .ok [x] := by
  simp [unravelNames, Node.isNameable, namesOf]

/-- likewise for an item target `x[i]`. -/
theorem C17_item_target_unravels_to_base (x : Str) (i : Node) (c c' : ECtx) :
    unravelNames (.sub (.name x c) i c') = .ok [x] := by
  simp [unravelNames, Node.isNameable, namesOf]

/-- defect root (missing-warning classes): `p.attr = …` REGISTERS `p`. -/
theorem C17_attr_store_registers_base (s : St) (p a : Str) (c : ECtx) :
    ∃ s', addIdentifiers s (.attr (.name p c) a .store) = .ok s' ∧
      Context.contains s'.ctx p = true ∧ s'.diags = s.diags := by
  simp only [addIdentifiers, C17_attr_target_unravels_to_base]
  exact ⟨_, rfl, Context.contains_add _ _, rfl⟩

/-! #### `del` removes by FULL name (fix adebbdf) -/

theorem unravelFullNames_name (x : Str) (c : ECtx) : unravelFullNames (.name x c) = .ok [x] := by
  simp [unravelFullNames, Node.isNameable, namesOf]

/-- for `del x.a` it is the full name `x.a` that is yielded … -/
theorem C17_attr_del_target_full_name (x a : Str) (c c' : ECtx) :
    unravelFullNames (.attr (.name x c) a c') = .ok [x ++ '.' :: a] := by
  simp [unravelFullNames, Node.isNameable, namesOf]

/-- … and `x[]` for `del x[i]`. -/
theorem C17_item_del_target_full_name (x : Str) (i : Node) (c c' : ECtx) :
    unravelFullNames (.sub (.name x c) i c') = .ok [x ++ lit "[]"] := by
  simp [unravelFullNames, Node.isNameable, namesOf]

theorem append_cons_ne_self (p : Str) (ch : Char) (a : Str) : p ++ ch :: a ≠ p := by
  intro e
  have := congrArg List.length e
  simp at this

/-- `del p.attr` never unbinds `p`: what `p` resolves to is unchanged. -/
theorem C17_attr_del_keeps_base (s : St) (p a : Str) (c : ECtx) :
    ∃ s', removeIdentifiers s (.attr (.name p c) a .del) = .ok s' ∧
      Context.get? s'.ctx p = Context.get? s.ctx p ∧ s'.diags = s.diags := by
  simp only [removeIdentifiers, C17_attr_del_target_full_name]
  refine ⟨_, rfl, ?_, rfl⟩
  exact Context.get?_remove_other s.ctx _ p (append_cons_ne_self p '.' a)

/-- `del p[i]` never unbinds `p`. -/
theorem C17_item_del_keeps_base (s : St) (p : Str) (i : Node) (c : ECtx) :
    ∃ s', removeIdentifiers s (.sub (.name p c) i .del) = .ok s' ∧
      Context.get? s'.ctx p = Context.get? s.ctx p ∧ s'.diags = s.diags := by
  simp only [removeIdentifiers, C17_item_del_target_full_name]
  refine ⟨_, rfl, ?_, rfl⟩
  exact Context.get?_remove_other s.ctx _ p (append_cons_ne_self p '[' [']'])

/-- removing a local (bound once in the innermost scope, not visible outside) makes it invisible. -/
theorem C17_remove_unbinds_local (sc : Scope) (r : Context) (p : Str)
    (hnd : (Dict.keys sc).Nodup) (hout : Context.contains r p = false) :
    Context.contains (Context.remove (sc :: r) p) p = false := by
  unfold Context.contains at *
  rw [Context.get?_remove_self sc r p hnd]
  exact hout

/-! ### registration happens before visiting -/

/-- `add_identifiers_to_context(target)`: every unravelled name is visible afterwards; nothing else
about the state changes. -/
theorem C17_assignment_registers (s s' : St) (t : Node) (names : List Str)
    (hu : unravelNames t = .ok names) (h : addIdentifiers s t = .ok s') :
    (∀ x ∈ names, Context.contains s'.ctx x = true) ∧
    (∀ x, Context.contains s.ctx x = true → Context.contains s'.ctx x = true) ∧
    s'.diags = s.diags := by
  simp only [addIdentifiers, hu] at h
  injection h with h
  subst h
  exact ⟨fun x hx => Context.contains_addNames _ _ x hx,
         fun x hx => Context.contains_addNames_mono _ _ x hx, rfl⟩

theorem C17_bare_name_registers (s : St) (x : Str) (c : ECtx) :
    ∃ s', addIdentifiers s (.name x c) = .ok s' ∧ Context.contains s'.ctx x = true := by
  simp only [addIdentifiers, unravelNames_name]
  exact ⟨_, rfl, Context.contains_add _ _⟩

theorem C17_tuple_registers (s : St) (xs : List Str) (c c' : ECtx) :
    ∃ s', addIdentifiers s (.seq "Tuple".toList (xs.map fun x => Node.name x c) c') = .ok s' ∧
      ∀ x ∈ xs, Context.contains s'.ctx x = true := by
  simp only [addIdentifiers, unravelNames_tuple]
  exact ⟨_, rfl, fun x hx => Context.contains_addNames _ _ x hx⟩

theorem addIdentifiers_mono (s s' : St) (t : Node) (h : addIdentifiers s t = .ok s') (x : Str)
    (hx : Context.contains s.ctx x = true) : Context.contains s'.ctx x = true := by
  unfold addIdentifiers at h
  split at h
  · injection h with h; subst h; exact Context.contains_addNames_mono _ _ x hx
  · cases h
  · cases h

theorem addIdentifiers_diags (s s' : St) (t : Node) (h : addIdentifiers s t = .ok s') :
    s'.diags = s.diags := by
  unfold addIdentifiers at h
  split at h
  · injection h with h; subst h; rfl
  · cases h
  · cases h

/-- several targets (`a = b = …`, the `optional_vars` list): every target's names are visible. -/
theorem C17_targets_register (s s' : St) (ts : List Node) (h : addIdentifiersL s ts = .ok s') :
    (∀ t ∈ ts, ∀ names, unravelNames t = .ok names → ∀ x ∈ names, Context.contains s'.ctx x = true) ∧
    (∀ x, Context.contains s.ctx x = true → Context.contains s'.ctx x = true) ∧
    s'.diags = s.diags := by
  induction ts generalizing s with
  | nil =>
    simp only [addIdentifiersL] at h
    injection h with h; subst h
    exact ⟨(by intro t ht; cases ht), fun _ h => h, rfl⟩
  | cons t r ih =>
    simp only [addIdentifiersL, FnA.bind] at h
    cases h1 : addIdentifiers s t with
    | ok s1 =>
      simp only [h1] at h
      obtain ⟨ihA, ihM, ihD⟩ := ih s1 h
      refine ⟨?_, fun x hx => ihM x (addIdentifiers_mono s s1 t h1 x hx), ?_⟩
      · intro t' ht' names hu x hx
        rcases List.mem_cons.mp ht' with e | ht'
        · subst e
          exact ihM x ((C17_assignment_registers s s1 t' names hu h1).1 x hx)
        · exact ihA t' ht' names hu x hx
      · rw [ihD, addIdentifiers_diags s s1 t h1]
    | fatal s1 d => simp [h1] at h
    | crash s1 e => simp [h1] at h

/-- plain / annotated / augmented / walrus assignment (no lambda, namedtuple or class on the
right): when the diversion hands back to `generic_visit`, the targets are already registered —
BEFORE the value is visited. -/
theorem C17_assign_registers_before_visit (env : Env) (mn : Str) (targets : List Node) (v : Node)
    (s s1 : St) (h : assignDiv env mn targets v s = .generic s1) :
    (∀ t ∈ targets, ∀ names, unravelNames t = .ok names →
      ∀ x ∈ names, Context.contains s1.ctx x = true) ∧ s1.diags = s.diags := by
  have key : addIdentifiersL s targets = .ok s1 := by
    rw [assignDiv.eq_def] at h
    simp only [] at h
    repeat' split at h
    all_goals cases h
    all_goals assumption
  have := C17_targets_register s s1 targets key
  exact ⟨this.1, this.2.2⟩

/-- `for t in it:` — the target is registered first, then target, iterable, body, orelse are
visited in a state where it is visible. -/
theorem C17_for_registers (env : Env) (mn : Str) (t iter : Node) (body orelse : List Node) (s : St)
    (names : List Str) (hu : unravelNames t = .ok names) :
    ∃ s1 : St,
      visit env mn (.forLoop t iter body orelse) s
        = (visit env mn t s1 >>>= fun s => visit env mn iter s >>>= fun s =>
            visitList env mn body s >>>= fun s => visitList env mn orelse s) ∧
      (∀ x ∈ names, Context.contains s1.ctx x = true) ∧ s1.diags = s.diags := by
  rw [visit.eq_def]
  simp only [addIdentifiers, hu, FnA.bind]
  exact ⟨_, rfl, fun x hx => Context.contains_addNames _ _ x hx, rfl⟩

/-- comprehension `for t in it if …`: the target is registered (in the comprehension's scope)
before target, iterable and conditions are visited. -/
theorem C17_comprehension_registers (env : Env) (mn : Str) (t iter : Node) (ifs : List Node) (s : St)
    (names : List Str) (hu : unravelNames t = .ok names) :
    ∃ s1 : St,
      visit env mn (.gen t iter ifs) s
        = (visit env mn t s1 >>>= fun s => visit env mn iter s >>>= fun s => visitList env mn ifs s) ∧
      (∀ x ∈ names, Context.contains s1.ctx x = true) ∧ s1.diags = s.diags := by
  rw [visit.eq_def]
  simp only [addIdentifiers, hu, FnA.bind]
  exact ⟨_, rfl, fun x hx => Context.contains_addNames _ _ x hx, rfl⟩

theorem withRegister_spec (items : List Node) (s s1 : St) (h : withRegister items s = .ok s1) :
    (∀ ce vars, Node.withitem ce vars ∈ items → ∀ v ∈ vars, ∀ names, unravelNames v = .ok names →
      ∀ x ∈ names, Context.contains s1.ctx x = true) ∧
    (∀ x, Context.contains s.ctx x = true → Context.contains s1.ctx x = true) ∧
    s1.diags = s.diags := by
  induction items generalizing s with
  | nil =>
    simp only [withRegister] at h
    injection h with h; subst h
    exact ⟨(by intro _ _ hm; cases hm), fun _ h => h, rfl⟩
  | cons it r ih =>
    have other : ∀ s, (∀ ce vars, it ≠ .withitem ce vars) → withRegister r s = .ok s1 →
        (∀ ce vars, Node.withitem ce vars ∈ it :: r → ∀ v ∈ vars, ∀ names, unravelNames v = .ok names →
          ∀ x ∈ names, Context.contains s1.ctx x = true) ∧
        (∀ x, Context.contains s.ctx x = true → Context.contains s1.ctx x = true) ∧
        s1.diags = s.diags := by
      intro s hne h
      obtain ⟨a, b, c⟩ := ih s h
      refine ⟨?_, b, c⟩
      intro ce vars hm
      rcases List.mem_cons.mp hm with e | hm
      · exact absurd e.symm (hne ce vars)
      · exact a ce vars hm
    cases it with
    | withitem ce0 vars0 =>
      simp only [withRegister, FnA.bind] at h
      cases h1 : addIdentifiersL s vars0 with
      | ok s2 =>
        simp only [h1] at h
        obtain ⟨a, b, c⟩ := ih s2 h
        obtain ⟨a1, b1, c1⟩ := C17_targets_register s s2 vars0 h1
        refine ⟨?_, fun x hx => b x (b1 x hx), by rw [c, c1]⟩
        intro ce vars hm v hv names hu x hx
        rcases List.mem_cons.mp hm with e | hm
        · injection e with e1 e2
          subst e2
          exact b x (a1 v hv names hu x hx)
        · exact a ce vars hm v hv names hu x hx
      | fatal s2 d => simp [h1] at h
      | crash s2 e => simp [h1] at h
    | _ => exact other s (by intro ce vars e; cases e) (by simpa [withRegister] using h)

/-- `with ce as v, …:` — every item's `optional_vars` is registered before any item is visited. -/
theorem C17_with_registers (env : Env) (mn : Str) (items body : List Node) (s s1 : St)
    (h : withRegister items s = .ok s1) :
    visit env mn (.withStmt items body) s
      = (visitList env mn items s1 >>>= fun s => visitList env mn body s) ∧
    (∀ ce vars, Node.withitem ce vars ∈ items → ∀ v ∈ vars, ∀ names, unravelNames v = .ok names →
      ∀ x ∈ names, Context.contains s1.ctx x = true) ∧ s1.diags = s.diags := by
  refine ⟨?_, (withRegister_spec items s s1 h).1, (withRegister_spec items s s1 h).2.2⟩
  rw [visit.eq_def]
  simp only [h, FnA.bind]

/-! ### scope balance -/

/-- visiting ANY node leaves the depth of the scope chain as it was (whenever the visit ends
normally): comprehension / lambda / nested def push and pop; the `sorted` / `defaultdict` custom
analysers, the assignment diversions, `visit_ReturnValue` never leak a scope.  The chain must be
non-empty (`Context.add` on an empty chain creates the first scope); `analyse` always provides
that. -/
theorem C17_scope_balance (env : Env) (mn : Str) (nd : Node) (s s' : St) (hne : s.ctx ≠ [])
    (h : visit env mn nd s = .ok s') : s'.ctx.length = s.ctx.length :=
  visit_bal env mn nd s.ctx.length s (List.length_pos_iff.mpr hne) rfl s' h

theorem C17_scope_balance_list (env : Env) (mn : Str) (l : List Node) (s s' : St) (hne : s.ctx ≠ [])
    (h : visitList env mn l s = .ok s') : s'.ctx.length = s.ctx.length :=
  visitList_bal env mn l s.ctx.length s (List.length_pos_iff.mpr hne) rfl s' h

/-- the assignment diversions keep the depth, whether they finish the statement or hand back. -/
theorem C17_scope_balance_assign (env : Env) (mn : Str) (targets : List Node) (v : Node) (s : St)
    (hne : s.ctx ≠ []) :
    (∀ s', assignDiv env mn targets v s = .done (.ok s') → s'.ctx.length = s.ctx.length) ∧
    (∀ s', assignDiv env mn targets v s = .generic s' → s'.ctx.length = s.ctx.length) := by
  have h := assignDiv_bal env mn targets v s.ctx.length s (List.length_pos_iff.mpr hne) rfl
  constructor
  · intro s' e; rw [e] at h; exact h s' rfl
  · intro s' e; rw [e] at h; exact h

/-- `visit_ReturnValue` with a balanced continuation is balanced. -/
theorem C17_scope_balance_return (env : Env) (mn : Str) (nd : Node) (s s' : St) (k : St → Bool → Res)
    (hne : s.ctx ≠ [])
    (hk : ∀ s1 b s2, s1.ctx.length = s.ctx.length → k s1 b = .ok s2 → s2.ctx.length = s.ctx.length)
    (h : visitReturnValue env mn nd s k = .ok s') : s'.ctx.length = s.ctx.length :=
  retVal_bal env mn nd s.ctx.length s k (List.length_pos_iff.mpr hne) rfl
    (fun s1 b h1 s2 e => hk s1 b s2 h1 e) s' h

/-- `analyse` hands back the scope chain at the depth of the root context it was given: the
function's own scope is popped, nothing else was left behind. -/
theorem C17_analyse_restores_depth (env : Env) (mn : Str) (root : Context) (ps : Params)
    (body : List Node) (s' : St) (h : analyse env mn root ps body = .ok s') :
    s'.ctx.length = root.length := by
  unfold analyse at h
  have hb : Bal (root.length + 1) (visitList env mn body (addArguments { ctx := Context.push root } ps)) :=
    visitList_bal env mn body _ _ (by omega)
      (addArguments_length' _ ps (by omega) (by simp))
  cases hv : visitList env mn body (addArguments { ctx := Context.push root } ps) with
  | ok s1 =>
    simp only [hv, FnA.bind] at h
    injection h with h
    subst h
    have := hb s1 hv
    simp [Context.length_pop, this]
  | fatal s1 d => simp [hv, FnA.bind] at h
  | crash s1 e => simp [hv, FnA.bind] at h

/-! ### use after `del` -/

theorem C17_del_removes_name (s : St) (x : Str) (c : ECtx) :
    removeIdentifiers s (.name x c) = .ok { s with ctx := Context.remove s.ctx x } := by
  simp [removeIdentifiers, unravelFullNames_name]

/-- `del x` of a visible name: the target is visited FIRST (while `x` is still bound), so the
statement itself emits no diagnostic; afterwards `x` is removed from the innermost scope. -/
theorem C17_del_statement_no_warning (env : Env) (mn : Str) (x : Str) (s : St)
    (hb : Context.contains s.ctx x = true) :
    ∃ s', visit env mn (.delete [.name x .del]) s = .ok s' ∧ s'.diags = s.diags ∧
      s'.ctx = Context.remove s.ctx x := by
  obtain ⟨s1, h1, hd, hc⟩ := C17_no_warning_name env mn x .del s hb
  rw [visit.eq_def]
  simp only [visitList, h1, FnA.bind, removeIdentifiersL, C17_del_removes_name]
  exact ⟨_, rfl, hd, by simp [hc]⟩

/-- `del p.attr`: no diagnostic, and `p` resolves afterwards exactly as before. -/
theorem C17_del_attr_statement (env : Env) (mn : Str) (p a : Str) (c : ECtx) (s : St)
    (hb : Context.contains s.ctx p = true) :
    ∃ s', visit env mn (.delete [.attr (.name p c) a .del]) s = .ok s' ∧ s'.diags = s.diags ∧
      Context.get? s'.ctx p = Context.get? s.ctx p := by
  obtain ⟨s1, h1, hd, hc⟩ := C17_no_warning_attr env mn (.name p c) a .del s p (p ++ '.' :: a) rfl
    (by simp [namesOf]) hb
  obtain ⟨s2, h2, hg, hd2⟩ := C17_attr_del_keeps_base s1 p a c
  rw [visit.eq_def]
  simp only [visitList, h1, FnA.bind, removeIdentifiersL, h2]
  exact ⟨_, rfl, by rw [hd2, hd], by rw [hg, hc]⟩

/-- `del p[i]` with a constant index: no diagnostic, `p` stays bound. -/
theorem C17_del_item_statement (env : Env) (mn : Str) (p : Str) (c : ECtx) (s : St)
    (hb : Context.contains s.ctx p = true) :
    ∃ s', visit env mn (.delete [.sub (.name p c) .const .del]) s = .ok s' ∧ s'.diags = s.diags ∧
      Context.get? s'.ctx p = Context.get? s.ctx p := by
  have hv : ∃ s1, visit env mn (.sub (.name p c) .const .del) s = .ok s1 ∧ s1.diags = s.diags ∧
      s1.ctx = s.ctx := by
    rw [visit.eq_def]
    simp only []
    rw [C17_no_warning_when_bound s _ .del _ p (p ++ lit "[]") (by simp [namesOf]) hb]
    simp only [Node.isNameable, Bool.not_true, Bool.false_eq_true, if_false, FnA.bind]
    exact ⟨_, rfl, rfl, rfl⟩
  obtain ⟨s1, h1, hd, hc⟩ := hv
  obtain ⟨s2, h2, hg, hd2⟩ := C17_item_del_keeps_base s1 p .const c
  rw [visit.eq_def]
  simp only [visitList, h1, FnA.bind, removeIdentifiersL, h2]
  exact ⟨_, rfl, by rw [hd2, hd], by rw [hg, hc]⟩

/-- must-warn after `del x`: for a local `x` (bound once in the function's scope, not visible at
module level) the name is out of the context after the removal, so — by
`C17_warns_when_unbound` — every later load of `x` in that scope is diagnosed. -/
theorem C17_must_warn_after_del (env : Env) (mn : Str) (sc : Scope) (r : Context) (x : Str) (s : St)
    (hctx : s.ctx = Context.remove (sc :: r) x)
    (hnd : (Dict.keys sc).Nodup) (hout : Context.contains r x = false)
    (hat : startsWith x ['@'] = false) :
    ∃ s', visit env mn (.name x .load) s = .ok s' ∧ s'.diags = s.diags ++ [undefinedWarning x] ∧
      s'.ctx = s.ctx :=
  C17_warns_when_unbound env mn x .load s (by simp)
    (by rw [hctx]; exact C17_remove_unbinds_local sc r x hnd hout) hat

/-- the two halves together: `del x; x` for a local `x` — nothing on the `del` statement, exactly
one `undefined x` warning on the use. -/
theorem C17_del_then_use (env : Env) (mn : Str) (sc : Scope) (r : Context) (x : Str) (s : St)
    (hctx : s.ctx = sc :: r) (hb : Context.contains s.ctx x = true)
    (hnd : (Dict.keys sc).Nodup) (hout : Context.contains r x = false)
    (hat : startsWith x ['@'] = false) :
    ∃ s', visitList env mn [.delete [.name x .del], .name x .load] s = .ok s' ∧
      s'.diags = s.diags ++ [undefinedWarning x] := by
  obtain ⟨s1, h1, hd1, hc1⟩ := C17_del_statement_no_warning env mn x s hb
  obtain ⟨s2, h2, hd2, _⟩ := C17_must_warn_after_del env mn sc r x s1 (by rw [hc1, hctx]) hnd hout hat
  simp only [visitList, h1, h2, FnA.bind]
  exact ⟨_, rfl, by rw [hd2, hd1]⟩

/-- `del p.attr; p.after` — no warning at all: the base variable is still defined. -/
theorem C17_del_attr_then_use (env : Env) (mn : Str) (p a b : Str) (s : St)
    (hb : Context.contains s.ctx p = true) :
    ∃ s', visitList env mn [.delete [.attr (.name p .load) a .del], .attr (.name p .load) b .load] s
        = .ok s' ∧ s'.diags = s.diags := by
  obtain ⟨s1, h1, hd1, hg1⟩ := C17_del_attr_statement env mn p a .load s hb
  have hb1 : Context.contains s1.ctx p = true := by
    unfold Context.contains at *; rw [hg1]; exact hb
  obtain ⟨s2, h2, hd2, _⟩ := C17_no_warning_attr env mn (.name p .load) b .load s1 p (p ++ '.' :: b) rfl
    (by simp [namesOf]) hb1
  simp only [visitList, h1, h2, FnA.bind]
  exact ⟨_, rfl, by rw [hd2, hd1]⟩

/-! ### the full statement over this model, and why it is false -/

def diagsOf : Res → List Diag
  | .ok s => s.diags
  | .fatal s _ => s.diags
  | .crash s _ => s.diags

/-- was a "potentially undefined" warning about `x` emitted during the run? -/
def warned (r : Res) (x : Str) : Bool := (diagsOf r).contains (undefinedWarning x)

/-- how many. -/
def warnCount (r : Res) (x : Str) : Nat := (diagsOf r).count (undefinedWarning x)

def ld (x : Str) : Node := .name x .load

/-- `del x` of a bound variable is not itself a use of an undefined name. -/
def C17_clause_del_statement : Prop :=
  ∀ (env : Env) (mn : Str) (root : Context) (ps : Params) (x : Str), x ∈ ps.all →
    warned (analyse env mn root ps [.delete [.name x .del]]) x = false

/-- deleting an attribute never undefines its base variable. -/
def C17_clause_attr_del : Prop :=
  ∀ (env : Env) (mn : Str) (root : Context) (ps : Params) (p a b : Str), p ∈ ps.all →
    warned (analyse env mn root ps [.delete [.attr (ld p) a .del], .attr (ld p) b .load]) p = false

/-- assigning an attribute never DEFINES its base variable: a base bound nowhere still warns. -/
def C17_clause_attr_store : Prop :=
  ∀ (env : Env) (mn : Str) (root : Context) (ps : Params) (n a b q : Str), q ∈ ps.all → n ∉ ps.all →
    Context.contains root n = false → startsWith n ['@'] = false →
    2 ≤ warnCount (analyse env mn root ps [.assign [.attr (ld n) a .store] (ld q), .attr (ld n) b .load]) n

/-- a walrus inside a comprehension binds in the enclosing function. -/
def C17_clause_walrus_in_comprehension : Prop :=
  ∀ (env : Env) (mn : Str) (root : Context) (ps : Params) (l x y a b k : Str), l ∈ ps.all →
    warned (analyse env mn root ps
      [ .comp k [ld y] [.gen (.name x .store) (ld l) [.walrus (.name y .store) (.attr (ld x) a .load)]],
        .attr (ld y) b .load ]) y = false

/-- the right-hand side runs before the target is (re)bound: `x -= x` with `x` unbound warns. -/
def C17_clause_rhs_before_target : Prop :=
  ∀ (env : Env) (mn : Str) (c : Context) (x : Str), c ≠ [] → Context.contains c x = false →
    startsWith x ['@'] = false →
    warned (visit env mn (.augAssign (.name x .store) (ld x)) { ctx := c }) x = true

/-- what the visitor's bookkeeping would have to satisfy for the property to hold on the
constructs this model can express; the first two clauses hold since fix adebbdf
(`C17_clause_del_statement_holds`, `C17_clause_attr_del_holds`), the other three are refuted (the
except-handler / match-capture names are not even part of
the visited tree: see `C17_cex_except_handler`, `C17_cex_match_capture`). -/
def C17_full : Prop :=
  C17_clause_del_statement ∧ C17_clause_attr_del ∧ C17_clause_attr_store ∧
  C17_clause_walrus_in_comprehension ∧ C17_clause_rhs_before_target

/-! #### counterexamples: `FnA.analyse` on minimal bodies, by kernel evaluation -/

def env1 : Env := ⟨⟨[], []⟩, []⟩
def S (x : String) : Str := x.toList
def fSym : Sym := { kind := .func, name := S "f", callable := true, iface := some ⟨[], [S "z"], none, [], none⟩ }
def kSym : Sym := { kind := .builtin, name := S "K", callable := true }
/-- module level: a function `f`, a builtin `K` (think `KeyError`). -/
def root1 : Context := [[(S "f", fSym), (S "K", kSym)]]
def P (l : List String) : Params := ⟨[], l.map S, none, [], none⟩
def at' (x a : String) (c : ECtx := .load) : Node := .attr (ld (S x)) (S a) c
/-- the arguments of the `undefined` warnings of a run, in order (`none` = did not end normally). -/
def undefs : Res → Option (List Str)
  | .ok s => some ((s.diags.filter fun d => d.tmpl = S "undefined").map (·.arg))
  | _ => none
def run (ps : List String) (body : List Node) : Option (List Str) :=
  undefs (analyse env1 [] root1 (P ps) body)

/-- TEST (formerly a defect, repaired by adebbdf): `def w(a): x = a.v; del x` — no warning on the
`del` statement. -/
theorem C17_test_del_statement_no_warning :
    run ["a"] [.assign [.name (S "x") .store] (at' "a" "v"), .delete [.name (S "x") .del]]
      = some [] := by decide +kernel

/-- TEST (formerly a defect, repaired by adebbdf): `def w(p): del p.t; p.u` — `p` stays defined. -/
theorem C17_test_del_attribute_keeps_base :
    run ["p"] [.delete [at' "p" "t" .del], at' "p" "u"] = some [] := by decide +kernel

/-- TEST: `def w(a): x = a.v; del x; x.t` — the use after `del` warns, exactly once. -/
theorem C17_test_use_after_del_warns :
    run ["a"] [.assign [.name (S "x") .store] (at' "a" "v"), .delete [.name (S "x") .del], at' "x" "t"]
      = some [S "x"] := by decide +kernel

/-- `try: a.x` / `except K as e: e.g` — the handler's name is a `str` field, not a child node, and
there is no `visit_ExceptHandler`: `e` is never registered. -/
theorem C17_cex_except_handler :
    run ["a"] [.other (S "Try") [at' "a" "x", .other (S "ExceptHandler") [ld (S "K"), at' "e" "g"]]]
      = some [S "e"] := by decide +kernel

/-- `match a.m:` / `case [u, *v]: u.p` — captures are not registered. -/
theorem C17_cex_match_capture :
    run ["a"] [.other (S "Match") [at' "a" "m", .other (S "match_case")
        [.other (S "MatchSequence") [.other (S "MatchAs") [], .other (S "MatchStar") []], at' "u" "p"]]]
      = some [S "u"] := by decide +kernel

/-- `def w(l): [y for x in l if (y := x.v)]; y.t` — the walrus is registered in the comprehension's
scope (no warning for the element `y`), popped with it, and `y.t` warns. -/
theorem C17_cex_walrus_in_comprehension :
    run ["l"] [.comp (S "ListComp") [ld (S "y")]
                 [.gen (.name (S "x") .store) (ld (S "l")) [.walrus (.name (S "y") .store) (at' "x" "v")]],
               at' "y" "t"] = some [S "y"] := by decide +kernel

/-- `def w(a): n.t = a; n.u` — `n` is bound nowhere, yet NO warning: the attribute store registered
the base name before the target was visited, and a store never warns. -/
theorem C17_cex_attr_store_defines_base :
    run ["a"] [.assign [at' "n" "t" .store] (ld (S "a")), at' "n" "u"] = some [] := by decide +kernel

/-- `def w(a, b): del b; b.s = a; b.t` — after `del b` the attribute store re-registers `b`: NO
warning, although `b` is unbound when `b.s = a` and `b.t` run. -/
theorem C17_cex_attr_store_rebinds_after_del :
    run ["a", "b"] [.delete [.name (S "b") .del], .assign [at' "b" "s" .store] (ld (S "a")), at' "b" "t"]
      = some [] := by decide +kernel

/-- `def w(x): del x; x -= f(x)` — the target of the augmented assignment is registered BEFORE the
right-hand side is visited: the loads of the unbound `x` in `x -= f(x)` are not diagnosed (compare
`C17_test_use_after_del_warns`). -/
theorem C17_cex_rebound_by_same_statement :
    run ["x"] [.delete [.name (S "x") .del],
               .augAssign (.name (S "x") .store) (.call (ld (S "f")) [ld (S "x")] [] [])]
      = some [] := by decide +kernel

/-- TEST (sanity of the machinery, one concrete run): a name bound nowhere is warned about once;
parameters, module-level names and earlier assignments are not. -/
theorem C17_test_basic :
    run ["a"] [at' "q" "t", at' "a" "t", .assign [.name (S "x") .store] (ld (S "K")), at' "x" "t",
               .call (ld (S "f")) [ld (S "a")] [] []] = some [S "q"] := by decide +kernel

/-- holds since fix adebbdf (visit first, then unbind) — for every parameter list and root. -/
theorem C17_clause_del_statement_holds : C17_clause_del_statement := by
  intro env mn root ps x hx
  have hb := addArguments_contains { ctx := Context.push root } ps x hx
  obtain ⟨s', h, hd, _⟩ := C17_del_statement_no_warning env mn x _ hb
  unfold analyse
  simp only [visitList, h, FnA.bind, warned, diagsOf, hd]
  rfl

/-- holds since fix adebbdf (removal by full name). -/
theorem C17_clause_attr_del_holds : C17_clause_attr_del := by
  intro env mn root ps p a b hp
  have hb := addArguments_contains { ctx := Context.push root } ps p hp
  obtain ⟨s', h, hd⟩ := C17_del_attr_then_use env mn p a b _ hb
  unfold analyse
  simp only [ld, h, FnA.bind, warned, diagsOf, hd]
  rfl

theorem C17_clause_attr_store_false : ¬ C17_clause_attr_store := by
  intro h
  have := h env1 [] root1 (P ["a"]) (S "n") (S "t") (S "u") (S "a") (by decide) (by decide)
    (by decide) (by decide)
  revert this; decide +kernel

theorem C17_clause_walrus_in_comprehension_false : ¬ C17_clause_walrus_in_comprehension := by
  intro h
  have := h env1 [] root1 (P ["l"]) (S "l") (S "x") (S "y") (S "v") (S "t") (S "ListComp") (by decide)
  revert this; decide +kernel

theorem C17_clause_rhs_before_target_false : ¬ C17_clause_rhs_before_target := by
  intro h
  have := h env1 [] [[]] (S "x") (by decide) (by decide) (by decide)
  revert this; decide +kernel

theorem C17_full_false : ¬ C17_full := fun h => C17_clause_attr_store_false h.2.2.1

/-! ### non-vacuity of the general theorems -/

example : Context.contains (addArguments { ctx := Context.push root1 } (P ["a"])).ctx (S "a") = true := by
  decide
example : ∃ s', visit env1 [] (ld (S "K")) { ctx := root1 } = .ok s' ∧ s'.diags = [] ∧ s'.ctx = root1 :=
  C17_no_warning_name env1 [] (S "K") .load { ctx := root1 } (by decide)
example : ∃ s', visit env1 [] (ld (S "q")) { ctx := root1 } = .ok s' ∧
    s'.diags = [] ++ [undefinedWarning (S "q")] ∧ s'.ctx = root1 :=
  C17_warns_when_unbound env1 [] (S "q") .load { ctx := root1 } (by decide) (by decide) (by decide)
example : unravelNames (.seq (S "Tuple") [.name (S "a") .store, .name (S "b") .store] .store)
    = .ok [S "a", S "b"] := unravelNames_tuple [S "a", S "b"] .store .store

/-- a body that pushes and pops three scopes: comprehension inside a lambda inside a nested def. -/
def nested : Node :=
  .funcDef (S "g") (P ["u"]) [.lam (P ["v"])
    (.comp (S "ListComp") [ld (S "x")] [.gen (.name (S "x") .store) (ld (S "u")) []])]

/-- the balance theorem applied to it … -/
example : ∀ s', visit env1 [] nested { ctx := Context.push root1 } = .ok s' → s'.ctx.length = 2 :=
  fun s' h => C17_scope_balance env1 [] nested { ctx := Context.push root1 } s' (by decide) h

/-- … and the run does end normally (TEST, kernel evaluation), so the hypothesis is satisfiable. -/
theorem C17_test_nested_scopes_run :
    (match visit env1 [] nested { ctx := Context.push root1 } with
     | .ok s => some s.ctx.length
     | _ => none) = some 2 := by decide +kernel

/-- the non-emptiness hypothesis of `C17_scope_balance` is needed in the MODEL (never arises in
rattr, where the root context always exists): on an empty chain `Context.add` creates the first
scope. -/
theorem C17_balance_needs_nonempty_chain :
    (match visit env1 [] (.assign [.name (S "x") .store] .const) { ctx := [] } with
     | .ok s => s.ctx.length
     | _ => 0) = 1 := by decide +kernel

end Rattr.C17

/-! ## Stage S2 inside the model: the root context (`RattrModel/RootContext.lean`)

The "module-level definition, import or assignment" the property speaks of is what
`compile_root_context` binds. Model `RootCtx.compile`, tied to the code by op `root_context`
(py/props/filestage.py) and by the generated table `Generated/RC.lean`. `plainL`: no module-level
`del` and no starred import among the registered statements. -/

namespace Rattr.C17
open Rattr Rattr.FnA Rattr.Strs Rattr.RootCtx

/-- Tie A: the `visit_*` methods of `RootContextBuilder` (by `dir()`) are exactly the ones the
model's dispatch covers. -/
theorem tieA_rootBuilder_visitors :
    FileA.sameMembers Generated.RC.rootBuilderVisitors RootCtx.visitorNames = true := by decide

theorem tieA_module_dunders :
    Generated.RC.moduleDunders.map String.toList = RootCtx.moduleDunders := by decide

theorem compile_split (f : Facts) (bs : List Str) (pre rest : List Top) (s' : St)
    (h : compile f bs (pre ++ rest) = .ok s') :
    ∃ s1, compile f bs pre = .ok s1 ∧ registerL f rest s1 = .ok s' := by
  unfold compile at h ⊢
  rw [registerL_append] at h
  cases hr : registerL f pre { ctx := initial bs } with
  | ok s1 => rw [hr] at h; exact ⟨s1, rfl, h⟩
  | fatal s1 d => rw [hr] at h; cases h
  | crash s1 e => rw [hr] at h; cases h

theorem compile_ext (f : Facts) (bs : List Str) (body : List Top) (s' : St) (hp : plainL body = true)
    (h : compile f bs body = .ok s') : Ext (initial bs) s'.ctx :=
  registerL_ext f body { ctx := initial bs } s' hp (initial_ne bs) h

theorem dict_contains_of_mem (l : Dict Str Sym) (x : Str) (h : x ∈ Dict.keys l) : Dict.contains l x = true := by
  induction l with
  | nil => cases h
  | cons p r ih =>
    obtain ⟨k, v⟩ := p
    by_cases hk : k = x
    · simp [Dict.contains, Dict.get?, hk]
    · have : x ∈ Dict.keys r := by
        simp only [Dict.keys, List.map_cons, List.mem_cons] at h
        rcases h with h | h
        · exact absurd h.symm hk
        · exact h
      simpa [Dict.contains, Dict.get?, hk] using ih this

/-- `rootContext_builtins`: every builtin name (and every module dunder) is bound in the context
the builder starts from, and stays bound through any module without `del` / starred imports. -/
theorem rootContext_builtins (f : Facts) (bs : List Str) (body : List Top) (s' : St)
    (hp : plainL body = true) (h : compile f bs body = .ok s') :
    ∀ b, (b ∈ bs ∨ b ∈ RootCtx.moduleDunders) → Context.contains s'.ctx b = true := by
  intro b hb
  apply (compile_ext f bs body s' hp h).contains
  have : b ∈ Dict.keys ((RootCtx.moduleDunders.map fun n => (n, Context.nameSym n)) ++
      (bs.map fun n => (n, builtinSym n))) := by
    simp only [Dict.keys, List.map_append, List.map_map, List.mem_append, List.mem_map, Function.comp]
    rcases hb with hb | hb
    · exact Or.inr ⟨b, hb, rfl⟩
    · exact Or.inl ⟨b, hb, rfl⟩
  have hc := dict_contains_of_mem _ b this
  simp only [initial, Context.contains, Context.get?]
  simp only [Dict.contains] at hc
  cases hg : Dict.get? ((RootCtx.moduleDunders.map fun n => (n, Context.nameSym n)) ++
      (bs.map fun n => (n, builtinSym n))) b with
  | none => simp [hg] at hc
  | some v => simp

/-- … in particular every name of the generated builtin table. -/
theorem rootContext_builtins_generated (f : Facts) (body : List Top) (s' : St) (hp : plainL body = true)
    (h : compile f (Generated.RC.builtins.map String.toList) body = .ok s') :
    ∀ b ∈ Generated.RC.builtins, Context.contains s'.ctx b.toList = true :=
  fun b hb => rootContext_builtins f _ body s' hp h b.toList (Or.inl (List.mem_map.mpr ⟨b, hb, rfl⟩))

/-- `rootContext_order` (determinism, C05): the symbol table after a prefix of the module is a
PREFIX of the table after the whole module, and no binding made by the prefix is changed later —
symbols appear in declaration order. -/
theorem rootContext_order (f : Facts) (bs : List Str) (pre post : List Top) (s2 : St)
    (hpre : plainL pre = true) (hpost : plainL post = true) (h : compile f bs (pre ++ post) = .ok s2) :
    ∃ s1, compile f bs pre = .ok s1 ∧ headKeys s1.ctx <+: headKeys s2.ctx ∧
      ∀ x v, Context.get? s1.ctx x = some v → Context.get? s2.ctx x = some v := by
  obtain ⟨s1, h1, h2⟩ := compile_split f bs pre post s2 h
  have e1 := compile_ext f bs pre s1 hpre h1
  have e2 := registerL_ext f post s1 s2 hpost e1.ne h2
  exact ⟨s1, h1, e2.keys, e2.get⟩

/-- `rootContext_binds_defs`: a module-level `def` / `async def` is bound at the end of the module
(to the `Func` with its interface when the name was free at that point: first binding wins). -/
theorem rootContext_binds_defs (f : Facts) (bs : List Str) (pre post : List Top) (name : Str) (ps : Params)
    (b : List Node) (d : List Ann.Deco) (a : Bool) (s' : St) (hpost : plainL post = true)
    (h : compile f bs (pre ++ .funcDef name ps b d a :: post) = .ok s') :
    ∃ s1, compile f bs pre = .ok s1 ∧
      Context.contains s'.ctx (funcSym name ps.iface).name = true ∧
      (Context.contains s1.ctx (funcSym name ps.iface).name = false →
        Context.get? s'.ctx (funcSym name ps.iface).name = some (funcSym name ps.iface)) := by
  obtain ⟨s1, h1, h2⟩ := compile_split f bs pre _ s' h
  exact ⟨s1, h1, binds_of_add f _ post s1 s' _ (register_funcDef f name ps b d a s1) hpost h2⟩

/-- … a module-level `class` (kind `Class`, interface of its last `__init__`, else any). -/
theorem rootContext_binds_classes (f : Facts) (bs : List Str) (pre post : List Top) (name : Str)
    (bases : List Node) (body : List Top) (d : List Ann.Deco) (s' : St) (hpost : plainL post = true)
    (h : compile f bs (pre ++ .classDef name bases body d :: post) = .ok s') :
    ∃ s1, compile f bs pre = .ok s1 ∧
      Context.contains s'.ctx (classSym name body).name = true ∧
      (Context.contains s1.ctx (classSym name body).name = false →
        Context.get? s'.ctx (classSym name body).name = some (classSym name body)) := by
  obtain ⟨s1, h1, h2⟩ := compile_split f bs pre _ s' h
  exact ⟨s1, h1, binds_of_add f _ post s1 s' _ (register_classDef f name bases body d s1) hpost h2⟩

/-- … a named lambda `x = lambda ps: body` (kind `Func` with the lambda's interface). -/
theorem rootContext_binds_lambdas (f : Facts) (bs : List Str) (pre post : List Top) (x : Str) (c : ECtx)
    (extra : List Node) (ps : Params) (body : Node) (s' : St) (hpost : plainL post = true)
    (h : compile f bs (pre ++ .assign [.name x c] extra (some (.lam ps body)) :: post) = .ok s') :
    ∃ s1, compile f bs pre = .ok s1 ∧
      Context.contains s'.ctx (funcSym x ps.iface).name = true ∧
      (Context.contains s1.ctx (funcSym x ps.iface).name = false →
        Context.get? s'.ctx (funcSym x ps.iface).name = some (funcSym x ps.iface)) := by
  obtain ⟨s1, h1, h2⟩ := compile_split f bs pre _ s' h
  exact ⟨s1, h1, binds_of_add f _ post s1 s' _ (register_lambda f x c extra ps body s1) hpost h2⟩

/-- … a valid namedtuple declaration `P = namedtuple("P", …)` (kind `Class`, `self` + fields). -/
theorem rootContext_binds_namedtuples (f : Facts) (bs : List Str) (pre post : List Top) (x : Str) (c : ECtx)
    (extra : List Node) (fn : Node) (args : List Node) (kwn : List (Option Str)) (kwv : List Node)
    (attrs : List Str) (s' : St) (hnt : targetIsNamedtuple (.call fn args kwn kwv) = true)
    (hsig : namedtupleSignature args = .ok attrs) (hpost : plainL post = true)
    (h : compile f bs (pre ++ .assign [.name x c] extra (some (.call fn args kwn kwv)) :: post) = .ok s') :
    ∃ s1, compile f bs pre = .ok s1 ∧
      Context.contains s'.ctx (clsSym x ⟨[], attrs, none, [], none⟩).name = true ∧
      (Context.contains s1.ctx (clsSym x ⟨[], attrs, none, [], none⟩).name = false →
        Context.get? s'.ctx (clsSym x ⟨[], attrs, none, [], none⟩).name =
          some (clsSym x ⟨[], attrs, none, [], none⟩)) := by
  obtain ⟨s1, h1, h2⟩ := compile_split f bs pre _ s' h
  exact ⟨s1, h1, binds_of_add f _ post s1 s' _ (register_namedtuple f x c extra fn args kwn kwv attrs s1 hnt hsig) hpost h2⟩

/-- `rootContext_binds_imports` (`import a, b as c`): each alias binds exactly its LOCAL name
(`asname or name`) — for `import a.b` that is the key `a.b`. -/
theorem rootContext_binds_imports (f : Facts) (aliases : List Alias) (s s' : St) (hs : s.ctx ≠ [])
    (hn : noStarAliases aliases = true) (h : register f (.importStmt aliases) s = .ok s') :
    ∀ a ∈ aliases, Context.contains s'.ctx (aliasLocal a) = true := by
  rw [register.eq_def] at h
  exact (addPlainImports_binds f aliases _ s' (by split <;> simpa using hs) hn h).2

/-- … `from m import a, b as c` (absolute): the local names, qualified `m.a`. -/
theorem rootContext_binds_from_imports (f : Facts) (m : Str) (aliases : List Alias) (abs : Str) (sf co : Bool)
    (s s' : St) (hs : s.ctx ≠ []) (hstar : isStarred aliases = false) (hn : noStarAliases aliases = true)
    (h : register f (.importFrom (some m) 0 aliases abs sf co) s = .ok s') :
    ∀ a ∈ aliases, Context.contains s'.ctx (aliasLocal a) = true := by
  rw [register.eq_def] at h
  simp only [visitImportFrom, hstar, Bool.false_and, Bool.false_eq_true, if_false, bne_self_eq_false] at h
  exact (addFromImports_binds f m aliases s s' hs hn h).2

/-- … relative `from .m import a`: the local names, qualified `<abs>.a` with the resolved name. -/
theorem rootContext_binds_relative_imports (f : Facts) (m : Option Str) (lvl : Nat) (aliases : List Alias)
    (abs : Str) (sf : Bool) (s s' : St) (hs : s.ctx ≠ []) (hl : lvl ≠ 0) (hstar : isStarred aliases = false)
    (hn : noStarAliases aliases = true) (h : register f (.importFrom m lvl aliases abs sf true) s = .ok s') :
    ∀ a ∈ aliases, Context.contains s'.ctx (aliasLocal a) = true := by
  rw [register.eq_def] at h
  simp only [visitImportFrom, hstar, Bool.false_and, Bool.false_eq_true, if_false, bne_iff_ne, ne_eq, hl,
    not_false_eq_true, if_true, Bool.not_true] at h
  exact (addFromImports_binds f abs aliases _ s' (by split <;> simpa using hs) hn h).2

def factsAB : Facts := { mods := [("a.b".toList, { originFound := true, modExists := true })] }

/-- the formal content of the C17 finding "a dotted import does not bind the top package":
after `import a.b` the root context holds the key `a.b` and NOT `a` (Python binds `a`). -/
theorem rootContext_cex_dotted_import_binds_dotted_key :
    (match compile factsAB [] [.importStmt [⟨"a.b".toList, none⟩]] with
     | .ok s => (Context.contains s.ctx "a.b".toList, Context.contains s.ctx "a".toList)
     | _ => (false, false)) = (true, false) := by decide +kernel

/-- `rootContext_binds_assignments`: after a module-level assignment whose value is neither a
lambda nor a namedtuple declaration nor contains a walrus, every name `unravel_names` yields for
the targets (the BASE names: `a.b = …` binds `a`) is bound. -/
theorem rootContext_binds_assignments (f : Facts) (targets extra : List Node) (s s' : St) (hs : s.ctx ≠ [])
    (h : register f (.assign targets extra none) s = .ok s') : TargetsBound targets s' := by
  rw [register.eq_def] at h
  exact addIdentifiersL_binds targets s s' hs h

theorem rootContext_binds_assignments_value (f : Facts) (targets extra : List Node) (v : Node) (s s' : St)
    (hs : s.ctx ≠ []) (hl : lambdaInRhs v = false) (hnt : namedtupleInRhs v = false)
    (hw : isWalrus v = false) (hseq : isTupleOrList v = false)
    (h : register f (.assign targets extra (some v)) s = .ok s') : TargetsBound targets s' := by
  rw [register.eq_def] at h
  simp only [visitAssignment] at h
  rw [assignV.eq_def] at h
  split at h
  · simp [isWalrus] at hw
  · rename_i k elts c
    simp only [hl, hnt, hseq, Bool.false_eq_true, if_false] at h
    exact addIdentifiersL_binds targets s s' hs h
  · simp only [hl, hnt, Bool.false_eq_true, if_false] at h
    exact addIdentifiersL_binds targets s s' hs h

/-- the hypotheses are satisfiable: `def f(a): …; x = 1` is plain and compiles. -/
example : plainL [.funcDef "f".toList ⟨[], ["a".toList], none, [], none⟩ [] [] false,
    .assign [.name "x".toList .store] [] (some .const)] = true := by decide

end Rattr.C17

/-! ## The options that touch definitions: `-x` (`--exclude`), `@rattr_ignore`, `@rattr_results`

"a module-level definition ... never warned" must hold whatever the run leaves out of the RESULTS.
Exclusion and the annotations act in `FileAnalyser` (stage S4: the function is not analysed / gets the
declared results); the ROOT CONTEXT (stage S2), which is what `get_and_verify_name` consults for every
other function, is built without looking at them. Tie A (`Generated/C17.lean`, py/tables/t_c17.py)
pins the source facts this rests on; Tie B is py/props/c17opts.py (op `root_context` under the run's
own exclusion patterns + the whole pipeline in-process and through the CLI). -/

namespace Rattr.C17
open Rattr Rattr.FnA Rattr.Strs Rattr.RootCtx Rattr.Spec.ModuleBound

/-- Tie A: `visit_FunctionDef` / `visit_AsyncFunctionDef` / `visit_ClassDef` are ONE unconditional
`self.context.add(...)`; the block statements ONE `register_stmts` over their blocks (statement by
statement text of the method bodies, regenerated from the source). -/
theorem tieA_builder_bodies : Generated.C17.builderBodies = RootCtx.builderBodies := by decide

/-- Tie A: no function of rattr/models/context/*.py or rattr/models/symbol/*.py reads an OPTION off
`Config()` (only the current file and the literal prefix). -/
theorem tieA_rootContext_config_reads : Generated.C17.configReads = RootCtx.configReads := by decide

/-- Tie A: what `_root_context.py` imports from rattr at run time (nothing of `rattr.analyser`, where
`is_excluded_name` and the annotation readers live). -/
theorem tieA_rootContext_helpers : Generated.C17.rootContextHelpers = RootCtx.importedHelpers := by decide

/-- Tie A: the functions defined in `_root_context.py` are the builder's methods + the six helpers
the model names. -/
theorem tieA_rootContext_functions :
    FileA.sameMembers Generated.C17.rootContextFunctions RootCtx.sourceFunctions = true := by decide

/-- registration does not depend on the exclusion verdicts: replacing `Facts.excluded` by ANY other
list leaves `register` unchanged on every statement and every state … -/
theorem rootContext_register_ignores_exclusion (f : Facts) (e : List Str) (t : Top) (s : St) :
    register { f with excluded := e } t s = register f t s :=
  register_facts_irrelevant { f with excluded := e } f rfl rfl t s

/-- … hence the whole root context of a module is the same under every `-x` pattern set. -/
theorem rootContext_compile_ignores_exclusion (f : Facts) (e : List Str) (bs : List Str) (body : List Top) :
    compile { f with excluded := e } bs body = compile f bs body :=
  compile_facts_irrelevant { f with excluded := e } f rfl rfl bs body

/-- the builder depends on the facts only through `mods` and `isInit`. -/
theorem rootContext_compile_depends_on_location_facts_only (f f' : Facts) (hm : f.mods = f'.mods)
    (hi : f.isInit = f'.isInit) (bs : List Str) (body : List Top) : compile f bs body = compile f' bs body :=
  compile_facts_irrelevant f f' hm hi bs body

/-- `rootContext_binds_defs`, made explicit for an EXCLUDED definition: a module-level `def` whose
name matches an exclusion pattern is bound all the same (to its `Func`, when the name was free). -/
theorem rootContext_binds_excluded_defs (f : Facts) (bs : List Str) (pre post : List Top) (name : Str) (ps : Params)
    (b : List Node) (d : List Ann.Deco) (a : Bool) (s' : St) (_hx : name ∈ f.excluded) (hpost : plainL post = true)
    (h : compile f bs (pre ++ .funcDef name ps b d a :: post) = .ok s') :
    ∃ s1, compile f bs pre = .ok s1 ∧
      Context.contains s'.ctx (funcSym name ps.iface).name = true ∧
      (Context.contains s1.ctx (funcSym name ps.iface).name = false →
        Context.get? s'.ctx (funcSym name ps.iface).name = some (funcSym name ps.iface)) :=
  rootContext_binds_defs f bs pre post name ps b d a s' hpost h

/-- … and an excluded `class`. -/
theorem rootContext_binds_excluded_classes (f : Facts) (bs : List Str) (pre post : List Top) (name : Str)
    (bases : List Node) (body : List Top) (d : List Ann.Deco) (s' : St) (_hx : name ∈ f.excluded)
    (hpost : plainL post = true) (h : compile f bs (pre ++ .classDef name bases body d :: post) = .ok s') :
    ∃ s1, compile f bs pre = .ok s1 ∧
      Context.contains s'.ctx (classSym name body).name = true ∧
      (Context.contains s1.ctx (classSym name body).name = false →
        Context.get? s'.ctx (classSym name body).name = some (classSym name body)) :=
  rootContext_binds_classes f bs pre post name bases body d s' hpost h

/-- whole-module form, against Python's own rule (`Spec.ModuleBound.defNamesL`): on a module without
`del` and starred imports (module-level `match` included since 6e8e4cc), EVERY `def` / `async def` / `class` statement that
executes at module level — at the top level or nested at any depth in `if` / `for` / `while` / `with`
/ `try` blocks and handlers — is visible in the compiled root context. For all facts, so for every
exclusion pattern, decorator and follow level. -/
theorem rootContext_binds_all_defs (f : Facts) (bs : List Str) (body : List Top) (r : St)
    (hp : plainL body = true) (hr : regularL body = true) (h : compile f bs body = .ok r) :
    ∀ x ∈ defNamesL body, Context.contains r.ctx (withoutCallBrackets x) = true :=
  registerL_binds_defs f body _ r hp hr (initial_ne bs) h

/-- the property clause itself: in ANY function of such a module (any parameter list), loading,
or deleting, the name of ANY module-level definition is not diagnosed and changes nothing — whatever
`Facts.excluded` says about that definition or about the function. -/
theorem C17_module_defs_never_warned (f : Facts) (bs : List Str) (body : List Top) (r : St)
    (hp : plainL body = true) (hr : regularL body = true) (h : compile f bs body = .ok r)
    (env : Env) (mn : Str) (qs : Params) (x : Str) (hx : x ∈ defNamesL body) (c : ECtx) :
    ∃ s', visit env mn (.name (withoutCallBrackets x) c) (addArguments { ctx := Context.push r.ctx } qs) = .ok s' ∧
      s'.diags = (addArguments { ctx := Context.push r.ctx } qs).diags ∧
      s'.ctx = (addArguments { ctx := Context.push r.ctx } qs).ctx :=
  C17_no_warning_name env mn _ c _
    (C17_root_names_bound r.ctx qs _ (rootContext_binds_all_defs f bs body r hp hr h x hx))

/-- the same for a compound use `x.a`, `x.a.b`, `x[i]` … of a module-level definition `x`. -/
theorem C17_module_defs_attr_never_warned (f : Facts) (bs : List Str) (body : List Top) (r : St)
    (hp : plainL body = true) (hr : regularL body = true) (h : compile f bs body = .ok r)
    (env : Env) (mn : Str) (qs : Params) (x : Str) (hx : x ∈ defNamesL body) (v : Node) (a full : Str) (c : ECtx)
    (hv : v.isNameable = true) (hn : namesOf true (.attr v a c) = .ok (withoutCallBrackets x) full) :
    ∃ s', visit env mn (.attr v a c) (addArguments { ctx := Context.push r.ctx } qs) = .ok s' ∧
      s'.diags = (addArguments { ctx := Context.push r.ctx } qs).diags :=
  let ⟨s', h1, h2, _⟩ := C17_no_warning_attr env mn v a c _ _ full hv hn
    (C17_root_names_bound r.ctx qs _ (rootContext_binds_all_defs f bs body r hp hr h x hx))
  ⟨s', h1, h2⟩

/-- stage S4 leaves the context alone when it SKIPS a definition: an excluded (or ignored) `def` is
not analysed and the state — context, diagnostics, FileIr — is returned unchanged, so the name stays
bound for every function visited afterwards. -/
theorem C17_skipped_def_keeps_context (env : Env) (mn : Str) (f : Facts) (name : Str) (ps : Params)
    (body : List Node) (decos : List Ann.Deco) (isAsync : Bool) (s : FileA.FState)
    (h : Ann.hasAnnotation Ann.nIgnore decos = .ok true ∨
         (Ann.hasAnnotation Ann.nIgnore decos = .ok false ∧ name ∈ f.excluded)) :
    FileA.visitTop env mn f (.funcDef name ps body decos isAsync) s = .ok s := by
  rw [FileA.visitTop.eq_def]
  rcases h with h | ⟨h, hx⟩
  · exact FileA.visitFuncDef_ignored env mn f name ps body decos s h
  · exact FileA.visitFuncDef_excluded env mn f name ps body decos s h hx

/-- … likewise a skipped `class`. -/
theorem C17_skipped_class_keeps_context (env : Env) (mn : Str) (f : Facts) (name : Str) (bases : List Node)
    (body : List Top) (decos : List Ann.Deco) (s : FileA.FState)
    (h : Ann.hasAnnotation Ann.nIgnore decos = .ok true ∨
         (Ann.hasAnnotation Ann.nIgnore decos = .ok false ∧ name ∈ f.excluded)) :
    FileA.visitTop env mn f (.classDef name bases body decos) s = .ok s := by
  rw [FileA.visitTop.eq_def]
  rcases h with h | ⟨h, hx⟩
  · exact FileA.visitClassDef_ignored env mn f name bases body decos s h
  · exact FileA.visitClassDef_excluded env mn f name bases body decos s h hx

/-! #### kernel-evaluated runs of both stages (`FileA.analyseFile`) -/

def envO : Env := { ctxEnv := { prims := [], literals := [] }, analysers := [] }
def P1 (x : String) : Params := ⟨[], [S x], none, [], none⟩
/-- `def _h(z): return z.a` / `async def _g(z): return z.b` / `def pub(x): _h(x); _g; return _h(x).v` -/
def modExcl : List Top :=
  [.funcDef (S "_h") (P1 "z") [.ret [at' "z" "a"]] [] false,
   .funcDef (S "_g") (P1 "z") [.ret [at' "z" "b"]] [] true,
   .funcDef (S "pub") (P1 "x")
     [.call (ld (S "_h")) [ld (S "x")] [] [], ld (S "_g"),
      .ret [.attr (.call (ld (S "_h")) [ld (S "x")] [] []) (S "v") .load]] [] false]

def fileRun (f : Facts) (body : List Top) : Option (List Str × List Str) :=
  match FileA.analyseFile envO (S "m") f [] body with
  | .ok (ir, ds) => some (ir.map (·.1.name), (ds.filter fun d => d.tmpl = S "undefined").map (·.arg))
  | _ => none

/-- TEST: with `-x '_.*'` (both helpers excluded) only `pub` has an entry, and analysing `pub` emits
NO "potentially undefined" for `_h` / `_g`. -/
theorem C17_test_excluded_helpers_not_warned :
    fileRun { excluded := [S "_h", S "_g"] } modExcl = some ([S "pub"], []) := by decide +kernel

/-- TEST: the same module with no exclusion: three entries, still no warning. -/
theorem C17_test_no_exclusion_three_entries :
    fileRun {} modExcl = some ([S "_h", S "_g", S "pub"], []) := by decide +kernel

/-- TEST: a name bound nowhere is still warned about under exclusion. -/
theorem C17_test_undefined_still_warned_under_exclusion :
    fileRun { excluded := [S "_h"] }
      [.funcDef (S "_h") (P1 "z") [] [] false,
       .funcDef (S "pub") (P1 "x") [.call (ld (S "_h")) [ld (S "nowhere")] [] []] [] false]
      = some ([S "pub"], [S "nowhere"]) := by decide +kernel

/-- formerly the finding "definition inside a module-level `match`" (`rootContext_cex_def_inside_match`: the
builder had no `visit_Match`, `f` stayed out of the root context). Repaired by /repo 6e8e4cc (`visit_Match`
registers every case body, `visit_TryStar` delegates to `visit_Try`): `match …: case …: def f(a): …` binds `f`,
exactly the names Python binds (`defNamesL`). TEST (kernel evaluation). -/
def modMatch : List Top :=
  [.compound (S "Match") [.expr .const,
     .compound (S "match_case") [.expr .const, .funcDef (S "f") (P1 "a") [] [] false],
     .compound (S "match_case") [.expr .const, .expr .const,
       .compound (S "If") [.expr .const, .classDef (S "InCase") [] [] []]]]]

theorem rootContext_def_inside_match_bound :
    (match compile {} [] modMatch with
     | .ok s => (some (Context.contains s.ctx (S "f"), Context.contains s.ctx (S "InCase")), defNamesL modMatch)
     | _ => (none, [])) = (some (true, true), [S "f", S "InCase"]) := by decide +kernel

/-- … and a module-level `match` is now inside the hypotheses of `rootContext_binds_all_defs` (`regularL` no longer
excludes it): every `def` / `class` in a case body is bound, for every `Facts` (so under every `-x` pattern). -/
theorem rootContext_match_is_regular : plainL modMatch = true ∧ regularL modMatch = true := by decide

theorem rootContext_binds_defs_inside_match (f : Facts) (bs : List Str) (r : St)
    (h : compile f bs modMatch = .ok r) :
    Context.contains r.ctx (S "f") = true ∧ Context.contains r.ctx (S "InCase") = true := by
  have hb := rootContext_binds_all_defs f bs modMatch r rootContext_match_is_regular.1 rootContext_match_is_regular.2 h
  exact ⟨hb (S "f") (by decide), hb (S "InCase") (by decide)⟩

/-- the general form: a `match` statement registers the bodies of its cases in order, like any other block
(`Match` is a block kind, `match_case` a clause kind). -/
theorem register_match (f : Facts) (kids : List Top) (s : St) :
    register f (.compound "Match".toList kids) s = registerL f kids s ∧
    register f (.compound "match_case".toList kids) s = registerL f kids s := by
  constructor <;> (rw [register.eq_def]; simp only []; rw [if_pos (by decide)])

/-- finding "walrus outside an assignment statement": the expression statement `(w := 5)` is answered
with `unexpected top-level 'ast.Expr'` and `w` is not registered. -/
theorem rootContext_cex_bare_walrus_statement :
    (match compile {} [] [.exprStmt (.walrus (.name (S "w") .store) .const)] with
     | .ok s => some (Context.contains s.ctx (S "w"), s.diags.map (·.tmpl))
     | _ => none) = some (false, [S "unexpected-top-level"]) := by decide +kernel

/-- non-vacuity: a module with a definition nested two blocks deep satisfies the hypotheses of
`rootContext_binds_all_defs`, and the name is in the spec's list. -/
def modNested : List Top :=
  [.compound (S "If") [.expr .const, .tryStmt [.funcDef (S "deep") (P1 "a") [] [] false] [.compound (S "ExceptHandler")
      [.classDef (S "InHandler") [] [] []]] [] []]]
example : plainL modNested = true ∧ regularL modNested = true ∧
    defNamesL modNested = [S "deep", S "InHandler"] := by decide
example : ∀ x ∈ defNamesL modNested, ∀ r, compile { excluded := [S "deep"] } [] modNested = .ok r →
    Context.contains r.ctx (withoutCallBrackets x) = true :=
  fun x hx r h => rootContext_binds_all_defs _ [] modNested r (by decide) (by decide) h x hx

end Rattr.C17


/-! ## Round 4: where inside a statement a binding / an unbound load sits

`(x := e).a` / `(x := e)[i]` / `*(x := e)` — the value under a chain link that is a walrus is named by the literal
stand-in `@NamedExpr` (so the link never warns) and IS visited (`visit_compound_name`: a `NamedExpr` is not an
`AstNodeWithName`), hence `x` is registered; keyword values (and `**` operands) of a call are visited after the
positional arguments by each of the three hand-written argument loops (`visit_Call`, `visit_ClassAssign`,
`visit_ReturnValue`). Tie A pins the loops, the three method bodies and `AstNodeWithName`
(`RattrModel/FnVisitSites.lean`); the harness side is py/props/c17pos.py + py/props/c17order.py. -/

namespace Rattr.C17
open Rattr Rattr.FnA Rattr.Strs

/-- the literal stand-in a walrus is named by: `@NamedExpr`. -/
def walrusName : Str := '@' :: "NamedExpr".toList

theorem safeName_walrus (t v : Node) : safeName (.walrus t v) = walrusName := rfl

theorem C17_walrus_base_name_attr (t v : Node) (a : Str) (c : ECtx) :
    namesOf true (.attr (.walrus t v) a c) = .ok walrusName (walrusName ++ '.' :: a) := by
  simp [namesOf, safeName_walrus]

theorem C17_walrus_base_name_sub (t v sl : Node) (c : ECtx) :
    namesOf true (.sub (.walrus t v) sl c) = .ok walrusName (walrusName ++ lit "[]") := by
  simp [namesOf, safeName_walrus]

theorem C17_walrus_base_name_starred (t v : Node) (c : ECtx) :
    namesOf true (.starred (.walrus t v) c) = .ok walrusName ('*' :: walrusName) := by
  simp [namesOf, safeName_walrus]

theorem walrusName_literal : startsWith walrusName ['@'] = true := by decide

theorem C17_walrus_base_attr_visits_walrus (env : Env) (mn : Str) (t v : Node) (a : Str) (c : ECtx) (s : St) :
    visit env mn (.attr (.walrus t v) a c) s
      = (visit env mn (.walrus t v) s >>>= fun s' =>
          .ok (updateResults s' ⟨walrusName ++ '.' :: a, walrusName⟩ c)) := by
  rw [visit.eq_def]
  simp only []
  rw [C17_literal_never_warns s _ c _ _ _ (C17_walrus_base_name_attr t v a c) walrusName_literal]
  simp [Node.isNameable]

theorem C17_walrus_base_sub_visits_walrus (env : Env) (mn : Str) (t v sl : Node) (c : ECtx) (s : St) :
    visit env mn (.sub (.walrus t v) sl c) s
      = (visit env mn (.walrus t v) s >>>= fun s' =>
          .ok (updateResults s' ⟨walrusName ++ lit "[]", walrusName⟩ c)) := by
  rw [visit.eq_def]
  simp only []
  rw [C17_literal_never_warns s _ c _ _ _ (C17_walrus_base_name_sub t v sl c) walrusName_literal]
  simp [Node.isNameable]

theorem C17_walrus_base_starred_visits_walrus (env : Env) (mn : Str) (t v : Node) (c : ECtx) (s : St) :
    visit env mn (.starred (.walrus t v) c) s
      = (visit env mn (.walrus t v) s >>>= fun s' =>
          .ok (updateResults s' ⟨'*' :: walrusName, walrusName⟩ c)) := by
  rw [visit.eq_def]
  simp only []
  rw [C17_literal_never_warns s _ c _ _ _ (C17_walrus_base_name_starred t v c) walrusName_literal]
  simp [Node.isNameable]

/-- `(x := v)` with nothing special on the right (no lambda; the diversion hands back to generic_visit): `x` is
registered BEFORE target and value are visited, no diagnostic is emitted by the registration. -/
theorem C17_walrus_registers (env : Env) (mn : Str) (x : Str) (v : Node) (s s1 : St)
    (hl : lambdaInRhs v = false)
    (h : assignDiv env mn [.name x .store] v { s with sets := addTo s.sets ⟨x, x⟩ } = .generic s1) :
    visit env mn (.walrus (.name x .store) v) s
        = (visit env mn (.name x .store) s1 >>>= fun s => visit env mn v s) ∧
      Context.contains s1.ctx x = true ∧ s1.diags = s.diags := by
  have hr := C17_assign_registers_before_visit env mn _ v _ s1 h
  refine ⟨?_, hr.1 _ (List.mem_singleton.mpr rfl) [x] (unravelNames_name x .store) x (List.mem_singleton.mpr rfl), hr.2⟩
  rw [visit.eq_def]
  simp only [namesOf, liftName, hl, Bool.false_eq_true, if_false, FnA.bind, h]


/-! #### TESTS (kernel evaluation of `FnA.analyse` on minimal bodies) for the walrus-as-chain-base and keyword-argument sites -/

def cSym : Sym := { kind := .cls, name := S "C", callable := true, iface := some ⟨[], [S "self", S "x"], none, [], some (S "kw")⟩ }
/-- module level: the function `f`, the builtin `K` and a class `C`. -/
def root2 : Context := [[(S "f", fSym), (S "K", kSym), (S "C", cSym)]]
def run2 (ps : List String) (body : List Node) : Option (List Str) :=
  undefs (analyse env1 [] root2 (P ps) body)
def wal (x : String) (v : Node) : Node := .walrus (.name (S x) .store) v
def callN (f : String) (args : List Node) (kws : List (String × Node)) : Node :=
  .call (ld (S f)) args (kws.map fun p => some (S p.1)) (kws.map (·.2))

/-- TEST: `def w(a): (n := a).p; n.u` — the walrus under the attribute is visited, `n` is bound afterwards. -/
theorem C17_test_walrus_attr_base :
    run2 ["a"] [.attr (wal "n" (ld (S "a"))) (S "p") .load, at' "n" "u"] = some [] := by decide +kernel

/-- TEST: `def w(a): (n := a.v)[0]; n.u`. -/
theorem C17_test_walrus_item_base :
    run2 ["a"] [.sub (wal "n" (at' "a" "v")) .const .load, at' "n" "u"] = some [] := by decide +kernel

/-- TEST: `def w(a): f(*(n := a)); n.u`. -/
theorem C17_test_walrus_starred_base :
    run2 ["a"] [callN "f" [.starred (wal "n" (ld (S "a"))) .load] [], at' "n" "u"] = some [] := by decide +kernel

/-- TEST: `def w(a): f(a, z=(n := a.v)); n.u` — keyword values of an ordinary call are visited. -/
theorem C17_test_walrus_keyword_of_function :
    run2 ["a"] [callN "f" [ld (S "a")] [("z", wal "n" (at' "a" "v"))], at' "n" "u"] = some [] := by decide +kernel

/-- TEST: `def w(a): i = C(a, k=(n := a.v)); n.u` — keyword values of a stored class instantiation are visited
(visit_ClassAssign), the walrus is registered. -/
theorem C17_test_walrus_keyword_of_class_assign :
    run2 ["a"] [.assign [.name (S "i") .store] (callN "C" [ld (S "a")] [("k", wal "n" (at' "a" "v"))]), at' "n" "u"]
      = some [] := by decide +kernel

/-- TEST: `def w(a): i = C(a, k=m.o)` — an undefined name in a keyword value of a stored class instantiation warns. -/
theorem C17_test_undefined_in_keyword_of_class_assign :
    run2 ["a"] [.assign [.name (S "i") .store] (callN "C" [ld (S "a")] [("k", at' "m" "o")])] = some [S "m"] := by
  decide +kernel

/-- TEST: `def w(a): a.i = C(a, k=m.o, **q)` — attribute target, `**` operand. -/
theorem C17_test_undefined_in_double_star_of_class_assign :
    run2 ["a"] [.assign [at' "a" "i" .store]
        (.call (ld (S "C")) [ld (S "a")] [some (S "k"), none] [at' "m" "o", ld (S "q")])] = some [S "m", S "q"] := by
  decide +kernel

/-- TEST: `def w(a): return C(a, k=m.o)` (visit_ReturnValue) and `C(a, k=m.o)` discarded (visit_Call). -/
theorem C17_test_undefined_in_keyword_of_returned_and_discarded_class :
    run2 ["a"] [.ret [callN "C" [ld (S "a")] [("k", at' "m" "o")]]] = some [S "m"] ∧
    run2 ["a"] [callN "C" [ld (S "a")] [("k", at' "m" "o")]] = some [S "m"] := by decide +kernel

/-- TEST: `def w(a): i = C((n := a), k=n.u)` — a later keyword sees the walrus of an earlier argument. -/
theorem C17_test_walrus_argument_then_keyword :
    run2 ["a"] [.assign [.name (S "i") .store] (callN "C" [wal "n" (ld (S "a"))] [("k", at' "n" "u")])]
      = some [] := by decide +kernel

/-- `def w(a, b): r = {b.k: (n := a), n.u: 1}` — Python evaluates key, value, key, value; the visitor goes through all
keys first, so the later key `n.u` is answered with a warning although the walrus in the earlier value has bound `n`
(known finding `…same-statement:Dict.values-then-keys`). -/
theorem C17_cex_dict_value_walrus_then_key :
    run2 ["a", "b"] [.assign [.name (S "r") .store]
        (.dict [at' "b" "k", at' "n" "u"] [wal "n" (ld (S "a")), .const])] = some [S "n"] := by decide +kernel

/-! #### Tie A: the traversal sites of `FunctionAnalyser` -/

/-- Tie A: `AstNodeWithName` is exactly the five classes `Node.isNameable` accepts (no `NamedExpr`). -/
theorem tieA_nameable_classes : Generated.C17.astNodeWithName = FnSites.nameableClasses := by decide

/-- Tie A: every hand-written `for` loop of `FunctionAnalyser` (which arguments / keywords / targets are visited, in
which order) is the one the model transcribes. -/
theorem tieA_visit_loops : Generated.C17.visitLoops = FnSites.visitLoops := by decide +kernel

/-- Tie A: `get_and_verify_name`, `visit_compound_name`, `visit_NamedExpr` statement by statement. -/
theorem tieA_name_site_bodies : Generated.C17.nameSiteBodies = FnSites.nameSiteBodies := by decide +kernel

/-- every node the model treats as nameable has one of the class names of the table … -/
theorem isNameable_classes (n : Node) (h : n.isNameable = true) :
    ∃ c, c ∈ FnSites.nameableClasses ∧ n.className = c.toList := by
  cases n
  case name => exact ⟨"Name", by decide, rfl⟩
  case attr => exact ⟨"Attribute", by decide, rfl⟩
  case sub => exact ⟨"Subscript", by decide, rfl⟩
  case starred => exact ⟨"Starred", by decide, rfl⟩
  case call => exact ⟨"Call", by decide, rfl⟩
  all_goals (simp [Node.isNameable] at h)

/-- … and a walrus is not: its value under a chain link is visited. -/
theorem walrus_not_nameable (t v : Node) :
    (Node.walrus t v).isNameable = false ∧ "NamedExpr" ∉ FnSites.nameableClasses := by
  constructor
  · rfl
  · decide

end Rattr.C17

import RattrModel.FnAnalyser
namespace Rattr.C17
theorem placeholder : True := trivial
end Rattr.C17

/-
  C15 — exit status and badness follow the documented contract.

  Model: `Diag.run` (RattrModel/Diag.lean) = `error.{info,warning,error,fatal}` + `increment_badness`
         + the threshold gate of `main`.
  Spec:  `Spec.buckets`, `Spec.exit` (RattrModel/Spec/ExitCode.lean) = the English contract.

  Proved for ALL event lists and ALL configurations (induction on the event list; the threshold
  boundary cases 0 / total-1 / total / total+1 are instances, shown as examples at the end):
    * `C15_buckets`  the three buckets are the per-place sums of the weights of the diagnostics
                     actually emitted;
    * `C15_exit`     the exit status is the one the contract demands; `C15_output` the output is
                     printed iff exit 0;
    * `C15_imports_excluded`  import badness never influences the exit status (only the *presence*
                     of a weighted error-level diagnostic does, under strict mode);
    * `C15_weights`  (Tie A) default weights are info 0 / warning 1 / error 5 / fatal 0 and every
                     call site overriding them is in the documented-weightless list.
  `C15_full` is the conjunction; it is a theorem (`C15_full_holds`).

  Second layer (`DiagScope.run`, RattrModel/DiagScope.lean): the place of a diagnostic is no longer
  an input but computed by the `enter_file` discipline, and the SystemExit of a fatal travels
  through the `with` / `try` scopes active at the raise (kinds from the regenerated scope table):
    * `C15_scoped`          every scope passes ∧ every diagnostic raised in its own file ⇒ buckets,
                            exit status and output are the contract's, with the places taken from
                            where each construct really is (`bySrc`);
    * `C15_scoped_exit`     the same for the exit status when a re-raising `except SystemExit`
                            handler may hold the exception;
    * `C15_scopes_benign`, `C15_entries_in_own_file`, `C15_enter_file_no_finally` (Tie A) and
      `C15_scoped_pinned` (the end-to-end statement for scope ids of the code under test);
    * `C15_scoped_needs_inOwnFile`, `C15_scoped_needs_no_suppress`: neither hypothesis can be dropped;
    * `C15_captured_fatal_on_stderr` (+ strict error, + the pinned annotation parser): a fatal raised
      under `redirect_stderr` still yields a fatal line on stderr, through the handler pinned by
      `C15_capture_handler_pinned` (Tie A); `C15_captured_fatal_needs_reemit`.
-/
import RattrModel.Diag
import RattrModel.Spec.ExitCode
import RattrModel.Generated.C15
import RattrModel.DiagScope
import RattrProofs.Lemmas.C15Scope
import RattrModel.SimplResolve
import RattrProofs.Lemmas.C15Resolve

namespace Rattr.C15
open Rattr Rattr.Diag

/-! ### Tie A -/

/-- Call sites that pass an explicit `badness=`: the only documented one is the
"unable to resolve builtin module" error of the import follower, which the source marks as a known
limitation (`# TODO Resolve BuiltinImporter modules`) and gives weight 0. [interp] "documented" =
stated at the call site; the README lists no weightless message. -/
def documentedWeightless : List (String × String × String × String) :=
  [("rattr/analyser/file.py", "parse_and_analyse_imports", "error", "0")]

theorem C15_weights :
    Generated.C15.diagDefaults = [("info", 0), ("warning", 1), ("error", 5), ("fatal", 0)]
    ∧ (∀ x ∈ Generated.C15.diagOverrides, x ∈ documentedWeightless) := by
  decide

/-! ### Bucket arithmetic -/

def State.add (a b : State) : State := ⟨a.target + b.target, a.imports + b.imports, a.simpl + b.simpl⟩

theorem state_ext {a b : State} (h1 : a.target = b.target) (h2 : a.imports = b.imports)
    (h3 : a.simpl = b.simpl) : a = b := by
  cases a; cases b; simp_all

theorem bucket_cons (l : Where) (e : Event) (es : List Event) :
    Spec.bucket l (e :: es) = (if e.loc = l then e.badness else 0) + Spec.bucket l es := by
  unfold Spec.bucket
  by_cases h : e.loc = l <;> simp [h]

theorem bucket_nil (l : Where) : Spec.bucket l [] = 0 := by simp [Spec.bucket]

theorem bump_eq (s : State) (e : Event) :
    bump s e.loc e.badness = State.add s (Spec.buckets [e]) := by
  cases e with
  | mk lv b l =>
    cases l <;> (apply state_ext <;> simp [bump, State.add, Spec.buckets, bucket_cons, bucket_nil])

theorem buckets_cons (e : Event) (es : List Event) :
    Spec.buckets (e :: es) = State.add (Spec.buckets [e]) (Spec.buckets es) := by
  cases e with
  | mk lv b l =>
    cases l <;> (apply state_ext <;> simp [State.add, Spec.buckets, bucket_cons, bucket_nil])

theorem add_assoc' (a b c : State) : State.add (State.add a b) c = State.add a (State.add b c) := by
  apply state_ext <;> simp [State.add, Nat.add_assoc]

theorem add_zero' (a : State) : State.add a (Spec.buckets []) = a := by
  apply state_ext <;> simp [State.add, Spec.buckets, bucket_nil]

/-! ### One diagnostic -/

/-- The state after a diagnostic does not depend on the filter: its weight goes to its bucket. -/
theorem emit_state (cfg : Cfg) (s : State) (e : Event) :
    (emit cfg s e).state = bump s e.loc e.badness := by
  cases e with
  | mk lv b l =>
    cases lv <;> simp only [emit, Diag.info, Diag.warning, Diag.error, Diag.fatal] <;>
      (repeat' split) <;> first | rfl | (cases l <;> simp [bump])

/-- A diagnostic exits exactly when it is fatal, or a weighted error under strict mode. -/
theorem emit_exited (cfg : Cfg) (s : State) (e : Event) :
    (emit cfg s e).exited = Spec.exits cfg.strict e := by
  cases e with
  | mk lv b l =>
    cases lv <;> simp only [emit, Diag.info, Diag.warning, Diag.error, Diag.fatal, Spec.exits,
      Spec.isFatal, Spec.isWeightedError] <;> (repeat' split) <;> simp_all
    all_goals (intro hs; cases hb : b <;> simp_all)

/-! ### The event loop -/

theorem runEvents_exited (cfg : Cfg) (s : State) (evs : List Event) :
    (runEvents cfg s evs).exited = evs.any (Spec.exits cfg.strict) := by
  induction evs generalizing s with
  | nil => simp [runEvents]
  | cons e es ih =>
    simp only [runEvents, List.any_cons]
    by_cases h : (emit cfg s e).exited = true
    · simp only [h, if_true]; rw [emit_exited] at h; simp [h]
    · simp only [h]; rw [emit_exited] at h
      simp only [Bool.not_eq_true] at h
      simp [h, ih]

theorem runEvents_state (cfg : Cfg) (s : State) (evs : List Event) :
    (runEvents cfg s evs).state = State.add s (Spec.buckets (Spec.processed cfg.strict evs)) := by
  induction evs generalizing s with
  | nil => simp [runEvents, Spec.processed, add_zero']
  | cons e es ih =>
    simp only [runEvents, Spec.processed]
    by_cases h : (emit cfg s e).exited = true
    · simp only [h, if_true]
      rw [emit_exited] at h
      simp only [h, if_true]
      rw [emit_state, bump_eq]
    · simp only [h]
      rw [emit_exited] at h
      simp only [h]
      simp only [Bool.not_eq_true] at h
      simp only [ih, emit_state, bump_eq, Bool.false_eq_true, if_false]
      rw [buckets_cons e (Spec.processed cfg.strict es), add_assoc']

theorem processed_all (strict : Bool) (evs : List Event)
    (h : evs.any (Spec.exits strict) = false) : Spec.processed strict evs = evs := by
  induction evs with
  | nil => rfl
  | cons e es ih =>
    simp only [List.any_cons, Bool.or_eq_false_iff] at h
    simp [Spec.processed, h.1, ih h.2]

theorem init_add (b : State) : State.add State.init b = b := by
  apply state_ext <;> simp [State.add, State.init]

/-! ### C15: buckets -/

/-- The buckets at the end of a run are, per place, the sum of the weights of the diagnostics
emitted before the process ended. -/
theorem C15_buckets (cfg : Cfg) (evs : List Event) :
    (run cfg evs).state = Spec.buckets (Spec.processed cfg.strict evs) := by
  have hs := runEvents_state cfg State.init evs
  rw [init_add] at hs
  unfold run
  simp only
  split
  · exact hs
  · split
    · exact hs
    · simp only [Diag.fatal, bump, Nat.add_zero]; exact hs

/-- Without an exiting diagnostic every diagnostic is counted. -/
theorem C15_buckets_total (cfg : Cfg) (evs : List Event)
    (h : evs.any (Spec.exits cfg.strict) = false) :
    (run cfg evs).state = Spec.buckets evs := by
  rw [C15_buckets, processed_all _ _ h]

/-! ### C15: exit status -/

theorem any_exits_strict (evs : List Event) :
    evs.any (Spec.exits true) = (evs.any Spec.isFatal || evs.any Spec.isWeightedError) := by
  induction evs with
  | nil => rfl
  | cons e es ih =>
    simp only [List.any_cons, ih, Spec.exits, Bool.true_and]
    cases Spec.isFatal e <;> cases Spec.isWeightedError e <;> simp <;>
      cases es.any Spec.isFatal <;> simp

theorem any_exits_lax (evs : List Event) :
    evs.any (Spec.exits false) = evs.any Spec.isFatal := by
  induction evs with
  | nil => rfl
  | cons e es ih => simp [List.any_cons, ih, Spec.exits]

theorem run_exit_eq (cfg : Cfg) (evs : List Event) :
    (run cfg evs).exit =
      if evs.any (Spec.exits cfg.strict) then 1
      else if withinThreshold cfg (Spec.buckets evs) then 0 else 1 := by
  have hx := runEvents_exited cfg State.init evs
  have hs := runEvents_state cfg State.init evs
  rw [init_add] at hs
  unfold run
  simp only
  by_cases h : evs.any (Spec.exits cfg.strict) = true
  · simp [hx, h]
  · simp only [Bool.not_eq_true] at h
    rw [processed_all _ _ h] at hs
    simp only [hx, h, hs]
    split
    · rfl
    · split <;> rfl

/-- The model's exit status is the one the documented contract demands. -/
theorem C15_exit (cfg : Cfg) (evs : List Event) :
    (run cfg evs).exit = Spec.exit cfg.strict cfg.threshold evs := by
  rw [run_exit_eq]
  cases cfg with
  | mk strict thr w H T =>
    cases strict
    · -- permissive mode
      simp only [any_exits_lax, Spec.exit, withinThreshold, State.badness, Spec.buckets,
        Spec.countedBadness]
      cases evs.any Spec.isFatal
      · by_cases ht : thr = 0
        · simp [ht]
        · by_cases hb : Spec.bucket .target evs + Spec.bucket .none evs ≤ thr
          · simp [ht, hb, Nat.not_lt.mpr hb]
          · simp [ht, hb, Nat.lt_of_not_le hb]
      · simp
    · -- strict mode
      simp only [any_exits_strict, Spec.exit, withinThreshold, State.badness, Spec.buckets,
        Spec.countedBadness]
      cases evs.any Spec.isFatal <;> cases evs.any Spec.isWeightedError <;> simp
      by_cases h1 : Spec.bucket .target evs = 0 <;> by_cases h2 : Spec.bucket .none evs = 0 <;>
        simp [h1, h2]

/-- The selected output is printed exactly when the run exits 0. -/
theorem C15_output (cfg : Cfg) (evs : List Event) :
    (run cfg evs).output = Spec.outputPrinted cfg.strict cfg.threshold evs := by
  have h := C15_exit cfg evs
  unfold Spec.outputPrinted
  rw [← h]
  unfold run
  simp only
  split
  · simp
  · split <;> simp

/-- Exit status is 0 or 1. -/
theorem C15_exit_range (cfg : Cfg) (evs : List Event) : (run cfg evs).exit = 0 ∨ (run cfg evs).exit = 1 := by
  rw [C15_exit]; unfold Spec.exit; split <;> simp

/-! ### C15: imports are excluded -/

/-- Pointwise relation between two lists of the same length. -/
inductive AllRel {α : Type} (R : α → α → Prop) : List α → List α → Prop
  | nil : AllRel R [] []
  | cons {a b : α} {as bs : List α} : R a b → AllRel R as bs → AllRel R (a :: as) (b :: bs)

/-- Two runs differ only in the weights of diagnostics that arose in imported files, and (under
strict mode) not in the weights of error-level ones. -/
def SameButImportWeights (strict : Bool) (e e' : Event) : Prop :=
  e.level = e'.level ∧ e.loc = e'.loc ∧
    (e.badness = e'.badness ∨ (e.loc = .import_ ∧ (strict = false ∨ e.level ≠ .error)))

theorem spec_parts_same (strict : Bool) (evs evs' : List Event)
    (h : AllRel (SameButImportWeights strict) evs evs') :
    evs.any Spec.isFatal = evs'.any Spec.isFatal
    ∧ (strict = true → evs.any Spec.isWeightedError = evs'.any Spec.isWeightedError)
    ∧ Spec.bucket .target evs = Spec.bucket .target evs'
    ∧ Spec.bucket .none evs = Spec.bucket .none evs' := by
  induction h with
  | nil => simp
  | @cons e e' es es' hee _ ih =>
    obtain ⟨hl, hw, hb⟩ := hee
    obtain ⟨i1, i2, i3, i4⟩ := ih
    cases e with
    | mk lv b l =>
    cases e' with
    | mk lv' b' l' =>
      simp only at hl hw hb
      subst hl; subst hw
      refine ⟨?_, ?_, ?_, ?_⟩
      · simp [List.any_cons, Spec.isFatal, i1]
      · intro hs
        simp only [List.any_cons, i2 hs]
        congr 1
        rcases hb with hb | ⟨_, hb | hb⟩
        · simp [Spec.isWeightedError, hb]
        · simp [hs] at hb
        · simp [Spec.isWeightedError, hb]
      · rw [bucket_cons, bucket_cons, i3]
        rcases hb with hb | ⟨hb, _⟩
        · simp [hb]
        · simp [hb]
      · rw [bucket_cons, bucket_cons, i4]
        rcases hb with hb | ⟨hb, _⟩
        · simp [hb]
        · simp [hb]

/-- Badness that arose in imported files never changes the exit status: any two runs that differ
only in the weights of import diagnostics (other than turning a strict-mode error-level diagnostic
weightless or weighted) exit alike and print their output alike. -/
theorem C15_imports_excluded (cfg : Cfg) (evs evs' : List Event)
    (h : AllRel (SameButImportWeights cfg.strict) evs evs') :
    (run cfg evs).exit = (run cfg evs').exit ∧ (run cfg evs).output = (run cfg evs').output := by
  have hx : Spec.exit cfg.strict cfg.threshold evs = Spec.exit cfg.strict cfg.threshold evs' := by
    obtain ⟨h1, h2, h3, h4⟩ := spec_parts_same _ _ _ h
    unfold Spec.exit Spec.countedBadness
    rw [h1, h3, h4]
    cases hs : cfg.strict
    · simp
    · rw [h2 hs]
  refine ⟨by rw [C15_exit, C15_exit, hx], ?_⟩
  rw [C15_output, C15_output]; unfold Spec.outputPrinted; rw [hx]

/-- …and the import bucket is the only bucket they can change. -/
theorem C15_imports_only_import_bucket (evs evs' : List Event)
    (h : AllRel (SameButImportWeights false) evs evs') :
    (Spec.buckets evs).target = (Spec.buckets evs').target
    ∧ (Spec.buckets evs).simpl = (Spec.buckets evs').simpl := by
  obtain ⟨_, _, h3, h4⟩ := spec_parts_same _ _ _ h
  exact ⟨h3, h4⟩

/-! ### The full statement -/

def C15_full : Prop :=
  (∀ (cfg : Cfg) (evs : List Event),
      (run cfg evs).state = Spec.buckets (Spec.processed cfg.strict evs)
      ∧ (run cfg evs).exit = Spec.exit cfg.strict cfg.threshold evs
      ∧ (run cfg evs).output = Spec.outputPrinted cfg.strict cfg.threshold evs)
  ∧ Generated.C15.diagDefaults = [("info", 0), ("warning", 1), ("error", 5), ("fatal", 0)]
  ∧ (∀ x ∈ Generated.C15.diagOverrides, x ∈ documentedWeightless)

theorem C15_full_holds : C15_full :=
  ⟨fun cfg evs => ⟨C15_buckets cfg evs, C15_exit cfg evs, C15_output cfg evs⟩, C15_weights⟩

/-! ### Non-vacuity and the boundary instances (tests by evaluation, labelled as such) -/

private def cfg0 (strict : Bool) (thr : Nat) : Cfg := ⟨strict, thr, .default, false, false⟩

/-- info + warning + error in the target, an error in an import, an error in simplification:
buckets 6 / 6 / 5, counted badness 11. -/
private def evsMix : List Event :=
  [⟨.info, 0, .target⟩, ⟨.warning, 1, .import_⟩ , ⟨.warning, 1, .target⟩, ⟨.error, 5, .target⟩,
   ⟨.error, 5, .import_⟩, ⟨.error, 5, .none⟩, ⟨.info, 0, .none⟩]

example : (run (cfg0 false 0) evsMix).state = ⟨6, 6, 5⟩ ∧ (run (cfg0 false 0) evsMix).exit = 0 := by decide
example : (run (cfg0 false 10) evsMix).exit = 1 ∧ (run (cfg0 false 10) evsMix).output = false := by decide
example : (run (cfg0 false 11) evsMix).exit = 0 ∧ (run (cfg0 false 11) evsMix).output = true := by decide
example : (run (cfg0 false 12) evsMix).exit = 0 := by decide
/-- strict: stops at the first weighted error; the later diagnostics are never counted. -/
example : (run (cfg0 true 0) evsMix).state = ⟨6, 1, 0⟩ ∧ (run (cfg0 true 0) evsMix).exit = 1 := by decide
/-- strict, only a warning in the target: the gate fails. -/
example : (run (cfg0 true 0) [⟨.warning, 1, .target⟩]).exit = 1 := by decide
/-- strict, only a warning in an import: passes. -/
example : (run (cfg0 true 0) [⟨.warning, 1, .import_⟩]).exit = 0 := by decide
/-- strict, a weightless error (badness 0) does not promote. -/
example : (run (cfg0 true 0) [⟨.error, 0, .target⟩]).exit = 0 := by decide
/-- a non-trivial pair related by `SameButImportWeights`. -/
example : AllRel (SameButImportWeights false)
    [⟨.error, 5, .import_⟩, ⟨.warning, 1, .target⟩] [⟨.error, 0, .import_⟩, ⟨.warning, 1, .target⟩] :=
  .cons ⟨rfl, rfl, .inr ⟨rfl, .inl rfl⟩⟩ (.cons ⟨rfl, rfl, .inl rfl⟩ .nil)

/-! ## Scoped runs: `enter_file` decides the bucket, `with` / `try` scopes decide whether a fatal exits -/

section Scoped
open Rattr.DiagScope Rattr.C15Scope

/-- With scopes that let every SystemExit pass, a scoped run is `Diag.run` on the diagnostics
placed by the `enter_file` discipline. -/
theorem scoped_run_eq (cfg : Cfg) (steps : List Step) (hp : allPass steps = true) :
    (DiagScope.run cfg steps).state = (Diag.run cfg (locate none [] steps)).state
    ∧ (DiagScope.run cfg steps).exit = (Diag.run cfg (locate none [] steps)).exit
    ∧ (DiagScope.run cfg steps).output = (Diag.run cfg (locate none [] steps)).output
    ∧ (DiagScope.run cfg steps).logged = (Diag.run cfg (locate none [] steps)).printed := by
  obtain ⟨h1, h2, h3, h4⟩ := go_of_passes cfg Run.init steps hp rfl
  have h4' : (go cfg Run.init steps).pending = false := h4
  have h3' : (go cfg Run.init steps).logged = (runEvents cfg State.init (locate none [] steps)).printed := by
    simpa [Run.init] using h3
  have h1' : (go cfg Run.init steps).state = (runEvents cfg State.init (locate none [] steps)).state := h1
  have h2' : (go cfg Run.init steps).exited = (runEvents cfg State.init (locate none [] steps)).exited := h2
  unfold DiagScope.run Diag.run
  simp only [h4', Bool.or_false, h2', h1', h3']
  split
  · simp
  · split <;> simp

/-- **Buckets, exit status and output of a scoped run follow the contract, with every diagnostic
counted where it really arose** — provided no active scope can stop a SystemExit and every
diagnostic is raised while `current_file` is (a file of the kind of) the file its construct is in. -/
theorem C15_scoped (cfg : Cfg) (steps : List Step)
    (hp : allPass steps = true) (hf : inOwnFile none [] steps = true) :
    (DiagScope.run cfg steps).state = Spec.buckets (Spec.processed cfg.strict (bySrc steps))
    ∧ (DiagScope.run cfg steps).exit = Spec.exit cfg.strict cfg.threshold (bySrc steps)
    ∧ (DiagScope.run cfg steps).output = Spec.outputPrinted cfg.strict cfg.threshold (bySrc steps) := by
  obtain ⟨h1, h2, h3, _⟩ := scoped_run_eq cfg steps hp
  rw [h1, h2, h3, locate_eq_bySrc _ _ _ hf]
  exact ⟨C15_buckets _ _, C15_exit _ _, C15_output _ _⟩

/-- The exit status (and whether the output is printed) also follows the contract when a
re-raising `except SystemExit` handler may hold the exception while its body runs. -/
theorem C15_scoped_exit (cfg : Cfg) (steps : List Step)
    (hp : allBenign steps = true) (hf : inOwnFile none [] steps = true) :
    (DiagScope.run cfg steps).exit = Spec.exit cfg.strict cfg.threshold (bySrc steps)
    ∧ (DiagScope.run cfg steps).output = Spec.outputPrinted cfg.strict cfg.threshold (bySrc steps) := by
  obtain ⟨h1, h2⟩ := go_of_benign cfg Run.init steps hp rfl
  rw [← locate_eq_bySrc none [] steps hf]
  have hinit : Run.init.pending = false := rfl
  have hcur : Run.init.cur = none := rfl
  have hstk : Run.init.stack = [] := rfl
  have hst : Run.init.state = State.init := rfl
  rw [hinit, hcur, hstk, Bool.false_or] at h1
  rw [hcur, hstk, hst] at h2
  have key : (DiagScope.run cfg steps).exit = (Diag.run cfg (locate none [] steps)).exit
      ∧ (DiagScope.run cfg steps).output = (Diag.run cfg (locate none [] steps)).output := by
    have hx := runEvents_exited cfg State.init (locate none [] steps)
    unfold DiagScope.run Diag.run
    simp only [h1, hx]
    by_cases ha : (locate none [] steps).any (Spec.exits cfg.strict) = true
    · simp [ha]
    · simp only [Bool.not_eq_true] at ha
      simp only [ha, Bool.false_eq_true, if_false, h2 ha]
      split <;> simp
  rw [key.1, key.2]
  exact ⟨C15_exit _ _, C15_output _ _⟩

/-! ### Tie A: the scopes and entry points of the code under test -/

/-- Every `with` block and every SystemExit-catching `try` of rattr/**.py has a recognised
verdict, and none can discard a SystemExit: managers' `__exit__` return None / False, generator
managers do not catch around their `yield`, handlers end in `raise`. -/
theorem C15_scopes_benign :
    ∀ r ∈ Generated.C15.scopes, ∃ k, kindOfVerdict r.2.1 r.2.2 = some k ∧ k.benign = true := by
  decide

/-- The analysis of a file's AST (`compile_root_context`, `FileAnalyser`) always starts inside
`with enter_file(<that file>)`: lexically, or — for the target — in the one function whose only
caller wraps it in `enter_file(config.arguments.target)`. -/
theorem C15_entries_in_own_file :
    (∀ e ∈ Generated.C15.analysisEntries, e.2.2.2 ≠ "" ∨ e.2.1 = "__parse_and_analyse_file_impl")
    ∧ Generated.C15.analysisEntryCallers ≠ []
    ∧ (∀ c ∈ Generated.C15.analysisEntryCallers, c.2.2.2 = "config.arguments.target") := by
  decide

/-- `enter_file` has no `finally`: an exception leaving its block leaves `current_file` alone. -/
theorem C15_enter_file_no_finally : DiagScope.restoresOnException = false := by decide

/-- Scope ids resolve, through the regenerated table, only to kinds that cannot discard a
SystemExit. -/
theorem kindOfId_benign (id : String) (k : ScopeKind) (h : kindOfId id = some k) : k.benign = true := by
  obtain ⟨r, hr, hk⟩ := lookupScope_mem _ _ _ h
  obtain ⟨k', hk', hb⟩ := C15_scopes_benign r hr
  rw [hk] at hk'
  cases hk'
  exact hb

/-- A diagnostic as the harness reports it: scopes by id. -/
structure RawDiag where
  level : Level
  badness : Nat
  src : Option FileId
  filtered : Bool
  scopeIds : List String

/-- All ids known ⇒ the resolved step. -/
def RawDiag.resolve (d : RawDiag) : Option Step :=
  (d.scopeIds.mapM kindOfId).map (Step.diag d.level d.badness d.src d.filtered)

theorem mapM_kindOfId_benign (ids : List String) (ks : List ScopeKind)
    (h : ids.mapM kindOfId = some ks) : ks.all ScopeKind.benign = true := by
  induction ids generalizing ks with
  | nil => simp at h; subst h; rfl
  | cons i r ih =>
    simp only [List.mapM_cons, Option.bind_eq_bind] at h
    cases hk : kindOfId i with
    | none => simp [hk] at h
    | some k =>
      cases hr : r.mapM kindOfId with
      | none => simp [hk, hr] at h
      | some ks' =>
        simp [hk, hr] at h
        subst h
        simp [kindOfId_benign i k hk, ih ks' hr]

/-- **End to end for the pinned scope table**: whatever scopes of rattr/**.py are active when the
diagnostics of a run are raised, if every diagnostic is raised in its own file then the exit status
is the contract's on the places where the diagnostics really arose. -/
theorem C15_scoped_pinned (cfg : Cfg) (steps : List Step)
    (hids : ∀ s ∈ steps, ∀ lv b src fl sc, s = Step.diag lv b src fl sc →
              ∃ ids : List String, ids.mapM kindOfId = some sc)
    (hf : inOwnFile none [] steps = true) :
    (DiagScope.run cfg steps).exit = Spec.exit cfg.strict cfg.threshold (bySrc steps)
    ∧ (DiagScope.run cfg steps).output = Spec.outputPrinted cfg.strict cfg.threshold (bySrc steps) := by
  apply C15_scoped_exit cfg steps _ hf
  unfold allBenign
  rw [List.all_eq_true]
  intro s hs
  cases s with
  | diag lv b src fl sc =>
    obtain ⟨ids, hi⟩ := hids _ hs lv b src fl sc rfl
    exact mapM_kindOfId_benign ids sc hi
  | _ => rfl

/-! ### Neither hypothesis can be dropped (evaluations, labelled as such) -/

private def lax (thr : Nat) : Cfg := ⟨false, thr, .all, false, false⟩

/-- The shape of "the star-imported module's root context is compiled after `enter_file` was
left": the target's own star-import warning (weight 1) plus an error of the star-imported file 2
counted while `current_file` is the target again. Threshold 1: the contract says exit 0 (only 1
counts), the run exits 1 with 6 in the target bucket. -/
theorem C15_scoped_needs_inOwnFile :
    let steps := [Step.enterFile (some 0), .diag .warning 1 (some 0) false [.propagate],
                  .enterFile (some 2), .leaveFile, .diag .error 5 (some 2) false [.propagate], .leaveFile]
    allPass steps = true ∧ inOwnFile none [] steps = false
    ∧ (DiagScope.run (lax 1) steps).exit = 1 ∧ (DiagScope.run (lax 1) steps).state = ⟨6, 0, 0⟩
    ∧ Spec.exit false 1 (bySrc steps) = 0 ∧ Spec.buckets (bySrc steps) = ⟨1, 5, 0⟩ := by
  decide

/-- A manager whose `__exit__` returns a truthy value around the raise: the fatal is logged, the
run goes on, prints its output and exits 0 — the contract says 1. -/
theorem C15_scoped_needs_no_suppress :
    let steps := [Step.enterFile (some 0), .diag .fatal 0 (some 0) false [.propagate, .suppress, .propagate],
                  .diag .info 0 (some 0) false [.propagate], .leaveFile]
    inOwnFile none [] steps = true ∧ allBenign steps = false
    ∧ (DiagScope.run (lax 0) steps).exit = 0 ∧ (DiagScope.run (lax 0) steps).output = true
    ∧ (DiagScope.run (lax 0) steps).logged = [⟨.fatal, .target⟩, ⟨.info, .target⟩]
    ∧ Spec.exit false 0 (bySrc steps) = 1 := by
  decide

/-- Same under strict mode in an import: the promoted error is discarded and, import badness not
counting, the gate passes too. -/
theorem C15_scoped_needs_no_suppress_strict_import :
    let steps := [Step.enterFile (some 0), .enterFile (some 1),
                  .diag .error 5 (some 1) false [.propagate, .suppress], .leaveFile, .leaveFile]
    inOwnFile none [] steps = true
    ∧ (DiagScope.run ⟨true, 0, .all, false, false⟩ steps).exit = 0
    ∧ Spec.exit true 0 (bySrc steps) = 1 := by
  decide

/-- A handler that may fall through has the same effect. -/
theorem C15_scoped_needs_no_swallowing_handler :
    let steps := [Step.enterFile (some 0), .diag .fatal 0 (some 0) false [.catchSwallow, .capture], .leaveFile]
    (DiagScope.run (lax 0) steps).exit = 0 ∧ Spec.exit false 0 (bySrc steps) = 1
    ∧ (DiagScope.run (lax 0) steps).stderr = [] := by
  decide

/-- Non-vacuity: a run through target, a star-imported file, a followed import and simplification
that satisfies both hypotheses of `C15_scoped_exit`, with a fatal of the filtered family held by the
pinned code's re-emitting handler under `redirect_stderr`: its own line does not reach stderr, the
handler's fatal does (logged: both). -/
example :
    let steps := [Step.enterFile (some 0), .diag .warning 1 (some 0) false [.propagate, .propagate],
                  .enterFile (some 2), .diag .error 5 (some 2) false [.propagate, .propagate, .propagate], .leaveFile,
                  .enterFile (some 1), .diag .warning 1 (some 1) false [.propagate], .leaveFile,
                  .diag .fatal 0 (some 0) true [.propagate, .catchReemit, .capture]]
    allBenign steps = true ∧ inOwnFile none [] steps = true
    ∧ (DiagScope.run (lax 0) steps).exit = 1 ∧ (DiagScope.run (lax 0) steps).state = ⟨1, 6, 0⟩
    ∧ (DiagScope.run (lax 0) steps).stderr = [⟨.warning, .target⟩, ⟨.error, .import_⟩, ⟨.warning, .import_⟩, ⟨.fatal, .target⟩]
    ∧ (DiagScope.run (lax 0) steps).logged = [⟨.warning, .target⟩, ⟨.error, .import_⟩, ⟨.warning, .import_⟩, ⟨.fatal, .target⟩, ⟨.fatal, .target⟩] := by
  decide

/-- The ids of the two `DictChanges` blocks and of the star-import `enter_file` resolve. -/
example : kindOfId "rattr/analyser/file.py::FileAnalyser.visit_AnyAssign::with DictChanges#0" = some .propagate
    ∧ kindOfId "rattr/models/context/_root_context.py::RootContextBuilder.visit_assignment::with DictChanges#0" = some .propagate
    ∧ kindOfId "rattr/models/context/_context.py::Context.expand_starred_imports::with enter_file#2" = some .propagate
    ∧ kindOfId "rattr/analyser/util.py::parse_rattr_results_from_annotation_args_impl::except SystemExit#0" = some .catchReemit := by
  decide

/-! ### Lines captured by `redirect_stderr` come back to stderr -/

/-- Tie A: the one SystemExit handler around a `with redirect_stderr(S)` has exactly the pinned
body — every captured line goes to `print(line, file=sys.stderr)` unless it contains "unable to
evaluate", in which case `error.fatal` is called instead — and every stderr-diverting `with` of
rattr/**.py sits in the `try` body of such a handler. A bare `print(line)`, a dropped emission or a
different filter changes the table and breaks this theorem. -/
theorem C15_capture_handler_pinned :
    Generated.C15.captureHandlers =
      [("rattr/analyser/util.py::parse_rattr_results_from_annotation_args_impl::except SystemExit#0",
        "unable to evaluate", "print(LINE, file=sys.stderr)", "error.fatal")]
    ∧ (∀ c ∈ Generated.C15.captureScopes,
        kindOfId c.1 = some .capture ∧ kindOfId c.2 = some .catchReemit
        ∧ ∃ h ∈ Generated.C15.captureHandlers, h.1 = c.2) := by
  decide

theorem reachesReemit_pinned (outer : List ScopeKind) :
    reachesReemit (outer ++ [ScopeKind.catchReemit, ScopeKind.capture]).reverse false = true := by
  simp [reachesReemit]

/-- **Every fatal raised where its SystemExit arrives at the re-emitting handler puts exactly one
line of level fatal on stderr** — its own, or the handler's replacement for a line of the filtered
family — whatever the configuration. (Without a capture in the way the line goes there directly.) -/
theorem C15_captured_fatal_on_stderr (cfg : Cfg) (r : Run) (b : Nat) (src : Option FileId)
    (filtered : Bool) (scopes : List ScopeKind) (hre : reachesReemit scopes.reverse false = true) :
    (step cfg r (.diag .fatal b src filtered scopes)).stderr = r.stderr ++ [⟨.fatal, placeOf r.cur⟩] := by
  have hst : ∀ (x : Run) (f : Fate), (applyFate x f).stderr = x.stderr := by
    intro x f; cases f <;> rfl
  simp only [step, emit, Diag.fatal, if_true, hst, afterEmit, stderrLines, hre, Bool.and_self]
  cases scopes.contains ScopeKind.capture <;> cases filtered <;> simp

/-- The same for a weighted error under strict mode (`error` calls `fatal` itself). -/
theorem C15_captured_strict_error_on_stderr (cfg : Cfg) (r : Run) (b : Nat) (src : Option FileId)
    (filtered : Bool) (scopes : List ScopeKind) (hs : cfg.strict = true) (hb : b > 0)
    (hre : reachesReemit scopes.reverse false = true) :
    (step cfg r (.diag .error b src filtered scopes)).stderr = r.stderr ++ [⟨.fatal, placeOf r.cur⟩] := by
  have hst : ∀ (x : Run) (f : Fate), (applyFate x f).stderr = x.stderr := by
    intro x f; cases f <;> rfl
  have hb' : decide (b > 0) = true := by simpa using hb
  simp only [step, emit, Diag.error, Diag.fatal, hs, hb', Bool.and_self, if_true, hst, afterEmit,
    stderrLines, hre]
  cases scopes.contains ScopeKind.capture <;> cases filtered <;> simp

/-- For the annotation parser of the pinned code: whatever encloses it, a fatal raised under its
`redirect_stderr` yields a fatal line on stderr. -/
theorem C15_annotation_parser_fatal_on_stderr (cfg : Cfg) (r : Run) (b : Nat) (src : Option FileId)
    (filtered : Bool) (outer : List ScopeKind) :
    (step cfg r (.diag .fatal b src filtered (outer ++ [.catchReemit, .capture]))).stderr
      = r.stderr ++ [⟨.fatal, placeOf r.cur⟩] :=
  C15_captured_fatal_on_stderr cfg r b src filtered _ (reachesReemit_pinned outer)

/-- The hypothesis is needed: under a handler that re-raises without handing the captured lines
back (the shape of a dropped re-emission) the fatal ends the run and nothing reaches stderr. -/
theorem C15_captured_fatal_needs_reemit :
    let steps := [Step.enterFile (some 0), .diag .fatal 0 (some 0) false [.propagate, .catchReraise, .capture]]
    (DiagScope.run (lax 0) steps).exit = 1 ∧ (DiagScope.run (lax 0) steps).stderr = []
    ∧ (DiagScope.run (lax 0) steps).logged = [⟨.fatal, .target⟩] := by
  decide

/-- A whole run: the captured fatal itself (not of the filtered family) reaches stderr in place. -/
example :
    let steps := [Step.enterFile (some 0), .diag .warning 1 (some 0) false [.propagate],
                  .diag .fatal 0 (some 0) false [.propagate, .catchReemit, .capture]]
    (DiagScope.run (lax 0) steps).stderr = [⟨.warning, .target⟩, ⟨.fatal, .target⟩]
    ∧ (DiagScope.run (lax 0) steps).logged = [⟨.warning, .target⟩, ⟨.fatal, .target⟩]
    ∧ (DiagScope.run (lax 0) steps).exit = 1 := by
  decide

end Scoped

/-! ## Round 4: the two loops that follow imports

`resolve_import` (result simplification) and one queue element of `parse_and_analyse_imports`
(RattrModel/SimplResolve.lean). -/

section Resolve
open Rattr.DiagScope Rattr.SimplResolve Rattr.C15Resolve

/-- Tie A: `state.current_file` changes in `enter_file` only, `enter_file` is used as a `with` item
only, and the `with enter_file(..)` blocks of rattr/**.py are exactly the pinned ones. -/
theorem C15_current_file_changes_pinned :
    Generated.C15.enterFileSites = SimplResolve.enterFileSites
    ∧ Generated.C15.enterFileOtherUses = []
    ∧ Generated.C15.currentFileWriters = SimplResolve.currentFileWriters := by
  decide

/-- Tie A: no file is entered by the code of the simplification stage (rattr/results/**): every
`with enter_file(..)` is in the file analyser's module or in the starred-import expansion. -/
theorem C15_simplification_enters_no_file :
    ∀ s ∈ Generated.C15.enterFileSites,
      s.1 = "rattr/analyser/file.py" ∨ s.1 = "rattr/models/context/_context.py" := by
  decide

/-- Tie A: the level-function calls of the two loops, in source order, with their explicit
`badness` argument: the walk passes one (the documented weightless "unable to resolve builtin
module", a constant 0), `resolve_import` none. A weight that depends on an option is a different
expression and breaks this theorem (and `C15_weights`). -/
theorem C15_site_calls_pinned :
    Generated.C15.siteCalls =
      (walkCallSites.map fun c => ("rattr/analyser/file.py", "parse_and_analyse_imports", c.1, c.2))
      ++ (resolveCallSites.map fun c => ("rattr/results/_find_call_target.py", "resolve_import", c.1, c.2)) := by
  decide

/-- Every diagnostic of `resolve_import` carries the documented weight of its level, however deep the
chain of re-exports and whatever the options. -/
theorem C15_resolve_weights (ch : Chain) :
    ∀ r ∈ (resolve ch).1, r = (Level.info, 0) ∨ r = (Level.error, 5) := by
  have hg : ∀ (c : Checks) (x : List Report × Outcome), gate c = some x →
      ∀ r ∈ x.1, r = (Level.info, 0) ∨ r = (Level.error, 5) := by
    intro c x hx r hr
    unfold gate at hx
    (repeat' split at hx) <;> (first | (cases hx; simp_all) | simp_all)
  have hf : ∀ f : Final, ∀ r ∈ (final f).1, r = (Level.info, 0) ∨ r = (Level.error, 5) := by
    intro f r hr
    cases f with
    | callable b => cases b <;> simp_all [final]
    | absent b => cases b <;> simp_all [final]
    | other => simp_all [final]
  induction ch with
  | stop c f =>
    intro r hr
    unfold resolve at hr
    cases hgc : gate c with
    | some x => rw [hgc] at hr; exact hg c x hgc r hr
    | none => rw [hgc] at hr; exact hf f r hr
  | via c next ih =>
    intro r hr
    unfold resolve at hr
    cases hgc : gate c with
    | some x => rw [hgc] at hr; exact hg c x hgc r hr
    | none => rw [hgc] at hr; exact ih r hr

/-- **However many modules a called name is re-exported through, every diagnostic that
`resolve_import` raises about it is booked to the simplification bucket**: after any earlier part of
the run that has left every file it entered, the diagnostics of the chain are placed at `none`, each
in its own place. -/
theorem C15_resolve_booked_to_simplification (pre : List Step) (ch : Chain)
    (hpre : endState none [] pre = (none, [])) :
    locate none [] (pre ++ steps ch)
        = locate none [] pre ++ (resolve ch).1.map (fun r => (⟨r.1, r.2, .none⟩ : Event))
    ∧ inOwnFile none [] (pre ++ steps ch) = inOwnFile none [] pre := by
  constructor
  · rw [locate_append, hpre]
    simp only [steps, reportSteps, locate_reports, placeOf]
  · rw [inOwnFile_append, hpre]
    simp only [steps, reportSteps, inOwnFile_reports, Bool.and_true]

/-- A run that consists of such a resolution alone: nothing is added to the target-file bucket or to
the imports bucket, for every chain and every configuration; the exit status is the contract's. -/
theorem C15_resolve_buckets (cfg : Cfg) (ch : Chain) :
    (DiagScope.run cfg (steps ch)).state.target = 0
    ∧ (DiagScope.run cfg (steps ch)).state.imports = 0
    ∧ (DiagScope.run cfg (steps ch)).exit
        = Spec.exit cfg.strict cfg.threshold ((resolve ch).1.map fun r => (⟨r.1, r.2, .none⟩ : Event)) := by
  have hp : allPass (steps ch) = true := allPass_reports _ _
  have hf : inOwnFile none [] (steps ch) = true := inOwnFile_reports _ _
  obtain ⟨h1, h2, _⟩ := C15_scoped cfg (steps ch) hp hf
  have hb : bySrc (steps ch) = (resolve ch).1.map fun r => (⟨r.1, r.2, .none⟩ : Event) :=
    bySrc_reports _
  have hloc : ∀ e ∈ Spec.processed cfg.strict (bySrc (steps ch)), e.loc = Where.none := by
    intro e he
    have := mem_processed he
    rw [hb] at this
    simp only [List.mem_map] at this
    obtain ⟨r, _, rfl⟩ := this
    rfl
  refine ⟨?_, ?_, ?_⟩
  · rw [h1]
    exact bucket_eq_zero _ _ (fun e he => by rw [hloc e he]; decide)
  · rw [h1]
    exact bucket_eq_zero _ _ (fun e he => by rw [hloc e he]; decide)
  · rw [h2, hb]

/-- Any stretch of a run that enters no file books all its diagnostics to one place. -/
theorem C15_no_enter_one_place (cur : Option FileId) (stack : List (Option FileId)) (steps : List Step)
    (h : onlyDiags steps = true) : ∀ e ∈ locate cur stack steps, e.loc = placeOf cur :=
  locate_onlyDiags cur stack steps h

def okChecks : Checks := ⟨true, false, true, false, false, true⟩

/-- The hypothesis "no file is entered" is needed (evaluation, labelled as such): the variant that
enters the re-exporting module around the recursion books the error of the second hop to the
imports bucket, and a run that has to exit 1 (badness 5 > threshold 4) exits 0. -/
theorem C15_resolve_needs_no_enter_file :
    let ch := Chain.via okChecks (.stop okChecks (.absent false))
    locate none [] (steps ch) = [⟨.error, 5, .none⟩]
    ∧ locate none [] (stepsEntering ch [5]) = [⟨.error, 5, .import_⟩]
    ∧ inOwnFile none [] (stepsEntering ch [5]) = false
    ∧ (DiagScope.run ⟨false, 4, .all, false, false⟩ (steps ch)).exit = 1
    ∧ (DiagScope.run ⟨false, 4, .all, false, false⟩ (stepsEntering ch [5])).exit = 0
    ∧ Spec.exit false 4 (bySrc (stepsEntering ch [5])) = 1 := by
  decide

/-- non-vacuity: a chain of depth 2 ending in an `@rattr_ignore`d function, one ending at `-f 0`,
one ending at an excluded module -/
example : resolve (.via okChecks (.via okChecks (.stop okChecks (.callable false))))
    = ([(.error, 5)], .unresolved) := by decide
example : resolve (.via { okChecks with followLocal := false } (.stop okChecks .other))
    = ([(.info, 0)], .unresolved) := by decide
example : resolve (.via okChecks (.stop { okChecks with blacklisted := true } (.absent false)))
    = ([], .unresolved) := by decide

/-- **The import walk reports with the documented weight**: an error of weight 5, or — for a module
without origin whose loader is the BuiltinImporter, and only then — the documented weightless
"unable to resolve builtin module". -/
theorem C15_walk_weights (f : ImportFacts) (lv : Level) (b fam : Nat)
    (h : walkOne f = .report lv b fam) :
    lv = .error ∧ ((b = 5 ∧ fam ≠ 2) ∨ (b = 0 ∧ fam = 2 ∧ f.builtinLoader = true ∧ f.hasOrigin = false)) := by
  unfold walkOne at h
  (repeat' split at h) <;> (first | (cases h; simp_all) | simp_all)

/-- **No option changes what the walk reports**: whether the module is excluded (`-F`), not followed
at this `-f` level, or already seen is only looked at after every report. -/
theorem C15_walk_report_ignores_options (f : ImportFacts) (seen bl pip std : Bool) (lv : Level) (b fam : Nat)
    (h : walkOne f = .report lv b fam) :
    walkOne { f with seen := seen, blacklisted := bl, skipPip := pip, skipStdlib := std } = .report lv b fam := by
  unfold walkOne at h ⊢
  (repeat' split at h) <;> (first | (cases h; simp_all) | simp_all)

/-- The other way round: excluding a module never turns a report into silence or into a lighter one. -/
theorem C15_walk_excluded_unlocatable_weighs_five (f : ImportFacts) (h : f.nameKnown = false) :
    walkOne { f with blacklisted := true } = .report .error 5 0 := by
  simp [walkOne, h]

example : walkOne ⟨false, false, false, false, false, true, false, false⟩ = .report .error 5 0 := by decide
example : walkOne ⟨true, true, false, true, false, false, false, true⟩ = .report .error 0 2 := by decide
example : walkOne ⟨true, true, true, false, false, true, false, false⟩ = .skip := by decide

end Resolve

end Rattr.C15

/-
  C13 — module names resolve the way Python's import system resolves them.

  Model: `Locator.*` (RattrModel/Locator.lean) = `rattr/module_locator/{util,_locate}.py`.
  Spec:  `Spec.pyResolveName`, `Spec.longestPrefix`, `Spec.firstMatch` (RattrModel/Spec/ResolveName.lean)
         = `importlib.util.resolve_name`, "longest prefix that exists", the file system's own view.

  The full statement `C13_full` (three conjuncts a/b/c) is NOT a theorem of the pinned code; each
  conjunct has a counterexample class (`C13_cex_*`, replayed on the implementation, listed in
  known_findings.json):
    (a) memo clash: `derive_absolute_module_name` is cached on (base, target, level) but reads the
        current file's name;
    (b)/(c) a name classified stdlib is sent to the stdlib finder, never to the search path;
    (b)/(c) a module next to a directory of the same name without `__init__.py` is not found.
  Proved for all inputs (no size bound):
    * `C13_relative`, `C13_relative_memo`, `C13_run_noclash`: on a cache miss / with a clash-free
      cache the result is exactly Python's `resolve_name`;
    * `C13_escape_diagnosed`: whenever Python refuses (no parent package / beyond top level) the
      produced name has an empty first component and `find_module_name_and_spec` rejects it;
    * `C13_longest_prefix`, `C13_longest_prefix_none`, `C13_longest_prefix_spec`: the returned
      module is the longest existing prefix;
    * `C13_find_matches_fs`, `C13_longest_prefix_fs`: on clean roots (every directory that shares
      a name is a package) and non-stdlib names, "exists" is the file system's first match;
    * `C13_roundtrip`, `C13_roundtrip_fs`: first-match hypothesis ⇒ the derived name locates the file.
  End to end (model `Walk.*`, RattrModel/ImportWalk.lean: target → star-expansion → followed imports,
  with `Config().state.current_file` as explicit state that the import visitors READ):
    * `walk_cur_is_file`: every `compile_root_context` and every `derive_absolute_module_name` call
      of the walk runs under a current file that is the file whose statements are being registered —
      however the file was reached (target, followed import, star-expansion at any depth);
    * `walk_is_one_cached_run`: the calls of the whole walk are one run through one cache;
    * `walk_resolves_like_python`: hence, in a walk free of module/package name clashes, every relative
      import inside every reached file resolves to `importlib.util.resolve_name` for THAT file's
      package, and is unresolvable when Python refuses;
    * `walk_base_is_own_name`: the round-trip hypothesis of the former, discharged by `C13_roundtrip`;
    * `walk_symbols_resolve_like_python`: hence every `Import` symbol of every compiled root context
      (what `-o ir` prints) stems from a statement of the compiled file and names the module Python
      resolves that statement to.
  Symbolic links (`.resolve()` is a parameter `rv` of the model; every theorem is for every `rv`):
    * `tieA_resolve_site`: `find_module_in_path` resolves the search directory and nothing else,
      `Import.origin` resolves the whole path; every file — target, followed import, star-imported
      file (since 58a9012) — is entered under its path as spelled below the search root;
    * `C13_origin_below_search_dir`, `C13_located_roundtrip`: the located origin is the resolved search
      directory followed by the path as spelled, and the file entered under it gets its name back
      (whatever its components are called: `tieA_path_name_rule`, `C13_package_named_py`, c729543);
    * `walk_followed_cur_is_origin`, `walk_call_base_is_cur_name`; `walk_cur_is_file` and what rests
      on it hold for every project, links included (`C13_star_symlink`);
    * the rules the two repairs replaced are kept as `Walk.runBefore_58a9012` /
      `longestNameBefore_c729543` with their counterexamples (`C13_cex_star_symlink_before_58a9012`,
      `walk_cex_not_spelled_before_58a9012`, `C13_cex_package_named_py_before_c729543`).
-/
import RattrModel.Locator
import RattrModel.Spec.ResolveName
import RattrModel.Generated.C13
import RattrModel.ImportWalk
import RattrProofs.Lemmas.C13Walk
import RattrProofs.Lemmas.C13WalkSyms

namespace Rattr.C13
open Rattr Rattr.Locator

/-! ### Tie A -/

theorem tieA_memo_key :
    Generated.C13.deriveAbsCached = true
    ∧ Generated.C13.deriveAbsCacheKey = ["base", "target", "level"]
    ∧ Generated.C13.deriveAbsReadsCurrentFile = true := by decide

theorem tieA_search_order :
    Generated.C13.searchOrder = ["cwd", "rattrRoot", "sysPath1", "sysPath2"] := by decide

theorem tieA_file_names :
    Generated.C13.packageFile.toList = initPy
    ∧ withSuffixPy ["mod".toList] = [Generated.C13.moduleFile.toList]
    ∧ Generated.C13.clashWinner = "both/__init__.py"
    ∧ Generated.C13.emptyNameFound = false
    ∧ Generated.C13.emptyNameIsStdlib = false := by decide

/-- The three `enter_file` sites and the position of every `compile_root_context` call relative to
them are the ones `Walk.run` / `Walk.followLoop` / `Walk.expandLoop` mirror; `enter_file` has no
`finally`; the relative-import visitors take the node only and read `current_file`. -/
theorem tieA_walk_sites :
    Generated.C13.enterFileSites = Walk.enterSites
    ∧ Generated.C13.compileSites = Walk.compileCalls
    ∧ Generated.C13.enterFileRestoresOnException = false
    ∧ Generated.C13.relVisitorsReadCurrentFileOnly = true := by decide

/-! The probe of `py/tables/t_c13.py::resolve_rows` as the model sees it: search directory `<R>`
(also spelled `<L>`, a link to it) holding `mod.py`, the link `lnk → <X>/real` (a package with
`mod.py`) and the link `lmod.py → <X>/other.py`. -/
private def pR : Str := "<R>".toList
private def pX : Str := "<X>".toList
private def pL : Str := "<L>".toList
private def sLnk : Str := "lnk".toList
private def probeLinks : Links :=
  [([pL], [pR]), ([pR, sLnk], [pX, "real".toList]), ([pR, "lmod.py".toList], [pX, "other.py".toList])]
private def probeFiles : Files := [[sLnk, initPy], [sLnk, "mod.py".toList], ["lmod.py".toList], ["mod.py".toList]]
private def probeAt (dir : Path) (name : Dotted) : Path :=
  (findModuleInPathAbs (resolveLinks probeLinks 8) resolveSite dir probeFiles name).getD ["-".toList]
private def probeModel : List (String × Path) :=
  [("R:lnk", probeAt [pR] [sLnk]), ("R:lnk.mod", probeAt [pR] [sLnk, "mod".toList]),
   ("R:lmod", probeAt [pR] ["lmod".toList]), ("R:mod", probeAt [pR] ["mod".toList]),
   ("L:lnk", probeAt [pL] [sLnk]), ("L:lnk.mod", probeAt [pL] [sLnk, "mod".toList]),
   ("L:lmod", probeAt [pL] ["lmod".toList]), ("L:mod", probeAt [pL] ["mod".toList])]

/-- Where `.resolve()` is applied: inside `find_module_in_path` to the search directory and to
nothing else (the location is returned as built); once more, to the whole path, inside `Import.origin`.
What is ENTERED (`enter_file`), and whether a root context is compiled under it: the target as given,
`spec.origin` for a followed import, and — since 58a9012 — `Path(starred.module_spec.origin)`, the
same unresolved origin, for a star-imported file (`Walk.run` = `Walk.runWith … (curOf true)`); the
block entered under `starred.location.defined_in` (150f7d8) only words two diagnostics. And the real
function, run on a directory with a symlinked package, a symlinked module file and through a
symlinked spelling of the directory, returns what the model returns. -/
theorem tieA_resolve_site :
    Generated.C13.findResolvingCalls = ["python_path.resolve"]
    ∧ Generated.C13.findReturns = ["None", "None", "install_location"]
    ∧ Generated.C13.importOriginResolvingCalls = ["Path(self.module_spec.origin).resolve"]
    ∧ Generated.C13.enterFileArgs =
        [("rattr/analyser/file.py::parse_and_analyse_file", "config.arguments.target", true),
         ("rattr/analyser/file.py::parse_and_analyse_imports", "spec.origin", true),
         ("rattr/models/context/_context.py::expand_starred_imports", "Path(starred.module_spec.origin)", true),
         ("rattr/models/context/_context.py::expand_starred_imports", "starred.location.defined_in", false)]
    ∧ resolveSite = ResolveSite.searchDir
    ∧ Generated.C13.symlinkProbe.map (fun np => (np.1, np.2.map String.toList)) = probeModel := by decide

/-! The probe of `py/tables/t_c13.py::path_name_probe` as the model sees it: `pa/`, `pa/py/` (a
package named `py`), `pa/py/ma.py`, `pa/ma.py`, `pa/py.py`. -/
private def nameProbeEnv : Env :=
  { fs := [[["pa".toList, initPy], ["pa".toList, sPy, initPy], ["pa".toList, sPy, "ma.py".toList],
            ["pa".toList, "ma.py".toList], ["pa".toList, "py.py".toList]]], stdlib := [] }
private def nameProbeAt (rel : Path) : Dotted :=
  (deriveModuleNameFromPath nameProbeEnv (rel.flatMap splitSeg)).getD ["-".toList]

/-- The suffix rule of `derive_module_name_from_path` (c729543: ONE suffix is removed): the real
function on a tree with a package named `py` = the model (`longestName`). -/
theorem tieA_path_name_rule :
    Generated.C13.pathNameProbe.map (fun np => (np.1, splitSeg np.2.toList))
      = [("pa/__init__.py", nameProbeAt ["pa".toList, initPy]),
         ("pa/py/__init__.py", nameProbeAt ["pa".toList, sPy, initPy]),
         ("pa/py/ma.py", nameProbeAt ["pa".toList, sPy, "ma.py".toList]),
         ("pa/ma.py", nameProbeAt ["pa".toList, "ma.py".toList])] := by decide

/-! ### Generic lemmas on searches over `List.range` -/

theorem findSome_range_some {β : Type} (n : Nat) (f : Nat → Option β) (b : β) :
    (List.range n).findSome? f = some b →
    ∃ k, k < n ∧ f k = some b ∧ ∀ j, j < k → f j = none := by
  induction n generalizing f with
  | zero => simp
  | succ n ih =>
    rw [List.range_succ_eq_map, List.findSome?_cons]
    cases h0 : f 0 with
    | some b' =>
      intro h
      simp only [Option.some.injEq] at h
      exact ⟨0, by omega, by rw [h0, h], by intro j hj; omega⟩
    | none =>
      simp only [List.findSome?_map]
      intro h
      obtain ⟨k, hk, hfk, hno⟩ := ih (f ∘ Nat.succ) h
      refine ⟨k + 1, by omega, hfk, ?_⟩
      intro j hj
      cases j with
      | zero => exact h0
      | succ j => exact hno j (by omega)

theorem findSome_range_none {β : Type} (n : Nat) (f : Nat → Option β) :
    (List.range n).findSome? f = none → ∀ k, k < n → f k = none := by
  intro h k hk
  rw [List.findSome?_eq_none_iff] at h
  exact h k (List.mem_range.mpr hk)

theorem find_range_map {α : Type} (n : Nat) (g : Nat → α) (p : α → Bool) (k : Nat)
    (hk : k < n) (hp : p (g k) = true) (hno : ∀ j, j < k → p (g j) = false) :
    ((List.range n).map g).find? p = some (g k) := by
  induction n generalizing g k with
  | zero => omega
  | succ n ih =>
    rw [List.range_succ_eq_map, List.map_cons, List.map_map]
    cases k with
    | zero => simp [hp]
    | succ k =>
      have h0 : p (g 0) = false := hno 0 (by omega)
      rw [List.find?_cons, h0]
      exact ih (g ∘ Nat.succ) k (by omega) hp (fun j hj => hno (j + 1) (by omega))

/-! ### (a) relative imports -/

theorem dropLastN_eq_take (n : Nat) (l : List Str) : Spec.dropLastN n l = l.take (l.length - n) := by
  induction n generalizing l with
  | zero => simp [Spec.dropLastN]
  | succ n ih =>
    rw [Spec.dropLastN, ih, List.dropLast_eq_take, List.take_take, List.length_take]
    congr 1
    omega

/-- Cache miss: whenever Python resolves the relative import, the body of
`derive_absolute_module_name` returns exactly Python's answer. `base` is the importing file's
module name, `isInit` whether it is a package `__init__`. -/
theorem C13_relative (isInit : Bool) (base : Dotted) (target : Option Dotted) (level : Nat) (r : Dotted)
    (hl : 1 ≤ level)
    (h : Spec.pyResolveName (Spec.packageOf base isInit) level target = .ok r) :
    deriveAbs isInit base target level = r := by
  unfold Spec.pyResolveName at h
  split at h
  · cases h
  · rename_i hne
    split at h
    · cases h
    · rename_i hlen
      simp only [Except.ok.injEq] at h
      rw [dropLastN_eq_take] at h
      subst h
      cases isInit with
      | true =>
        simp only [Spec.packageOf, if_true] at hne hlen ⊢
        unfold deriveAbs
        simp only [if_true]
        by_cases he : level - 1 > 0
        · have hne' : base.take (base.length - (level - 1)) ≠ [] := by
            intro hnil
            rcases List.take_eq_nil_iff.mp hnil with h0 | h0
            · omega
            · exact hne h0
          simp only [he, joinSplit, hne', if_true, if_false]
          cases target <;> rfl
        · have : level - 1 = 0 := by omega
          simp only [this, Nat.lt_irrefl, gt_iff_lt, if_false]
          cases target <;> simp
      | false =>
        simp only [Spec.packageOf, Bool.false_eq_true, if_false] at hne hlen ⊢
        have hlen2 : base.dropLast.length = base.length - 1 := List.length_dropLast
        unfold deriveAbs
        have hpos : level > 0 := by omega
        have hbl : 2 ≤ base.length := by
          cases base with
          | nil => simp at hne
          | cons a t =>
            cases t with
            | nil => simp at hne
            | cons b t => simp
        have hne' : base.take (base.length - level) ≠ [] := by
          intro hnil
          rcases List.take_eq_nil_iff.mp hnil with h0 | h0
          · omega
          · subst h0; simp at hbl
        have htake : base.dropLast.take (base.dropLast.length - (level - 1)) = base.take (base.length - level) := by
          rw [List.dropLast_eq_take, List.take_take, List.length_take]
          congr 1
          omega
        rw [hlen2] at htake
        simp only [hpos, joinSplit, hne', if_true, if_false, Bool.false_eq_true, htake, List.length_dropLast]
        cases target <;> rfl

/-- The cache cannot hurt when its entry for this key (if any) was computed for a file of the same
kind. -/
def NoClash (memo : Memo) (isInit : Bool) (base : Dotted) (target : Option Dotted) (level : Nat) : Prop :=
  ∀ v, Dict.get? memo (base, target, level) = some v → v = deriveAbs isInit base target level

theorem deriveAbsM_noclash (memo : Memo) (isInit : Bool) (base : Dotted) (target : Option Dotted) (level : Nat)
    (hnc : NoClash memo isInit base target level) :
    (deriveAbsM memo isInit base target level).1 = deriveAbs isInit base target level := by
  unfold deriveAbsM
  cases hg : Dict.get? memo (base, target, level) with
  | none => rfl
  | some v => exact hnc v hg

theorem C13_relative_memo (memo : Memo) (isInit : Bool) (base : Dotted) (target : Option Dotted) (level : Nat)
    (r : Dotted) (hl : 1 ≤ level)
    (hnc : NoClash memo isInit base target level)
    (h : Spec.pyResolveName (Spec.packageOf base isInit) level target = .ok r) :
    (deriveAbsM memo isInit base target level).1 = r := by
  rw [deriveAbsM_noclash _ _ _ _ _ hnc]
  exact C13_relative isInit base target level r hl h

/-! A whole run through one cache. -/

/-- every cache entry was written by one of the calls `prev` -/
def MemoFrom (memo : Memo) (prev : List RelCall) : Prop :=
  ∀ k v, Dict.get? memo k = some v → ∃ c, c ∈ prev ∧ c.key = k ∧ v = c.pure

/-- no two calls of the run share a key while differing in `isInit` (no module `a/b.py` next to a
package `a/b/__init__.py`, both processed) -/
def ClashFree (cs : List RelCall) : Prop :=
  ∀ c d, c ∈ cs → d ∈ cs → c.key = d.key → c.isInit = d.isInit

theorem dict_get_set {κ ν : Type} [DecidableEq κ] (d : Dict κ ν) (k k' : κ) (v : ν) :
    Dict.get? (Dict.set d k v) k' = if k = k' then some v else Dict.get? d k' := by
  induction d with
  | nil =>
    simp only [Dict.set, Dict.get?]
  | cons e r ih =>
    obtain ⟨a, b⟩ := e
    simp only [Dict.set]
    by_cases hak : a = k
    · subst hak
      simp only [if_true, Dict.get?]
      by_cases h2 : a = k'
      · simp [h2]
      · simp [h2]
    · simp only [hak, if_false, Dict.get?]
      by_cases h2 : a = k'
      · subst h2
        have : ¬ k = a := fun h => hak h.symm
        simp [this]
      · simp only [h2, if_false]
        exact ih

theorem pure_eq_of_key (c d : RelCall) (hk : c.key = d.key) (hi : c.isInit = d.isInit) : c.pure = d.pure := by
  obtain ⟨ci, cb, ct, cl⟩ := c
  obtain ⟨di, db, dt, dl⟩ := d
  simp only [RelCall.key, Prod.mk.injEq] at hk
  obtain ⟨h1, h2, h3⟩ := hk
  simp only at hi
  subst h1 h2 h3 hi
  rfl

theorem runCalls_noclash_aux (prev cs : List RelCall) (memo : Memo)
    (hm : MemoFrom memo prev) (hcf : ClashFree (prev ++ cs)) :
    runCalls memo cs = cs.map RelCall.pure := by
  induction cs generalizing prev memo with
  | nil => rfl
  | cons c cs ih =>
    simp only [runCalls, List.map_cons]
    have hnc : NoClash memo c.isInit c.base c.target c.level := by
      intro v hv
      obtain ⟨d, hd, hdk, hdv⟩ := hm _ _ hv
      rw [hdv]
      have := hcf d c (List.mem_append_left _ hd) (List.mem_append_right _ (List.mem_cons_self ..)) hdk
      exact pure_eq_of_key d c hdk this
    have h1 := deriveAbsM_noclash memo c.isInit c.base c.target c.level hnc
    congr 1
    apply ih (prev ++ [c])
    · intro k v hkv
      unfold deriveAbsM at hkv
      cases hg : Dict.get? memo (c.base, c.target, c.level) with
      | some w =>
        rw [hg] at hkv
        obtain ⟨d, hd, hdk, hdv⟩ := hm _ _ hkv
        exact ⟨d, List.mem_append_left _ hd, hdk, hdv⟩
      | none =>
        rw [hg] at hkv
        simp only at hkv
        rw [dict_get_set] at hkv
        by_cases hk : (c.base, c.target, c.level) = k
        · rw [if_pos hk] at hkv
          simp only [Option.some.injEq] at hkv
          exact ⟨c, by simp, hk, hkv.symm⟩
        · rw [if_neg hk] at hkv
          obtain ⟨d, hd, hdk, hdv⟩ := hm _ _ hkv
          exact ⟨d, List.mem_append_left _ hd, hdk, hdv⟩
    · simpa [List.append_assoc] using hcf

/-- A run that never meets a module and a package of the same dotted name computes, at every call,
what a cache-free run computes — hence (by `C13_relative`) Python's answer. -/
theorem C13_run_noclash (cs : List RelCall) (hcf : ClashFree cs) :
    runCalls [] cs = cs.map RelCall.pure :=
  runCalls_noclash_aux [] cs [] (by intro k v h; simp [Dict.get?] at h) (by simpa using hcf)

/-! ### (a) escapes are diagnosed -/

theorem locateFrom_empty (i : Nat) (fs : FS) : locateFrom i fs [[]] = [] := by
  induction fs generalizing i with
  | nil => rfl
  | cons f r ih => simp [locateFrom, findModuleInPath, ih]

theorem findNameAndSpec_empty (env : Env) (hs : isStdlib env [[]] = false) :
    findModuleNameAndSpec env [[]] = none := by
  have hg : Dict.get? env.stdlib [[]] = none := by
    simp only [isStdlib, Dict.contains] at hs
    cases h : Dict.get? env.stdlib [[]] with
    | none => rfl
    | some v => rw [h] at hs; simp at hs
  have : findModuleSpecFast env [[]] = none := by
    simp [findModuleSpecFast, hg, locate, locateFrom_empty]
  simp [findModuleNameAndSpec, startsWithDot, iterModuleNamesRight, List.range_succ_eq_map, this]

/-- Whenever Python refuses the relative import (no parent package, or beyond the top-level
package) the name rattr produces has an empty first component (the string is `""` or starts with
`"."`) and `find_module_name_and_spec` returns `(None, None)` for it — the `error.error("unable to
resolve relative import")` branch — whatever is on the search path. The only outside fact used:
`is_in_stdlib("")` is false (Tie A: `emptyNameIsStdlib`). -/
theorem C13_escape_diagnosed (env : Env) (isInit : Bool) (base : Dotted) (target : Option Dotted) (level : Nat)
    (e : Spec.ResolveErr) (hl : 1 ≤ level) (hb : base ≠ [])
    (hs : isStdlib env [[]] = false)
    (h : Spec.pyResolveName (Spec.packageOf base isInit) level target = .error e) :
    (deriveAbs isInit base target level).head? = some []
    ∧ findModuleNameAndSpec env (deriveAbs isInit base target level) = none := by
  -- the effective level reaches the length of the base
  have heff : let eff := (if isInit then level - 1 else level); eff > 0 ∧ base.length ≤ eff := by
    unfold Spec.pyResolveName at h
    cases isInit with
    | true =>
      simp only [Spec.packageOf, if_true] at h
      simp only [if_true]
      split at h
      · contradiction
      · split at h
        · have : 0 < base.length := List.length_pos_iff.mpr hb
          omega
        · cases h
    | false =>
      simp only [Spec.packageOf, Bool.false_eq_true, if_false] at h
      have hlen2 : base.dropLast.length = base.length - 1 := List.length_dropLast
      simp only [Bool.false_eq_true, if_false]
      split at h
      · rename_i hnil
        have : base.dropLast.length = 0 := by rw [hnil]; rfl
        omega
      · split at h
        · omega
        · cases h
  obtain ⟨hpos, hle⟩ := heff
  have hbase' : deriveAbs isInit base target level = match target with
      | none => [[]]
      | some t => [] :: t := by
    unfold deriveAbs
    simp only [hpos, if_true]
    have : base.length - (if isInit then level - 1 else level) = 0 := by omega
    rw [this]
    simp only [List.take_zero, joinSplit, if_true]
    cases target <;> rfl
  rw [hbase']
  cases target with
  | none => exact ⟨rfl, findNameAndSpec_empty env hs⟩
  | some t =>
    refine ⟨rfl, ?_⟩
    cases t with
    | nil => exact findNameAndSpec_empty env hs
    | cons c r => simp [findModuleNameAndSpec, startsWithDot]

/-! ### (b) longest prefix -/

/-- The module returned for a qualified name is a non-empty prefix that exists, and no longer
prefix of the query exists. -/
theorem C13_longest_prefix (env : Env) (q n : Dotted) (s : ModSpec) (hq : q ≠ [])
    (h : findModuleNameAndSpec env q = some (n, s)) :
    ∃ k, k < q.length ∧ n = q.take (q.length - k) ∧ findModuleSpecFast env n = some s
      ∧ ∀ j, j < k → findModuleSpecFast env (q.take (q.length - j)) = none := by
  unfold findModuleNameAndSpec at h
  split at h
  · cases h
  · simp only [iterModuleNamesRight, hq, if_false, List.findSome?_map] at h
    obtain ⟨k, hk, hfk, hno⟩ := findSome_range_some _ _ _ h
    simp only [Function.comp, Option.map_eq_some_iff] at hfk
    obtain ⟨s', hs', heq⟩ := hfk
    simp only [Prod.mk.injEq] at heq
    obtain ⟨h1, h2⟩ := heq
    subst h2
    refine ⟨k, hk, h1.symm, by rw [← h1]; exact hs', ?_⟩
    intro j hj
    have := hno j hj
    simpa [Function.comp] using this

theorem C13_longest_prefix_none (env : Env) (q : Dotted) (hq : q ≠ []) (hd : startsWithDot q = false)
    (h : findModuleNameAndSpec env q = none) :
    ∀ k, k < q.length → findModuleSpecFast env (q.take (q.length - k)) = none := by
  unfold findModuleNameAndSpec at h
  simp only [hd, Bool.false_eq_true, if_false, iterModuleNamesRight, hq, List.findSome?_map] at h
  intro k hk
  have := findSome_range_none _ _ h k hk
  simpa [Function.comp] using this

/-- characterisation of the independent left-to-right specification -/
theorem longestPrefixAux_some (ex : List Str → Bool) (rest pre r : List Str) :
    Spec.longestPrefixAux ex pre rest = some r →
    ∃ m, 1 ≤ m ∧ m ≤ rest.length ∧ r = pre ++ rest.take m ∧ ex r = true
      ∧ ∀ j, m < j → j ≤ rest.length → ex (pre ++ rest.take j) = false := by
  induction rest generalizing pre r with
  | nil => simp [Spec.longestPrefixAux]
  | cons c rest ih =>
    simp only [Spec.longestPrefixAux]
    cases hrec : Spec.longestPrefixAux ex (pre ++ [c]) rest with
    | some r' =>
      intro h
      simp only [Option.some.injEq] at h
      subst h
      obtain ⟨m, hm1, hm2, hr, hex, hno⟩ := ih _ _ hrec
      refine ⟨m + 1, by omega, by simp; omega, by simp [hr], hex, ?_⟩
      intro j hj hj2
      cases j with
      | zero => omega
      | succ j =>
        have := hno j (by omega) (by simp at hj2; omega)
        simpa using this
    | none =>
      simp only
      split
      · rename_i hex
        intro h
        simp only [Option.some.injEq] at h
        subst h
        refine ⟨1, by omega, by simp, by simp, hex, ?_⟩
        intro j hj hj2
        cases j with
        | zero => omega
        | succ j =>
          have hnone := longestPrefixAux_none_aux ex rest (pre ++ [c]) hrec j (by omega) (by simp at hj2; omega)
          simpa using hnone
      · intro h; cases h
where
  longestPrefixAux_none_aux (ex : List Str → Bool) (rest pre : List Str) :
      Spec.longestPrefixAux ex pre rest = none →
      ∀ j, 1 ≤ j → j ≤ rest.length → ex (pre ++ rest.take j) = false := by
    induction rest generalizing pre with
    | nil => intro _ j h1 h2; simp at h2; omega
    | cons c rest ih =>
      simp only [Spec.longestPrefixAux]
      cases hrec : Spec.longestPrefixAux ex (pre ++ [c]) rest with
      | some r' => intro h; cases h
      | none =>
        simp only
        split
        · intro h; cases h
        · rename_i hex
          intro _ j h1 h2
          cases j with
          | zero => omega
          | succ j =>
            cases j with
            | zero => simpa using hex
            | succ j =>
              have := ih (pre ++ [c]) hrec (j + 1) (by omega) (by simp at h2; omega)
              simpa using this

theorem longestPrefixAux_none (ex : List Str → Bool) (rest pre : List Str) :
    Spec.longestPrefixAux ex pre rest = none →
    ∀ j, 1 ≤ j → j ≤ rest.length → ex (pre ++ rest.take j) = false :=
  longestPrefixAux_some.longestPrefixAux_none_aux ex rest pre

/-- Right-to-left search of the model = the left-to-right specification, with "exists" read as
`module_exists` (what `find_module_spec_fast` finds). -/
theorem C13_longest_prefix_spec (env : Env) (q : Dotted) (hq : q ≠ []) (hd : startsWithDot q = false) :
    (findModuleNameAndSpec env q).map Prod.fst = Spec.longestPrefix (moduleExists env) q := by
  cases hf : findModuleNameAndSpec env q with
  | some ns =>
    obtain ⟨n, s⟩ := ns
    obtain ⟨k, hk, hn, hex, hno⟩ := C13_longest_prefix env q n s hq hf
    simp only [Option.map_some]
    cases hsp : Spec.longestPrefix (moduleExists env) q with
    | none =>
      have := longestPrefixAux_none _ _ _ hsp (q.length - k) (by omega) (by omega)
      simp only [List.nil_append, ← hn, moduleExists, hex] at this
      cases this
    | some r =>
      obtain ⟨m, hm1, hm2, hr, hexr, hnor⟩ := longestPrefixAux_some _ _ _ _ hsp
      simp only [List.nil_append] at hr hnor
      -- both are maximal: m = q.length - k
      have hmk : m = q.length - k := by
        rcases Nat.lt_trichotomy m (q.length - k) with hlt | heq | hgt
        · have := hnor (q.length - k) hlt (by omega)
          rw [← hn] at this
          simp [moduleExists, hex] at this
        · exact heq
        · have := hno (q.length - m) (by omega)
          have h2 : q.length - (q.length - m) = m := by omega
          rw [h2, ← hr] at this
          simp [moduleExists, this] at hexr
      rw [hr, hmk, ← hn]
  | none =>
    have hno := C13_longest_prefix_none env q hq hd hf
    simp only [Option.map_none]
    cases hsp : Spec.longestPrefix (moduleExists env) q with
    | none => rfl
    | some r =>
      obtain ⟨m, hm1, hm2, hr, hexr, _⟩ := longestPrefixAux_some _ _ _ _ hsp
      simp only [List.nil_append] at hr
      have := hno (q.length - m) (by omega)
      have h2 : q.length - (q.length - m) = m := by omega
      rw [h2, ← hr] at this
      simp [moduleExists, this] at hexr


/-! ### (b)/(c) against the file system's own view -/

/-- every directory on the way to a file is a package (`__init__.py` present): no namespace /
data directories -/
def cleanRoot (files : Files) : Bool :=
  files.all fun f => (List.range f.length).all fun k => k == 0 || files.contains (f.take k ++ [initPy])

def WellFormed (name : Dotted) : Prop := name ≠ [] ∧ [] ∉ name

theorem clean_of_cleanRoot (files : Files) (h : cleanRoot files = true) (d : Path)
    (hd : dirExists files d = true) (hne : d ≠ []) : files.contains (d ++ [initPy]) = true := by
  simp only [dirExists, Bool.or_eq_true, decide_eq_true_eq, hne, false_or, List.any_eq_true,
    Bool.and_eq_true] at hd
  obtain ⟨f, hf, hlen, hpre⟩ := hd
  rw [List.isPrefixOf_iff_prefix, List.prefix_iff_eq_take] at hpre
  simp only [cleanRoot, List.all_eq_true] at h
  have := h f hf d.length (List.mem_range.mpr hlen)
  have hd0 : d.length ≠ 0 := by
    intro h0; exact hne (List.length_eq_zero_iff.mp h0)
  simp only [Bool.or_eq_true, beq_iff_eq, hd0, false_or] at this
  rw [← hpre] at this
  exact this

theorem withSuffixPy_concat (l : Path) (a : Str) : withSuffixPy (l ++ [a]) = l ++ [a ++ dotPy] := by
  induction l with
  | nil => rfl
  | cons x r ih =>
    cases r with
    | nil => simp [withSuffixPy]
    | cons y r => simp only [List.cons_append, withSuffixPy] at ih ⊢; rw [ih]

theorem modFile_concat (l : Path) (a : Str) : Spec.modFile (l ++ [a]) = l ++ [a ++ dotPy] := by
  simp [Spec.modFile, dotPy]

theorem withSuffixPy_eq_modFile (name : Dotted) (h : name ≠ []) : withSuffixPy name = Spec.modFile name := by
  rw [← List.dropLast_concat_getLast h, withSuffixPy_concat, modFile_concat]

theorem dirExists_of_pkgFile (files : Files) (name : Dotted)
    (h : files.contains (Spec.pkgFile name) = true) : dirExists files name = true := by
  simp only [dirExists, Bool.or_eq_true, decide_eq_true_eq, List.any_eq_true, Bool.and_eq_true]
  right
  refine ⟨Spec.pkgFile name, List.contains_iff_mem.mp h, by simp [Spec.pkgFile], ?_⟩
  rw [List.isPrefixOf_iff_prefix]
  exact List.prefix_append _ _

/-- In a clean root, for a well-formed name, `find_module_in_path` returns what the file system's
own view (package first, then module) returns. -/
theorem findModuleInPath_eq_matchInRoot (files : Files) (name : Dotted)
    (hc : cleanRoot files = true) (hw : WellFormed name) :
    findModuleInPath files name = Spec.matchInRoot files name := by
  obtain ⟨hne, hmem⟩ := hw
  have h1 : name ≠ [[]] := by
    intro h; apply hmem; rw [h]; simp
  have hfilter : name.filter (fun c => decide (c ≠ [])) = name := by
    rw [List.filter_eq_self]
    intro a ha
    simp only [ne_eq, decide_not, Bool.not_eq_eq_eq_not, Bool.not_true, decide_eq_false_iff_not]
    intro h0; subst h0; exact hmem ha
  unfold findModuleInPath Spec.matchInRoot
  simp only [h1, if_false, hfilter]
  have hpk : Spec.pkgFile name = name ++ [initPy] := rfl
  by_cases hd : dirExists files name = true
  · have := clean_of_cleanRoot files hc name hd hne
    have hm : name ++ [initPy] ∈ files := List.contains_iff_mem.mp this
    simp [hd, hpk, hm]
  · have hnp : files.contains (name ++ [initPy]) = false := by
      cases hcon : files.contains (name ++ [initPy]) with
      | false => rfl
      | true => exact absurd (dirExists_of_pkgFile files name (by rw [hpk]; exact hcon)) hd
    simp only [hd, Bool.false_eq_true, if_false, hpk, hnp, withSuffixPy_eq_modFile name hne]

theorem locateFrom_head (fs : FS) (i : Nat) (name : Dotted)
    (hc : ∀ files, files ∈ fs → cleanRoot files = true) (hw : WellFormed name) :
    (locateFrom i fs name).head? = Spec.firstMatchFrom i fs name := by
  induction fs generalizing i with
  | nil => rfl
  | cons files rest ih =>
    simp only [locateFrom, Spec.firstMatchFrom]
    rw [findModuleInPath_eq_matchInRoot files name (hc files (by simp)) hw]
    cases Spec.matchInRoot files name with
    | some p => rfl
    | none => exact ih (i + 1) (fun f hf => hc f (by simp [hf]))

/-- `find_module_spec_fast` = the file system's first match, for a well-formed name that is not
classified stdlib, on clean roots. -/
theorem C13_find_matches_fs (env : Env) (name : Dotted)
    (hc : ∀ files, files ∈ env.fs → cleanRoot files = true) (hw : WellFormed name)
    (hs : Dict.get? env.stdlib name = none) :
    findModuleSpecFast env name
      = (Spec.firstMatch env.fs name).map (fun ip => { name := name, origin := some (.file ip.1 ip.2) }) := by
  have hfm : Spec.firstMatch env.fs name = Spec.firstMatchFrom 0 env.fs name := by
    unfold Spec.firstMatch
    have : ¬ (name = [] ∨ [] ∈ name) := by
      intro h; rcases h with h | h
      · exact hw.1 h
      · exact hw.2 h
    simp [this]
  have hh := locateFrom_head env.fs 0 name hc hw
  unfold findModuleSpecFast
  rw [hs, hfm, ← hh]
  simp only [locate]
  cases locateFrom 0 env.fs name with
  | nil => rfl
  | cons a r => obtain ⟨i, p⟩ := a; rfl

theorem longestPrefixAux_congr (ex1 ex2 : List Str → Bool) (rest pre : List Str)
    (h : ∀ j, 1 ≤ j → j ≤ rest.length → ex1 (pre ++ rest.take j) = ex2 (pre ++ rest.take j)) :
    Spec.longestPrefixAux ex1 pre rest = Spec.longestPrefixAux ex2 pre rest := by
  induction rest generalizing pre with
  | nil => rfl
  | cons c rest ih =>
    simp only [Spec.longestPrefixAux]
    have h1 := h 1 (by omega) (by simp)
    simp only [List.take_succ_cons, List.take_zero] at h1
    rw [ih (pre ++ [c]) (fun j hj1 hj2 => by
      have := h (j + 1) (by omega) (by simp; omega)
      simpa using this), h1]

/-- (b) against the file system: on clean roots, for a query whose prefixes are not classified
stdlib, the module returned is the longest prefix that exists as a module or package on the search
path. -/
theorem C13_longest_prefix_fs (env : Env) (q : Dotted)
    (hc : ∀ files, files ∈ env.fs → cleanRoot files = true) (hw : WellFormed q)
    (hs : ∀ j, 1 ≤ j → j ≤ q.length → Dict.get? env.stdlib (q.take j) = none) :
    (findModuleNameAndSpec env q).map Prod.fst = Spec.longestPrefix (Spec.existsOnPath env.fs) q := by
  have hd : startsWithDot q = false := by
    obtain ⟨hne, hmem⟩ := hw
    cases q with
    | nil => rfl
    | cons c r =>
      cases c with
      | nil => exact absurd (by simp) hmem
      | cons a b => rfl
  rw [C13_longest_prefix_spec env q hw.1 hd]
  apply longestPrefixAux_congr
  intro j hj1 hj2
  simp only [List.nil_append]
  have hwj : WellFormed (q.take j) := by
    refine ⟨?_, fun hm => hw.2 (List.mem_of_mem_take hm)⟩
    intro hnil
    rcases List.take_eq_nil_iff.mp hnil with h0 | h0
    · omega
    · exact hw.1 h0
  simp only [moduleExists, Spec.existsOnPath, C13_find_matches_fs env (q.take j) hc hwj (hs j hj1 hj2)]
  cases Spec.firstMatch env.fs (q.take j) <;> rfl

/-! ### (c) round trip -/

/-- If the file's own dotted name `own` (a suffix of the longest name read off its path) locates
spec `s` — the file is the first match of its own name — and no longer suffix of the path happens
to exist as a module, then the derived module name is `own`, which locates `s` again. For a path
relative to its search root `pre = []` and the last hypothesis is vacuous. -/
theorem C13_roundtrip (env : Env) (comps : List Str) (pre own : Dotted) (s : ModSpec)
    (hL : longestName comps = pre ++ own) (hown : own ≠ [])
    (hfirst : findModuleSpecFast env own = some s)
    (hno : ∀ k, k < pre.length → findModuleSpecFast env ((pre ++ own).drop k) = none) :
    deriveModuleNameFromPath env comps = some own
    ∧ (deriveModuleNameFromPath env comps).bind (findModuleSpecFast env) = some s := by
  have h : deriveModuleNameFromPath env comps = some own := by
    unfold deriveModuleNameFromPath iterModuleNamesLeft
    rw [hL]
    have hlen : pre.length < (pre ++ own).length := by
      have : 0 < own.length := List.length_pos_iff.mpr hown
      simp; omega
    have := find_range_map (pre ++ own).length (fun k => (pre ++ own).drop k) (moduleExists env) pre.length hlen
      (by simp [moduleExists, hfirst])
      (fun j hj => by simp [moduleExists, hno j hj])
    rw [this]
    simp
  exact ⟨h, by rw [h]; exact hfirst⟩

/-- (c) against the file system: clean roots, own name not classified stdlib, the file is the
file system's first match `(i, f)` of its own name ⇒ the derived name locates exactly `(i, f)`. -/
theorem C13_roundtrip_fs (env : Env) (comps : List Str) (pre own : Dotted) (i : Nat) (f : Path)
    (hL : longestName comps = pre ++ own) (hw : WellFormed own)
    (hc : ∀ files, files ∈ env.fs → cleanRoot files = true)
    (hs : Dict.get? env.stdlib own = none)
    (hfirst : Spec.firstMatch env.fs own = some (i, f))
    (hno : ∀ k, k < pre.length → findModuleSpecFast env ((pre ++ own).drop k) = none) :
    ∃ s, (deriveModuleNameFromPath env comps).bind (findModuleSpecFast env) = some s
      ∧ s.origin = some (.file i f) := by
  have h1 := C13_find_matches_fs env own hc hw hs
  rw [hfirst] at h1
  exact ⟨_, (C13_roundtrip env comps pre own _ hL hw.1 h1 hno).2, rfl⟩

/-! ### (c) behind symbolic links: the origin stays below the search directory -/

/-- What `find_module_in_path` matched is a file of the root, spelled from the name's parts. -/
theorem findModuleInPath_shape (files : Files) (name : Dotted) (rel : Path)
    (h : findModuleInPath files name = some rel) :
    rel ∈ files ∧ (rel = name.filter (fun c => c ≠ []) ++ [initPy]
      ∨ rel = withSuffixPy (name.filter (fun c => c ≠ []))) := by
  unfold findModuleInPath at h
  split at h
  · cases h
  · simp only at h
    split at h
    · split at h
      · rename_i hc
        simp only [Option.some.injEq] at h
        subst h
        exact ⟨List.contains_iff_mem.mp hc, Or.inl rfl⟩
      · cases h
    · split at h
      · rename_i hc
        simp only [Option.some.injEq] at h
        subst h
        exact ⟨List.contains_iff_mem.mp hc, Or.inr rfl⟩
      · cases h

/-- With `.resolve()` applied to the search directory (the pinned code), whatever `.resolve()` does —
every link structure, links below the search directory included — the returned location is the
resolved search directory followed by the module's path AS SPELLED: it lies below the search
directory and spells the module's name. -/
theorem C13_origin_below_search_dir (rv : Path → Path) (dir : Path) (files : Files) (name : Dotted) (p : Path)
    (h : findModuleInPathAbs rv .searchDir dir files name = some p) :
    ∃ rel, findModuleInPath files name = some rel ∧ p = rv dir ++ rel ∧ rv dir <+: p ∧ rel ∈ files
      ∧ (rel = name.filter (fun c => c ≠ []) ++ [initPy] ∨ rel = withSuffixPy (name.filter (fun c => c ≠ []))) := by
  unfold findModuleInPathAbs at h
  cases hf : findModuleInPath files name with
  | none => rw [hf] at h; cases h
  | some rel =>
    rw [hf] at h
    simp only [Option.map_some, originAbs, Option.some.injEq] at h
    obtain ⟨hm, hshape⟩ := findModuleInPath_shape files name rel hf
    exact ⟨rel, rfl, h.symm, by rw [← h]; exact List.prefix_append _ _, hm, hshape⟩

/-! `str(path).replace("/", ".").split(".")` of such a location -/

theorem splitSeg_dotfree (s : Str) (h : '.' ∉ s) : splitSeg s = [s] := by
  induction s with
  | nil => rfl
  | cons c r ih =>
    have hc : c ≠ '.' := fun e => h (by rw [e]; exact List.mem_cons_self ..)
    have hr : '.' ∉ r := fun e => h (List.mem_cons_of_mem _ e)
    simp only [splitSeg, hc, if_false, ih hr]

theorem splitSeg_append_dot (s t : Str) (h : '.' ∉ s) : splitSeg (s ++ '.' :: t) = s :: splitSeg t := by
  induction s with
  | nil => simp [splitSeg]
  | cons c r ih =>
    have hc : c ≠ '.' := fun e => h (by rw [e]; exact List.mem_cons_self ..)
    have hr : '.' ∉ r := fun e => h (List.mem_cons_of_mem _ e)
    simp only [List.cons_append, splitSeg, hc, if_false, ih hr]

theorem splitSeg_dotPy (s : Str) (h : '.' ∉ s) : splitSeg (s ++ dotPy) = [s, sPy] := by
  have : dotPy = '.' :: sPy := by decide
  rw [this, splitSeg_append_dot s sPy h]
  have : splitSeg sPy = [sPy] := by decide
  rw [this]

theorem flatMap_splitSeg_dotfree (l : List Str) (h : ∀ c, c ∈ l → '.' ∉ c) : l.flatMap splitSeg = l := by
  induction l with
  | nil => rfl
  | cons a r ih =>
    rw [List.flatMap_cons, splitSeg_dotfree a (h a (List.mem_cons_self ..)),
      ih (fun c hc => h c (List.mem_cons_of_mem _ hc))]
    rfl

theorem pathComps_append (a b : Path) : pathComps (a ++ b) = pathComps a ++ b.flatMap splitSeg := by
  simp [pathComps, List.flatMap_append]

theorem removeSuffix_append (X suf : List Str) (hX : X ≠ []) : removeSuffix suf (X ++ suf) = X := by
  have hl : 0 < X.length := List.length_pos_iff.mpr hX
  unfold removeSuffix
  have h1 : (X ++ suf).length - suf.length = X.length := by simp
  rw [h1, List.drop_left, List.take_left]
  simp
  intro h
  exact absurd h hX

theorem getLast?_append_ne {α : Type} (X Y : List α) (h : Y ≠ []) : (X ++ Y).getLast? = Y.getLast? := by
  rw [List.getLast?_append]
  cases hy : Y.getLast? with
  | none => exact absurd (List.getLast?_eq_none_iff.mp hy) h
  | some a => rfl

theorem removeSuffix_one_noop (a : Str) (c : List Str) (h : c.getLast? ≠ some a) : removeSuffix [a] c = c := by
  unfold removeSuffix
  split
  · rename_i hc
    simp only [Bool.and_eq_true, decide_eq_true_eq, List.length_cons, List.length_nil] at hc
    exfalso
    apply h
    have := List.take_append_drop (c.length - (0 + 1)) c
    rw [hc.2] at this
    rw [← this, List.getLast?_append]
    simp
  · rfl

theorem removeSuffix_two_noop (a b : Str) (Y : List Str) (h : Y.getLast? ≠ some a) :
    removeSuffix [a, b] (Y ++ [b]) = Y ++ [b] := by
  unfold removeSuffix
  split
  · rename_i hc
    simp only [Bool.and_eq_true, decide_eq_true_eq, List.length_cons, List.length_nil, List.length_append] at hc
    exfalso
    apply h
    have := List.take_append_drop (Y.length + 1 - (0 + 1 + 1)) (Y ++ [b])
    rw [hc.2] at this
    have h2 : (List.take (Y.length + 1 - (0 + 1 + 1)) (Y ++ [b]) ++ [a]) ++ [b] = Y ++ [b] := by
      rw [List.append_assoc]; exact this
    have h3 := List.append_inj_left' h2 rfl
    rw [← h3, List.getLast?_append]
    simp
  · rfl

theorem dropEmptyFront_append (X Y : List Str) (hY : ∀ y, Y.head? = some y → y ≠ []) :
    dropEmptyFront (X ++ Y) = dropEmptyFront X ++ Y := by
  induction X with
  | nil =>
    cases Y with
    | nil => rfl
    | cons y r =>
      cases y with
      | nil => exact absurd rfl (hY [] rfl)
      | cons a b => rfl
  | cons x X ih =>
    cases x with
    | nil => simpa [dropEmptyFront] using ih
    | cons a b => rfl

theorem dropEmptyFront_id (l : List Str) (h : ∀ y, l.head? = some y → y ≠ []) : dropEmptyFront l = l := by
  have := dropEmptyFront_append [] l h
  simpa [dropEmptyFront] using this

/-- `.strip(".")` leaves alone what follows the leading dots when the last component is non-empty -/
theorem stripDots_append (X name : List Str) (hne : name ≠ []) (hmem : [] ∉ name) :
    stripDots (X ++ name) = dropEmptyFront X ++ name := by
  have hhead : ∀ y, name.head? = some y → y ≠ [] := by
    intro y hy h0
    subst h0
    exact hmem (List.mem_of_mem_head? hy)
  unfold stripDots
  rw [dropEmptyFront_append X name hhead]
  have hlast : ∀ y, (dropEmptyFront X ++ name).reverse.head? = some y → y ≠ [] := by
    intro y hy h0
    subst h0
    rw [List.head?_reverse, getLast?_append_ne _ _ hne] at hy
    exact hmem (List.mem_of_getLast? hy)
  rw [dropEmptyFront_id _ hlast, List.reverse_reverse]
  unfold joinSplit
  rw [if_neg]
  intro h0
  exact hne (List.append_eq_nil_iff.mp h0).2

/-- the path components of a dot-free name -/
def DotFree (name : Dotted) : Prop := ∀ c, c ∈ name → '.' ∉ c

/-- a name whose last component is not `__init__` (`pa.__init__` names the file `pa/__init__.py`, whose
derived name is `pa`) -/
def NotInitName (name : Dotted) : Prop := name.getLast? ≠ some sInit

theorem filter_wellFormed (name : Dotted) (hw : WellFormed name) :
    name.filter (fun c => decide (c ≠ [])) = name := by
  rw [List.filter_eq_self]
  intro a ha
  simp only [ne_eq, decide_not, Bool.not_eq_eq_eq_not, Bool.not_true, decide_eq_false_iff_not]
  intro h0; subst h0; exact hw.2 ha

theorem hasSuffix_append (X suf : List Str) (hX : X ≠ []) : hasSuffix suf (X ++ suf) = true := by
  have hl : 0 < X.length := List.length_pos_iff.mpr hX
  unfold hasSuffix
  have h1 : (X ++ suf).length - suf.length = X.length := by simp
  rw [h1, List.drop_left]
  simp
  exact hl

theorem hasSuffix_two_false (a b : Str) (Y : List Str) (h : Y.getLast? ≠ some a) :
    hasSuffix [a, b] (Y ++ [b]) = false := by
  cases hc : hasSuffix [a, b] (Y ++ [b]) with
  | false => rfl
  | true =>
    exfalso
    unfold hasSuffix at hc
    simp only [Bool.and_eq_true, decide_eq_true_eq, List.length_cons, List.length_nil, List.length_append] at hc
    apply h
    have := List.take_append_drop (Y.length + 1 - (0 + 1 + 1)) (Y ++ [b])
    rw [hc.2] at this
    have h2 : (List.take (Y.length + 1 - (0 + 1 + 1)) (Y ++ [b]) ++ [a]) ++ [b] = Y ++ [b] := by
      rw [List.append_assoc]; exact this
    have h3 := List.append_inj_left' h2 rfl
    rw [← h3, List.getLast?_append]
    simp

/-- The longest module name read off a location `R ++ rel` (`rel` what `find_module_in_path` matched
for `name`) is the components of `R` followed by `name` — whatever the components are called (`py`
included, since c729543). -/
theorem longestName_location (R rel : Path) (name : Dotted)
    (hw : WellFormed name) (hdot : DotFree name) (hni : NotInitName name)
    (hshape : rel = name ++ [initPy] ∨ rel = withSuffixPy name) :
    longestName (pathComps (R ++ rel)) = dropEmptyFront (pathComps R) ++ name := by
  have hXne : ∀ (Z : List Str), pathComps R ++ Z ≠ [] := by
    intro Z h0
    simp [pathComps] at h0
  have hinit : splitSeg initPy = [sInit, sPy] := by decide
  rw [pathComps_append]
  unfold longestName
  rcases hshape with h | h
  · subst h
    rw [List.flatMap_append, flatMap_splitSeg_dotfree name hdot, List.flatMap_cons, List.flatMap_nil, hinit,
      List.append_nil, ← List.append_assoc, hasSuffix_append _ _ (hXne name), if_pos rfl,
      removeSuffix_append _ _ (hXne name)]
    exact stripDots_append _ name hw.1 hw.2
  · subst h
    have hsplit : (withSuffixPy name).flatMap splitSeg = name ++ [sPy] := by
      conv => lhs; rw [← List.dropLast_concat_getLast hw.1, withSuffixPy_concat]
      have hd : ∀ c, c ∈ name.dropLast → '.' ∉ c := fun c hc => hdot c (List.dropLast_subset _ hc)
      rw [List.flatMap_append, flatMap_splitSeg_dotfree _ hd, List.flatMap_cons, List.flatMap_nil,
        splitSeg_dotPy _ (hdot _ (List.getLast_mem hw.1)), List.append_nil]
      conv => rhs; rw [← List.dropLast_concat_getLast hw.1]
      simp
    rw [hsplit, ← List.append_assoc,
      hasSuffix_two_false sInit sPy _ (by rw [getLast?_append_ne _ _ hw.1]; exact hni),
      if_neg (by decide), removeSuffix_append _ _ (hXne name)]
    exact stripDots_append _ name hw.1 hw.2

theorem locateFrom_mem (fs : FS) (k i : Nat) (name : Dotted) (p : Path)
    (h : (i, p) ∈ locateFrom k fs name) :
    ∃ files, fs[i - k]? = some files ∧ k ≤ i ∧ findModuleInPath files name = some p := by
  induction fs generalizing k with
  | nil => simp [locateFrom] at h
  | cons files rest ih =>
    simp only [locateFrom] at h
    cases hf : findModuleInPath files name with
    | some q =>
      rw [hf] at h
      simp only [List.mem_cons, Prod.mk.injEq] at h
      rcases h with ⟨h1, h2⟩ | h
      · subst h1; subst h2
        exact ⟨files, by simp, Nat.le_refl _, hf⟩
      · obtain ⟨fl, h1, h2, h3⟩ := ih (k + 1) h
        refine ⟨fl, ?_, by omega, h3⟩
        have : i - k = (i - (k + 1)) + 1 := by omega
        rw [this]; simpa using h1
    | none =>
      rw [hf] at h
      obtain ⟨fl, h1, h2, h3⟩ := ih (k + 1) h
      refine ⟨fl, ?_, by omega, h3⟩
      have : i - k = (i - (k + 1)) + 1 := by omega
      rw [this]; simpa using h1

/-- name → file → name, for EVERY resolver (every structure of symbolic links: a symlinked package
directory or module file below the search root, a symlinked search root, chains, nestings): with
`.resolve()` applied to the search directory, the file located for `name` — entered as
`enter_file(spec.origin)` by `parse_and_analyse_imports` — gets the module name `name` back, so its
relative imports resolve against the package it was imported as (`C13_relative`). Hypotheses: the
name is not classified stdlib, and no longer suffix of the resolved search directory's own path
followed by `name` happens to exist as a module (the hypothesis of `C13_roundtrip`). -/
theorem C13_located_roundtrip (env : Env) (M : Mounts) (hsite : M.site = .searchDir)
    (name : Dotted) (hw : WellFormed name) (hdot : DotFree name) (hni : NotInitName name)
    (hs : Dict.get? env.stdlib name = none)
    (i : Nat) (rel dir : Path)
    (hloc : (locate env.fs name).head? = some (i, rel)) (hdir : M.dirs[i]? = some dir)
    (hno : ∀ k, k < (dropEmptyFront (pathComps (M.rv dir))).length →
        findModuleSpecFast env ((dropEmptyFront (pathComps (M.rv dir)) ++ name).drop k) = none) :
    findModuleSpecFast env name = some { name := name, origin := some (.file i rel) }
    ∧ specAbs M { name := name, origin := some (.file i rel) } = some (M.rv dir ++ rel)
    ∧ followBase env M name = some name := by
  have hspec : findModuleSpecFast env name = some { name := name, origin := some (.file i rel) } := by
    unfold findModuleSpecFast
    rw [hs]
    cases hl : locate env.fs name with
    | nil => rw [hl] at hloc; cases hloc
    | cons a r =>
      rw [hl] at hloc
      simp only [List.head?_cons, Option.some.injEq] at hloc
      subst hloc
      rfl
  have habs : specAbs M { name := name, origin := some (.file i rel) } = some (M.rv dir ++ rel) := by
    simp [specAbs, hdir, originAbs, hsite]
  refine ⟨hspec, habs, ?_⟩
  have hmem : (i, rel) ∈ locate env.fs name := List.mem_of_mem_head? hloc
  obtain ⟨files, _, _, hfind⟩ := locateFrom_mem env.fs 0 i name rel hmem
  obtain ⟨_, hshape⟩ := findModuleInPath_shape files name rel hfind
  rw [filter_wellFormed name hw] at hshape
  have hL := longestName_location (M.rv dir) rel name hw hdot hni hshape
  have hrt := (C13_roundtrip env (pathComps (M.rv dir ++ rel)) _ name _ hL hw.1 hspec hno).1
  unfold followBase
  rw [hspec]
  simp only [Option.bind_some, habs, nameOfAbs]
  exact hrt

/-- The walk's `current_file` of a followed import (`Walk.curOf true g`: search root 0's components,
then the file as spelled) IS the location `find_module_in_path` returns with `.resolve()` applied to
the search directory — for every resolver. -/
theorem walk_followed_cur_is_origin (P : Walk.Proj) (g : Walk.File) (rv : Path → Path) (dir : Path)
    (hroot : P.rootComps = pathComps (rv dir)) (hdir : ∀ c, c ∈ g.dir → '.' ∉ c) (hstem : '.' ∉ g.stem) :
    Walk.curComps P (Walk.curOf true g) = pathComps (originAbs rv .searchDir dir g.path) := by
  simp only [Walk.curComps, Walk.curOf, originAbs, Walk.File.path, Bool.false_eq_true, if_false, if_true]
  rw [pathComps_append, List.flatMap_append, flatMap_splitSeg_dotfree _ hdir, List.flatMap_cons,
    List.flatMap_nil, splitSeg_dotPy _ hstem, hroot]
  simp

/-! ### The full statement (kept visible; false on the pinned tree) -/

/-- (a) at one call: Python resolves ⇒ same name; Python refuses ⇒ an unresolvable name -/
def relOK (c : RelCall) (r : Dotted) : Bool :=
  match Spec.pyResolveName (Spec.packageOf c.base c.isInit) c.level c.target with
  | .ok r' => r == r'
  | .error _ => r.head? == some []

def runOK (cs : List RelCall) (rs : List Dotted) : Bool := (cs.zip rs).all (fun cr => relOK cr.1 cr.2)

def C13a_full : Prop :=
  ∀ cs : List RelCall, (∀ c, c ∈ cs → 1 ≤ c.level ∧ c.base ≠ []) → runOK cs (runCalls [] cs) = true

def C13b_full : Prop :=
  ∀ (env : Env) (q : Dotted), WellFormed q →
    (findModuleNameAndSpec env q).map Prod.fst = Spec.longestPrefix (Spec.existsOnPath env.fs) q

def C13c_full : Prop :=
  ∀ (env : Env) (comps own : Dotted) (i : Nat) (f : Path),
    longestName comps = own → Spec.firstMatch env.fs own = some (i, f) →
    ∃ s, (deriveModuleNameFromPath env comps).bind (findModuleSpecFast env) = some s
      ∧ s.origin = some (.file i f)

def C13_full : Prop := C13a_full ∧ C13b_full ∧ C13c_full

/-- (a) holds for every run that is free of module/package name clashes. -/
theorem C13a_partial (cs : List RelCall) (hcf : ClashFree cs)
    (hwf : ∀ c, c ∈ cs → 1 ≤ c.level ∧ c.base ≠ []) : runOK cs (runCalls [] cs) = true := by
  rw [C13_run_noclash cs hcf]
  have hall : ∀ c, c ∈ cs → relOK c c.pure = true := by
    intro c hc
    obtain ⟨hl, hb⟩ := hwf c hc
    unfold relOK
    cases hsp : Spec.pyResolveName (Spec.packageOf c.base c.isInit) c.level c.target with
    | ok r => simp [RelCall.pure, C13_relative c.isInit c.base c.target c.level r hl hsp]
    | error e =>
      have := (C13_escape_diagnosed { fs := [], stdlib := [] } c.isInit c.base c.target c.level e hl hb rfl hsp).1
      simp [RelCall.pure, this]
  clear hcf hwf
  induction cs with
  | nil => rfl
  | cons c cs ih =>
    simp only [runOK, List.map_cons, List.zip_cons_cons, List.all_cons, Bool.and_eq_true]
    exact ⟨hall c (by simp), ih (fun d hd => hall d (by simp [hd]))⟩


/-! ### (a) end to end: WHICH file a relative import is resolved against -/

/-- the dotted name of the file a logged call belongs to: `dir/stem.py` ↦ `dir.stem`,
`dir/__init__.py` ↦ `dir` -/
def ownName (r : Walk.Rec) : Dotted := r.file.dropLast ++ (if r.stem == sInit then [] else [r.stem])

theorem derive_ne_nil (env : Env) (comps : List Str) (b : Dotted)
    (h : deriveModuleNameFromPath env comps = some b) : b ≠ [] := by
  unfold deriveModuleNameFromPath iterModuleNamesLeft at h
  have hm := List.mem_of_find?_eq_some h
  simp only [List.mem_map, List.mem_range] at hm
  obtain ⟨k, hk, rfl⟩ := hm
  intro h0
  have := congrArg List.length h0
  simp only [List.length_drop, List.length_nil] at this
  omega

/-- However a file is reached — as the target, through the BFS over followed imports, through
star-expansion (nested to any depth) — its root context is compiled, and every relative import in it
is resolved, while `Config().state.current_file` IS that file: the logged current file has the path
and stem of the file whose statements are being registered; the `isInit` flag and the base handed to
`derive_absolute_module_name` are those of that file. For every project, target and fuel. -/
theorem walk_cur_is_file (P : Walk.Proj) (fuel : Nat) (tgt : Walk.File) :
    (∀ e, e ∈ (Walk.run P fuel tgt).st.events → e.cur.path = e.file.path ∧ e.cur.stem = e.file.stem)
    ∧ (∀ r, r ∈ (Walk.run P fuel tgt).st.trace →
        r.cur.path = r.file ∧ r.cur.stem = r.stem ∧ r.call.isInit = (r.stem == sInit) ∧ 1 ≤ r.call.level
        ∧ deriveModuleNameFromPath P.env (Walk.curComps P r.cur) = some r.call.base) := by
  have inv := Walk.run_inv P fuel tgt
  refine ⟨inv.evs, ?_⟩
  intro r hr
  have g := inv.recs r hr
  refine ⟨g.file, g.stem, ?_, g.level, g.base⟩
  rw [g.init, Walk.Cur.isInit, g.stem]

/-- For EVERY project — symbolic links below the search root included — the base handed to
`derive_absolute_module_name` is the module name derived from the current file's path, and the
`isInit` flag is the current file's: whatever goes wrong behind a link goes wrong through the VALUE of
`current_file` (`Walk.starCur`), nowhere else. -/
theorem walk_call_base_is_cur_name (P : Walk.Proj) (fuel : Nat) (tgt : Walk.File) :
    ∀ r, r ∈ (Walk.run P fuel tgt).st.trace →
      r.call.isInit = r.cur.isInit ∧ 1 ≤ r.call.level
      ∧ deriveModuleNameFromPath P.env (Walk.curComps P r.cur) = some r.call.base := by
  intro r hr
  have g := (Walk.run_inv P fuel tgt).recs r hr
  exact ⟨g.init, g.level, g.base⟩

/-- The calls of `derive_absolute_module_name` made by the whole walk are ONE run through one cache
(`runCalls`, the object of `C13_run_noclash` / `C13a_partial`): nothing else touches the cache. -/
theorem walk_is_one_cached_run (P : Walk.Proj) (fuel : Nat) (tgt : Walk.File) :
    (Walk.run P fuel tgt).st.trace.map (·.result)
      = runCalls [] ((Walk.run P fuel tgt).st.trace.map (·.call)) :=
  (Walk.run_inv P fuel tgt).results

/-- (a) end to end. In a walk that never meets a module and a package of one dotted name, every
relative import of every reached file whose derived module name is the file's own dotted name
(`walk_base_is_own_name`) resolves to exactly what `importlib.util.resolve_name` gives for THAT
file's package; when Python refuses, the produced name has an empty first component and
`find_module_name_and_spec` rejects it (the "unable to resolve relative import" branch). -/
theorem walk_resolves_like_python (P : Walk.Proj) (fuel : Nat) (tgt : Walk.File)
    (hcf : ClashFree ((Walk.run P fuel tgt).st.trace.map (·.call)))
    (hs : isStdlib P.env [[]] = false)
    (r : Walk.Rec) (hr : r ∈ (Walk.run P fuel tgt).st.trace) (hown : r.call.base = ownName r) :
    (∀ x, Spec.pyResolveName (Spec.packageOf (ownName r) (r.stem == sInit)) r.call.level r.call.target = .ok x →
        r.result = x)
    ∧ (∀ e, Spec.pyResolveName (Spec.packageOf (ownName r) (r.stem == sInit)) r.call.level r.call.target = .error e →
        r.result.head? = some [] ∧ findModuleNameAndSpec P.env r.result = none) := by
  obtain ⟨_, hrec⟩ := walk_cur_is_file P fuel tgt
  obtain ⟨_, _, hinit, hl, hbase⟩ := hrec r hr
  have hres := walk_is_one_cached_run P fuel tgt
  rw [C13_run_noclash _ hcf, List.map_map] at hres
  have hpure : r.result = r.call.pure := (List.map_inj_left.mp hres) r hr
  have hne : r.call.base ≠ [] := derive_ne_nil _ _ _ hbase
  rw [hpure, RelCall.pure, hinit, ← hown]
  constructor
  · intro x hx
    exact C13_relative _ _ _ _ x hl hx
  · intro e he
    exact C13_escape_diagnosed P.env _ _ _ _ e hl hne hs he

/-- The round-trip hypothesis of `walk_resolves_like_python`: when the file's own dotted name is a
suffix of the longest name read off the current file's path, locates a spec, and no longer suffix
happens to exist as a module (`C13_roundtrip`), the base of the logged call is the own name. -/
theorem walk_base_is_own_name (P : Walk.Proj) (fuel : Nat) (tgt : Walk.File)
    (r : Walk.Rec) (hr : r ∈ (Walk.run P fuel tgt).st.trace) (pre : Dotted) (s : ModSpec)
    (hL : longestName (Walk.curComps P r.cur) = pre ++ ownName r) (hne : ownName r ≠ [])
    (hfirst : findModuleSpecFast P.env (ownName r) = some s)
    (hno : ∀ k, k < pre.length → findModuleSpecFast P.env ((pre ++ ownName r).drop k) = none) :
    r.call.base = ownName r := by
  obtain ⟨_, _, hbase⟩ := walk_call_base_is_cur_name P fuel tgt r hr
  have := (C13_roundtrip P.env _ pre (ownName r) s hL hne hfirst hno).1
  rw [hbase] at this
  exact Option.some.inj this

/-- the dotted name of a project file: `dir/stem.py` ↦ `dir.stem`, `dir/__init__.py` ↦ `dir` -/
def fileName (f : Walk.File) : Dotted := f.dir ++ (if f.stem == sInit then [] else [f.stem])

/-- (a) end to end, at the level of what rattr prints (`-o ir`): every `Import` symbol of every root
context the walk compiles — of the target, of a followed import, of a star-imported file at any depth —
stems from an import statement OF THE COMPILED FILE at the symbol's line, and its qualified name is
that statement's module (`m`, or `m.<name>`), where for a relative import `m` is what
`importlib.util.resolve_name` gives for the compiled file's package (an unresolvable name with an
empty first component when Python refuses). Hypotheses: no module/package name clash in the walk, the
round trip (`walk_base_is_own_name`) for the logged calls. -/
theorem walk_symbols_resolve_like_python (P : Walk.Proj) (fuel : Nat) (tgt : Walk.File)
    (hcf : ClashFree ((Walk.run P fuel tgt).st.trace.map (·.call)))
    (hs : isStdlib P.env [[]] = false)
    (hrt : ∀ r, r ∈ (Walk.run P fuel tgt).st.trace → r.call.base = ownName r)
    (e : Walk.Event) (he : e ∈ (Walk.run P fuel tgt).st.events)
    (σ : Walk.Sym) (hσ : σ ∈ e.syms) (himp : σ.isImport = true) :
    (∃ line m a, Walk.Stmt.imp line m a ∈ e.file.stmts ∧ σ.line = line ∧ σ.qual = m)
    ∨ (∃ line m names, Walk.Stmt.from_ line 0 (some m) names ∈ e.file.stmts ∧ σ.line = line
        ∧ (σ.qual = m ∨ ∃ n, σ.qual = m ++ [n]))
    ∨ (∃ line level module names, level ≠ 0 ∧ Walk.Stmt.from_ line level module names ∈ e.file.stmts
        ∧ σ.line = line
        ∧ (∀ x, Spec.pyResolveName (Spec.packageOf (fileName e.file) (e.file.stem == sInit)) level module = .ok x →
            (σ.qual = x ∨ ∃ n, σ.qual = x ++ [n]))
        ∧ (∀ err, Spec.pyResolveName (Spec.packageOf (fileName e.file) (e.file.stem == sInit)) level module = .error err →
            σ.qual.head? = some [])) := by
  rcases Walk.run_evsyms P fuel tgt e he σ hσ with h | h | ⟨line, level, module, names, hmem, hst⟩
  · rw [himp] at h; cases h
  · exact Or.inl h
  · rcases hst with ⟨hl, m, hm, _, hline, hq⟩ | ⟨hl, r, hr, hfile, hstem, hlev, htg, _, hline, hq⟩
    · subst hl; subst hm
      exact Or.inr (Or.inl ⟨line, m, names, hmem, hline, hq⟩)
    · refine Or.inr (Or.inr ⟨line, level, module, names, hl, hmem, hline, ?_⟩)
      have hown : ownName r = fileName e.file := by
        unfold ownName fileName
        rw [hfile, hstem, Walk.File.path, List.dropLast_concat]
      obtain ⟨hok, herr⟩ := walk_resolves_like_python P fuel tgt hcf hs r hr (hrt r hr)
      rw [hown, hstem, hlev, htg] at hok herr
      constructor
      · intro x hx
        rw [← hok x hx]
        exact hq
      · intro err hx
        obtain ⟨hh, _⟩ := herr err hx
        rcases hq with hq | ⟨n, hq⟩
        · rw [hq]; exact hh
        · rw [hq]
          cases hres : r.result with
          | nil => rw [hres] at hh; cases hh
          | cons a b => rw [hres] at hh; simpa using hh

private def pkg : Str := "pkg".toList
private def sub : Str := "sub".toList
private def leaf : Str := "leaf".toList

/-- Why `walk_cur_is_file` is load-bearing (a test on literals): `from .leaf import *` inside
`pkg/sub/__init__.py`, had it been resolved while the current file was still the star-importing
`pkg/__init__.py`, yields `pkg.leaf`; Python: `pkg.sub.leaf`. -/
theorem walk_cex_wrong_current_file :
    deriveAbs true [pkg] (some [leaf]) 1 = [pkg, leaf]
    ∧ deriveAbs true [pkg, sub] (some [leaf]) 1 = [pkg, sub, leaf]
    ∧ Spec.pyResolveName (Spec.packageOf [pkg, sub] true) 1 (some [leaf]) = .ok [pkg, sub, leaf] := by
  decide

/-! ### Counterexamples (one per known finding), closed by kernel evaluation -/

private def pa : Str := "pa".toList
private def pb : Str := "pb".toList
private def x : Str := "x".toList
private def jsn : Str := "json".toList
private def m : Str := "m".toList
private def fN : Str := "f".toList

private def envClash : Env :=
  { fs := [[[pa, initPy], [pa, "pb.py".toList], [pa, pb, initPy]]], stdlib := [] }

private def clashRun : List RelCall :=
  [ { isInit := false, base := [pa, pb], target := some [x], level := 1 },    -- `from .x import _` in pa/pb.py
    { isInit := true,  base := [pa, pb], target := some [x], level := 1 } ]   -- the same in pa/pb/__init__.py

/-- `pa/pb.py` next to `pa/pb/__init__.py`: both files get the module name `pa.pb`, so
`from .x import _` has the same cache key in both; processed in this order, the package's import
resolves to `pa.x`; Python: `pa.pb.x`. -/
theorem C13_cex_memo_clash :
    deriveModuleNameFromPath envClash [pa, pb, sPy] = some [pa, pb]
    ∧ deriveModuleNameFromPath envClash [pa, pb, sInit, sPy] = some [pa, pb]
    ∧ runCalls [] clashRun = [[pa, x], [pa, x]]
    ∧ Spec.pyResolveName (Spec.packageOf [pa, pb] true) 1 (some [x]) = .ok [pa, pb, x] := by
  decide

theorem C13a_full_false : ¬ C13a_full := by
  intro h
  have := h clashRun (by decide)
  revert this
  decide

private def envStdlib : Env :=
  { fs := [[[jsn, initPy], [jsn, "m.py".toList]]],
    stdlib := [([jsn], some { name := [jsn], origin := some (.ext "<stdlib>/json/__init__.py".toList) }),
               ([jsn, m], none), ([jsn, m, fN], none)] }

/-- local package `json/` with `json/m.py`, `json` classified stdlib and already imported: the
qualified name `json.m.f` resolves to the stdlib `json`, the file system says `json.m`; and the file
`json/m.py` — first match of `json.m` — gets no module name at all. -/
theorem C13_cex_stdlib_name :
    findModuleNameAndSpec envStdlib [jsn, m, fN]
      = some ([jsn], { name := [jsn], origin := some (.ext "<stdlib>/json/__init__.py".toList) })
    ∧ Spec.longestPrefix (Spec.existsOnPath envStdlib.fs) [jsn, m, fN] = some [jsn, m]
    ∧ Spec.firstMatch envStdlib.fs [jsn, m] = some (0, [jsn, "m.py".toList])
    ∧ longestName [jsn, m, sPy] = [jsn, m]
    ∧ deriveModuleNameFromPath envStdlib [jsn, m, sPy] = none := by
  decide

private def envNsDir : Env := { fs := [[["pa.py".toList], [pa, "data.txt".toList]]], stdlib := [] }

/-- `pa.py` next to a directory `pa/` without `__init__.py`: not found; Python imports `pa.py`. -/
theorem C13_cex_nsdir_shadow :
    findModuleNameAndSpec envNsDir [pa, fN] = none
    ∧ Spec.longestPrefix (Spec.existsOnPath envNsDir.fs) [pa, fN] = some [pa]
    ∧ Spec.firstMatch envNsDir.fs [pa] = some (0, ["pa.py".toList])
    ∧ longestName [pa, sPy] = [pa]
    ∧ deriveModuleNameFromPath envNsDir [pa, sPy] = none := by
  decide

private def envPyPkg : Env :=
  { fs := [[[pa, initPy], [pa, sPy, initPy], [pa, sPy, "ma.py".toList], [pa, "ma.py".toList]]], stdlib := [] }

/-- A package whose own name is `py` (current code, c729543: one suffix is removed): `pa/py/__init__.py`
gets the name `pa.py`, which locates that very file, and `from . import ma` inside it resolves to
`pa.py.ma`, as Python resolves it. (For all names: `longestName_location`, `C13_located_roundtrip`.) -/
theorem C13_package_named_py :
    longestName [pa, sPy, sInit, sPy] = [pa, sPy]
    ∧ Spec.firstMatch envPyPkg.fs [pa, sPy] = some (0, [pa, sPy, initPy])
    ∧ (deriveModuleNameFromPath envPyPkg [pa, sPy, sInit, sPy]).bind (findModuleSpecFast envPyPkg)
        = some { name := [pa, sPy], origin := some (.file 0 [pa, sPy, initPy]) }
    ∧ deriveAbs true [pa, sPy] (some ["ma".toList]) 1 = [pa, sPy, "ma".toList]
    ∧ Spec.pyResolveName (Spec.packageOf [pa, sPy] true) 1 (some ["ma".toList]) = .ok [pa, sPy, "ma".toList] := by
  decide

/-- The rule before c729543 (`.removesuffix(".__init__.py").removesuffix(".py")`, both in a row):
`pa/py/__init__.py` ↦ `"pa.py"` ↦ `"pa"` — the package file got its PARENT's name, the round trip
returned `pa/__init__.py`, and `from . import ma` inside it resolved to `pa.ma` (an existing, different
module); Python: `pa.py.ma`. -/
theorem C13_cex_package_named_py_before_c729543 :
    longestNameBefore_c729543 [pa, sPy, sInit, sPy] = [pa]
    ∧ ((iterModuleNamesLeft (longestNameBefore_c729543 [pa, sPy, sInit, sPy])).find? (moduleExists envPyPkg)).bind
        (findModuleSpecFast envPyPkg) = some { name := [pa], origin := some (.file 0 [pa, initPy]) }
    ∧ deriveAbs true [pa] (some ["ma".toList]) 1 = [pa, "ma".toList]
    ∧ Spec.pyResolveName (Spec.packageOf [pa, sPy] true) 1 (some ["ma".toList]) = .ok [pa, sPy, "ma".toList] := by
  decide

theorem C13b_full_false : ¬ C13b_full := by
  intro h
  have h1 := h envNsDir [pa, fN] ⟨by decide, by decide⟩
  rw [C13_cex_nsdir_shadow.1, C13_cex_nsdir_shadow.2.1] at h1
  cases h1

theorem C13c_full_false : ¬ C13c_full := by
  intro h
  obtain ⟨s, hs, _⟩ := h envNsDir [pa, sPy] [pa] 0 ["pa.py".toList] C13_cex_nsdir_shadow.2.2.2.1
    C13_cex_nsdir_shadow.2.2.1
  rw [C13_cex_nsdir_shadow.2.2.2.2] at hs
  cases hs

theorem C13_full_false : ¬ C13_full := fun h => C13a_full_false h.1

/-! ### Non-vacuity: every theorem's hypotheses are met by a non-trivial input -/

private def mc : Str := "mc".toList
private def y : Str := "y".toList

-- C13_relative / C13_relative_memo: `from ..x.y import _` inside pa/pb/mc.py resolves to pa.x.y
example : Spec.pyResolveName (Spec.packageOf [pa, pb, mc] false) 2 (some [x, y]) = .ok [pa, x, y]
    ∧ deriveAbs false [pa, pb, mc] (some [x, y]) 2 = [pa, x, y] := by decide
-- … and inside pa/pb/__init__.py
example : Spec.pyResolveName (Spec.packageOf [pa, pb] true) 2 (some [x]) = .ok [pa, x]
    ∧ deriveAbs true [pa, pb] (some [x]) 2 = [pa, x] := by decide
-- NoClash holds for a cache filled by a file of the same kind
example : NoClash [(([pa, pb], some [x], 1), [pa, x])] false [pa, pb] (some [x]) 1 := by
  intro v hv
  have : v = [pa, x] := by
    have h2 : Dict.get? [((([pa, pb] : Dotted), some [x], 1), ([pa, x] : Dotted))] ([pa, pb], some [x], 1) = some [pa, x] := by decide
    rw [h2] at hv; exact (Option.some.inj hv).symm
  rw [this]; decide
-- ClashFree: two different files, different bases
example : ClashFree [ { isInit := false, base := [pa, pb], target := some [x], level := 1 },
                      { isInit := true, base := [pa], target := some [x], level := 1 } ] := by
  intro c d hc hd hk
  simp only [List.mem_cons, List.not_mem_nil, or_false] at hc hd
  rcases hc with rfl | rfl <;> rcases hd with rfl | rfl <;> first | rfl | (exfalso; revert hk; decide)
-- C13_escape_diagnosed: `from ...x import _` inside pa/pb.py escapes
example : Spec.pyResolveName (Spec.packageOf [pa, pb] false) 3 (some [x]) = .error .beyondTopLevel
    ∧ deriveAbs false [pa, pb] (some [x]) 3 = [[], x]
    ∧ isStdlib envClash [[]] = false := by decide
example : Spec.pyResolveName (Spec.packageOf [pa] false) 1 none = .error .noParentPackage
    ∧ deriveAbs false [pa] none 1 = [[]] := by decide
-- C13_longest_prefix / _fs: clean root, `pa.pb.f` ↦ the package pa.pb (not the shadowed module)
example : cleanRoot (envClash.fs.headD []) = true
    ∧ findModuleNameAndSpec envClash [pa, pb, fN]
        = some ([pa, pb], { name := [pa, pb], origin := some (.file 0 [pa, pb, initPy]) })
    ∧ Spec.longestPrefix (Spec.existsOnPath envClash.fs) [pa, pb, fN] = some [pa, pb] := by decide
example : WellFormed [pa, pb, fN] := ⟨by decide, by decide⟩
-- C13_longest_prefix_none
example : findModuleNameAndSpec envClash [x, pa] = none ∧ startsWithDot [x, pa] = false := by decide
-- C13_roundtrip / _fs: relative path (pre = []) and an absolute path whose prefix matches nothing
example : longestName [pa, pb, sInit, sPy] = [] ++ [pa, pb]
    ∧ Spec.firstMatch envClash.fs [pa, pb] = some (0, [pa, pb, initPy])
    ∧ (deriveModuleNameFromPath envClash [pa, pb, sInit, sPy]).bind (findModuleSpecFast envClash)
        = some { name := [pa, pb], origin := some (.file 0 [pa, pb, initPy]) } := by decide
example : longestName [[], "tmp".toList, "t".toList, pa, sInit, sPy] = ["tmp".toList, "t".toList] ++ [pa]
    ∧ (∀ k, k < 2 → findModuleSpecFast envClash ((["tmp".toList, "t".toList] ++ [pa]).drop k) = none)
    ∧ deriveModuleNameFromPath envClash [[], "tmp".toList, "t".toList, pa, sInit, sPy] = some [pa] := by decide

-- the walk (`walk_*`): target.py `from pkg import h2`; pkg/__init__.py `from .sub import *`;
-- pkg/sub/__init__.py `from .leaf import *`; pkg/sub/leaf.py and (same name one level up) pkg/leaf.py.
-- The star-imported pkg/sub/__init__.py is compiled twice (star-expansion, then as a followed import),
-- each time under itself: `.leaf` ↦ pkg.sub.leaf, never pkg.leaf.
private def h (n : String) : Str := n.toList
private def demoTarget : Walk.File :=
  { dir := [], stem := h "target", stmts := [.def_ 65 (h "h4"), .from_ 66 0 (some [pkg]) [(h "h2", none)]] }
private def demoFiles : List Walk.File :=
  [ { dir := [pkg], stem := sInit, stmts := [.def_ 1 (h "h0"), .from_ 2 1 (some [sub]) [(Walk.star, none)]] },
    { dir := [pkg, sub], stem := sInit, stmts := [.def_ 17 (h "h1"), .from_ 18 1 (some [leaf]) [(Walk.star, none)]] },
    { dir := [pkg, sub], stem := leaf, stmts := [.def_ 33 (h "h2")] },
    { dir := [pkg], stem := leaf, stmts := [.def_ 49 (h "h3")] },
    demoTarget ]
private def demo : Walk.Proj :=
  { env := { fs := [demoFiles.map Walk.File.path], stdlib := [] }, rootComps := [[], h "w"], files := demoFiles }
private def demoTrace : List Walk.Rec := (Walk.run demo 30 demoTarget).st.trace

example : demoTrace.map (·.result) = [[pkg, sub], [pkg, sub, leaf], [pkg, sub, leaf]]
    ∧ demoTrace.map (·.file) = [[pkg, h "__init__.py"], [pkg, sub, h "__init__.py"], [pkg, sub, h "__init__.py"]]
    ∧ demoTrace.map (·.cur.path) = demoTrace.map (·.file)
    ∧ demoTrace.all (fun r => r.call.base == ownName r) = true
    ∧ ((Walk.run demo 30 demoTarget).st.events.map (·.file.path)).length = 7
    ∧ isStdlib demo.env [[]] = false := by decide
-- `walk_symbols_resolve_like_python`: the star-expansion's compile of pkg/sub/__init__.py holds the
-- Import made at line 18 (`from .leaf import *`) with qualified name pkg.sub.leaf
example : ((Walk.run demo 30 demoTarget).st.events.any fun e =>
    e.file.stem == sInit && e.file.dir == [pkg, sub] &&
      e.syms.any (fun σ => σ.isImport && σ.line == 18 && σ.qual == [pkg, sub, leaf])) = true
    ∧ Spec.pyResolveName (Spec.packageOf (fileName (demoFiles.getD 1 demoTarget)) true) 1 (some [leaf])
        = .ok [pkg, sub, leaf] := by decide
-- ClashFree for that trace (the hypothesis of `walk_resolves_like_python`)
example : ClashFree (demoTrace.map (·.call)) := by
  have hd : (demoTrace.map (·.call)).all (fun c => (demoTrace.map (·.call)).all
      (fun d => !(c.key == d.key) || c.isInit == d.isInit)) = true := by decide
  intro c d hc hdm hk
  have := List.all_eq_true.mp (List.all_eq_true.mp hd c hc) d hdm
  simp only [Bool.or_eq_true, Bool.not_eq_true', beq_eq_false_iff_ne, beq_iff_eq] at this
  rcases this with h1 | h1
  · exact absurd hk h1
  · exact h1

/-! Symbolic links: `/proj/pkg → /shared/libx` (a vendored checkout outside every search path), search
directory `/proj`; `pkg/__init__.py`: `from .api import *`, `pkg/api.py`: `from .core import h2`. -/
private def sProj : Str := "proj".toList
private def sShared : Str := "shared".toList
private def sLibx : Str := "libx".toList
private def sApi : Str := "api".toList
private def sCore : Str := "core".toList
private def lnkEnv : Env :=
  { fs := [[[pkg, initPy], [pkg, "api.py".toList], [pkg, "core.py".toList], ["target.py".toList]]], stdlib := [] }
private def lnkM (site : ResolveSite) : Mounts :=
  { rv := resolveLinks [([sProj, pkg], [sShared, sLibx])] 4, site := site, dirs := [[sProj]] }

/-- Why `resolveSite = .searchDir` is load-bearing (a test on literals): with `.resolve()` applied
to the located file instead, the origin of `pkg.api` leaves the search directory, the file gets no
module name (`RootContext` raises `ValueError` at its first relative import) — while with the pinned
site it gets `pkg.api` back and `.core` resolves as Python resolves it. -/
theorem locate_cex_resolve_at_location :
    (findModuleSpecFast lnkEnv [pkg, sApi]).bind (specAbs (lnkM .searchDir)) = some [sProj, pkg, "api.py".toList]
    ∧ followBase lnkEnv (lnkM .searchDir) [pkg, sApi] = some [pkg, sApi]
    ∧ (findModuleSpecFast lnkEnv [pkg, sApi]).bind (specAbs (lnkM .location)) = some [sShared, sLibx, "api.py".toList]
    ∧ followBase lnkEnv (lnkM .location) [pkg, sApi] = none
    ∧ Spec.pyResolveName (Spec.packageOf [pkg, sApi] false) 1 (some [sCore]) = .ok [pkg, sCore] := by
  decide

private def lnkFiles : List Walk.File :=
  [ { dir := [pkg], stem := sInit, stmts := [.def_ 1 (h "h0"), .from_ 2 1 (some [sApi]) [(Walk.star, none)]] },
    { dir := [pkg], stem := sApi, stmts := [.def_ 17 (h "h1"), .from_ 18 1 (some [sCore]) [(h "h2", none)]] },
    { dir := [pkg], stem := sCore, stmts := [.def_ 33 (h "h2")] } ]
private def lnkTarget (star : Bool) : Walk.File :=
  { dir := [], stem := h "target",
    stmts := [.def_ 49 (h "h3"),
              if star then .from_ 50 0 (some [pkg]) [(h "h1", none)] else .from_ 50 0 (some [pkg, sApi]) [(h "h1", none)]] }
private def lnkProj (star : Bool) : Walk.Proj :=
  { env := lnkEnv, rootComps := [[], sProj], files := lnkFiles ++ [lnkTarget star],
    phys := [([pkg, "__init__.py".toList], { abs := true, dir := [sShared, sLibx], stem := sInit, out := true }),
             ([pkg, "api.py".toList], { abs := true, dir := [sShared, sLibx], stem := sApi, out := true }),
             ([pkg, "core.py".toList], { abs := true, dir := [sShared, sLibx], stem := sCore, out := true })] }

private def crashedWith (o : Walk.Out (Walk.Tab × Walk.Irs)) (e : String) : Bool :=
  match o with
  | .stop (.crash x) _ => x == e
  | _ => false

private def endedFatal (o : Walk.Out (Walk.Tab × Walk.Irs)) : Bool :=
  match o with
  | .stop .fatal _ => true
  | _ => false

private def finished (o : Walk.Out (Walk.Tab × Walk.Irs)) : Bool :=
  match o with
  | .ok _ _ => true
  | _ => false

/-- Current code (58a9012): the star-expansion enters a star-imported file under the origin as located
— a module of a package that is a symbolic link to a directory off the search path gets its module
name back (`pkg.api`), the walk finishes, and `.core` inside it resolves to `pkg.core`, as Python
resolves it, whether the file is reached by `from pkg import *`-expansion or followed as an ordinary
import. (For all projects: `walk_cur_is_file`, `walk_resolves_like_python` — no hypothesis on links.) -/
theorem C13_star_symlink :
    starBase lnkEnv (lnkM resolveSite) [pkg, sApi] = some [pkg, sApi]
    ∧ followBase lnkEnv (lnkM resolveSite) [pkg, sApi] = some [pkg, sApi]
    ∧ Spec.pyResolveName (Spec.packageOf [pkg, sApi] false) 1 (some [sCore]) = .ok [pkg, sCore]
    ∧ finished (Walk.run (lnkProj true) 30 (lnkTarget true)) = true
    ∧ ((Walk.run (lnkProj true) 30 (lnkTarget true)).st.trace.all
        (fun r => r.file != [pkg, "api.py".toList] || r.result == [pkg, sCore])) = true
    ∧ ((Walk.run (lnkProj true) 30 (lnkTarget true)).st.trace.any (fun r => r.file == [pkg, "api.py".toList])) = true
    ∧ finished (Walk.run (lnkProj false) 30 (lnkTarget false)) = true
    ∧ ((Walk.run (lnkProj false) 30 (lnkTarget false)).st.trace.map (·.result)) = [[pkg, sCore]] := by
  decide

/-- Before 58a9012 the star-expansion entered `Import.origin`, the FULLY resolved path: the same module
was analysed under a path from which no module name can be derived — its first relative import ended
the run (in a bare `ValueError` then; since c5833ef that site is a `fatal`, which is how the model of the
current visitor ends it) — although followed as an ordinary import it was analysed under the path as
spelled. -/
theorem C13_cex_star_symlink_before_58a9012 :
    starBaseBefore_58a9012 lnkEnv (lnkM resolveSite) [pkg, sApi] = none
    ∧ endedFatal (Walk.runBefore_58a9012 (lnkProj true) 30 (lnkTarget true)) = true
    ∧ finished (Walk.runBefore_58a9012 (lnkProj false) 30 (lnkTarget false)) = true := by
  decide

/-- … which is why the invariant behind `walk_cur_is_file` asks the star-expansion to enter files as
spelled (`Walk.Spelled`; true of `curOf true`, the current code) -/
theorem walk_cex_not_spelled_before_58a9012 : ¬ Walk.Spelled (Walk.starCurResolved (lnkProj true)) := by
  intro h
  have := (h { dir := [pkg], stem := sApi, stmts := [] }).1
  revert this
  decide

-- `C13_origin_below_search_dir` / `C13_located_roundtrip` / `walk_followed_cur_is_origin`: the linked
-- package above; `/proj` has no module-naming suffix of its own
example : findModuleInPathAbs (lnkM .searchDir).rv .searchDir [sProj] (lnkEnv.fs.headD []) [pkg, sApi]
      = some [sProj, pkg, "api.py".toList]
    ∧ (locate lnkEnv.fs [pkg, sApi]).head? = some (0, [pkg, "api.py".toList])
    ∧ (∀ k, k < (dropEmptyFront (pathComps ((lnkM .searchDir).rv [sProj]))).length →
        findModuleSpecFast lnkEnv ((dropEmptyFront (pathComps ((lnkM .searchDir).rv [sProj])) ++ [pkg, sApi]).drop k) = none)
    ∧ (lnkProj false).rootComps = pathComps ((lnkM .searchDir).rv [sProj]) := by decide
example : WellFormed [pkg, sApi] ∧ DotFree [pkg, sApi] ∧ NotInitName [pkg, sApi] :=
  ⟨⟨by decide, by decide⟩, by intro c hc; revert c; decide, by unfold NotInitName; decide⟩
-- `resolveLinks`: a chain and a link inside a linked directory
example : resolveLinks [([pa], [pb]), ([pb], [x]), ([x, y], [m])] 8 [pa, y, fN] = [m, fN] := by decide
-- `longestName_location` with a package named `py`
example : WellFormed [pa, sPy] ∧ DotFree [pa, sPy] ∧ NotInitName [pa, sPy] :=
  ⟨⟨by decide, by decide⟩, by intro c hc; revert c; decide, by unfold NotInitName; decide⟩

end Rattr.C13

/-
  C19 — a cache hit is declared only when a fresh run would give the cached results.

  Model: RattrModel/Cache.lean (`gate` = target_cache_file_is_up_to_date, `make` =
  make_cacheable_results, `step` = __main__.main as a state machine, `structureDoc` = deserialise).

  The analysis enters as the parameter record `Analysis` (`fresh`, `recorded`, `readSet`, `fails`).
  What is assumed about it is the explicit hypothesis `Frame` below (TRUSTED BASE of this property:
  it is a hypothesis of the theorems that use it, not an axiom; the harness tests its consequences
  end-to-end by comparing every cached document with a from-scratch run).

  Proved for ALL histories (induction over the op list), all worlds, all analyses:
    * `C19_history`        the cache on disk is absent, or invalid, or `make w_k` for the world of the
                           last run that wrote it;
    * `C19_hit_sound`      a hit ⇒ version, hashed options, plugins, target path, target content and
                           the content of every recorded module equal those at write time; under `Frame`
                           a from-scratch run now would write exactly the cached document;
    * `C19_miss_rewrites`  after any relevant change (or with no / a malformed cache) the run misses and
                           writes `make w_now`; `C19_force_refresh_rewrites` likewise for `-r`;
    * `C19_hit_complete`   nothing relevant changed ⇒ hit;
    * `C19_no_crash_history` no step of any history, from ANY cache file, ends in a traceback.
  Robustness (document layer, all file contents) — since the upstream fix 16f7ad6 (`except Exception`):
    * `C19_robust`         for every byte content (not UTF-8 / not JSON / any JSON value) and every world
                           the gate answers `stale` or `fresh`, never a crash, when the regular files it
                           hashes can be read; in general (`C19_robust_io`) the only exception left is the
                           `OSError` of `hash_file_content` on an unreadable regular file, raised by the
                           comparison conjunction outside the `try` (`C19_cex_unreadable_import`), and
                           only for a document all of whose earlier conjuncts hold;
    * `C19_stale_of_not_structured` whatever `read_text`/`deserialise` raises is answered `stale`
                           (positive instances `C19_stale_null`, `_number`, `_not_utf8`, … replace the former
                           crash counterexamples);
    * `C19_truncation`     no strict prefix of the (token-level) printed document is a JSON value;
    * `fresh` only for a value that structures into a document passing the conjunction
      (`C19_fresh_sound`); NOT only for documents of the declared shape (`C19_cex_trusted_wrong_shape`).
  Dependencies and options, modelled from the code (RattrModel/CacheDeps.lean; second half of this file):
    * `argsKey_eq_iff`     two option sets get the same arguments hash iff follow level and both pattern
                           SETS are equal — letter case, white space, a different regex for the same
                           language are all changes (`C19_option_change_is_a_miss`), order and repetition
                           are not, and the analysis cannot tell them apart either (`blacklisted_canon`);
    * `deps_covers`        every file the import follower (`Imports.bfs`, C12's model) reads is the target
                           or an origin `make_cacheable_import_info` records — for every module graph,
                           follow level 0..3, module class (local / site-packages / stdlib) and exclusion;
    * `deps_recorded_frame` the recorded origins depend only on the files read;
    * `C19G_*`             history invariant / hit soundness / `C19G_partial` for histories that may edit
                           ANY file; `exec_eq_execG`: the machine above is the instance with two local modules;
    * `C19_deps_partial`   all of it put together: only `FreshFrame` (results depend on nothing but the files
                           the follower reads) is still assumed.
  Runs on a damaged cache file, strictness, symbolic links (RattrModel/CacheRun.lean; last part of this file):
    * `runB_real`, `C19_damaged_as_absent`, `C19_damaged_then_hit`  with the diagnostic levels of the code
                           (`error.info`, badness 0 — Tie A `tieA_gate_diagnostics`) a run on a removed /
                           truncated / non-JSON / wrong-shape cache file IS the run without a cache file under
                           every `--strict` / `--threshold N`, and the next run hits;
    * `runB_missFatal_state`, `runB_stuck`, `C19_cex_malformed_warning`, `C19_cex_malformed_error`  a fatal
                           run leaves the file untouched, so a diagnostic of positive badness there is fatal for ever;
    * `C19X_history` / `C19X_hit_sound` / `C19X_partial` / `C19X_deps_partial`  the history theorems over
                           in-place edits seen through symbolic links, re-pointed file / directory links, damage
                           and strictness changes; `C19X_change_behind_link_is_a_miss`;
    * `C19_cex_resolved_origin` (recording the resolved path of an origin is unsound),
      `C19_cex_defless_context_skipped` + `recordedKeep_all` (every analysed module's context is looked at,
      also that of a module without a function or class of its own).
  The full statement `C19_full` is still FALSE (`C19_full_false`, from the wrongly trusted document;
  `C19_cex_threshold` is the second class); each `C19_cex_*` is replayed on the implementation.
-/
import RattrModel.Cache
import RattrModel.CacheDeps
import RattrModel.CacheRun
import RattrModel.Generated.C19
import RattrModel.Generated.C12
import RattrProofs.Lemmas.C19Deps

set_option linter.unusedSectionVars false

namespace Rattr.C19
open Rattr Rattr.Cache Rattr.CacheDeps

/-! ### Tie A -/

theorem tieA_hashed_arguments : Generated.C19.hashedArguments = Cache.hashedOptionNames := by decide

theorem tieA_cache_fields : Generated.C19.cacheFields = Cache.docFields := by decide

theorem tieA_import_fields : Generated.C19.importInfoFields = ["filepath", "filehash"] := by decide

theorem tieA_compared_fields : Generated.C19.gateComparedFields = Cache.comparedFields := by decide

/-- Each cached field is compared with the value recomputed for the present world. -/
theorem tieA_comparisons : Generated.C19.gateComparisons =
    ["cache.version == version", "cache.arguments_hash == make_arguments_hash()",
     "cache.plugins_hash == make_plugins_hash()", "cache.filepath == target",
     "cache.filehash == hash_file_content(target)",
     "all((import_info.filehash == hash_file_content(import_info.filepath) for import_info in cache.imports))"] := by
  decide

theorem tieA_caught_exceptions : Generated.C19.gateCaughtExceptions = Cache.caughtExceptions := by decide

/-- `hash_file_content` reads the file in a loop (every block enters the digest): the model's
"hash = the whole content" is what the code computes. Behavioural counterpart: the hash probe of
py/props/c19.py (sizes around k * blocksize ± 1) and the big-file histories. -/
theorem tieA_hash_reads_every_block :
    Generated.C19.hashReadInLoop = true ∧ 0 < Generated.C19.hashBlockSize := by decide

/-- The hashed-option tuple is built from exactly these `config` expressions. -/
theorem tieA_hashed_sources : Generated.C19.hashedArgumentSources =
    ["config.LITERAL_VALUE_PREFIX", "config.arguments.follow_imports.value",
     "sorted(config.arguments.excluded_imports)", "sorted(config.arguments.excluded_names)"] := by
  decide

/-- `main`: unlink only under `force_refresh_cache`, gate otherwise, one write at the end. -/
theorem tieA_main_shape : Generated.C19.mainShape =
    ["if:cache_file is not None", "if:force_refresh_cache", "call:unlink",
     "elif:target_cache_file_is_up_to_date", "return:EXIT_SUCCESS", "call:write_cache_file"] := by
  decide

/-- `make_cacheable_import_info`: contexts of the target and of every analysed module; the filter
chain of the comprehension is exactly `CacheDeps.recordsSym`'s (no clause looks at the follow level
or at the module's class). -/
theorem tieA_import_info_shape :
    Generated.C19.importInfoShape = CacheDeps.importInfoShape := rfl

/-- The hashed tuple is built from the expressions `CacheDeps.argsKey` models … -/
theorem tieA_hashed_sources_model :
    Generated.C19.hashedArgumentSources = CacheDeps.argsKeySources ∧
    Generated.C19.hashedArguments = CacheDeps.argsKeyFields := by decide

/-- … where `excluded_imports` / `excluded_names` are `set`s of the strings as given, and the
blacklist consulted by the analysis is built from the same set. -/
theorem tieA_option_sets : Generated.C19.optionSetSources = CacheDeps.optionSetSources := rfl

theorem tieA_blacklist_shape :
    Generated.C19.blacklistShape = CacheDeps.blacklistShape ∧
    Generated.C19.inPipShape = CacheDeps.inPipShape ∧
    Generated.C19.namesRightShape = CacheDeps.namesRightShape ∧
    Generated.C19.safeOriginShape = CacheDeps.safeOriginShape ∧
    Generated.C19.pipPatterns = CacheDeps.pipPatterns := ⟨rfl, rfl, rfl, rfl, rfl⟩

/-- The import follower the dependency theorems are about (`Imports.classify` / `loop`, C12's model)
is the ladder of `parse_and_analyse_imports` as it is now. -/
theorem tieA_follower_ladder :
    Generated.C12.bfsLadder =
      ["pop:left", "noName->continue", "noSpec->continue", "noOrigin->continue", "seen->continue",
       "blacklist->continue", "is_in_pip:not:follow_pip_imports->continue",
       "is_in_stdlib:not:follow_stdlib_imports->continue", "read", "analyse", "store:name",
       "enqueue:append", "markSeen:origin"] ∧
    Generated.C12.followLevels =
      [(false, false, false, false), (true, true, false, false), (true, true, true, false),
       (true, true, true, true)] := by decide

/-- With the generated `except` clause every exception of `read_text` / `deserialise` is caught.
(Re-checked against the source on every run through `tieA_caught_exceptions`.) -/
theorem caught_all (e : StructErr) : isCaught Generated.C19.gateCaughtExceptions e = true := by
  cases e <;> decide

theorem caught_all' (e : StructErr) : isCaught Cache.caughtExceptions e = true := by
  rw [← tieA_caught_exceptions]; exact caught_all e

section abstract
variable {P H O X R : Type} [DecidableEq P] [DecidableEq H] [DecidableEq O]
variable (D : Dir P H) (A : Analysis P H O X R) (L : Layout P)

/-- The gate (all regular files readable) never raises. -/
theorem gate_no_crash (w : World P H O X) (f : CacheFile P H O R) (e : StructErr) :
    gate D w f ≠ .crash e := by
  unfold gate
  split
  · cases f with
    | absent => simp
    | malformed => simp
    | crashing e' => simp [caught_all']
    | valid d => simp only; split <;> simp
  · simp

theorem gate_crashing (w : World P H O X) (e : StructErr) :
    gate D w (.crashing e : CacheFile P H O R) = .stale := by
  unfold gate
  split <;> simp [caught_all']

/-! ### The frame hypothesis (trusted base) -/

/-- What the theorems assume about the un-modelled analysis:
`frame`  — results and recorded origins depend only on the target path, the hashed options, the
           version, the plugins and the content of the files the analysis reads (in particular
           not on the un-hashed options `other`);
`covers` — every file the analysis reads is the target or one of the recorded origins. -/
structure Frame : Prop where
  frame : ∀ w w' : World P H O X,
    w'.target = w.target → w'.opts = w.opts → w'.version = w.version → w'.plugins = w.plugins →
    (∀ p ∈ A.readSet w, D.isFile p = true → w'.contents p = w.contents p) →
    A.fresh w' = A.fresh w ∧ A.recorded w' = A.recorded w
  covers : ∀ w : World P H O X, ∀ p ∈ A.readSet w, p = w.target ∨ p ∈ A.recorded w

/-- Nothing the gate looks at differs between the world `wk` the cache was written in and `w`. -/
def Unchanged (wk w : World P H O X) : Prop :=
  wk.version = w.version ∧ wk.opts = w.opts ∧ wk.plugins = w.plugins ∧ wk.target = w.target ∧
  hashFile D wk wk.target = hashFile D w w.target ∧
  ∀ p ∈ A.recorded wk, hashFile D wk p = hashFile D w p

/-- Disk invariant. `lw` = world of the last run that wrote the cache. With `allowCrash = false`
the file is additionally known not to be one the gate crashes on. -/
def DiskInv (allowCrash : Bool) (lw : Option (World P H O X)) (d : CacheFile P H O R) : Prop :=
  d = .absent ∨ d = .malformed ∨ (allowCrash = true ∧ ∃ e, d = .crashing e) ∨
  ∃ wk, lw = some wk ∧ d = .valid (make D A wk)

/-! ### The gate on a document written by `make` -/

theorem upToDate_make (wk w : World P H O X) :
    upToDate D w (make D A wk) = true ↔ Unchanged D A wk w := by
  unfold upToDate make Unchanged
  simp only [Bool.and_eq_true, decide_eq_true_eq, List.all_eq_true, List.mem_map,
    forall_exists_index, and_imp]
  constructor
  · rintro ⟨⟨⟨⟨⟨h1, h2⟩, h3⟩, h4⟩, h5⟩, h6⟩
    refine ⟨h1, h2, h3, h4, ?_, ?_⟩
    · rw [h5]
    · intro p hp
      exact h6 (p, hashFile D wk p) p hp rfl
  · rintro ⟨h1, h2, h3, h4, h5, h6⟩
    refine ⟨⟨⟨⟨⟨h1, h2⟩, h3⟩, h4⟩, ?_⟩, ?_⟩
    · rw [h5]
    · intro i p hp hi
      subst hi
      exact h6 p hp

/-- Under `Frame`, an unchanged world re-creates the cached document bit for bit. -/
theorem make_eq_of_unchanged (F : Frame D A) (wk w : World P H O X)
    (hu : Unchanged D A wk w) :
    make D A w = make D A wk := by
  obtain ⟨h1, h2, h3, h4, h5, h6⟩ := hu
  have hagree : ∀ p ∈ A.readSet wk, D.isFile p = true → w.contents p = wk.contents p := by
    intro p hp hf
    rcases F.covers wk p hp with rfl | hr
    · have := h5
      unfold hashFile at this
      rw [← h4] at this
      simp only [hf, if_true] at this
      exact this.symm
    · have := h6 p hr
      unfold hashFile at this
      simp only [hf, if_true] at this
      exact this.symm
  obtain ⟨hfresh, hrec⟩ := F.frame wk w h4.symm h2.symm h1.symm h3.symm hagree
  unfold make
  rw [hfresh, hrec, ← h1, ← h2, ← h3, ← h4]
  rw [← h4] at h5
  rw [← h5]
  congr 1
  apply List.map_congr_left
  intro p hp
  rw [h6 p hp]

/-! ### One step -/

/-- The four ways a run with a cache file can end. -/
theorem step_run_cases (s : State P H O X R) :
    (gate D s.world s.disk = .fresh ∧ step D A L s .runWithCache = (s, .hit)) ∨
    (∃ e, gate D s.world s.disk = .crash e ∧ step D A L s .runWithCache = (s, .crash e)) ∨
    (gate D s.world s.disk = .stale ∧ A.fails s.world = true ∧
      step D A L s .runWithCache = (s, .missFatal)) ∨
    (gate D s.world s.disk = .stale ∧ A.fails s.world = false ∧
      step D A L s .runWithCache = ({ s with disk := .valid (make D A s.world) }, .missWritten)) := by
  cases hg : gate D s.world s.disk with
  | fresh => left; simp [step, hg]
  | crash e => right; left; exact ⟨e, rfl, by simp [step, hg]⟩
  | stale =>
    cases hf : A.fails s.world with
    | true => right; right; left; simp [step, hg, analyse, hf]
    | false => right; right; right; simp [step, hg, analyse, hf]

theorem step_force_cases (s : State P H O X R) :
    (A.fails s.world = true ∧ step D A L s .forceRefresh = ({ s with disk := .absent }, .missFatal)) ∨
    (A.fails s.world = false ∧
      step D A L s .forceRefresh = ({ s with disk := .valid (make D A s.world) }, .missWritten)) := by
  cases hf : A.fails s.world with
  | true => left; simp [step, analyse, hf]
  | false => right; simp [step, analyse, hf]

theorem step_inv (b : Bool) (lw : Option (World P H O X)) (s : State P H O X R) (o : Op H O X)
    (h : DiskInv D A b lw s.disk) :
    DiskInv D A b (if (step D A L s o).2 = .missWritten then some s.world else lw)
      (step D A L s o).1.disk := by
  cases o with
  | editTarget c => simpa [step] using h
  | editDirect c => simpa [step] using h
  | editTransitive c => simpa [step] using h
  | changeOption o x => simpa [step] using h
  | runWithCache =>
    rcases step_run_cases D A L s with ⟨_, hs⟩ | ⟨e, _, hs⟩ | ⟨_, _, hs⟩ | ⟨_, _, hs⟩
    · rw [hs]; simpa using h
    · rw [hs]; simpa using h
    · rw [hs]; simpa using h
    · rw [hs]
      simp only [if_true]
      exact Or.inr (Or.inr (Or.inr ⟨s.world, rfl, rfl⟩))
  | forceRefresh =>
    rcases step_force_cases D A L s with ⟨_, hs⟩ | ⟨_, hs⟩
    · rw [hs]; exact Or.inl rfl
    · rw [hs]
      simp only [if_true]
      exact Or.inr (Or.inr (Or.inr ⟨s.world, rfl, rfl⟩))

/-! ### All histories -/

/-- **History invariant.** After any op sequence the cache on disk is absent, or invalid, or equals
`make w_k` for the world `w_k` of the last run that wrote it. -/
theorem C19_history (b : Bool) (ops : List (Op H O X)) :
    ∀ (lw : Option (World P H O X)) (s : State P H O X R),
      DiskInv D A b lw s.disk →
      DiskInv D A b (lastWritten D A L lw s ops) (exec D A L s ops).disk := by
  induction ops with
  | nil => intro lw s h; exact h
  | cons o os ih =>
    intro lw s h
    simp only [lastWritten, exec]
    exact ih _ _ (step_inv D A L b lw s o h)

/-- A run that reports a hit, in a state satisfying the invariant, found the document of `w_k` and
`w_k` agrees with the present world on everything the gate compares. -/
theorem hit_unchanged (b : Bool) (lw : Option (World P H O X)) (s : State P H O X R)
    (h : DiskInv D A b lw s.disk) (hit : (step D A L s .runWithCache).2 = .hit) :
    ∃ wk, lw = some wk ∧ s.disk = .valid (make D A wk) ∧ Unchanged D A wk s.world ∧
      D.isFile s.world.target = true := by
  simp only [step] at hit
  cases hg : gate D s.world s.disk with
  | stale =>
    rw [hg] at hit
    simp only [analyse] at hit
    split at hit <;> simp at hit
  | crash e => rw [hg] at hit; simp at hit
  | fresh =>
    unfold gate at hg
    by_cases hT : D.isFile s.world.target = true
    · simp only [hT, if_true] at hg
      rcases h with h | h | ⟨_, e, h⟩ | ⟨wk, hlw, h⟩
      · rw [h] at hg; simp at hg
      · rw [h] at hg; simp at hg
      · rw [h] at hg; simp [caught_all'] at hg
      · rw [h] at hg
        simp only at hg
        by_cases hu : upToDate D s.world (make D A wk) = true
        · exact ⟨wk, hlw, h, (upToDate_make D A wk s.world).1 hu, hT⟩
        · simp [hu] at hg
    · simp [hT] at hg

/-- **Hit soundness, for every history.** If after any op sequence (started with a cache file that is
absent, invalid, or a genuine earlier cache) a run reports "up-to-date", then the file on disk is the
document written by the last cache-writing run, at world `w_k`, and version, hashed options,
plugins, target path, target content and the content of every recorded module are the same now as
then. Under the frame hypothesis a from-scratch run now would produce exactly the cached document,
in particular the cached results are `fresh w_now`. -/
theorem C19_hit_sound (b : Bool) (lw : Option (World P H O X)) (s0 : State P H O X R)
    (ops : List (Op H O X)) (h0 : DiskInv D A b lw s0.disk)
    (hit : (step D A L (exec D A L s0 ops) .runWithCache).2 = .hit) :
    ∃ wk, lastWritten D A L lw s0 ops = some wk ∧
      (exec D A L s0 ops).disk = .valid (make D A wk) ∧
      Unchanged D A wk (exec D A L s0 ops).world ∧
      (Frame D A →
        (exec D A L s0 ops).disk = .valid (make D A (exec D A L s0 ops).world) ∧
        (make D A wk).results = A.fresh (exec D A L s0 ops).world) := by
  obtain ⟨wk, hlw, hd, hu, hT⟩ :=
    hit_unchanged D A L b _ _ (C19_history D A L b ops lw s0 h0) hit
  refine ⟨wk, hlw, hd, hu, ?_⟩
  intro F
  have := make_eq_of_unchanged D A F wk _ hu
  refine ⟨by rw [hd, this], ?_⟩
  rw [← this]
  rfl

/-- A relevant change since the cache was written. -/
def Changed (wk w : World P H O X) : Prop := ¬ Unchanged D A wk w

/-- **Miss rewrites.** With no cache, a malformed cache, or the cache of a world that differs from
the present one in anything the gate compares, the run re-analyses and (unless the analysis ends
in a fatal error) leaves `make w_now` on disk. -/
theorem C19_miss_rewrites (s : State P H O X R) (wk : World P H O X)
    (hd : s.disk = .absent ∨ s.disk = .malformed ∨ (∃ e, s.disk = .crashing e) ∨
          (s.disk = .valid (make D A wk) ∧ Changed D A wk s.world))
    (hf : A.fails s.world = false) :
    step D A L s .runWithCache = ({ s with disk := .valid (make D A s.world) }, .missWritten) := by
  have hg : gate D s.world s.disk = .stale := by
    unfold gate
    split
    · rcases hd with h | h | ⟨e, h⟩ | ⟨h, hc⟩
      · rw [h]
      · rw [h]
      · rw [h]; simp [caught_all']
      · rw [h]
        have : upToDate D s.world (make D A wk) = false := by
          cases hu : upToDate D s.world (make D A wk) with
          | false => rfl
          | true => exact absurd ((upToDate_make D A wk s.world).1 hu) hc
        simp [this]
    · rfl
  simp [step, hg, analyse, hf]

/-- The same over histories: from an absent or malformed file, after any op sequence, if the world
differs from the one of the last write (or nothing was ever written), the next run misses and writes
the from-scratch document. -/
theorem C19_miss_rewrites_history (s0 : State P H O X R) (ops : List (Op H O X))
    (h0 : s0.disk = .absent ∨ s0.disk = .malformed ∨ ∃ e, s0.disk = .crashing e)
    (hc : ∀ wk, lastWritten D A L none s0 ops = some wk → Changed D A wk (exec D A L s0 ops).world)
    (hf : A.fails (exec D A L s0 ops).world = false) :
    step D A L (exec D A L s0 ops) .runWithCache =
      ({ exec D A L s0 ops with disk := .valid (make D A (exec D A L s0 ops).world) },
        .missWritten) := by
  have hinv : DiskInv D A true none s0.disk := by
    rcases h0 with h | h | h
    · exact Or.inl h
    · exact Or.inr (Or.inl h)
    · exact Or.inr (Or.inr (Or.inl ⟨rfl, h⟩))
  have := C19_history D A L true ops none s0 hinv
  rcases this with h | h | ⟨_, h⟩ | ⟨wk, hlw, h⟩
  · exact C19_miss_rewrites D A L _ (exec D A L s0 ops).world (Or.inl h) hf
  · exact C19_miss_rewrites D A L _ (exec D A L s0 ops).world (Or.inr (Or.inl h)) hf
  · exact C19_miss_rewrites D A L _ (exec D A L s0 ops).world (Or.inr (Or.inr (Or.inl h))) hf
  · exact C19_miss_rewrites D A L _ wk (Or.inr (Or.inr (Or.inr ⟨h, hc wk hlw⟩))) hf

/-- `-r` never consults the old file: whatever is on disk, the from-scratch document replaces it. -/
theorem C19_force_refresh_rewrites (s : State P H O X R) (hf : A.fails s.world = false) :
    step D A L s .forceRefresh = ({ s with disk := .valid (make D A s.world) }, .missWritten) := by
  simp [step, analyse, hf]

/-- A failed `-r` run leaves no cache at all (the unlink precedes the analysis). -/
theorem C19_force_refresh_failed (s : State P H O X R) (hf : A.fails s.world = true) :
    step D A L s .forceRefresh = ({ s with disk := .absent }, .missFatal) := by
  simp [step, analyse, hf]

/-- **Hit completeness**: if nothing the gate compares changed since the write, the run is a hit
and touches nothing. -/
theorem C19_hit_complete (s : State P H O X R) (wk : World P H O X)
    (hd : s.disk = .valid (make D A wk)) (hu : Unchanged D A wk s.world)
    (hT : D.isFile s.world.target = true) :
    step D A L s .runWithCache = (s, .hit) := by
  have : gate D s.world s.disk = .fresh := by
    unfold gate
    rw [hd]
    simp [hT, (upToDate_make D A wk s.world).2 hu]
  simp [step, this]

/-- Edits, option changes and runs never change the directory structure or the target path. -/
theorem step_target (s : State P H O X R) (o : Op H O X) :
    (step D A L s o).1.world.target = s.world.target := by
  cases o with
  | runWithCache =>
    simp only [step]
    cases gate D s.world s.disk <;> simp [analyse] <;> split <;> rfl
  | forceRefresh => simp only [step, analyse]; split <;> rfl
  | _ => simp [step, World.setContent]

/-- No step of any history, from any state (whatever is in place of the cache file), ends in a
traceback out of the gate. -/
theorem C19_no_crash_history (ops : List (Op H O X)) :
    ∀ (s : State P H O X R), ∀ o ∈ outs D A L s ops, ∀ e, o ≠ .crash e := by
  induction ops with
  | nil => intro s o ho; simp [outs] at ho
  | cons op os ih =>
    intro s o ho e
    simp only [outs, List.mem_cons] at ho
    rcases ho with rfl | ho
    · cases op with
      | runWithCache =>
        rcases step_run_cases D A L s with ⟨_, hs⟩ | ⟨e', hg, _⟩ | ⟨_, _, hs⟩ | ⟨_, _, hs⟩
        · rw [hs]; simp
        · exact absurd hg (gate_no_crash D _ _ e')
        · rw [hs]; simp
        · rw [hs]; simp
      | forceRefresh => simp only [step, analyse]; split <;> simp
      | _ => simp [step]
    · exact ih _ o ho e

end abstract

/-! ### Robustness: the document layer -/

section robust
variable {X : Type}

theorem lookup_mem {k : Str} {kvs : List (Str × JVal)} {v : JVal}
    (h : lookup k kvs = some v) : (k, v) ∈ kvs := by
  induction kvs with
  | nil => simp [lookup] at h
  | cons kv r ih =>
    obtain ⟨k', v'⟩ := kv
    simp only [lookup] at h
    split at h
    · rename_i hk
      simp only [Option.some.injEq] at h
      subst hk; subst h
      exact List.mem_cons_self
    · exact List.mem_cons_of_mem _ (ih h)

theorem mapM_isSome {α β : Type} (f : α → Option β) (xs : List α)
    (h : ∀ x ∈ xs, (f x).isSome = true) : (xs.mapM f).isSome = true := by
  induction xs with
  | nil => simp
  | cons x r ih =>
    have hx := h x List.mem_cons_self
    have hr := ih (fun y hy => h y (List.mem_cons_of_mem _ hy))
    rw [List.mapM_cons]
    cases hfx : f x with
    | none => rw [hfx] at hx; simp at hx
    | some b =>
      cases hm : r.mapM f with
      | none => rw [hm] at hr; simp at hr
      | some bs => simp

theorem asPath_of_isStr {v : JVal} (h : isStr v = true) : (asPath v).isSome = true := by
  cases v <;> simp_all [isStr, asPath]

theorem structImport_of_ws (render : JVal → Str) {v : JVal} (h : wsImport v = true) :
    (structImport render v).isSome = true := by
  cases v with
  | obj kvs =>
    simp only [wsImport, List.all_eq_true] at h
    simp only [structImport, Option.isSome_map, fieldPath]
    cases hl : lookup (str "filepath") kvs with
    | none => simp
    | some fv =>
      have := h _ (lookup_mem hl)
      exact asPath_of_isStr this
  | _ => simp [wsImport] at h

theorem structSet_of_ws (render : JVal → Str) {v : JVal} (h : wsSet v = true) :
    (structSet render v).isSome = true := by
  cases v <;> simp_all [wsSet, structSet]

theorem structFn_of_ws (render : JVal → Str) {v : JVal} (h : wsFn v = true) :
    (structFn render v).isSome = true := by
  cases v with
  | obj kvs =>
    simp only [wsFn, List.all_cons, List.all_nil, Bool.and_true, Bool.and_eq_true] at h
    obtain ⟨hg, hs, hd, hc⟩ := h
    simp only [structFn]
    cases hlg : lookup (str "gets") kvs with
    | none => rw [hlg] at hg; simp at hg
    | some vg =>
    cases hls : lookup (str "sets") kvs with
    | none => rw [hls] at hs; simp at hs
    | some vs =>
    cases hld : lookup (str "dels") kvs with
    | none => rw [hld] at hd; simp at hd
    | some vd =>
    cases hlc : lookup (str "calls") kvs with
    | none => rw [hlc] at hc; simp at hc
    | some vc =>
    rw [hlg] at hg; rw [hls] at hs; rw [hld] at hd; rw [hlc] at hc
    simp only at hg hs hd hc
    have h1 := structSet_of_ws render hg
    have h2 := structSet_of_ws render hs
    have h3 := structSet_of_ws render hd
    have h4 := structSet_of_ws render hc
    cases e1 : structSet render vg with
    | none => rw [e1] at h1; simp at h1
    | some a1 =>
    cases e2 : structSet render vs with
    | none => rw [e2] at h2; simp at h2
    | some a2 =>
    cases e3 : structSet render vd with
    | none => rw [e3] at h3; simp at h3
    | some a3 =>
    cases e4 : structSet render vc with
    | none => rw [e4] at h4; simp at h4
    | some a4 => simp [e1, e2, e3, e4]
  | _ => simp [wsFn] at h

theorem wsField_of_mem {kvs : List (Str × JVal)} (h : wellShaped (.obj kvs) = true)
    {k : Str} {v : JVal} (hl : lookup k kvs = some v) : wsField k v = true := by
  simp only [wellShaped, List.all_eq_true] at h
  exact h _ (lookup_mem hl)

theorem wsField_filepath (v : JVal) : wsField (str "filepath") v = isStr v := by
  unfold wsField
  rw [if_neg (by decide), if_neg (by decide), if_pos (by decide)]

theorem wsField_imports (v : JVal) :
    wsField (str "imports") v = (match v with | .arr xs => xs.all wsImport | _ => false) := by
  unfold wsField
  rw [if_pos (by decide)]
  cases v <;> rfl

theorem wsField_results (v : JVal) :
    wsField (str "results") v =
      (match v with | .obj kvs => kvs.all (fun kv => wsFn kv.2) | _ => false) := by
  unfold wsField
  rw [if_neg (by decide), if_pos (by decide)]
  cases v <;> rfl

/-- A document of the declared shape always structures (no exception leaves `deserialise`). -/
theorem structure_of_wellShaped (render : JVal → Str) (v : JVal) (h : wellShaped v = true) :
    ∃ d, structureDoc render v = .ok d := by
  cases v with
  | obj kvs =>
    have hfp : ∃ p, fieldPath kvs = some p := by
      unfold fieldPath
      cases hl : lookup (str "filepath") kvs with
      | none => exact ⟨_, rfl⟩
      | some fv =>
        have hw := wsField_of_mem h hl
        rw [wsField_filepath] at hw
        have := asPath_of_isStr hw
        exact Option.isSome_iff_exists.mp this
    have him : ∃ i, fieldImports render kvs = some i := by
      unfold fieldImports
      cases hl : lookup (str "imports") kvs with
      | none => exact ⟨_, rfl⟩
      | some iv =>
        have hw := wsField_of_mem h hl
        rw [wsField_imports] at hw
        cases iv with
        | arr xs =>
          simp only [List.all_eq_true] at hw
          have := mapM_isSome (structImport render) xs
            (fun x hx => structImport_of_ws render (hw x hx))
          exact Option.isSome_iff_exists.mp this
        | _ => simp at hw
    have hrs : ∃ r, fieldResults render kvs = some r := by
      unfold fieldResults
      cases hl : lookup (str "results") kvs with
      | none => exact ⟨_, rfl⟩
      | some rv =>
        have hw := wsField_of_mem h hl
        rw [wsField_results] at hw
        cases rv with
        | obj fkvs =>
          simp only [List.all_eq_true] at hw
          have := mapM_isSome
            (fun kv : Str × JVal => (structFn render kv.2).map (fun r => (kv.1, r))) fkvs
            (fun x hx => by
              have := structFn_of_ws render (hw x hx)
              simpa using this)
          exact Option.isSome_iff_exists.mp this
        | _ => simp at hw
    obtain ⟨p, hp⟩ := hfp
    obtain ⟨i, hi⟩ := him
    obtain ⟨r, hr⟩ := hrs
    simp only [structureDoc, hp, hi, hr]
    exact ⟨_, rfl⟩
  | _ => simp [wellShaped] at h

/-- `fresh` is answered only for a JSON value that structures into a document which passes the
whole conjunction against the present world. -/
theorem C19_fresh_sound (render : JVal → Str) (D : Dir Str Str) (w : World Str Str Str X)
    (f : Option FileContent) (hfresh : gateJ render D w f = .fresh) :
    ∃ v d, f = some (.json v) ∧ structureDoc render v = .ok d ∧ upToDate D w d = true ∧
      D.isFile w.target = true := by
  unfold gateJ gate at hfresh
  split at hfresh
  · rename_i hT
    cases f with
    | none => simp [classify] at hfresh
    | some fc =>
      cases fc with
      | notUtf8 => simp [classify, caught_all'] at hfresh
      | notJson => simp [classify] at hfresh
      | json v =>
        simp only [classify] at hfresh
        cases hs : structureDoc render v with
        | error e => rw [hs] at hfresh; simp [caught_all'] at hfresh
        | ok d =>
          rw [hs] at hfresh
          simp only at hfresh
          by_cases hu : upToDate D w d = true
          · exact ⟨v, d, rfl, hs, hu, hT⟩
          · simp [hu] at hfresh
  · simp at hfresh

/-- Whatever `Path(cache).read_text()` / `deserialise` raise — missing file, bytes that are not
UTF-8, text that is not JSON (every truncation), a JSON value that does not structure — the gate
answers `stale`. -/
theorem C19_stale_of_not_structured (render : JVal → Str) (D : Dir Str Str)
    (w : World Str Str Str X) (f : Option FileContent)
    (h : ∀ d, classify render f ≠ .valid d) : gateJ render D w f = .stale := by
  unfold gateJ
  cases hc : classify render f with
  | absent => unfold gate; split <;> rfl
  | malformed => unfold gate; split <;> rfl
  | crashing e => exact gate_crashing D w e
  | valid d => exact absurd hc (h d)

/-- **Robustness (crash part), full strength.** For EVERY file content — nothing, bytes that are
not UTF-8, text that is not JSON, any JSON value whatsoever — and every world, the gate answers
`stale` or `fresh`; no exception leaves it. (Directory structure in which every regular file the
gate hashes can be read; `C19_robust_io` removes that restriction.) -/
theorem C19_robust (render : JVal → Str) (D : Dir Str Str) (w : World Str Str Str X)
    (f : Option FileContent) :
    gateJ render D w f = .stale ∨ gateJ render D w f = .fresh := by
  cases hg : gateJ render D w f with
  | stale => left; rfl
  | fresh => right; rfl
  | crash e => exact absurd hg (gate_no_crash D w _ e)

end robust

section io
variable {P H O X R : Type} [DecidableEq P] [DecidableEq H] [DecidableEq O]
variable (D : Dir P H) (unr : P → Bool) (w : World P H O X)

theorem importsRaise_readable (hr : ∀ p, unr p = false) (is : List (P × H)) :
    importsRaise D unr w is = false := by
  induction is with
  | nil => rfl
  | cons i r ih => simp [importsRaise, hr, ih]

theorem importsRaise_where (is : List (P × H)) (h : importsRaise D unr w is = true) :
    ∃ i ∈ is, D.isFile i.1 = true ∧ unr i.1 = true := by
  induction is with
  | nil => simp [importsRaise] at h
  | cons i r ih =>
    simp only [importsRaise] at h
    split at h
    · rename_i hc
      simp only [Bool.and_eq_true] at hc
      exact ⟨i, List.mem_cons_self, hc.1, hc.2⟩
    · split at h
      · obtain ⟨j, hj, hh⟩ := ih h
        exact ⟨j, List.mem_cons_of_mem _ hj, hh⟩
      · simp at h

/-- If every regular file can be read the refined gate is the gate of the history theorems. -/
theorem gateIO_eq_gate (hr : ∀ p, unr p = false) (f : CacheFile P H O R) :
    gateIO D unr w f = gate D w f := by
  cases f with
  | valid d => simp [gateIO, readRaises, hr, importsRaise_readable D unr w hr]
  | _ => rfl

/-- **Exactly where the conjunction can still raise**: only on a document whose version, hashed
options, plugins and target path all match, and then either the target itself or — the target's
hash matching too — a listed import is a regular file that cannot be read. -/
theorem readRaises_where (d : Doc P H O R) (h : readRaises D unr w d = true) :
    d.version = w.version ∧ d.argumentsHash = w.opts ∧ d.pluginsHash = w.plugins ∧
    d.filepath = w.target ∧
    ((D.isFile w.target = true ∧ unr w.target = true) ∨
     (d.filehash = hashFile D w w.target ∧
      ∃ i ∈ d.imports, D.isFile i.1 = true ∧ unr i.1 = true)) := by
  unfold readRaises at h
  simp only [Bool.and_eq_true, Bool.or_eq_true, decide_eq_true_eq] at h
  obtain ⟨⟨⟨⟨h1, h2⟩, h3⟩, h4⟩, h5⟩ := h
  refine ⟨h1, h2, h3, h4, ?_⟩
  rcases h5 with h5 | ⟨h5, h6⟩
  · left; exact h5
  · right; exact ⟨h5, importsRaise_where D unr w _ h6⟩

end io

section robustIO
variable {X : Type}

/-- **Robustness with unreadable files.** For every file content, every world and every set of
unreadable regular files, the gate answers `stale` or `fresh`, or raises `OSError` — and the latter
only on a JSON value that structures into a document for which `readRaises` holds
(`readRaises_where` says what that means). Nothing else can leave the gate. -/
theorem C19_robust_io (render : JVal → Str) (D : Dir Str Str) (unr : Str → Bool)
    (w : World Str Str Str X) (f : Option FileContent) :
    gateJIO render D unr w f = .stale ∨ gateJIO render D unr w f = .fresh ∨
    (gateJIO render D unr w f = .crash .osError ∧
      ∃ v d, f = some (.json v) ∧ structureDoc render v = .ok d ∧ readRaises D unr w d = true) := by
  unfold gateJIO
  cases hc : classify render f with
  | valid d =>
    have hv : ∃ v, f = some (.json v) ∧ structureDoc render v = .ok d := by
      cases f with
      | none => simp [classify] at hc
      | some fc =>
        cases fc with
        | notUtf8 => simp [classify] at hc
        | notJson => simp [classify] at hc
        | json v =>
          simp only [classify] at hc
          cases hs : structureDoc render v with
          | error e => rw [hs] at hc; simp at hc
          | ok d' =>
            rw [hs] at hc
            simp only [CacheFile.valid.injEq] at hc
            subst hc
            exact ⟨v, rfl, hs⟩
    obtain ⟨v, hf, hs⟩ := hv
    simp only [gateIO]
    split
    · rename_i hcond
      simp only [Bool.and_eq_true] at hcond
      right; right
      exact ⟨rfl, v, d, hf, hs, hcond.2⟩
    · cases hg : gate D w (.valid d : CacheFile Str Str Str ResultsJ) with
      | stale => left; rfl
      | fresh => right; left; rfl
      | crash e => exact absurd hg (gate_no_crash D w _ e)
  | absent => left; simp [gateIO, gate]
  | malformed => left; simp [gateIO, gate]
  | crashing e => left; simp only [gateIO]; exact gate_crashing D w e

/-- If the regular files the gate may hash can all be read, it never raises. -/
theorem C19_robust_readable (render : JVal → Str) (D : Dir Str Str) (unr : Str → Bool)
    (w : World Str Str Str X) (f : Option FileContent) (hr : ∀ p, unr p = false) :
    gateJIO render D unr w f = .stale ∨ gateJIO render D unr w f = .fresh := by
  unfold gateJIO
  rw [gateIO_eq_gate D unr w hr]
  exact C19_robust render D w f

end robustIO

section robust2
variable {X : Type}

/-- A top-level string or list is never trusted (it structures, if at all, into the all-default
document, whose version is the empty string). -/
theorem C19_fresh_is_object (render : JVal → Str) (D : Dir Str Str) (w : World Str Str Str X)
    (v : JVal) (hv : w.version ≠ [])
    (hfresh : gateJ render D w (some (.json v)) = .fresh) : ∃ kvs, v = .obj kvs := by
  obtain ⟨v', d, hf, hs, hu, _⟩ := C19_fresh_sound render D w _ hfresh
  simp only [Option.some.injEq, FileContent.json.injEq] at hf
  subst hf
  have hver : d.version = w.version := by
    unfold upToDate at hu
    simp only [Bool.and_eq_true, decide_eq_true_eq] at hu
    exact hu.1.1.1.1.1
  cases v with
  | obj kvs => exact ⟨kvs, rfl⟩
  | null => simp [structureDoc] at hs
  | bool b => simp [structureDoc] at hs
  | num r => simp [structureDoc] at hs
  | str t =>
    simp only [structureDoc] at hs
    split at hs
    · simp at hs
    · simp only [Except.ok.injEq] at hs
      subst hs
      exact absurd hver.symm hv
  | arr xs =>
    simp only [structureDoc] at hs
    split at hs
    · simp at hs
    · simp only [Except.ok.injEq] at hs
      subst hs
      exact absurd hver.symm hv

/-! ### Positive instances: files that are not caches are stale (former crash counterexamples,
repaired upstream by 16f7ad6) -/

section instances
variable (render : JVal → Str) (D : Dir Str Str) (w : World Str Str Str X)

/-- cache file `null`: `TypeError` inside `deserialise`, caught → stale. -/
theorem C19_stale_null : gateJ render D w (some (.json .null)) = .stale :=
  C19_stale_of_not_structured render D w _ (by simp [classify, structureDoc])

/-- cache file `1` (any number, `NaN`). -/
theorem C19_stale_number (r : Str) : gateJ render D w (some (.json (.num r))) = .stale :=
  C19_stale_of_not_structured render D w _ (by simp [classify, structureDoc])

theorem C19_stale_bool (b : Bool) : gateJ render D w (some (.json (.bool b))) = .stale :=
  C19_stale_of_not_structured render D w _ (by simp [classify, structureDoc])

/-- bytes that are not UTF-8 (`UnicodeDecodeError` out of `read_text`, inside the `try`). -/
theorem C19_stale_not_utf8 : gateJ render D w (some .notUtf8) = .stale :=
  C19_stale_of_not_structured render D w _ (by simp [classify])

/-- `{"imports": 1}` (list field ← number). -/
theorem C19_stale_wrong_type :
    gateJ render D w (some (.json (.obj [(str "imports", .num (str "1"))]))) = .stale := by
  have : fieldImports render [(str "imports", JVal.num (str "1"))] = none := rfl
  exact C19_stale_of_not_structured render D w _ (by simp [classify, structureDoc, this])

/-- `{"imports": [{"filepath": 1}]}`. -/
theorem C19_stale_import_filepath :
    gateJ render D w
      (some (.json (.obj [(str "imports", .arr [.obj [(str "filepath", .num (str "1"))]])]))) =
      .stale := by
  have : fieldImports render
      [(str "imports", JVal.arr [.obj [(str "filepath", .num (str "1"))]])] = none := by
    have h1 : lookup (str "imports")
        [(str "imports", JVal.arr [.obj [(str "filepath", .num (str "1"))]])] =
        some (JVal.arr [.obj [(str "filepath", .num (str "1"))]]) := rfl
    have h2 : fieldPath [(str "filepath", JVal.num (str "1"))] = none := by decide
    simp [fieldImports, h1, structImports, structImport, h2]
  exact C19_stale_of_not_structured render D w _ (by simp [classify, structureDoc, this])

/-- `{"filepath": null}`. -/
theorem C19_stale_filepath :
    gateJ render D w (some (.json (.obj [(str "filepath", .null)]))) = .stale := by
  have : fieldPath [(str "filepath", JVal.null)] = none := by decide
  exact C19_stale_of_not_structured render D w _ (by simp [classify, structureDoc, this])

/-- `{"results": []}`. -/
theorem C19_stale_results :
    gateJ render D w (some (.json (.obj [(str "results", .arr [])]))) = .stale := by
  have h1 : fieldPath [(str "results", JVal.arr [])] = some (str ".") := by decide
  have h2 : fieldImports render [(str "results", JVal.arr [])] = some [] := rfl
  have h3 : fieldResults render [(str "results", JVal.arr [])] = none := rfl
  exact C19_stale_of_not_structured render D w _ (by simp [classify, structureDoc, h1, h2, h3])

/-- the JSON string `"version"`. -/
theorem C19_stale_string_naming_field :
    gateJ render D w (some (.json (.str (str "version")))) = .stale := by
  have : (docFieldNames.any fun n => pyContains n (JVal.str (str "version"))) = true := by decide
  exact C19_stale_of_not_structured render D w _ (by simp [classify, structureDoc, this])

end instances

end robust2

/-! ### Concrete instances (tests by kernel evaluation; also the non-vacuity witnesses) -/

namespace Ex

def D : Dir Nat Nat := { isFile := fun p => decide (p < 3), emptyHash := 0 }
def L : Layout Nat := { direct := 1, transitive := 2 }

/-- A toy analysis: reads target, direct and transitive module; results are a digest of what it
read and of the hashed options; it fails when the un-hashed option is 1 ("--threshold 1") and the
target's content is 7 ("has badness"). -/
def A : Analysis Nat Nat Nat Nat Nat :=
  { fresh := fun w => hashFile D w w.target + 10 * w.contents 1 + 100 * w.contents 2 + 1000 * w.opts
    recorded := fun _ => [1, 2]
    readSet := fun w => [w.target, 1, 2]
    fails := fun w => decide (w.other = 1) && decide (w.contents w.target = 7) }

def w0 : World Nat Nat Nat Nat :=
  { target := 0, contents := fun p => p + 1, opts := 0, other := 0, version := 1, plugins := 1 }

def s0 : State Nat Nat Nat Nat Nat := { world := w0, disk := .absent }

/-- [test] run, run: miss then hit. -/
example : outs D A L s0 [.runWithCache, .runWithCache] = [.missWritten, .hit] := by decide

/-- [test] an edit of the transitive import, an option change and `-r` each force a re-analysis;
an un-hashed option change does not. -/
example : outs D A L s0
    [.runWithCache, .editTransitive 9, .runWithCache, .runWithCache, .changeOption 2 0,
     .runWithCache, .changeOption 2 5, .runWithCache, .forceRefresh, .editTarget 3, .editTarget 1,
     .runWithCache] =
    [.missWritten, .noRun, .missWritten, .hit, .noRun, .missWritten, .noRun, .hit, .missWritten,
     .noRun, .noRun, .hit] := by decide

/-- Non-vacuity of `C19_hit_sound` / `C19_history`: a history with a hit whose last-written world
is a world strictly inside the history. -/
example : (step D A L (exec D A L s0 [.editDirect 4, .runWithCache, .changeOption 0 3]) .runWithCache).2
      = .hit ∧
    (lastWritten D A L none s0 [.editDirect 4, .runWithCache, .changeOption 0 3]).isSome = true := by
  decide

/-- Non-vacuity of `C19_miss_rewrites`: the hypotheses `Changed` and `fails = false` are met. -/
example : (exec D A L s0 [.runWithCache, .editTransitive 9]).disk = .valid (make D A w0) ∧
    ¬ hashFile D w0 2 = hashFile D (exec D A L s0 [.runWithCache, .editTransitive 9]).world 2 ∧
    A.fails (exec D A L s0 [.runWithCache, .editTransitive 9]).world = false := by
  decide

end Ex

/-- The frame hypothesis is satisfiable (by an analysis that really reads three files). -/
theorem Ex_frame : Frame Ex.D Ex.A where
  frame := by
    intro w w' ht ho _ _ hc
    have h0 := hc w.target (by simp [Ex.A])
    have h1 := hc 1 (by simp [Ex.A]) (by decide)
    have h2 := hc 2 (by simp [Ex.A]) (by decide)
    refine ⟨?_, rfl⟩
    simp only [Ex.A, hashFile]
    rw [ht, h1, h2, ho]
    by_cases hf : Ex.D.isFile w.target = true
    · simp [hf, h0 hf]
    · simp [hf]
  covers := by
    intro w p hp
    simp only [Ex.A, List.mem_cons, List.mem_nil_iff, or_false] at hp
    rcases hp with rfl | rfl | rfl
    · left; rfl
    · right; simp [Ex.A]
    · right; simp [Ex.A]


/-- **Counterexample (strictness options are not part of the cache key).** The target has badness;
a run without a threshold writes the cache; the same command with the threshold turned on is then
answered "up-to-date", exit 0 — while a from-scratch run in that world ends in a fatal error and
gives no results at all. -/
theorem C19_cex_threshold :
    (step Ex.D Ex.A Ex.L
        (exec Ex.D Ex.A Ex.L Ex.s0 [.editTarget 7, .runWithCache, .changeOption 0 1])
        .runWithCache).2 = .hit ∧
    Ex.A.fails (exec Ex.D Ex.A Ex.L Ex.s0 [.editTarget 7, .runWithCache, .changeOption 0 1]).world
      = true := by
  decide

namespace ExJ

def D : Dir Str Str := { isFile := fun p => decide (p = str "t.py"), emptyHash := str "e" }

def w : World Str Str Str Nat :=
  { target := str "t.py", contents := fun _ => str "h", opts := str "a", other := 0,
    version := str "v", plugins := str "p" }

/-- `imports` is an (empty) object instead of a list, `gets` is a string instead of a list,
`sets` contains `null`. -/
def badDoc : JVal :=
  .obj [(str "version", .str (str "v")), (str "arguments_hash", .str (str "a")),
        (str "plugins_hash", .str (str "p")), (str "filepath", .str (str "t.py")),
        (str "filehash", .str (str "h")), (str "imports", .obj []),
        (str "results", .obj [(str "f", .obj [(str "gets", .str (str "s")),
            (str "sets", .arr [.null]), (str "dels", .arr []), (str "calls", .arr [])])])]

def goodDoc : JVal :=
  .obj [(str "version", .str (str "v")), (str "arguments_hash", .str (str "a")),
        (str "plugins_hash", .str (str "p")), (str "filepath", .str (str "t.py")),
        (str "filehash", .str (str "h")),
        (str "imports", .arr [.obj [(str "filepath", .str (str "d.py")),
                                    (str "filehash", .str (str "e"))]]),
        (str "results", .obj [(str "f", .obj [(str "gets", .arr [.str (str "a.x")]),
            (str "sets", .arr []), (str "dels", .arr []), (str "calls", .arr [])])])]

/-- Non-vacuity of `C19_fresh_sound` / `C19_robust`: a well-shaped document that is trusted. -/
example : wellShaped goodDoc = true ∧
    gateJ (fun _ => []) D w (some (.json goodDoc)) = .fresh := by decide

/-- [test] one changed import hash → stale. -/
example : gateJ (fun _ => []) { D with emptyHash := str "x" } w (some (.json goodDoc)) = .stale := by
  decide

/-- A trivially framed analysis over the document-layer types (used to refute `C19_full`). -/
def A : Analysis Str Str Str Nat ResultsJ :=
  { fresh := fun _ => [], recorded := fun _ => [], readSet := fun _ => [], fails := fun _ => false }

end ExJ

theorem ExJ_frame : Frame ExJ.D ExJ.A where
  frame := by intro _ _ _ _ _ _ _; exact ⟨rfl, rfl⟩
  covers := by intro _ p hp; simp [ExJ.A] at hp


/-- **Counterexample (a document of the wrong shape is trusted).** cattrs iterates whatever it is
given: an empty object for the `imports` list, a string for a `gets` list, `null` for a name are all
accepted, and the gate answers "up-to-date". -/
theorem C19_cex_trusted_wrong_shape :
    wellShaped ExJ.badDoc = false ∧
    gateJ (fun _ => []) ExJ.D ExJ.w (some (.json ExJ.badDoc)) = .fresh := by decide

/-- A well-shaped, otherwise matching document one of whose imports names a regular file that
cannot be read (`/proc/self/mem`, a file without read permission). -/
def ExJ.ioDoc : JVal :=
  .obj [(str "version", .str (str "v")), (str "arguments_hash", .str (str "a")),
        (str "plugins_hash", .str (str "p")), (str "filepath", .str (str "t.py")),
        (str "filehash", .str (str "h")),
        (str "imports", .arr [.obj [(str "filepath", .str (str "/proc/self/mem")),
                                    (str "filehash", .str (str "x"))]]),
        (str "results", .obj [])]

/-- **Counterexample (the one exception that can still leave the gate).** The comparison
conjunction is outside the `try`: `hash_file_content` of a listed import that is a regular file but
cannot be read raises `OSError` — on a cache document of the declared shape. With the same
document and the file readable the answer is `stale` (hash mismatch). -/
theorem C19_cex_unreadable_import :
    wellShaped ExJ.ioDoc = true ∧
    gateJIO (fun _ => [])
      { isFile := fun p => decide (p = str "t.py") || decide (p = str "/proc/self/mem"),
        emptyHash := str "e" }
      (fun p => decide (p = str "/proc/self/mem")) ExJ.w (some (.json ExJ.ioDoc)) = .crash .osError ∧
    gateJIO (fun _ => [])
      { isFile := fun p => decide (p = str "t.py") || decide (p = str "/proc/self/mem"),
        emptyHash := str "e" }
      (fun _ => false) ExJ.w (some (.json ExJ.ioDoc)) = .stale := by decide

/-! ### Truncation (token-level model printer) -/

theorem scan_append (x y : List Tok) : ∀ d, scan d (x ++ y) = (scan d x).bind (fun d' => scan d' y) := by
  induction x with
  | nil => intro d; simp [scan]
  | cons t r ih =>
    intro d
    cases t with
    | o => simp [scan, ih]
    | a => simp [scan, ih]
    | c =>
      cases d with
      | zero => simp [scan]
      | succ d => simp [scan, ih]

theorem scan_seq {s : List Tok} (h : IsSeq s) : ∀ d, scan d s = some d := by
  induction h with
  | nil => intro d; rfl
  | atom _ ih => intro d; simp [scan, ih]
  | node _ _ ihb ihr =>
    intro d
    simp only [scan, scan_append, ihb, Option.bind_some, ihr]

theorem isSeq_append {x y : List Tok} (hx : IsSeq x) (hy : IsSeq y) : IsSeq (x ++ y) := by
  induction hx with
  | nil => simpa using hy
  | atom _ ih => exact IsSeq.atom ih
  | node hb _ _ ihr =>
    have := IsSeq.node hb ihr
    simpa [List.append_assoc] using this

theorem isSeq_atoms {α : Type} (xs : List α) : IsSeq (xs.map (fun _ => Tok.a)) := by
  induction xs with
  | nil => exact IsSeq.nil
  | cons _ _ ih => exact IsSeq.atom ih

theorem isSeq_flatMap {α : Type} (f : α → List Tok) (xs : List α) (h : ∀ x, IsSeq (f x)) :
    IsSeq (xs.flatMap f) := by
  induction xs with
  | nil => exact IsSeq.nil
  | cons x r ih => simpa [List.flatMap_cons] using isSeq_append (h x) ih

/-- `o body c` is a one-element sequence. -/
theorem isSeq_bracket {body : List Tok} (h : IsSeq body) : IsSeq (.o :: body ++ [.c]) :=
  IsSeq.node h IsSeq.nil

theorem isSeq_toksSet (xs : List Str) : IsSeq (toksSet xs) := isSeq_bracket (isSeq_atoms xs)

theorem isSeq_toksImport (i : ImportJ) : IsSeq (toksImport i) :=
  isSeq_bracket (body := [.a, .a, .a, .a])
    (IsSeq.atom (IsSeq.atom (IsSeq.atom (IsSeq.atom IsSeq.nil))))

theorem isSeq_toksFn (f : Str × FnResJ) : IsSeq (toksFn f) := by
  unfold toksFn
  apply IsSeq.atom
  apply isSeq_bracket
  exact isSeq_append (isSeq_append (isSeq_append (IsSeq.atom (isSeq_toksSet _))
    (IsSeq.atom (isSeq_toksSet _))) (IsSeq.atom (isSeq_toksSet _))) (IsSeq.atom (isSeq_toksSet _))

/-- The printed document is a JSON value (an object). -/
theorem toksDoc_isVal (d : DocJ) : ∃ body, IsSeq body ∧ toksDoc d = .o :: body ++ [.c] := by
  refine ⟨_, ?_, rfl⟩
  apply isSeq_append
  · apply isSeq_append
    · exact IsSeq.atom (IsSeq.atom (IsSeq.atom (IsSeq.atom (IsSeq.atom (IsSeq.atom (IsSeq.atom
        (IsSeq.atom (IsSeq.atom (IsSeq.atom IsSeq.nil)))))))))
    · exact IsSeq.atom (isSeq_bracket (isSeq_flatMap _ _ isSeq_toksImport))
  · exact IsSeq.atom (isSeq_bracket (isSeq_flatMap _ _ isSeq_toksFn))

/-- A strict prefix of a bracketed JSON value is not a JSON value. -/
theorem strict_prefix_not_val {body p q : List Tok} (hb : IsSeq body)
    (h : .o :: body ++ [.c] = p ++ q) (hq : q ≠ []) : ¬ IsVal p := by
  rintro (rfl | ⟨body', hb', rfl⟩)
  · simp at h
  · simp only [List.cons_append, List.cons.injEq, true_and, List.append_assoc] at h
    -- body ++ [c] = body' ++ c :: q
    rcases List.append_eq_append_iff.mp h with ⟨a', _, h2⟩ | ⟨c', h1, h2⟩
    · have := congrArg List.length h2
      simp at this
      have : q.length = 0 := by omega
      exact hq (List.length_eq_zero_iff.mp this)
    · cases c' with
      | nil =>
        simp at h2
        exact hq h2
      | cons x c'' =>
        simp only [List.cons_append, List.cons.injEq] at h2
        obtain ⟨hx, _⟩ := h2
        subst hx
        have hs := scan_seq hb 0
        rw [h1, scan_append, scan_seq hb' 0] at hs
        simp [scan] at hs

/-- **Truncation.** No strict prefix of the (token-level) printed cache document is a JSON value:
a crash at any point between two atoms of the non-atomic `write_text` leaves a file that
`json.loads` rejects, hence one the gate classifies as malformed (`C19_stale_of_not_structured`).
Cuts inside an atom, and the byte-level fact as a whole, are enumerated exhaustively in Tie B
(every byte offset of a real cache file on every run). -/
theorem C19_truncation (d : DocJ) (p q : List Tok) (h : toksDoc d = p ++ q) (hq : q ≠ []) :
    ¬ IsVal p := by
  obtain ⟨body, hb, hd⟩ := toksDoc_isVal d
  rw [hd] at h
  exact strict_prefix_not_val hb h hq

/-- Non-vacuity: a document with two imports and one function, cut in the middle. -/
example : toksDoc { defaultDoc with imports := [defaultImport, defaultImport],
                                    results := [([], ⟨[[]], [], [], []⟩)] } =
    [.o, .a, .a, .a, .a, .a, .a, .a, .a, .a, .a, .a, .o, .o, .a, .a] ++
    [.a, .a, .c, .o, .a, .a, .a, .a, .c, .c, .a, .o, .a, .o, .a, .o, .a, .c, .a, .o, .c, .a, .o, .c,
     .a, .o, .c, .c, .c, .c] := by decide


/-! ### The full statement -/

/-- "missing, truncated, corrupted or of the wrong shape". -/
def Corrupt : Option FileContent → Prop
  | none => True
  | some .notUtf8 => True
  | some .notJson => True
  | some (.json v) => wellShaped v = false

section full
variable {P H O X R : Type} [DecidableEq P] [DecidableEq H] [DecidableEq O]

/-- What C19 demands of one run with a cache file, in state `s`: no traceback; a hit only if a
from-scratch run would succeed and write exactly what is on disk; a miss leaves the from-scratch
document on disk unless the analysis itself ends in a fatal error. -/
def RunOK (strictAware : Bool) (D : Dir P H) (A : Analysis P H O X R) (L : Layout P)
    (s : State P H O X R) : Prop :=
  match (step D A L s .runWithCache).2 with
  | .hit => s.disk = .valid (make D A s.world) ∧ (strictAware = true → A.fails s.world = false)
  | .missWritten => (step D A L s .runWithCache).1.disk = .valid (make D A s.world)
  | .missFatal => A.fails s.world = true
  | .crash _ => False
  | .noRun => False

end full

/-- **C19, full strength**: whatever is in place of the cache file at the start (nothing, bytes that
are not UTF-8 / not JSON, a JSON value of the wrong shape) and whatever sequence of edits, option
changes, runs and forced refreshes follows, every run with the cache file satisfies `RunOK`.
STILL FALSE after the upstream fix 16f7ad6 (which repaired the crash classes): `C19_full_false`. -/
def C19_full : Prop :=
  ∀ (render : JVal → Str) (D : Dir Str Str) (A : Analysis Str Str Str Nat ResultsJ)
    (L : Layout Str), Frame D A →
  ∀ (w0 : World Str Str Str Nat) (f : Option FileContent) (ops : List (Op Str Str Nat)),
    D.isFile w0.target = true → Corrupt f →
    RunOK true D A L (exec D A L { world := w0, disk := classify render f } ops)

/-- Refuted by the wrongly trusted document: `ExJ.badDoc` is of the wrong shape, yet the first run
answers "up-to-date" although a from-scratch run would write a different document. -/
theorem C19_full_false : ¬ C19_full := by
  intro h
  have h1 := h (fun _ => []) ExJ.D ExJ.A { direct := [], transitive := [] } ExJ_frame ExJ.w
    (some (.json ExJ.badDoc)) [] (by decide) C19_cex_trusted_wrong_shape.1
  have hhit : (step ExJ.D ExJ.A { direct := [], transitive := [] }
      { world := ExJ.w, disk := classify (fun _ => []) (some (.json ExJ.badDoc)) }
      .runWithCache).2 = .hit := by decide
  unfold RunOK at h1
  simp only [exec] at h1
  rw [hhit] at h1
  exact absurd h1.1 (by decide)

section partialFull
variable {P H O X R : Type} [DecidableEq P] [DecidableEq H] [DecidableEq O]
variable (D : Dir P H) (A : Analysis P H O X R) (L : Layout P)

/-- **C19, the part that holds** (under the frame hypothesis): starting from no cache file or from
anything that does not read back as a cache document (not UTF-8, not JSON, a JSON value that does
not structure), after every history, a run with the cache file never crashes; a hit means that the
file on disk is exactly what a from-scratch run would write now; a miss leaves exactly that on disk
unless the analysis is fatal. (Not claimed: that a from-scratch run would not be fatal under the
current strictness options — `C19_cex_threshold`; nor anything for a wrong-shaped file that cattrs
happens to accept — `C19_cex_trusted_wrong_shape`.) -/
theorem C19_partial (F : Frame D A) (s0 : State P H O X R) (ops : List (Op H O X))
    (h0 : s0.disk = .absent ∨ s0.disk = .malformed ∨ ∃ e, s0.disk = .crashing e) :
    RunOK false D A L (exec D A L s0 ops) := by
  have hinv : DiskInv D A true none s0.disk := by
    rcases h0 with h | h | h
    · exact Or.inl h
    · exact Or.inr (Or.inl h)
    · exact Or.inr (Or.inr (Or.inl ⟨rfl, h⟩))
  unfold RunOK
  rcases step_run_cases D A L (exec D A L s0 ops) with ⟨_, hs⟩ | ⟨e, hg, hs⟩ | ⟨_, hf, hs⟩ | ⟨_, _, hs⟩
  · have hit : (step D A L (exec D A L s0 ops) .runWithCache).2 = .hit := by rw [hs]
    obtain ⟨wk, _, _, _, hF⟩ := C19_hit_sound D A L true none s0 ops hinv hit
    rw [hs]
    exact ⟨(hF F).1, by intro h; cases h⟩
  · exact absurd hg (gate_no_crash D _ _ e)
  · rw [hs]; exact hf
  · rw [hs]

end partialFull

/-! ## Dependencies and options computed by the model (RattrModel/CacheDeps.lean) -/

section generalMachine
variable {P H O X R : Type} [DecidableEq P] [DecidableEq H] [DecidableEq O]
variable (D : Dir P H) (A : Analysis P H O X R)

/-- `Cache.step` is `stepG` on the translated op. -/
theorem step_eq_stepG (L : Layout P) (s : State P H O X R) (o : Op H O X) :
    step D A L s o = stepG D A s (toG L s.world.target o) := by
  cases o <;> rfl

/-- **The two-local-modules machine of the earlier theorems is an instance of the general one.** -/
theorem exec_eq_execG (L : Layout P) (ops : List (Op H O X)) :
    ∀ s : State P H O X R,
      exec D A L s ops = execG D A s (ops.map (toG L s.world.target)) ∧
      outs D A L s ops = outsG D A s (ops.map (toG L s.world.target)) := by
  induction ops with
  | nil => intro s; exact ⟨rfl, rfl⟩
  | cons o os ih =>
    intro s
    simp only [exec, outs, List.map_cons, execG, outsG]
    rw [← step_eq_stepG]
    have ht := step_target D A L s o
    obtain ⟨h1, h2⟩ := ih (step D A L s o).1
    rw [ht] at h1 h2
    exact ⟨h1, by rw [h2]⟩

/-- The frame hypothesis restricted to worlds in which the run completes (only such worlds ever
write a cache). Weaker than `Frame`. -/
structure FrameOK : Prop where
  frame : ∀ w w' : World P H O X, A.fails w = false →
    w'.target = w.target → w'.opts = w.opts → w'.version = w.version → w'.plugins = w.plugins →
    (∀ p ∈ A.readSet w, D.isFile p = true → w'.contents p = w.contents p) →
    A.fresh w' = A.fresh w ∧ A.recorded w' = A.recorded w
  covers : ∀ w : World P H O X, A.fails w = false →
    ∀ p ∈ A.readSet w, p = w.target ∨ p ∈ A.recorded w

theorem frameOK_of_frame (F : Frame D A) : FrameOK D A :=
  ⟨fun w w' _ => F.frame w w', fun w _ => F.covers w⟩

theorem make_eq_of_unchanged_ok (F : FrameOK D A) (wk w : World P H O X)
    (hk : A.fails wk = false) (hu : Unchanged D A wk w) :
    make D A w = make D A wk := by
  obtain ⟨h1, h2, h3, h4, h5, h6⟩ := hu
  have hagree : ∀ p ∈ A.readSet wk, D.isFile p = true → w.contents p = wk.contents p := by
    intro p hp hf
    rcases F.covers wk hk p hp with rfl | hr
    · have := h5
      unfold hashFile at this
      rw [← h4] at this
      simp only [hf, if_true] at this
      exact this.symm
    · have := h6 p hr
      unfold hashFile at this
      simp only [hf, if_true] at this
      exact this.symm
  obtain ⟨hfresh, hrec⟩ := F.frame wk w hk h4.symm h2.symm h1.symm h3.symm hagree
  unfold make
  rw [hfresh, hrec, ← h1, ← h2, ← h3, ← h4]
  rw [← h4] at h5
  rw [← h5]
  congr 1
  apply List.map_congr_left
  intro p hp
  rw [h6 p hp]

theorem stepG_run_cases (s : State P H O X R) :
    (gate D s.world s.disk = .fresh ∧ stepG D A s .runWithCache = (s, .hit)) ∨
    (∃ e, gate D s.world s.disk = .crash e ∧ stepG D A s .runWithCache = (s, .crash e)) ∨
    (gate D s.world s.disk = .stale ∧ A.fails s.world = true ∧
      stepG D A s .runWithCache = (s, .missFatal)) ∨
    (gate D s.world s.disk = .stale ∧ A.fails s.world = false ∧
      stepG D A s .runWithCache = ({ s with disk := .valid (make D A s.world) }, .missWritten)) := by
  cases hg : gate D s.world s.disk with
  | fresh => left; simp [stepG, hg]
  | crash e => right; left; exact ⟨e, rfl, by simp [stepG, hg]⟩
  | stale =>
    cases hf : A.fails s.world with
    | true => right; right; left; simp [stepG, hg, analyse, hf]
    | false => right; right; right; simp [stepG, hg, analyse, hf]

theorem stepG_force_cases (s : State P H O X R) :
    (A.fails s.world = true ∧ stepG D A s .forceRefresh = ({ s with disk := .absent }, .missFatal)) ∨
    (A.fails s.world = false ∧
      stepG D A s .forceRefresh = ({ s with disk := .valid (make D A s.world) }, .missWritten)) := by
  cases hf : A.fails s.world with
  | true => left; simp [stepG, analyse, hf]
  | false => right; simp [stepG, analyse, hf]

/-- Disk invariant of the general machine: as `DiskInv`, and the world of the last write is one in
which the run completed. -/
def DiskInvG (allowCrash : Bool) (lw : Option (World P H O X)) (d : CacheFile P H O R) : Prop :=
  DiskInv D A allowCrash lw d ∧ ∀ wk, lw = some wk → A.fails wk = false

theorem stepG_inv (b : Bool) (lw : Option (World P H O X)) (s : State P H O X R)
    (o : OpG P H O X) (h : DiskInvG D A b lw s.disk) :
    DiskInvG D A b (if (stepG D A s o).2 = .missWritten then some s.world else lw)
      (stepG D A s o).1.disk := by
  obtain ⟨h, hk⟩ := h
  cases o with
  | edit p c => exact ⟨by simpa [stepG] using h, by simpa [stepG] using hk⟩
  | setOptions o x => exact ⟨by simpa [stepG] using h, by simpa [stepG] using hk⟩
  | runWithCache =>
    rcases stepG_run_cases D A s with ⟨_, hs⟩ | ⟨e, _, hs⟩ | ⟨_, _, hs⟩ | ⟨_, hf, hs⟩
    · rw [hs]; exact ⟨by simpa using h, by simpa using hk⟩
    · rw [hs]; exact ⟨by simpa using h, by simpa using hk⟩
    · rw [hs]; exact ⟨by simpa using h, by simpa using hk⟩
    · rw [hs]
      simp only [if_true]
      refine ⟨Or.inr (Or.inr (Or.inr ⟨s.world, rfl, rfl⟩)), ?_⟩
      intro wk hwk
      simp only [Option.some.injEq] at hwk
      subst hwk; exact hf
  | forceRefresh =>
    rcases stepG_force_cases D A s with ⟨_, hs⟩ | ⟨hf, hs⟩
    · rw [hs]; exact ⟨Or.inl rfl, by simpa using hk⟩
    · rw [hs]
      simp only [if_true]
      refine ⟨Or.inr (Or.inr (Or.inr ⟨s.world, rfl, rfl⟩)), ?_⟩
      intro wk hwk
      simp only [Option.some.injEq] at hwk
      subst hwk; exact hf

/-- **History invariant, any file may be edited.** -/
theorem C19G_history (b : Bool) (ops : List (OpG P H O X)) :
    ∀ (lw : Option (World P H O X)) (s : State P H O X R),
      DiskInvG D A b lw s.disk →
      DiskInvG D A b (lastWrittenG D A lw s ops) (execG D A s ops).disk := by
  induction ops with
  | nil => intro lw s h; exact h
  | cons o os ih =>
    intro lw s h
    simp only [lastWrittenG, execG]
    exact ih _ _ (stepG_inv D A b lw s o h)

theorem diskInvG_init (s0 : State P H O X R)
    (h0 : s0.disk = .absent ∨ s0.disk = .malformed ∨ ∃ e, s0.disk = .crashing e) :
    DiskInvG D A true none s0.disk := by
  refine ⟨?_, by intro wk h; cases h⟩
  rcases h0 with h | h | h
  · exact Or.inl h
  · exact Or.inr (Or.inl h)
  · exact Or.inr (Or.inr (Or.inl ⟨rfl, h⟩))

/-- **Hit soundness over histories that edit any file** (target, local, site-packages, stdlib-named
modules alike), under the weaker `FrameOK`: a hit means the file on disk is the document of the last
cache-writing run, nothing the gate compares changed since, and a from-scratch run now would write
exactly that document. -/
theorem C19G_hit_sound (b : Bool) (lw : Option (World P H O X)) (s0 : State P H O X R)
    (ops : List (OpG P H O X)) (h0 : DiskInvG D A b lw s0.disk)
    (hit : (stepG D A (execG D A s0 ops) .runWithCache).2 = .hit) :
    ∃ wk, lastWrittenG D A lw s0 ops = some wk ∧ A.fails wk = false ∧
      (execG D A s0 ops).disk = .valid (make D A wk) ∧
      Unchanged D A wk (execG D A s0 ops).world ∧
      (FrameOK D A →
        (execG D A s0 ops).disk = .valid (make D A (execG D A s0 ops).world) ∧
        (make D A wk).results = A.fresh (execG D A s0 ops).world) := by
  obtain ⟨hinv, hk⟩ := C19G_history D A b ops lw s0 h0
  have hit' : (step D A ⟨(execG D A s0 ops).world.target, (execG D A s0 ops).world.target⟩
      (execG D A s0 ops) .runWithCache).2 = .hit := hit
  obtain ⟨wk, hlw, hd, hu, _⟩ := hit_unchanged D A _ b _ _ hinv hit'
  refine ⟨wk, hlw, hk wk hlw, hd, hu, ?_⟩
  intro F
  have := make_eq_of_unchanged_ok D A F wk _ (hk wk hlw) hu
  refine ⟨by rw [hd, this], ?_⟩
  rw [← this]
  rfl

/-- What C19 demands of one run with a cache file (general machine; strictness not claimed). -/
def RunOKG (s : State P H O X R) : Prop :=
  match (stepG D A s .runWithCache).2 with
  | .hit => s.disk = .valid (make D A s.world)
  | .missWritten => (stepG D A s .runWithCache).1.disk = .valid (make D A s.world)
  | .missFatal => A.fails s.world = true
  | .crash _ => False
  | .noRun => False

/-- **C19, the part that holds, for histories that edit any file.** -/
theorem C19G_partial (F : FrameOK D A) (s0 : State P H O X R) (ops : List (OpG P H O X))
    (h0 : s0.disk = .absent ∨ s0.disk = .malformed ∨ ∃ e, s0.disk = .crashing e) :
    RunOKG D A (execG D A s0 ops) := by
  unfold RunOKG
  rcases stepG_run_cases D A (execG D A s0 ops) with ⟨_, hs⟩ | ⟨e, hg, hs⟩ | ⟨_, hf, hs⟩ | ⟨_, _, hs⟩
  · have hit : (stepG D A (execG D A s0 ops) .runWithCache).2 = .hit := by rw [hs]
    obtain ⟨wk, _, _, _, _, hF⟩ := C19G_hit_sound D A true none s0 ops (diskInvG_init D A s0 h0) hit
    rw [hs]
    exact (hF F).1
  · exact absurd hg (gate_no_crash D _ _ e)
  · rw [hs]; exact hf
  · rw [hs]

end generalMachine

section deps
variable {ω H X R : Type} [DecidableEq ω] [DecidableEq H]
variable (S : Static ω H) (D : Dir ω H)

/-- **Coverage (`Frame.covers`, now a theorem).** Every file the import follower reads — the target
and every analysed module — is the target or one of the origins `make_cacheable_import_info`
records. No hypothesis on the run (it may have ended in `fatal` or a crash). -/
theorem deps_covers (hb : BuiltinsUnreadable S = true) (w : W ω H X) :
    ∀ p ∈ readSet S D w, p = w.target ∨ p ∈ recorded S D w := by
  intro p hp
  unfold readSet at hp
  rcases List.mem_cons.mp hp with rfl | hp
  · exact Or.inl rfl
  · right
    obtain ⟨n, hn, ho⟩ := List.mem_filterMap.mp hp
    unfold run at hn
    obtain ⟨m, o, hl, hor, hbl, _, _, hread⟩ :=
      bfs_admitted _ _ _ _ n hn
    obtain ⟨i, hi, hit⟩ := bfs_covered _ _ _ _ n hn
    have hpo : p = o := by
      unfold originOf at ho
      rw [hl] at ho
      simp only [Option.bind_some] at ho
      rw [hor] at ho
      exact (Option.some.inj ho).symm
    subst hpo
    have hnb : p ≠ S.builtins := by
      intro he
      rw [lookup_graphOf] at hl
      cases hf : S.find n with
      | none => rw [hf] at hl; cases hl
      | some mi =>
        rw [hf] at hl
        simp only [Option.map_some, Option.some.injEq] at hl
        subst hl
        have hmem : mi ∈ S.mods := List.mem_of_find?_eq_some hf
        unfold BuiltinsUnreadable at hb
        have := List.all_eq_true.mp hb mi hmem
        simp only [mkMod] at hor hread
        rw [hor, he] at this
        simp [hread] at this
    unfold recorded
    rw [mem_recordedOf]
    obtain ⟨c, hc, hic⟩ := fromCtx_mem_ctxs hi
    refine ⟨c, hc, i, hic, ?_⟩
    unfold recordsSym
    rw [hit]
    simp only
    rw [hl]
    simp only [hbl, hor, hnb, if_false, Bool.false_eq_true]

/-- **The recorded origins depend only on what the follower read (`Frame.frame`, `recorded` half, now
a theorem).** If the import stage of a run in world `w` completes, then in every world with the same
target path and hashed options whose files agree with `w` on the target and on every analysed module,
the follower analyses the same modules, `make_cacheable_import_info` records the same origins and
the same files are read. -/
theorem deps_recorded_frame (w w' : W ω H X) (hd : (run S D w).isDone = true)
    (ht : w'.target = w.target) (ho : w'.opts = w.opts)
    (hc : ∀ p ∈ readSet S D w, D.isFile p = true → w'.contents p = w.contents p) :
    run S D w' = run S D w ∧ recorded S D w' = recorded S D w ∧
      readSet S D w' = readSet S D w := by
  have hh : ∀ p ∈ readSet S D w, hashFile D w' p = hashFile D w p := by
    intro p hp
    unfold hashFile
    by_cases hf : D.isFile p = true
    · simp [hf, hc p hp hf]
    · simp [hf]
  have htsyms : symsOf S D w' w'.target = symsOf S D w w.target := by
    rw [ht]
    exact symsOf_congr S D ho (hh w.target (by simp [readSet]))
  have hs := staticEq_graphOf S D (w := w) (w' := w') ho
  have hrun := out_done_of_isDone hd
  have hlook : ∀ n ∈ (run S D w).state.analysed,
      Imports.lookup (graphOf S D w') n = Imports.lookup (graphOf S D w) n := by
    intro n hn
    rw [lookup_graphOf, lookup_graphOf]
    cases hf : S.find n with
    | none => rfl
    | some mi =>
      simp only [Option.map_some, Option.some.injEq]
      apply mkMod_congr S D ho
      intro o hor
      apply hh
      unfold readSet
      refine List.mem_cons_of_mem _ (List.mem_filterMap.mpr ⟨n, hn, ?_⟩)
      unfold originOf
      rw [lookup_graphOf, hf]
      simp [mkMod, hor]
  have hrun' : run S D w' = run S D w := by
    rw [hrun]
    unfold run
    rw [htsyms, ho]
    apply bfs_congr hs
    · unfold run at hrun; exact hrun
    · exact hlook
  refine ⟨hrun', ?_, ?_⟩
  · unfold recorded recordedOf
    rw [hrun', htsyms]
    have hctx : ctxs (graphOf S D w') (symsOf S D w w.target) (run S D w).state.analysed =
        ctxs (graphOf S D w) (symsOf S D w w.target) (run S D w).state.analysed := by
      unfold ctxs
      congr 1
      apply filterMap_congr'
      intro n hn
      rw [hlook n hn]
    rw [hctx]
    have hrs : recordsSym (graphOf S D w') S.builtins = recordsSym (graphOf S D w) S.builtins := by
      funext i; exact recordsSym_congr hs _ i
    rw [hrs]
  · unfold readSet
    rw [hrun', ht]
    congr 1
    apply filterMap_congr'
    intro n hn
    unfold originOf
    rw [hlook n hn]

end deps


/-! ### the hashed options -/

/-- **`sorted(set(·))` is a canonical form of the SET of patterns.** -/
theorem C19_canon_eq_iff (a b : List Str) : canon a = canon b ↔ ∀ x, x ∈ a ↔ x ∈ b :=
  canon_eq_iff a b

/-- **What the arguments hash distinguishes.** Two option sets get the same key (hence the same
`arguments_hash`) iff the literal prefix, the follow level, the SET of excluded-import patterns and
the SET of excluded-name patterns are the same. Strings are compared as given: `helpers` and
`Helpers`, `trans` and ` trans`, `trans` and `tran[s]` are different patterns; the order and the
number of repetitions of `-F` / `-x` do not matter. -/
theorem argsKey_eq_iff (p p' : Str) (o o' : RawOpts) :
    argsKey p o = argsKey p' o' ↔
      p = p' ∧ o.follow = o'.follow ∧ (∀ s, s ∈ o.exclImports ↔ s ∈ o'.exclImports) ∧
        (∀ s, s ∈ o.exclNames ↔ s ∈ o'.exclNames) := by
  unfold argsKey
  constructor
  · intro h
    injection h with h1 h2 h3 h4
    exact ⟨h1, h2, (canon_eq_iff _ _).mp h3, (canon_eq_iff _ _).mp h4⟩
  · rintro ⟨h1, h2, h3, h4⟩
    rw [h1, h2, (canon_eq_iff _ _).mpr h3, (canon_eq_iff _ _).mpr h4]

/-- A pattern added, removed or respelled (any list with a different member) changes the key. -/
theorem argsKey_ne_of_pattern (p : Str) (o o' : RawOpts) (s : Str)
    (h : (s ∈ o.exclImports ∧ s ∉ o'.exclImports) ∨ (s ∈ o.exclNames ∧ s ∉ o'.exclNames)) :
    argsKey p o ≠ argsKey p o' := by
  intro he
  obtain ⟨_, _, h3, h4⟩ := (argsKey_eq_iff p p o o').mp he
  rcases h with ⟨h1, h2⟩ | ⟨h1, h2⟩
  · exact h2 ((h3 s).mp h1)
  · exact h2 ((h4 s).mp h1)

/-- [test] letter case, white space and an equivalent regex are changes of the key; order and
repetition are not; the same text in the other field is a change. -/
theorem C19_argsKey_examples :
    argsKey (str "@") ⟨1, [str "helpers"], []⟩ ≠ argsKey (str "@") ⟨1, [str "Helpers"], []⟩ ∧
    argsKey (str "@") ⟨1, [str "trans"], []⟩ ≠ argsKey (str "@") ⟨1, [str " trans"], []⟩ ∧
    argsKey (str "@") ⟨1, [str "trans"], []⟩ ≠ argsKey (str "@") ⟨1, [str "tran[s]"], []⟩ ∧
    argsKey (str "@") ⟨1, [str "leaf"], []⟩ ≠ argsKey (str "@") ⟨1, [], [str "leaf"]⟩ ∧
    argsKey (str "@") ⟨1, [str "b", str "a", str "b"], []⟩ = argsKey (str "@") ⟨1, [str "a", str "b"], []⟩ ∧
    argsKey (str "@") ⟨1, [], []⟩ ≠ argsKey (str "@") ⟨2, [], []⟩ := by decide

section blacklist
variable {ω H : Type}

/-- The exclusion verdict depends only on the SET of patterns … -/
theorem blacklisted_congr (S : Static ω H) (a b : List Str) (h : ∀ x, x ∈ a ↔ x ∈ b) (n : Str) :
    blacklisted S a n = blacklisted S b n := by
  unfold blacklisted
  congr 2
  apply List.any_congr rfl
  intro c
  rw [Bool.eq_iff_iff]
  simp only [List.any_eq_true, List.mem_append]
  constructor
  · rintro ⟨p, hp | hp, hm⟩
    · exact ⟨p, Or.inl ((h p).mp hp), hm⟩
    · exact ⟨p, Or.inr hp, hm⟩
  · rintro ⟨p, hp | hp, hm⟩
    · exact ⟨p, Or.inl ((h p).mpr hp), hm⟩
    · exact ⟨p, Or.inr hp, hm⟩

/-- … so the analysis that reads the canonical patterns out of the key is the analysis of the
patterns as given: whenever the key is unchanged, so is every exclusion verdict. -/
theorem blacklisted_canon (S : Static ω H) (a : List Str) (n : Str) :
    blacklisted S (canon a) n = blacklisted S a n :=
  blacklisted_congr S _ _ (fun _ => mem_canon) n

end blacklist

section optionChange
variable {P H X R : Type} [DecidableEq P] [DecidableEq H]

/-- **A change of the hashed options is a miss.** Whatever is cached under the options `o`, a run
under options with a different follow level, or with a pattern the other set lacks (in whatever
letter case or spelling), re-analyses. -/
theorem C19_option_change_is_a_miss (D : Dir P H) (A : Analysis P H ArgsKey X R)
    (s : State P H ArgsKey X R) (d : Doc P H ArgsKey R) (p : Str) (o o' : RawOpts)
    (hd : s.disk = .valid d) (hk : d.argumentsHash = argsKey p o) (hw : s.world.opts = argsKey p o')
    (hne : o.follow ≠ o'.follow ∨ (∃ t, t ∈ o.exclImports ∧ t ∉ o'.exclImports) ∨
      (∃ t, t ∈ o'.exclImports ∧ t ∉ o.exclImports) ∨ (∃ t, t ∈ o.exclNames ∧ t ∉ o'.exclNames) ∨
      (∃ t, t ∈ o'.exclNames ∧ t ∉ o.exclNames)) :
    (stepG D A s .runWithCache).2 = .missWritten ∨ (stepG D A s .runWithCache).2 = .missFatal := by
  have hkey : d.argumentsHash ≠ s.world.opts := by
    rw [hk, hw]
    intro he
    obtain ⟨_, h2, h3, h4⟩ := (argsKey_eq_iff p p o o').mp he
    rcases hne with h | ⟨t, h1, h2'⟩ | ⟨t, h1, h2'⟩ | ⟨t, h1, h2'⟩ | ⟨t, h1, h2'⟩
    · exact h h2
    · exact h2' ((h3 t).mp h1)
    · exact h2' ((h3 t).mpr h1)
    · exact h2' ((h4 t).mp h1)
    · exact h2' ((h4 t).mpr h1)
  have hg : gate D s.world s.disk = .stale := by
    unfold gate
    rw [hd]
    split
    · have : upToDate D s.world d = false := by
        unfold upToDate
        simp [hkey]
      simp [this]
    · rfl
  rcases stepG_run_cases D A s with ⟨h, _⟩ | ⟨e, h, _⟩ | ⟨_, _, hs⟩ | ⟨_, _, hs⟩
  · rw [hg] at h; cases h
  · rw [hg] at h; cases h
  · right; rw [hs]
  · left; rw [hs]

end optionChange

section depsFinal
variable {ω H X R : Type} [DecidableEq ω] [DecidableEq H]
variable (S : Static ω H) (D : Dir ω H)

/-- What is still assumed about the un-modelled rest of the pipeline: the results depend only on the
target path, the hashed options, the version, the plugins and the content of the files the (modelled)
import follower reads. -/
def FreshFrame (freshP : W ω H X → R) : Prop :=
  ∀ w w' : W ω H X, w'.target = w.target → w'.opts = w.opts → w'.version = w.version →
    w'.plugins = w.plugins →
    (∀ p ∈ readSet S D w, D.isFile p = true → w'.contents p = w.contents p) →
    freshP w' = freshP w

/-- **The frame hypothesis of the modelled dependency computation**, from `FreshFrame` alone. -/
theorem deps_frameOK (hb : BuiltinsUnreadable S = true) (freshP : W ω H X → R)
    (failsP : W ω H X → Bool) (hF : FreshFrame S D freshP) :
    FrameOK D (depsAnalysis S D freshP failsP) where
  frame := by
    intro w w' hf ht ho hv hp hc
    have hd : (run S D w).isDone = true := by
      simp only [depsAnalysis, Bool.or_eq_false_iff, Bool.not_eq_false'] at hf
      exact hf.1
    exact ⟨hF w w' ht ho hv hp hc, (deps_recorded_frame S D w w' hd ht ho hc).2.1⟩
  covers := by
    intro w _ p hp
    exact deps_covers S D hb w p hp

/-- **C19 for the modelled dependency computation, histories that edit any file.** With the import
follower of C12, `make_cacheable_import_info`, `is_in_import_blacklist` / `is_in_pip` and the hashed
option tuple modelled from the code — for every module table, every follow level, every set of
exclusion patterns, whatever `re.fullmatch` and isort answer — and under `FreshFrame` only: starting
from no cache (or a file that is not one), after every sequence of edits of the target and of local,
site-packages or stdlib modules, option changes, runs and forced refreshes, a run with the cache file
never crashes in the gate; a hit means the file on disk is exactly what a from-scratch run would write
now; a miss leaves exactly that on disk unless the analysis is fatal. -/
theorem C19_deps_partial (hb : BuiltinsUnreadable S = true) (freshP : W ω H X → R)
    (failsP : W ω H X → Bool) (hF : FreshFrame S D freshP)
    (s0 : State ω H ArgsKey X R) (ops : List (OpG ω H ArgsKey X))
    (h0 : s0.disk = .absent ∨ s0.disk = .malformed ∨ ∃ e, s0.disk = .crashing e) :
    RunOKG D (depsAnalysis S D freshP failsP)
      (execG D (depsAnalysis S D freshP failsP) s0 ops) :=
  C19G_partial D _ (deps_frameOK S D hb freshP failsP hF) s0 ops h0

end depsFinal

/-! ### A concrete project: one module of each class (tests by kernel evaluation; non-vacuity) -/
namespace ExD

/-- `t.py` imports a local module, a site-packages module, a stdlib module and a builtin one. -/
def S : Static Str Nat :=
  { mods := [⟨str "direct", some (str "/p/direct.py"), true⟩,
             ⟨str "pipmod", some (str "/v/site-packages/pipmod.py"), true⟩,
             ⟨str "smtpd", some (str "/s/smtpd.py"), true⟩,
             ⟨str "sys", some (str "built-in"), false⟩]
    originStr := id
    reMatch := fun p t => decide (p = t)
    isStdlib := fun n => decide (n = str "smtpd") || decide (n = str "sys")
    permanent := [str "rattr"]
    builtins := str "built-in"
    importsOf := fun o _ =>
      if o = str "t.py" then
        [(str "direct", some (str "direct")), (str "pipmod", some (str "pipmod")),
         (str "smtpd", some (str "smtpd")), (str "sys", some (str "sys"))]
      else []
    fuel := 10 }

def D : Dir Str Nat := { isFile := fun p => !decide (p = str "built-in"), emptyHash := 0 }

def w (lvl : Nat) (F : List Str) : W Str Nat Nat :=
  { target := str "t.py", contents := fun _ => 1, opts := argsKey (str "@") ⟨lvl, F, []⟩, other := 0,
    version := 1, plugins := 1 }

example : BuiltinsUnreadable S = true := by decide

/-- [test] which modules are analysed at each level … -/
example :
    (run S D (w 0 [])).state.analysed = [] ∧
    (run S D (w 1 [])).state.analysed = [str "direct"] ∧
    (run S D (w 2 [])).state.analysed = [str "direct", str "pipmod"] ∧
    (run S D (w 2 [str "pipmod"])).state.analysed = [str "direct"] ∧
    (run S D (w 2 [str "Pipmod"])).state.analysed = [str "direct", str "pipmod"] := by decide

/-- … and what is recorded: every import with a file, at every level — more than what is read, never
less (non-vacuity of `deps_covers` with a site-packages module at level 2); an excluded module is
neither read nor recorded; the pattern is case-sensitive. -/
example :
    recorded S D (w 2 []) = [str "/p/direct.py", str "/v/site-packages/pipmod.py", str "/s/smtpd.py"] ∧
    recorded S D (w 0 []) = recorded S D (w 2 []) ∧
    readSet S D (w 2 []) = [str "t.py", str "/p/direct.py", str "/v/site-packages/pipmod.py"] ∧
    recorded S D (w 2 [str "pipmod"]) = [str "/p/direct.py", str "/s/smtpd.py"] ∧
    recorded S D (w 2 [str "Pipmod"]) = recorded S D (w 2 []) ∧
    recorded S D (w 2 [str "/v/site-packages/pipmod.py"]) = [str "/p/direct.py", str "/s/smtpd.py"] ∧
    recorded S D (w 3 [str "smtpd"]) = recorded S D (w 2 []) := by decide

/-- [test] a history at level 2: the site-packages module is edited between two runs sharing the
cache — noticed. -/
example :
    outsG D (depsAnalysis S D (fun w => (readSet S D w).map w.contents) (fun _ => false))
      { world := w 2 [], disk := .absent }
      [.runWithCache, .runWithCache, .edit (str "/v/site-packages/pipmod.py") 9, .runWithCache,
       .runWithCache, .setOptions (argsKey (str "@") ⟨2, [str "Pipmod"], []⟩) 0, .runWithCache,
       .runWithCache] =
    [.missWritten, .hit, .noRun, .missWritten, .hit, .noRun, .missWritten, .hit] := by decide

end ExD

/-! ## Runs on a damaged cache file, strictness, symbolic links (RattrModel/CacheRun.lean) -/

open Rattr.CacheRun

section tieRun
open Rattr.CacheRun

/-- The gate announces each of its three `return False` with `error.info` and the default badness;
the defaults are 0 / 1 / 5; `main` checks the badness after the analysis and before the write;
`is_within_badness_threshold`, `State.badness`, `increment_badness` and the strict clause of
`error.error` read as modelled. -/
theorem tieA_gate_diagnostics :
    Generated.C19.gateDiagnostics = CacheRun.gateDiagnosticsShape ∧
    Generated.C19.errorDefaultBadness = CacheRun.defaultBadnessTable ∧
    Generated.C19.withinShape = CacheRun.withinShape ∧
    Generated.C19.badnessShape = CacheRun.badnessShape ∧
    Generated.C19.incrementShape = CacheRun.incrementShape ∧
    Generated.C19.strictErrorShape = CacheRun.strictErrorShape ∧
    Generated.C19.mainBadnessShape = CacheRun.mainBadnessShape := by
  refine ⟨rfl, by decide, rfl, rfl, rfl, rfl, rfl⟩

/-- `Level.badness` is the generated table of defaults. -/
theorem level_badness_table (l : Level) :
    (l.name, l.badness) ∈ Generated.C19.errorDefaultBadness := by
  cases l <;> decide

/-- `GateLevels.real` is what the generated list of the gate's diagnostics says. -/
theorem gate_levels_real :
    Generated.C19.gateDiagnostics =
      ["if not isfile(target):" ++ GateLevels.real.noTarget.name ++ ":default",
       "if not isfile(cache_filepath):" ++ GateLevels.real.noCache.name ++ ":default",
       "except Exception:" ++ GateLevels.real.malformed.name ++ ":default"] := by decide

end tieRun

section runB
open Rattr.CacheRun
variable {P H O X R : Type} [DecidableEq P] [DecidableEq H] [DecidableEq O]
variable (D : Dir P H) (A : AnalysisB P H O X R)

/-- The gate's own diagnostic costs nothing … -/
theorem gateDiag_real_badness (w : World P H O X) (f : CacheFile P H O R) :
    diagBadness (gateDiag .real D w f) = 0 := by
  unfold gateDiag
  split
  · cases f with
    | absent => rfl
    | malformed => rfl
    | crashing e => simp only; split <;> rfl
    | valid d => rfl
  · rfl

/-- … and is never fatal, whatever the strictness. -/
theorem gateDiag_real_not_fatal (lim : Limit) (w : World P H O X) (f : CacheFile P H O R) :
    diagFatal lim (gateDiag .real D w f) = false := by
  unfold gateDiag
  split
  · cases f with
    | absent => cases lim <;> rfl
    | malformed => cases lim <;> rfl
    | crashing e => simp only; split <;> cases lim <;> rfl
    | valid d => rfl
  · cases lim <;> rfl

/-- **With the levels of the code, a run with a cache file is `stepG` of the analysis whose `fails`
is "import stage fails, or the analysis' own badness exceeds the limit"**: the gate contributes
nothing to the badness, under any strictness option. -/
theorem runB_real (s : State P H O X R) :
    runB .real D A s = stepG D (A.toAnalysis 0) s .runWithCache := by
  unfold runB stepG
  cases hg : gate D s.world s.disk with
  | fresh => rfl
  | crash e => rfl
  | stale =>
    simp only [gateDiag_real_not_fatal, gateDiag_real_badness]
    rfl

theorem refreshB_eq (s : State P H O X R) :
    refreshB D A s = stepG D (A.toAnalysis 0) s .forceRefresh := rfl

theorem gate_damaged (w : World P H O X) (d : Damage) :
    gate D w (d.toFile : CacheFile P H O R) = .stale := by
  cases d with
  | removed => unfold gate Damage.toFile; split <;> rfl
  | notJson => unfold gate Damage.toFile; split <;> rfl
  | raises e => exact gate_crashing D w e

/-- **A run on a damaged cache file behaves exactly like a run without a cache file, under every
strictness setting**: the same outcome — `missWritten` iff the from-scratch run (`plainRunOk`: no
gate at all) succeeds, `missFatal` otherwise — and, when it succeeds, the same document on disk. -/
theorem C19_damaged_as_absent (s : State P H O X R) (d : Damage) :
    (runB .real D A { s with disk := d.toFile }).2 = (runB .real D A { s with disk := .absent }).2 ∧
    (runB .real D A { s with disk := d.toFile }).2 =
      (if plainRunOk A s.world then .missWritten else .missFatal) ∧
    ((runB .real D A { s with disk := d.toFile }).2 = .missWritten →
      (runB .real D A { s with disk := d.toFile }).1 =
        { s with disk := .valid (make D (A.toAnalysis 0) s.world) }) := by
  have hd : ∀ f : CacheFile P H O R, gate D s.world f = .stale →
      runB .real D A { s with disk := f } =
        (if plainRunOk A s.world then
          ({ s with disk := .valid (make D (A.toAnalysis 0) s.world) }, .missWritten)
         else ({ s with disk := f }, .missFatal)) := by
    intro f hf
    rw [runB_real]
    unfold stepG plainRunOk
    simp only [hf, analyse]
    cases (A.toAnalysis 0).fails s.world <;> rfl
  have ha : gate D s.world (.absent : CacheFile P H O R) = .stale := gate_damaged D s.world .removed
  rw [hd _ (gate_damaged D s.world d), hd _ ha]
  cases plainRunOk A s.world <;> simp

/-- **… and the run after it finds a good cache**: the rewritten file is accepted by the very next
run (nothing changed in between), whatever the damage was and whatever the strictness. -/
theorem C19_damaged_then_hit (s : State P H O X R) (d : Damage)
    (hT : D.isFile s.world.target = true) (hok : plainRunOk A s.world = true) :
    (runB .real D A { s with disk := d.toFile }).2 = .missWritten ∧
    runB .real D A (runB .real D A { s with disk := d.toFile }).1 =
      ((runB .real D A { s with disk := d.toFile }).1, .hit) := by
  obtain ⟨_, h2, h3⟩ := C19_damaged_as_absent D A s d
  rw [hok] at h2
  simp only [if_true] at h2
  refine ⟨h2, ?_⟩
  rw [h3 h2, runB_real]
  have hu : Unchanged D (A.toAnalysis 0) s.world s.world := ⟨rfl, rfl, rfl, rfl, rfl, fun _ _ => rfl⟩
  exact C19_hit_complete D (A.toAnalysis 0) ⟨s.world.target, s.world.target⟩
    { s with disk := .valid (make D (A.toAnalysis 0) s.world) } s.world rfl hu hT

/-- Whatever the levels: a run that ends in `fatal` leaves the state (the file on disk) as it was —
so a run that is fatal BECAUSE of the file on disk is fatal again, for ever. -/
theorem runB_missFatal_state (G : GateLevels) (s : State P H O X R)
    (h : (runB G D A s).2 = .missFatal) : (runB G D A s).1 = s := by
  unfold runB at h ⊢
  cases hg : gate D s.world s.disk with
  | fresh => simp [hg] at h
  | crash e => simp [hg] at h
  | stale =>
    simp only [hg] at h ⊢
    split
    · rfl
    · rename_i hnf
      simp only [hnf] at h
      unfold analyse at h ⊢
      split
      · rfl
      · rename_i hnf2
        simp [hnf2] at h

theorem runB_stuck (G : GateLevels) (s : State P H O X R)
    (h : (runB G D A s).2 = .missFatal) (n : Nat) :
    ∀ fs : LinkFs P H, outsX G D A { fs := fs, st := s } (List.replicate n .runWithCache) =
      List.replicate n .missFatal := by
  induction n with
  | zero => intro fs; rfl
  | succ k ih =>
    intro fs
    simp only [List.replicate_succ, outsX, stepX]
    rw [h, runB_missFatal_state D A G s h]
    exact congrArg _ (ih fs)

end runB

section machineX
open Rattr.CacheRun
variable {P H O X R : Type} [DecidableEq P] [DecidableEq H] [DecidableEq O]
variable (D : Dir P H) (A : AnalysisB P H O X R)

theorem stepX_inv (lw : Option (World P H O X)) (s : StateX P H O X R) (o : OpX P H O X)
    (h : DiskInvG D (A.toAnalysis 0) true lw s.st.disk) :
    DiskInvG D (A.toAnalysis 0) true
      (if (stepX .real D A s o).2 = .missWritten then some s.st.world else lw)
      (stepX .real D A s o).1.st.disk := by
  cases o with
  | write q c => simpa [stepX, StateX.withFs] using h
  | relink ps => simpa [stepX, StateX.withFs] using h
  | setOptions o x => simpa [stepX] using h
  | damage d =>
    obtain ⟨_, hk⟩ := h
    refine ⟨?_, by simpa [stepX] using hk⟩
    cases d with
    | removed => exact Or.inl rfl
    | notJson => exact Or.inr (Or.inl rfl)
    | raises e => exact Or.inr (Or.inr (Or.inl ⟨rfl, e, rfl⟩))
  | runWithCache =>
    simp only [stepX, runB_real]
    exact stepG_inv D (A.toAnalysis 0) true lw s.st .runWithCache h
  | forceRefresh =>
    simp only [stepX, refreshB_eq]
    exact stepG_inv D (A.toAnalysis 0) true lw s.st .forceRefresh h

/-- **History invariant with links, damage and strictness**: after any sequence of in-place edits
(seen through every link), re-pointed links, option changes (hashed or not, strictness included),
damage to the cache file, runs and forced refreshes, the file on disk is absent, not a document, or
the document of the last run that wrote it. -/
theorem C19X_history (ops : List (OpX P H O X)) :
    ∀ (lw : Option (World P H O X)) (s : StateX P H O X R),
      DiskInvG D (A.toAnalysis 0) true lw s.st.disk →
      DiskInvG D (A.toAnalysis 0) true (lastWrittenX .real D A lw s ops)
        (execX .real D A s ops).st.disk := by
  induction ops with
  | nil => intro lw s h; exact h
  | cons o os ih =>
    intro lw s h
    simp only [lastWrittenX, execX]
    exact ih _ _ (stepX_inv D A lw s o h)

/-- **Hit soundness over these histories.** -/
theorem C19X_hit_sound (lw : Option (World P H O X)) (s0 : StateX P H O X R)
    (ops : List (OpX P H O X)) (h0 : DiskInvG D (A.toAnalysis 0) true lw s0.st.disk)
    (hit : (stepX .real D A (execX .real D A s0 ops) .runWithCache).2 = .hit) :
    ∃ wk, lastWrittenX .real D A lw s0 ops = some wk ∧ (A.toAnalysis 0).fails wk = false ∧
      (execX .real D A s0 ops).st.disk = .valid (make D (A.toAnalysis 0) wk) ∧
      Unchanged D (A.toAnalysis 0) wk (execX .real D A s0 ops).st.world ∧
      (FrameOK D (A.toAnalysis 0) →
        (execX .real D A s0 ops).st.disk =
          .valid (make D (A.toAnalysis 0) (execX .real D A s0 ops).st.world) ∧
        (make D (A.toAnalysis 0) wk).results = A.fresh (execX .real D A s0 ops).st.world) := by
  obtain ⟨hinv, hk⟩ := C19X_history D A ops lw s0 h0
  simp only [stepX, runB_real] at hit
  have hit' : (step D (A.toAnalysis 0)
      ⟨(execX .real D A s0 ops).st.world.target, (execX .real D A s0 ops).st.world.target⟩
      (execX .real D A s0 ops).st .runWithCache).2 = .hit := hit
  obtain ⟨wk, hlw, hd, hu, _⟩ := hit_unchanged D (A.toAnalysis 0) _ true _ _ hinv hit'
  refine ⟨wk, hlw, hk wk hlw, hd, hu, ?_⟩
  intro F
  have := make_eq_of_unchanged_ok D (A.toAnalysis 0) F wk _ (hk wk hlw) hu
  refine ⟨by rw [hd, this], ?_⟩
  rw [← this]
  rfl

/-- What C19 demands of one run with a cache file, strictness included in `fails`. -/
def RunOKX (s : StateX P H O X R) : Prop :=
  match (stepX .real D A s .runWithCache).2 with
  | .hit => s.st.disk = .valid (make D (A.toAnalysis 0) s.st.world)
  | .missWritten =>
    (stepX .real D A s .runWithCache).1.st.disk = .valid (make D (A.toAnalysis 0) s.st.world)
  | .missFatal => plainRunOk A s.st.world = false
  | .crash _ => False
  | .noRun => False

/-- **C19, the part that holds, with links, damage and strictness.** From no cache (or a file that is
not one), after every such history: no traceback; a hit means the file on disk is what a
from-scratch run would write now; a miss leaves exactly that on disk unless the from-scratch run
itself is fatal (import stage, or the analysis' own badness over the limit) — in particular a
damaged file never makes a run fail that would succeed without it. -/
theorem C19X_partial (F : FrameOK D (A.toAnalysis 0)) (s0 : StateX P H O X R)
    (ops : List (OpX P H O X))
    (h0 : s0.st.disk = .absent ∨ s0.st.disk = .malformed ∨ ∃ e, s0.st.disk = .crashing e) :
    RunOKX D A (execX .real D A s0 ops) := by
  unfold RunOKX
  have hstep : (stepX .real D A (execX .real D A s0 ops) .runWithCache) =
      ({ execX .real D A s0 ops with
          st := (stepG D (A.toAnalysis 0) (execX .real D A s0 ops).st .runWithCache).1 },
        (stepG D (A.toAnalysis 0) (execX .real D A s0 ops).st .runWithCache).2) := by
    simp only [stepX, runB_real]
  rcases stepG_run_cases D (A.toAnalysis 0) (execX .real D A s0 ops).st with
    ⟨_, hs⟩ | ⟨e, hg, hs⟩ | ⟨_, hf, hs⟩ | ⟨_, _, hs⟩
  · have hit : (stepX .real D A (execX .real D A s0 ops) .runWithCache).2 = .hit := by
      rw [hstep, hs]
    obtain ⟨wk, _, _, _, _, hF⟩ :=
      C19X_hit_sound D A none s0 ops (diskInvG_init D (A.toAnalysis 0) s0.st h0) hit
    rw [hit]
    exact (hF F).1
  · exact absurd hg (gate_no_crash D _ _ e)
  · rw [hstep, hs]
    simp only [plainRunOk, hf, Bool.not_true]
  · rw [hstep, hs]

/-- **A change behind a link is noticed.** If the cache on disk was written in world `wk`, and the
content now read THROUGH a recorded origin `p` (a link that was re-pointed, or a link whose target was
edited in place — `world.contents` is `LinkFs.view`) differs from the content at write time, the run
is not a hit. -/
theorem C19X_change_behind_link_is_a_miss (s : StateX P H O X R) (wk : World P H O X)
    (hd : s.st.disk = .valid (make D (A.toAnalysis 0) wk)) (p : P)
    (hp : p ∈ A.recorded wk) (hf : D.isFile p = true)
    (hne : s.st.world.contents p ≠ wk.contents p) :
    (stepX .real D A s .runWithCache).2 ≠ .hit := by
  intro hit
  simp only [stepX, runB_real] at hit
  have hinv : DiskInv D (A.toAnalysis 0) true (some wk) s.st.disk :=
    Or.inr (Or.inr (Or.inr ⟨wk, rfl, hd⟩))
  have hit' : (step D (A.toAnalysis 0) ⟨s.st.world.target, s.st.world.target⟩ s.st
      .runWithCache).2 = .hit := hit
  obtain ⟨wk', hlw, _, hu, _⟩ := hit_unchanged D (A.toAnalysis 0) _ true _ _ hinv hit'
  cases hlw
  have := hu.2.2.2.2.2 p hp
  unfold hashFile at this
  simp only [hf, if_true] at this
  exact hne this.symm

/-- A re-pointed link changes what is read through it (and nothing else). -/
theorem view_relink (fs : LinkFs P H) (ps : List (P × P)) (p q : P) (h : lookupP p ps = some q) :
    (fs.relink ps).view p = fs.files q := by
  simp [LinkFs.view, LinkFs.relink, h]

theorem view_relink_other (fs : LinkFs P H) (ps : List (P × P)) (p : P) (h : lookupP p ps = none) :
    (fs.relink ps).view p = fs.view p := by
  simp [LinkFs.view, LinkFs.relink, h]

/-- An in-place edit of a real file is seen through every path that leads to it. -/
theorem view_write (fs : LinkFs P H) (q : P) (c : H) (p : P) :
    (fs.write q c).view p = if fs.resolve p = q then c else fs.view p := by
  simp [LinkFs.view, LinkFs.write]

end machineX

section depsX
open Rattr.CacheRun
variable {ω H X R : Type} [DecidableEq ω] [DecidableEq H]
variable (S : Static ω H) (D : Dir ω H)

theorem depsAnalysisB_toAnalysis (freshP : W ω H X → R) (badnessP : W ω H X → Nat)
    (limitP : X → Limit) :
    (depsAnalysisB S D freshP badnessP limitP).toAnalysis 0 =
      depsAnalysis S D freshP (fun w => !within (0 + badnessP w) (limitP w.other)) := rfl

/-- **C19 for the modelled dependency computation over histories with links, damage and
strictness**, under `FreshFrame` only. -/
theorem C19X_deps_partial (hb : BuiltinsUnreadable S = true) (freshP : W ω H X → R)
    (badnessP : W ω H X → Nat) (limitP : X → Limit) (hF : FreshFrame S D freshP)
    (s0 : StateX ω H ArgsKey X R) (ops : List (OpX ω H ArgsKey X))
    (h0 : s0.st.disk = .absent ∨ s0.st.disk = .malformed ∨ ∃ e, s0.st.disk = .crashing e) :
    RunOKX D (depsAnalysisB S D freshP badnessP limitP)
      (execX .real D (depsAnalysisB S D freshP badnessP limitP) s0 ops) := by
  apply C19X_partial D _ _ s0 ops h0
  rw [depsAnalysisB_toAnalysis]
  exact deps_frameOK S D hb freshP _ hF

/-- The code looks at the context of EVERY analysed module (`keep = fun _ => true`). -/
theorem recordedKeep_all (w : W ω H X) : recordedKeep (fun _ => true) S D w = recorded S D w := by
  unfold recordedKeep recorded
  congr 1
  exact List.filter_eq_self.mpr (fun _ _ => rfl)

end depsX

/-! ### Concrete instances: strictness × damage, links, modules without definitions -/
namespace ExX
open Rattr.CacheRun

def D : Dir Nat Nat := { isFile := fun _ => true, emptyHash := 0 }

/-- Target `0` imports the module at path `5`; results = what is read there; the analysis' own
badness is the un-hashed option's first component, the limit its second. -/
def A (b : Nat) (lim : Limit) : AnalysisB Nat Nat Nat Nat (List Nat) :=
  { fresh := fun w => [w.contents w.target, w.contents 5]
    recorded := fun _ => [5]
    readSet := fun w => [w.target, 5]
    stageFails := fun _ => false
    badness := fun _ => b
    limit := fun _ => lim }

/-- `5` is a symbolic link to the regular file `10` (it can be re-pointed to `11`). -/
def fs0 : LinkFs Nat Nat :=
  { files := fun p => if p = 10 then 100 else if p = 11 then 110 else p
    resolve := fun p => if p = 5 then 10 else p }

def s0 : StateX Nat Nat Nat Nat (List Nat) :=
  { fs := fs0
    st := { world := { target := 0, contents := fs0.view, opts := 1, other := 0, version := 1, plugins := 1 }
            disk := .absent } }

def warn : GateLevels := { GateLevels.real with malformed := .warning }

/-- [test] a clean target under `--strict`, and a target of badness 2 under `--threshold 2`: the cache
file is damaged between two runs — re-analysed, rewritten, then a hit; under `--threshold 1` the
second target is fatal with or without the file. -/
example :
    outsX .real D (A 0 .strict) s0
      [.runWithCache, .damage .notJson, .runWithCache, .runWithCache,
       .damage (.raises .typeError), .runWithCache, .damage .removed, .runWithCache, .runWithCache] =
      [.missWritten, .noRun, .missWritten, .hit, .noRun, .missWritten, .noRun, .missWritten, .hit] ∧
    outsX .real D (A 2 (.threshold 2)) s0 [.runWithCache, .damage .notJson, .runWithCache, .runWithCache] =
      [.missWritten, .noRun, .missWritten, .hit] ∧
    outsX .real D (A 2 (.threshold 1)) s0 [.runWithCache, .damage .notJson, .runWithCache] =
      [.missFatal, .noRun, .missFatal] ∧
    plainRunOk (A 2 (.threshold 1)) s0.st.world = false ∧
    plainRunOk (A 2 (.threshold 2)) s0.st.world = true := by decide

/-- [test] links: re-pointing the link, and editing the link's target in place, are both noticed; an
edit of the file the link no longer points to is not a change. -/
example :
    outsX .real D (A 0 .strict) s0
      [.runWithCache, .runWithCache, .relink [(5, 11)], .runWithCache, .runWithCache,
       .write 11 7, .runWithCache, .runWithCache, .write 10 8, .runWithCache,
       .relink [(5, 10)], .runWithCache] =
      [.missWritten, .hit, .noRun, .missWritten, .hit, .noRun, .missWritten, .hit, .noRun, .hit,
       .noRun, .missWritten] := by decide

end ExX

/-- The frame hypothesis holds for the example analysis (non-vacuity of `C19X_partial`). -/
theorem ExX_frameOK (b : Nat) (lim : Limit) : FrameOK ExX.D ((ExX.A b lim).toAnalysis 0) where
  frame := by
    intro w w' _ ht _ _ _ hc
    refine ⟨?_, rfl⟩
    have h5 := hc 5 (by simp [AnalysisB.toAnalysis, ExX.A]) rfl
    have ht' := hc w.target (by simp [AnalysisB.toAnalysis, ExX.A])
    show [w'.contents w'.target, w'.contents 5] = [w.contents w.target, w.contents 5]
    rw [ht, h5]
    rw [ht' rfl]
  covers := by
    intro w _ p hp
    simp only [AnalysisB.toAnalysis, ExX.A, List.mem_cons, List.not_mem_nil, or_false] at hp ⊢
    rcases hp with rfl | rfl
    · exact Or.inl rfl
    · exact Or.inr rfl

/-- [non-vacuity] `C19X_partial` applies to the example: after a history with a re-pointed link, an
edit through it, damage and a strictness change, the run satisfies `RunOKX`. -/
example : RunOKX ExX.D (ExX.A 2 (.threshold 2))
    (execX .real ExX.D (ExX.A 2 (.threshold 2)) ExX.s0
      [.runWithCache, .relink [(5, 11)], .runWithCache, .write 11 3, .damage .notJson, .setOptions 1 7]) :=
  C19X_partial ExX.D _ (ExX_frameOK 2 (.threshold 2)) ExX.s0 _ (Or.inl rfl)

/-- **Counterexample class (seeded change, NOT the code): a diagnostic of positive badness on the
malformed-file path.** With `error.warning` there, a damaged cache file makes the `--strict` run of a
clean target — and the `--threshold 2` run of a target of badness 2 — fatal, the file is never
rewritten and every later run fails the same way, while the run without a cache file succeeds. -/
theorem C19_cex_malformed_warning :
    outsX ExX.warn ExX.D (ExX.A 0 .strict) ExX.s0
      [.runWithCache, .damage .notJson, .runWithCache, .runWithCache, .runWithCache] =
      [.missWritten, .noRun, .missFatal, .missFatal, .missFatal] ∧
    outsX ExX.warn ExX.D (ExX.A 2 (.threshold 2)) ExX.s0
      [.runWithCache, .damage (.raises .classValidation), .runWithCache, .runWithCache] =
      [.missWritten, .noRun, .missFatal, .missFatal] ∧
    CacheRun.plainRunOk (ExX.A 0 .strict) ExX.s0.st.world = true ∧
    CacheRun.plainRunOk (ExX.A 2 (.threshold 2)) ExX.s0.st.world = true ∧
    -- the missing-file path is untouched: first runs are fine
    outsX ExX.warn ExX.D (ExX.A 0 .strict) ExX.s0 [.damage .removed, .runWithCache, .runWithCache] =
      [.noRun, .missWritten, .hit] := by decide

/-- The same class with `error.error`: fatal inside the gate under `--strict`. -/
theorem C19_cex_malformed_error :
    outsX { CacheRun.GateLevels.real with malformed := .error } ExX.D (ExX.A 0 .strict) ExX.s0
      [.runWithCache, .damage .notJson, .runWithCache, .runWithCache] =
      [.missWritten, .noRun, .missFatal, .missFatal] := by decide

namespace ExX

/-- `make_cacheable_results` recording the RESOLVED path of each origin (NOT the code). -/
def makeResolved (fs : LinkFs Nat Nat) (w : World Nat Nat Nat Nat) : Doc Nat Nat Nat (List Nat) :=
  { make D ((A 0 .strict).toAnalysis 0) w with
    imports := (((A 0 .strict).toAnalysis 0).recorded w).map (fun p => (fs.resolve p, hashFile D w p)) }

def w1 : World Nat Nat Nat Nat := { s0.st.world with contents := (fs0.relink [(5, 11)]).view }

end ExX

/-- **Counterexample class (seeded change, NOT the code): the cache records the resolved path of a
module file that is a symbolic link.** After the link is re-pointed the recorded file is unchanged, the
gate answers "up-to-date", and a from-scratch run gives other results; the document the code writes
(origin as found on the search path) is stale. -/
theorem C19_cex_resolved_origin :
    gate ExX.D ExX.w1 (.valid (ExX.makeResolved ExX.fs0 ExX.s0.st.world)) = .fresh ∧
    (ExX.makeResolved ExX.fs0 ExX.s0.st.world).results ≠ (ExX.A 0 .strict).fresh ExX.w1 ∧
    gate ExX.D ExX.w1
      (.valid (make ExX.D ((ExX.A 0 .strict).toAnalysis 0) ExX.s0.st.world)) = .stale := by decide

namespace ExP

/-- `t.py: from pkg import thing`, `pkg/__init__.py: from pkg.impl import thing` (no function or
class of its own), `pkg/impl.py: def thing …`. -/
def S : Static Str Nat :=
  { mods := [⟨str "pkg", some (str "pkg/__init__.py"), true⟩,
             ⟨str "pkg.impl", some (str "pkg/impl.py"), true⟩]
    originStr := id
    reMatch := fun p t => decide (p = t)
    isStdlib := fun _ => false
    permanent := [str "rattr"]
    builtins := str "built-in"
    importsOf := fun o _ =>
      if o = str "t.py" then [(str "pkg", some (str "pkg"))]
      else if o = str "pkg/__init__.py" then [(str "pkg.impl", some (str "pkg.impl"))]
      else []
    fuel := 10 }

def D : Dir Str Nat := { isFile := fun _ => true, emptyHash := 0 }

def w : W Str Nat Nat :=
  { target := str "t.py", contents := fun _ => 1, opts := argsKey (str "@") ⟨1, [], []⟩, other := 0,
    version := 1, plugins := 1 }

/-- [test] the package is followed through its `__init__`, both files are read and recorded; a
pattern matching the ORIGIN of the package excludes the sub-module too (`derive_module_names_right`). -/
example :
    (run S D w).state.analysed = [str "pkg", str "pkg.impl"] ∧
    readSet S D w = [str "t.py", str "pkg/__init__.py", str "pkg/impl.py"] ∧
    recorded S D w = [str "pkg/__init__.py", str "pkg/impl.py"] ∧
    blacklisted S [str "pkg/__init__.py"] (str "pkg.impl") = true ∧
    blacklisted S [str "pkg"] (str "pkg.impl") = false := by decide

end ExP

/-- **Counterexample class (seeded change, NOT the code): the context of a module without a function
or class of its own is left out** (its `FileIr` is an empty mapping, hence falsy). The module reached
only through it is read but not recorded: `deps_covers` fails for that variant. -/
theorem C19_cex_defless_context_skipped :
    str "pkg/impl.py" ∈ readSet ExP.S ExP.D ExP.w ∧
    str "pkg/impl.py" ∉ CacheRun.recordedKeep (fun n => n != str "pkg") ExP.S ExP.D ExP.w ∧
    str "pkg/impl.py" ∈ recorded ExP.S ExP.D ExP.w := by decide

end Rattr.C19

/-
  C10 — names follow the documented nameable format, compositionally and totally.

  Model: `Naming.namesOf unravel safe` (= `rattr.ast.util.names_of`, with
         `get_python_attr_access_fn_obj_attr_pair` = `pairOf`) and `Naming.oldNames safe`
         (= `rattr.analyser.util.get_basename_fullname_pair`, with `get_xattr_obj_name_pair` =
         `xattrPair`)                                                RattrModel/Naming.lean
  Spec:  `Spec.spell`, `Spec.base` (the README "Nameables Format" table)   RattrModel/Spec/Spell.lean

  The full statement `C10_full` — (a) every successful naming is the README (base, spelling),
  (b) the two namers agree, (c) safe naming never raises or exits — is NOT a theorem of the pinned
  code (`C10_full_false`); each refuting class has a `C10_cex_*` theorem, is replayed on the
  implementation by py/props/c10.py and is listed in known_findings.json.

  Proved for ALL expression trees (structural recursion over the nested inductive `Expr`; any node
  kinds via `other`, any depth, any arguments):
    * `C10_eq_name/attr/sub/starred/call/standin` — the five compositional equations and the
      stand-in, both namers, failures included;
    * `C10_compositional`, `C10_compositional_strict` — on getattr-family-free expressions both
      namers return exactly `(Spec.base e, Spec.spell e)` (safe; and strict when the innermost node
      is a variable);
    * `C10_total_iff`, `C10_total_partial` — `names_of` succeeds exactly on the decidable fragment
      `okFor`;
    * `C10_agree_partial` — on the decidable fragment `agreeOK` both namers return the same outcome
      (same value, same exit site, same exception class), for both values of `safe`;
    * `C10_xattr`, `C10_xattr_spec` — nested literal getattr-family calls spell as the dotted
      access, for every builtin of the family, every nesting depth, every strictly nameable object.
  [interp] the base name of a getattr-family spelling is demanded to be the object's base
  (`Spec.base`); the code returns the builtin's name — recorded as `C10_cex_xattr_base`.

  The CONSUMERS of the namers (section `Consumers`, the property is about names "wherever rattr
  reports them"):
    * `tieA_consumer_sites` — the references to namers in the source = `NamingSites.sites`;
    * `toExpr`, `node_names_spec` — the `Node`-level namers the function-analyser model calls return
      `(Spec.base, Spec.spell)` of the projection (safe; strict when variable-based);
    * `C10_site_access / classAssign / lambdaAssign / namedtupleAssign / argNames / kwargNames /
      unravel / call / returnClass`, `C10_obs_walrus_positional` — which of (base, spelling) the
      visitor records where, for all targets / arguments / calls of the getattr-family-free fragment;
    * `C10_cex_call_on_call_collapsed / receiver_prefix_base / xattr_lhs_base / sorted_unbound_base`
      — what the string operations downstream of the namers do to a documented spelling.

  The getattr family THROUGH A CALLER (the base of the accessed name is what parameter → argument
  substitution keys on; Tie B: ops `analyse_fn` and `pipeline`, py/props/c10callers.py):
    * `C10_dynBase_spell`, `C10_dynBase_dotted` — for every access chain over a variable the base
      `get_dynamic_name` derives from the spelled string is the documented base (string lemmas in
      RattrProofs/Lemmas/C10Strs.lean), also under any nesting of literal names;
    * `C10_xattr_pair_chain`, `dynamicName_ok`, `C10_site_xattr_full`, `C10_site_xattr_visit` — the
      visitor records `Name(<documented spelling>.k, <documented base>)` in gets / sets / dels;
    * `C10_spell_substBase`, `C10_xattr_through_caller` — unbinding with the argument's spelling gives
      the documented spelling of the object with the ARGUMENT in place of the parameter;
    * `C10_caller_leak`, `C10_cex_shared_helper_keeps_brackets`, `C10_obs_lhs_default_base` — a base
      that is no parameter (`p[]`) is not substituted; which dotted prefixes deviate on the pinned code.

  Round 4 (every consumer that names with safe=True, for EVERY expression class; argument slots by
  position and by keyword alike — Tie B: ops `analyse_fn`, `pipeline` on the new probe classes of
  py/props/c10sites.py):
    * `C10_site_baseNames`, `C10_site_baseNames_total` — `base_names` (analyser/cls.py; model
      `FileA.baseNames`) hands the class analyser the documented spelling of every base, in order, and
      never ends the analysis, whatever expression a base is; `C10_obs_base_strict_raises` — the same
      consumer with strict naming raises on an unnameable base (what `safe=True` is there for);
    * `C10_site_xattrArg`, `C10_site_argName_xattr`, `C10_site_kwargName_xattr` — a DIRECT literal
      getattr-family call in an argument slot is spelled as the dotted access `O.k`, the same string by
      position and by keyword (`C10_site_arg_kwarg_agree`).
-/
import RattrModel.Naming
import RattrModel.Spec.Spell
import RattrModel.Generated.C10
import RattrModel.NamingSites
import RattrModel.FnAnalyser
import RattrModel.FileAnalyser
import RattrProofs.Lemmas.Visit
import RattrProofs.Lemmas.C10Strs

namespace Rattr.C10
open Rattr Rattr.Naming

/-! ### Tie A: the constants the model hard-codes are what the source says now -/

theorem tieA_prefix : Generated.C10.literalPrefix = Naming.literalPrefix := by decide
theorem tieA_builtins : Generated.C10.attrAccessBuiltins = Naming.attrAccessBuiltins := by decide
theorem tieA_node_with_name : Generated.C10.astNodeWithName = Naming.astNodeWithName := by decide
theorem tieA_literals : Generated.C10.astLiterals = Naming.astLiterals := by decide
theorem tieA_comprehensions : Generated.C10.astComprehensions = Naming.astComprehensions := by decide

/-- Tie A for the consumers: the references to the namers found in the source of the repo under
test (file, scope, namer, ordinal, consuming statement) are exactly the rows of the model's table
`NamingSites.sites`. A new call site, a vanished one or a rewritten consuming statement breaks
this obligation. -/
theorem tieA_consumer_sites : Generated.C10.consumerSites = NamingSites.keys := by rfl

/-- The leftmost leaf of the func/value spine: the identifier, or the `@Kind` stand-in. This is the
base name both namers return whenever they succeed (`namesOf_base`, `oldNames_base`). -/
def plainBase : Expr → Str
  | .name x => x
  | .attr e _ => plainBase e
  | .sub e => plainBase e
  | .starred e => plainBase e
  | .call f _ => plainBase f
  | .strConst _ => literalPrefix ++ kConstant
  | .other k => literalPrefix ++ k

theorem mapFull_ok {o : Out} {g : Str → Str} {b l : Str} (h : o.mapFull g = .ok b l) :
    ∃ l', o = .ok b l' ∧ l = g l' := by
  cases o with
  | ok b' l' => simp [Out.mapFull] at h; exact ⟨l', by simp [h.1], h.2.symm⟩
  | fatal w => simp [Out.mapFull] at h
  | raised x => simp [Out.mapFull] at h

theorem unnameable_ok {s : Bool} {k b l : Str} (h : unnameable s k = .ok b l) :
    s = true ∧ b = literalPrefix ++ k ∧ l = literalPrefix ++ k := by
  cases s <;> simp [unnameable] at h ⊢
  exact ⟨h.1.symm, h.2.symm⟩

theorem namesOf_base : ∀ (e : Expr) (u s : Bool) (b l : Str),
    Naming.namesOf u s e = .ok b l → b = plainBase e
  | .name x, u, s, b, l, h => by
    simp [Naming.namesOf] at h
    simp [plainBase, h.1]
  | .attr e a, u, s, b, l, h => by
    simp only [Naming.namesOf] at h
    obtain ⟨l', h', _⟩ := mapFull_ok h
    simpa [plainBase] using namesOf_base e true s b l' h'
  | .sub e, u, s, b, l, h => by
    simp only [Naming.namesOf] at h
    obtain ⟨l', h', _⟩ := mapFull_ok h
    simpa [plainBase] using namesOf_base e true s b l' h'
  | .starred e, u, s, b, l, h => by
    simp only [Naming.namesOf] at h
    obtain ⟨l', h', _⟩ := mapFull_ok h
    simpa [plainBase] using namesOf_base e true s b l' h'
  | .call f args, u, s, b, l, h => by
    simp only [Naming.namesOf] at h
    cases h' : Naming.namesOf true s f with
    | ok b' l' =>
      have ih := namesOf_base f true s b' l' h'
      rw [h'] at h
      simp only at h
      split at h
      · split at h
        · simp at h; simp [plainBase, ← h.1, ih]
        · rename_i o hne
          cases o <;> simp_all
      · simp at h; simp [plainBase, ← h.1, ih]
    | fatal w => rw [h'] at h; simp at h
    | raised x => rw [h'] at h; simp at h
  | .strConst _, u, s, b, l, h => by
    simp only [Naming.namesOf] at h
    simp [plainBase, (unnameable_ok h).2.1]
  | .other k, u, s, b, l, h => by
    simp only [Naming.namesOf] at h
    simp [plainBase, (unnameable_ok h).2.1]


theorem oldNames_base : ∀ (e : Expr) (s : Bool) (b l : Str),
    Naming.oldNames s e = .ok b l → b = plainBase e
  | .name x, s, b, l, h => by
    simp [Naming.oldNames] at h
    simp [plainBase, h.1]
  | .attr e a, s, b, l, h => by
    simp only [Naming.oldNames] at h
    obtain ⟨l', h', _⟩ := mapFull_ok h
    simpa [plainBase] using oldNames_base e s b l' h'
  | .sub e, s, b, l, h => by
    simp only [Naming.oldNames] at h
    obtain ⟨l', h', _⟩ := mapFull_ok h
    simpa [plainBase] using oldNames_base e s b l' h'
  | .starred e, s, b, l, h => by
    simp only [Naming.oldNames] at h
    obtain ⟨l', h', _⟩ := mapFull_ok h
    simpa [plainBase] using oldNames_base e s b l' h'
  | .call f args, s, b, l, h => by
    simp only [Naming.oldNames] at h
    cases h' : Naming.oldNames s f with
    | ok b' l' =>
      have ih := oldNames_base f s b' l' h'
      rw [h'] at h
      simp only at h
      split at h
      · split at h
        · simp at h; simp [plainBase, ← h.1, ih]
        · rename_i o hne
          cases o <;> simp_all
      · simp at h; simp [plainBase, ← h.1, ih]
    | fatal w => rw [h'] at h; simp at h
    | raised x => rw [h'] at h; simp at h
  | .strConst _, s, b, l, h => by
    simp only [Naming.oldNames] at h
    simp [plainBase, (unnameable_ok h).2.1]
  | .other k, s, b, l, h => by
    simp only [Naming.oldNames] at h
    simp [plainBase, (unnameable_ok h).2.1]

/-! ### The five compositional equations + the stand-in, for ALL expressions (both namers) -/

/-- `x` is `x`. -/
theorem C10_eq_name (u s : Bool) (x : Str) :
    Naming.namesOf u s (.name x) = .ok x x ∧ Naming.oldNames s (.name x) = .ok x x := by
  simp [Naming.namesOf, Naming.oldNames]

/-- `e.a` is `E.a`: whatever `e` is, success or failure. -/
theorem C10_eq_attr (u s : Bool) (e : Expr) (a : Str) :
    Naming.namesOf u s (.attr e a) = (Naming.namesOf true s e).mapFull (· ++ dot ++ a)
    ∧ Naming.oldNames s (.attr e a) = (Naming.oldNames s e).mapFull (· ++ dot ++ a) := by
  simp [Naming.namesOf, Naming.oldNames]

/-- `e[i]` is `E[]`. -/
theorem C10_eq_sub (u s : Bool) (e : Expr) :
    Naming.namesOf u s (.sub e) = (Naming.namesOf true s e).mapFull (· ++ brackets)
    ∧ Naming.oldNames s (.sub e) = (Naming.oldNames s e).mapFull (· ++ brackets) := by
  simp [Naming.namesOf, Naming.oldNames]

/-- `*e` is `*E`. -/
theorem C10_eq_starred (u s : Bool) (e : Expr) :
    Naming.namesOf u s (.starred e) = (Naming.namesOf true s e).mapFull (star ++ ·)
    ∧ Naming.oldNames s (.starred e) = (Naming.oldNames s e).mapFull (star ++ ·) := by
  simp [Naming.namesOf, Naming.oldNames]

/-- `e(...)` is `E()` unless the base name of `e` is one of the four getattr-family builtins. -/
theorem C10_eq_call (u s : Bool) (f : Expr) (args : List Expr)
    (h : isXattr (plainBase f) = false) :
    Naming.namesOf u s (.call f args) = (Naming.namesOf true s f).mapFull (· ++ parens)
    ∧ Naming.oldNames s (.call f args) = (Naming.oldNames s f).mapFull (· ++ parens) := by
  constructor
  · simp only [Naming.namesOf]
    cases h' : Naming.namesOf true s f with
    | ok b l =>
      have := namesOf_base f true s b l h'
      simp [Out.mapFull, this, h]
    | fatal w => simp [Out.mapFull]
    | raised x => simp [Out.mapFull]
  · simp only [Naming.oldNames]
    have hd : isDirectXattr f = false := by
      cases f <;> simp_all [isDirectXattr, plainBase]
    cases h' : Naming.oldNames s f with
    | ok b l => simp [Out.mapFull, hd]
    | fatal w => simp [Out.mapFull]
    | raised x => simp [Out.mapFull]

/-- An expression with no name is `@` followed by its AST node type (safe naming). -/
theorem C10_eq_standin (u : Bool) (k : Str) :
    Naming.namesOf u true (.other k) = .ok ('@' :: k) ('@' :: k)
    ∧ Naming.oldNames true (.other k) = .ok ('@' :: k) ('@' :: k) := by
  simp [Naming.namesOf, Naming.oldNames, unnameable, literalPrefix]


/-! ### (a) on the getattr-family-free fragment: both namers equal the README spelling -/

/-- No call on the spine has a getattr-family base name (arguments are unrestricted). -/
def xattrFree : Expr → Bool
  | .name _ => true
  | .attr e _ => xattrFree e
  | .sub e => xattrFree e
  | .starred e => xattrFree e
  | .call f _ => xattrFree f && !isXattr (plainBase f)
  | .strConst _ => true
  | .other _ => true

theorem isXattr_false_iff (g : Str) :
    isXattr g = false ↔
      g ∉ [['d','e','l','a','t','t','r'], ['g','e','t','a','t','t','r'],
           ['h','a','s','a','t','t','r'], ['s','e','t','a','t','t','r']] := by
  simp [isXattr, attrAccessBuiltins]

/-- On a call whose function is not a direct getattr-family name the README reads `E()`. -/
theorem spec_call_plain (f : Expr) (args : List Expr)
    (h : ∀ g, f = .name g → isXattr g = false) :
    Spec.spell (.call f args) = Spec.spell f ++ parens ∧ Spec.base (.call f args) = Spec.base f := by
  cases f with
  | name g =>
    have hg := (isXattr_false_iff g).1 (h g rfl)
    match args with
    | [] => simp [Spec.spell, Spec.base, parens]
    | [_] => simp [Spec.spell, Spec.base, parens]
    | _ :: nm :: _ =>
      cases nm <;> simp [Spec.spell, Spec.base, parens, hg]
  | attr e a => simp [Spec.spell, Spec.base, parens]
  | sub e => simp [Spec.spell, Spec.base, parens]
  | starred e => simp [Spec.spell, Spec.base, parens]
  | call f' a' => simp [Spec.spell, Spec.base, parens]
  | strConst s => simp [Spec.spell, Spec.base, parens]
  | other k => simp [Spec.spell, Spec.base, parens]

theorem spec_base_plain : ∀ e, xattrFree e = true → Spec.base e = plainBase e
  | .name x, _ => by simp [Spec.base, plainBase]
  | .attr e a, h => by simpa [Spec.base, plainBase] using spec_base_plain e (by simpa [xattrFree] using h)
  | .sub e, h => by simpa [Spec.base, plainBase] using spec_base_plain e (by simpa [xattrFree] using h)
  | .starred e, h => by simpa [Spec.base, plainBase] using spec_base_plain e (by simpa [xattrFree] using h)
  | .call f args, h => by
    simp [xattrFree] at h
    have hp : ∀ g, f = .name g → isXattr g = false := by
      intro g hg; subst hg; simpa [plainBase] using h.2
    rw [(spec_call_plain f args hp).2]
    simpa [plainBase] using spec_base_plain f h.1
  | .strConst _, _ => by simp [Spec.base, plainBase, literalPrefix, kConstant]
  | .other k, _ => by simp [Spec.base, plainBase, literalPrefix]

/-- **(a), safe naming.** On every getattr-family-free expression — any node kinds, any depth — both
namers return exactly the README base and spelling. -/
theorem C10_compositional : ∀ (e : Expr) (u : Bool), xattrFree e = true →
    Naming.namesOf u true e = .ok (Spec.base e) (Spec.spell e)
    ∧ Naming.oldNames true e = .ok (Spec.base e) (Spec.spell e)
  | .name x, u, _ => by simp [Naming.namesOf, Naming.oldNames, Spec.base, Spec.spell]
  | .attr e a, u, h => by
    have ih := C10_compositional e true (by simpa [xattrFree] using h)
    simp [Naming.namesOf, Naming.oldNames, ih.1, ih.2, Out.mapFull, Spec.base, Spec.spell, dot]
  | .sub e, u, h => by
    have ih := C10_compositional e true (by simpa [xattrFree] using h)
    simp [Naming.namesOf, Naming.oldNames, ih.1, ih.2, Out.mapFull, Spec.base, Spec.spell, brackets]
  | .starred e, u, h => by
    have ih := C10_compositional e true (by simpa [xattrFree] using h)
    simp [Naming.namesOf, Naming.oldNames, ih.1, ih.2, Out.mapFull, Spec.base, Spec.spell, star]
  | .call f args, u, h => by
    simp [xattrFree] at h
    have ih := C10_compositional f true h.1
    have hp : ∀ g, f = .name g → isXattr g = false := by
      intro g hg; subst hg; simpa [plainBase] using h.2
    have hs := spec_call_plain f args hp
    have hc := C10_eq_call u true f args h.2
    rw [hc.1, hc.2, ih.1, ih.2, hs.1, hs.2]
    simp [Out.mapFull]
  | .strConst _, u, _ => by
    simp [Naming.namesOf, Naming.oldNames, unnameable, literalPrefix, kConstant, Spec.base, Spec.spell]
  | .other k, u, _ => by
    simp [Naming.namesOf, Naming.oldNames, unnameable, literalPrefix, Spec.base, Spec.spell]

/-- The spine ends in a variable. -/
def strictlyNameable : Expr → Bool
  | .name _ => true
  | .attr e _ => strictlyNameable e
  | .sub e => strictlyNameable e
  | .starred e => strictlyNameable e
  | .call f _ => strictlyNameable f
  | .strConst _ => false
  | .other _ => false

/-- **(a), strict naming.** The same under `safe=False` when the innermost node is a variable. -/
theorem C10_compositional_strict : ∀ (e : Expr) (u : Bool),
    xattrFree e = true → strictlyNameable e = true →
    Naming.namesOf u false e = .ok (Spec.base e) (Spec.spell e)
    ∧ Naming.oldNames false e = .ok (Spec.base e) (Spec.spell e)
  | .name x, u, _, _ => by simp [Naming.namesOf, Naming.oldNames, Spec.base, Spec.spell]
  | .attr e a, u, h, hn => by
    have ih := C10_compositional_strict e true (by simpa [xattrFree] using h) (by simpa [strictlyNameable] using hn)
    simp [Naming.namesOf, Naming.oldNames, ih.1, ih.2, Out.mapFull, Spec.base, Spec.spell, dot]
  | .sub e, u, h, hn => by
    have ih := C10_compositional_strict e true (by simpa [xattrFree] using h) (by simpa [strictlyNameable] using hn)
    simp [Naming.namesOf, Naming.oldNames, ih.1, ih.2, Out.mapFull, Spec.base, Spec.spell, brackets]
  | .starred e, u, h, hn => by
    have ih := C10_compositional_strict e true (by simpa [xattrFree] using h) (by simpa [strictlyNameable] using hn)
    simp [Naming.namesOf, Naming.oldNames, ih.1, ih.2, Out.mapFull, Spec.base, Spec.spell, star]
  | .call f args, u, h, hn => by
    simp [xattrFree] at h
    have ih := C10_compositional_strict f true h.1 (by simpa [strictlyNameable] using hn)
    have hp : ∀ g, f = .name g → isXattr g = false := by
      intro g hg; subst hg; simpa [plainBase] using h.2
    have hs := spec_call_plain f args hp
    have hc := C10_eq_call u false f args h.2
    rw [hc.1, hc.2, ih.1, ih.2, hs.1, hs.2]
    simp [Out.mapFull]
  | .strConst _, u, _, hn => by simp [strictlyNameable] at hn
  | .other k, u, _, hn => by simp [strictlyNameable] at hn


/-! ### (c) totality: exactly which expressions the new namer names without raising or exiting -/

mutual
/-- Decidable characterisation of success of `names_of(e, safe=s)`. -/
def okFor (s : Bool) : Expr → Bool
  | .name _ => true
  | .attr e _ => okFor s e
  | .sub e => okFor s e
  | .starred e => okFor s e
  | .call f args => okFor s f && (!isXattr (plainBase f) || argsOk (plainBase f) args)
  | .strConst _ => s
  | .other _ => s
/-- … of `get_python_attr_access_fn_obj_attr_pair(fn, call(_, args))`: at least two arguments; the
name argument safely nameable; the object either a nested direct call of the same builtin
(recursively) or *strictly* nameable. -/
def argsOk (fn : Str) : List Expr → Bool
  | obj :: nm :: _ =>
    okFor true nm &&
      (match obj with
       | .call f' args' => Naming.isCallTo fn f' && argsOk fn args'
       | .name _ => true
       | .attr e _ => okFor false e
       | .sub e => okFor false e
       | .starred e => okFor false e
       | .strConst _ => false
       | .other _ => false)
  | _ => false
end

theorem isOk_mapFull (o : Out) (g : Str → Str) : (o.mapFull g).isOk = o.isOk := by
  cases o <;> rfl

theorem isOk_objOnly (o : Out) (a : Str) : (objOnly o a).isOk = o.isOk := by
  cases o <;> rfl

theorem isOk_pairPlain (nmOut objOut : Out) (nm : Expr) :
    (pairPlain nmOut nm objOut).isOk = (nmOut.isOk && objOut.isOk) := by
  cases nmOut <;> cases objOut <;> rfl

mutual
theorem total_e : ∀ (e : Expr) (s : Bool), (Naming.namesOf true s e).isOk = okFor s e
  | .name x, s => by simp [Naming.namesOf, okFor, Out.isOk]
  | .attr e a, s => by simp only [Naming.namesOf, okFor, isOk_mapFull]; exact total_e e s
  | .sub e, s => by simp only [Naming.namesOf, okFor, isOk_mapFull]; exact total_e e s
  | .starred e, s => by simp only [Naming.namesOf, okFor, isOk_mapFull]; exact total_e e s
  | .call f args, s => by
    have ih := total_e f s
    simp only [Naming.namesOf, okFor]
    cases h' : Naming.namesOf true s f with
    | ok b l =>
      have hb := namesOf_base f true s b l h'
      rw [h'] at ih
      simp only [Out.isOk] at ih
      rw [← ih, ← hb]
      cases hx : isXattr b with
      | false => simp [Out.isOk, hx]
      | true =>
        have ia := total_args b args
        simp only [Bool.true_and, Bool.not_true, Bool.false_or]
        rw [← ia]
        cases pairOf b args <;> simp [Out.isOk, hx]
    | fatal w => rw [h'] at ih; simp only [Out.isOk] at ih; simp [Out.isOk, ← ih]
    | raised x => rw [h'] at ih; simp only [Out.isOk] at ih; simp [Out.isOk, ← ih]
  | .strConst _, s => by cases s <;> simp [Naming.namesOf, okFor, unnameable, Out.isOk]
  | .other k, s => by cases s <;> simp [Naming.namesOf, okFor, unnameable, Out.isOk]

theorem total_args : ∀ (fn : Str) (args : List Expr), (pairOf fn args).isOk = argsOk fn args
  | fn, [] => by simp [pairOf, argsOk, Out.isOk]
  | fn, [_] => by simp [pairOf, argsOk, Out.isOk]
  | fn, .call f' args' :: nm :: rest => by
    have inm := total_e nm true
    have ia := total_args fn args'
    simp only [pairOf, argsOk]
    rw [← inm, ← ia]
    cases Naming.namesOf true true nm with
    | ok bn vn =>
      cases hc : Naming.isCallTo fn f' with
      | false => simp [Out.isOk]
      | true => cases pairOf fn args' <;> simp [Out.isOk]
    | fatal w => simp [Out.isOk]
    | raised x => simp [Out.isOk]
  | fn, .name id :: nm :: rest => by
    simp only [pairOf, argsOk, isOk_pairPlain, total_e nm true]
    simp [Naming.namesOf, Out.isOk]
  | fn, .attr e a :: nm :: rest => by
    simp only [pairOf, argsOk, isOk_pairPlain, total_e nm true, total_e (.attr e a) false, okFor]
  | fn, .sub e :: nm :: rest => by
    simp only [pairOf, argsOk, isOk_pairPlain, total_e nm true, total_e (.sub e) false, okFor]
  | fn, .starred e :: nm :: rest => by
    simp only [pairOf, argsOk, isOk_pairPlain, total_e nm true, total_e (.starred e) false, okFor]
  | fn, .strConst s :: nm :: rest => by
    simp only [pairOf, argsOk, isOk_pairPlain, total_e nm true, total_e (.strConst s) false, okFor]
  | fn, .other k :: nm :: rest => by
    simp only [pairOf, argsOk, isOk_pairPlain, total_e nm true, total_e (.other k) false, okFor]
end


/-- **(c), decidable form.** `names_of(e, safe=s)` succeeds exactly on `okFor s e`. -/
theorem C10_total_iff (e : Expr) (s : Bool) : (Naming.namesOf true s e).isOk = okFor s e := total_e e s

/-- **(c) on the stated fragment.** If every getattr-family call the namer meets has two arguments,
a safely nameable name argument and a strictly nameable (or same-builtin nested) object, safe
naming returns a value — it neither raises nor exits — and the base is the spine's leftmost name. -/
theorem C10_total_partial (e : Expr) (h : okFor true e = true) :
    ∃ b l, Naming.namesOf true true e = .ok b l ∧ b = plainBase e := by
  have := C10_total_iff e true
  rw [h] at this
  cases h' : Naming.namesOf true true e with
  | ok b l => exact ⟨b, l, rfl, namesOf_base e true true b l h'⟩
  | fatal w => rw [h'] at this; simp [Out.isOk] at this
  | raised x => rw [h'] at this; simp [Out.isOk] at this

/-! ### (b) agreement of the two namers -/

def isName : Expr → Bool
  | .name _ => true
  | _ => false

mutual
/-- Where the two namers are proved to agree: every call met whose base name is a getattr-family
builtin is a *direct* call, and no such call has a literal / operator / other non-nameable node
whose specific error is not `TypeError` as its object. -/
def agreeOK : Expr → Bool
  | .name _ => true
  | .attr e _ => agreeOK e
  | .sub e => agreeOK e
  | .starred e => agreeOK e
  | .call f args =>
    agreeOK f && (!isXattr (plainBase f) || (isName f && agreeArgs (plainBase f) args))
  | .strConst _ => true
  | .other _ => true
def agreeArgs (fn : Str) : List Expr → Bool
  | [] => true
  | [_] => true
  | .call f' args' :: nm :: _ => agreeOK nm && (!Naming.isCallTo fn f' || agreeArgs fn args')
  | .name _ :: nm :: _ => agreeOK nm
  | .attr e _ :: nm :: _ => agreeOK nm && agreeOK e
  | .sub e :: nm :: _ => agreeOK nm && agreeOK e
  | .starred e :: nm :: _ => agreeOK nm && agreeOK e
  | .strConst _ :: _ :: _ => false
  | .other k :: nm :: _ => agreeOK nm && decide (excOfKind k = .typeError)
end

theorem attr_link_ok (nm : Expr) (b v : Str) (h : Naming.namesOf true true nm = .ok b v) :
    ∃ b', oldAttrName (.ok b v) nm = .ok b' (attrText nm v) := by
  cases nm with
  | strConst s =>
    simp [Naming.namesOf, unnameable] at h
    simp [oldAttrName, attrText]
  | name x => simp [oldAttrName, attrText, Out.mapFull]
  | attr e a => simp [oldAttrName, attrText, Out.mapFull]
  | sub e => simp [oldAttrName, attrText, Out.mapFull]
  | starred e => simp [oldAttrName, attrText, Out.mapFull]
  | call f a => simp [oldAttrName, attrText, Out.mapFull]
  | other k => simp [oldAttrName, attrText, Out.mapFull]

theorem attr_link_fail (nm : Expr) (o : Out) (h : Naming.namesOf true true nm = o) (hf : o.isOk = false) :
    oldAttrName o nm = o := by
  cases nm with
  | strConst s => subst h; simp [Naming.namesOf, unnameable, Out.isOk] at hf
  | name x => cases o <;> simp_all [oldAttrName, Out.mapFull, Out.isOk]
  | attr e a => cases o <;> simp_all [oldAttrName, Out.mapFull, Out.isOk]
  | sub e => cases o <;> simp_all [oldAttrName, Out.mapFull, Out.isOk]
  | starred e => cases o <;> simp_all [oldAttrName, Out.mapFull, Out.isOk]
  | call f a => cases o <;> simp_all [oldAttrName, Out.mapFull, Out.isOk]
  | other k => cases o <;> simp_all [oldAttrName, Out.mapFull, Out.isOk]

theorem plain_link (nm : Expr) (o x : Out) (h : Naming.namesOf true true nm = o) :
    pairPlain o nm x = oldPlain (oldAttrName o nm) x := by
  cases o with
  | ok b v =>
    obtain ⟨b', hb⟩ := attr_link_ok nm b v h
    simp [pairPlain, oldPlain, hb]
  | fatal w => simp [pairPlain, oldPlain, attr_link_fail nm _ h rfl]
  | raised e => simp [pairPlain, oldPlain, attr_link_fail nm _ h rfl]

mutual
theorem agree_e : ∀ (e : Expr) (s : Bool), agreeOK e = true → Naming.namesOf true s e = Naming.oldNames s e
  | .name x, s, _ => by simp [Naming.namesOf, Naming.oldNames]
  | .attr e a, s, h => by
    simp only [Naming.namesOf, Naming.oldNames, agree_e e s (by simpa [agreeOK] using h)]
  | .sub e, s, h => by
    simp only [Naming.namesOf, Naming.oldNames, agree_e e s (by simpa [agreeOK] using h)]
  | .starred e, s, h => by
    simp only [Naming.namesOf, Naming.oldNames, agree_e e s (by simpa [agreeOK] using h)]
  | .call f args, s, h => by
    simp only [agreeOK, Bool.and_eq_true, Bool.or_eq_true, Bool.not_eq_true'] at h
    have ih := agree_e f s h.1
    cases hx : isXattr (plainBase f) with
    | false =>
      have hc := C10_eq_call true s f args hx
      rw [hc.1, hc.2, ih]
    | true =>
      have h2 := h.2
      simp only [hx, Bool.true_eq_false, false_or] at h2
      cases f with
      | name g =>
        have hg : isXattr g = true := by simpa [plainBase] using hx
        have ia := agree_args g args (by simpa [plainBase] using h2.2)
        simp [Naming.namesOf, Naming.oldNames, isDirectXattr, hg, ia]
      | attr e a => simp [isName] at h2
      | sub e => simp [isName] at h2
      | starred e => simp [isName] at h2
      | call f' a' => simp [isName] at h2
      | strConst s' => simp [isName] at h2
      | other k => simp [isName] at h2
  | .strConst _, s, _ => by simp [Naming.namesOf, Naming.oldNames]
  | .other k, s, _ => by simp [Naming.namesOf, Naming.oldNames]

theorem agree_args : ∀ (fn : Str) (args : List Expr), agreeArgs fn args = true →
    pairOf fn args = xattrPair fn args
  | fn, [], _ => by simp [pairOf, xattrPair]
  | fn, [_], _ => by simp [pairOf, xattrPair]
  | fn, .call f' args' :: nm :: rest, h => by
    simp only [agreeArgs, Bool.and_eq_true, Bool.or_eq_true, Bool.not_eq_true'] at h
    have inm := agree_e nm true h.1
    simp only [pairOf, xattrPair]
    rw [← inm]
    cases hn : Naming.namesOf true true nm with
    | ok b v =>
      obtain ⟨b', hb⟩ := attr_link_ok nm b v hn
      rw [hb]
      cases hc : Naming.isCallTo fn f' with
      | false => simp
      | true =>
        have ia := agree_args fn args' (by simpa [hc] using h.2)
        simp [ia]
    | fatal w => rw [attr_link_fail nm _ hn rfl]
    | raised x => rw [attr_link_fail nm _ hn rfl]
  | fn, .name id :: nm :: rest, h => by
    simp only [agreeArgs] at h
    simp only [pairOf, xattrPair]
    rw [← agree_e nm true h, plain_link nm _ _ rfl]
    simp [Naming.namesOf, Naming.oldNames]
  | fn, .attr e a :: nm :: rest, h => by
    simp only [agreeArgs, Bool.and_eq_true] at h
    simp only [pairOf, xattrPair]
    rw [← agree_e nm true h.1, plain_link nm _ _ rfl,
      agree_e (.attr e a) false (by simpa [agreeOK] using h.2)]
  | fn, .sub e :: nm :: rest, h => by
    simp only [agreeArgs, Bool.and_eq_true] at h
    simp only [pairOf, xattrPair]
    rw [← agree_e nm true h.1, plain_link nm _ _ rfl,
      agree_e (.sub e) false (by simpa [agreeOK] using h.2)]
  | fn, .starred e :: nm :: rest, h => by
    simp only [agreeArgs, Bool.and_eq_true] at h
    simp only [pairOf, xattrPair]
    rw [← agree_e nm true h.1, plain_link nm _ _ rfl,
      agree_e (.starred e) false (by simpa [agreeOK] using h.2)]
  | fn, .strConst _ :: nm :: rest, h => by simp [agreeArgs] at h
  | fn, .other k :: nm :: rest, h => by
    simp only [agreeArgs, Bool.and_eq_true, decide_eq_true_eq] at h
    simp only [pairOf, xattrPair]
    rw [← agree_e nm true h.1, plain_link nm _ _ rfl]
    simp [Naming.namesOf, unnameable, h.2]
end

/-- **(b) on the stated fragment**, for both values of `safe`, failures included: the two namers
return the same value, exit at the same site, or raise the same exception class. -/
theorem C10_agree_partial (e : Expr) (s : Bool) (h : agreeOK e = true) :
    Naming.namesOf true s e = Naming.oldNames s e := agree_e e s h


/-! ### Nested literal getattr-family calls spell as the dotted access -/

/-- `fn(fn(…fn(obj, kₙ)…, k₂), k₁)` for `ks = [k₁, k₂, …, kₙ]` (outermost first). -/
def nestX (fn : Str) (obj : Expr) : List Str → Expr
  | [] => obj
  | k :: ks => .call (.name fn) [nestX fn obj ks, .strConst k]

/-- `l.kₙ.….k₂.k₁` -/
def dotted (l : Str) : List Str → Str
  | [] => l
  | k :: ks => dotted l ks ++ dot ++ k

def isCall : Expr → Bool
  | .call _ _ => true
  | _ => false

theorem pairOf_nest (fn : Str) (obj : Expr) (b l : Str) (hc : C10.isCall obj = false)
    (ho : Naming.namesOf true false obj = .ok b l) :
    ∀ (ks : List Str) (k : Str), pairOf fn [nestX fn obj ks, .strConst k] = .ok (dotted l ks) k
  | [], k => by
    cases obj with
    | call f a => simp [C10.isCall] at hc
    | name x => simp only [nestX, pairOf, ho]; simp [Naming.namesOf, unnameable, pairPlain, objOnly, attrText, dotted]
    | attr e a => simp only [nestX, pairOf, ho]; simp [Naming.namesOf, unnameable, pairPlain, objOnly, attrText, dotted]
    | sub e => simp only [nestX, pairOf, ho]; simp [Naming.namesOf, unnameable, pairPlain, objOnly, attrText, dotted]
    | starred e => simp only [nestX, pairOf, ho]; simp [Naming.namesOf, unnameable, pairPlain, objOnly, attrText, dotted]
    | strConst s => simp only [nestX, pairOf, ho]; simp [Naming.namesOf, unnameable, pairPlain, objOnly, attrText, dotted]
    | other k' => simp only [nestX, pairOf, ho]; simp [Naming.namesOf, unnameable, pairPlain, objOnly, attrText, dotted]
  | k' :: ks, k => by
    have ih := pairOf_nest fn obj b l hc ho ks k'
    simp only [nestX, pairOf, ih]
    simp [Naming.namesOf, unnameable, Naming.isCallTo, attrText, dotted]

theorem xattrPair_nest (fn : Str) (obj : Expr) (b l : Str) (hc : C10.isCall obj = false)
    (ho : Naming.oldNames false obj = .ok b l) :
    ∀ (ks : List Str) (k : Str), xattrPair fn [nestX fn obj ks, .strConst k] = .ok (dotted l ks) k
  | [], k => by
    cases obj with
    | call f a => simp [C10.isCall] at hc
    | name x => simp only [nestX, xattrPair, ho]; simp [oldAttrName, oldPlain, objOnly, dotted]
    | attr e a => simp only [nestX, xattrPair, ho]; simp [oldAttrName, oldPlain, objOnly, dotted]
    | sub e => simp only [nestX, xattrPair, ho]; simp [oldAttrName, oldPlain, objOnly, dotted]
    | starred e => simp only [nestX, xattrPair, ho]; simp [oldAttrName, oldPlain, objOnly, dotted]
    | strConst s => simp [Naming.oldNames, unnameable] at ho
    | other k' => simp [Naming.oldNames, unnameable] at ho
  | k' :: ks, k => by
    have ih := xattrPair_nest fn obj b l hc ho ks k'
    simp only [nestX, xattrPair, ih]
    simp [oldAttrName, Naming.isCallTo, dotted]

/-- **Nested literal getattr-family calls.** For any of the four builtins, any non-call object that
strict naming spells `l`, and any non-empty list of literal names, both namers (either `safe`)
spell the nest as the dotted access `l.kₙ.….k₁`; the base they return is the builtin's name. -/
theorem C10_xattr (fn : Str) (obj : Expr) (b l : Str) (s : Bool) (k : Str) (ks : List Str)
    (hf : isXattr fn = true) (hc : C10.isCall obj = false)
    (hn : Naming.namesOf true false obj = .ok b l) (ho : Naming.oldNames false obj = .ok b l) :
    Naming.namesOf true s (nestX fn obj (k :: ks)) = .ok fn (dotted l (k :: ks))
    ∧ Naming.oldNames s (nestX fn obj (k :: ks)) = .ok fn (dotted l (k :: ks)) := by
  constructor
  · simp [nestX, Naming.namesOf, hf, pairOf_nest fn obj b l hc hn ks k, dotted]
  · simp [nestX, Naming.oldNames, isDirectXattr, hf, xattrPair_nest fn obj b l hc ho ks k, dotted]

/-- The README reading of the same nest: the dotted access on the object's spelling, and the
object's base. -/
theorem C10_xattr_spec (fn : Str) (obj : Expr) (hf : isXattr fn = true) :
    ∀ (ks : List Str), Spec.spell (nestX fn obj ks) = dotted (Spec.spell obj) ks
      ∧ Spec.base (nestX fn obj ks) = Spec.base obj
  | [] => by simp [nestX, dotted]
  | k :: ks => by
    have ih := C10_xattr_spec fn obj hf ks
    have hm : fn ∈ [['d','e','l','a','t','t','r'], ['g','e','t','a','t','t','r'],
           ['h','a','s','a','t','t','r'], ['s','e','t','a','t','t','r']] := by
      simpa [isXattr, attrAccessBuiltins] using hf
    simp only [nestX, Spec.spell, Spec.base, hm, ↓reduceIte, ih.1, ih.2, dotted, dot]
    simp

/-! ### The full statement (kept visible; false on the pinned tree) -/

/-- C10 at one expression: (a) every successful naming is the README (base, spelling);
(b) the two namers agree, for both values of `safe`; (c) safe naming succeeds. -/
def C10_at (e : Expr) : Prop :=
  (∀ s b l, (Naming.namesOf true s e = .ok b l ∨ Naming.oldNames s e = .ok b l) → b = Spec.base e ∧ l = Spec.spell e)
  ∧ (∀ s, Naming.namesOf true s e = Naming.oldNames s e)
  ∧ ((Naming.namesOf true true e).isOk = true ∧ (Naming.oldNames true e).isOk = true)

def C10_full : Prop := ∀ e, C10_at e

/-- On the getattr-family-free fragment the full statement holds (all three clauses; (b) for
`safe=True`, and for `safe=False` by `C10_agree_partial`). -/
theorem C10_at_of_xattrFree (e : Expr) (h : xattrFree e = true) :
    Naming.namesOf true true e = .ok (Spec.base e) (Spec.spell e)
    ∧ Naming.namesOf true true e = Naming.oldNames true e
    ∧ (Naming.namesOf true true e).isOk = true := by
  have hc := C10_compositional e true h
  refine ⟨hc.1, by rw [hc.1, hc.2], by rw [hc.1]; rfl⟩

/-! ### Counterexamples (one per defect class of the pinned code), closed by kernel evaluation -/

private def sA : Str := ['a']
private def sB : Str := ['b']
private def sC : Str := ['c']
private def sF : Str := ['f']
private def sM : Str := ['m']
private def sN : Str := ['n']
private def sGetattr : Str := ['g','e','t','a','t','t','r']

/-- `getattr(a + b, 'c')` -/
def w_unnameable_obj : Expr := .call (.name sGetattr) [.other kBinOp, .strConst sC]
/-- `getattr(a, 'b')()` -/
def w_call_on_xattr : Expr := .call (.call (.name sGetattr) [.name sA, .strConst sB]) []
/-- `getattr(a, 'b')` -/
def w_simple : Expr := .call (.name sGetattr) [.name sA, .strConst sB]
/-- `getattr.m(a, 'b')` -/
def w_indirect : Expr := .call (.attr (.name sGetattr) sM) [.name sA, .strConst sB]
/-- `getattr(f(), 'b')` -/
def w_obj_call : Expr := .call (.name sGetattr) [.call (.name sF) [], .strConst sB]
/-- `getattr(a)` -/
def w_too_few : Expr := .call (.name sGetattr) [.name sA]
/-- `getattr(a, n)` -/
def w_nonliteral : Expr := .call (.name sGetattr) [.name sA, .name sN]

/-- (c) fails: safe naming raises when a getattr-family object is unnameable — and (b) fails on the
same input: the two namers raise different exception classes. -/
theorem C10_cex_safe_raises :
    Naming.namesOf true true w_unnameable_obj = .raised .binOp
    ∧ Naming.oldNames true w_unnameable_obj = .raised .typeError := by decide

/-- (b) and (c) fail: `getattr(a, 'b')()` — the new namer exits ("too few args": it takes the
*outer* call for a getattr call because the base name is `getattr`), the old one returns `a.b()`. -/
theorem C10_cex_call_on_xattr :
    Naming.namesOf true true w_call_on_xattr = .fatal .tooFewArgs
    ∧ Naming.oldNames true w_call_on_xattr
        = .ok sGetattr ['a', '.', 'b', '(', ')'] := by decide

/-- (a) fails: the base of a getattr-family spelling is the builtin's name, not the innermost
variable (both namers). -/
theorem C10_cex_xattr_base :
    Naming.namesOf true true w_simple = .ok sGetattr ['a', '.', 'b']
    ∧ Naming.oldNames true w_simple = .ok sGetattr ['a', '.', 'b']
    ∧ Spec.spell w_simple = ['a', '.', 'b'] ∧ Spec.base w_simple = sA := by decide

/-- (a) and (b) fail: `getattr.m(a, 'b')` is not a getattr call, yet the new namer spells it `a.b`
(the old one: `getattr.m()`, as the README does). -/
theorem C10_cex_indirect :
    Naming.namesOf true true w_indirect = .ok sGetattr ['a', '.', 'b']
    ∧ Naming.oldNames true w_indirect = .ok sGetattr (sGetattr ++ ['.', 'm', '(', ')'])
    ∧ Spec.spell w_indirect = sGetattr ++ ['.', 'm', '(', ')'] := by decide

/-- (c) fails: a getattr-family call on a call result exits (both namers); the README spelling
would be `f().b`. -/
theorem C10_cex_obj_call :
    Naming.namesOf true true w_obj_call = .fatal .nestedOtherCall
    ∧ Naming.oldNames true w_obj_call = .fatal .nestedOtherCall
    ∧ Spec.spell w_obj_call = ['f', '(', ')', '.', 'b'] := by decide

/-- (c) fails: a getattr-family call with fewer than two positional arguments exits (both). -/
theorem C10_cex_too_few :
    Naming.namesOf true true w_too_few = .fatal .tooFewArgs
    ∧ Naming.oldNames true w_too_few = .fatal .tooFewArgs := by decide

/-- Recorded, not claimed either way [interp]: a non-literal name is spelled `a.<n>`, a form
outside the README table. (A test on one input, by `decide`.) -/
theorem C10_obs_nonliteral :
    Naming.namesOf true true w_nonliteral = .ok sGetattr ['a', '.', '<', 'n', '>']
    ∧ Naming.oldNames true w_nonliteral = .ok sGetattr ['a', '.', '<', 'n', '>'] := by decide

/-- `unravel_attr_access_calls=False` is honoured at the root only: `getattr(a,'b')` is then
`getattr()`, but one attribute step above it the flag is lost. (A test, by `decide`.) -/
theorem C10_obs_unravel_root_only :
    Naming.namesOf false true w_simple = .ok sGetattr (sGetattr ++ ['(', ')'])
    ∧ Naming.namesOf false true (.attr w_simple sC) = .ok sGetattr ['a', '.', 'b', '.', 'c'] := by decide

theorem C10_full_false : ¬ C10_full := by
  intro h
  have h1 := (h w_simple).1 true sGetattr ['a', '.', 'b'] (Or.inl C10_cex_xattr_base.1)
  exact absurd h1.1 (by decide)

/-! ### Tie A for the two error ladders (source order of the `isinstance` tests) -/

theorem tieA_error_ladder_new :
    Generated.C10.errorLadderNew =
      [("ast.UnaryOp", "RattrUnaryOpInNameable"), ("ast.BinOp", "RattrBinOpInNameable"),
       ("ast.Constant", "RattrConstantInNameable"), ("AstLiterals", "RattrLiteralInNameable"),
       ("AstComprehensions", "RattrComprehensionInNameable")] := by decide

theorem tieA_error_ladder_old :
    Generated.C10.errorLadderOld =
      Generated.C10.errorLadderNew ++ [("ast.GeneratorExp", "RattrComprehensionInNameable")] := by
  decide

/-- The model's `excOfKind` is that ladder (on the class names the tables list). A whole finite
table, by `decide`. -/
theorem excOfKind_table :
    excOfKind kUnaryOp = .unaryOp ∧ excOfKind kBinOp = .binOp ∧ excOfKind kConstant = .constant
    ∧ (∀ k ∈ Naming.astLiterals, excOfKind k = .literal)
    ∧ (∀ k ∈ Naming.astComprehensions, excOfKind k = .comprehension)
    ∧ (∀ k ∈ astNodeWithName, excOfKind k = .typeError) := by decide

/-! ### Non-vacuity: each theorem's hypotheses are met by non-trivial inputs -/

/-- `(a + b).x[i](p, 'q').y` with `*` on top: family-free, five compound steps over a stand-in. -/
example : xattrFree (.starred (.attr (.call (.sub (.attr (.other kBinOp) ['x'])) [.name ['p'], .strConst ['q']]) ['y'])) = true := by
  decide
/-- `getattr.x`, `f(getattr(a + b, 'c'))`: family names off the call spine / in ignored arguments. -/
example : xattrFree (.attr (.name sGetattr) ['x']) = true
    ∧ xattrFree (.call (.name sF) [w_unnameable_obj]) = true := by decide
/-- `a.b[0](c)`: strictly nameable and family-free. -/
example : xattrFree (.call (.sub (.attr (.name sA) sB)) [.name sC]) = true
    ∧ strictlyNameable (.call (.sub (.attr (.name sA) sB)) [.name sC]) = true := by decide
/-- `getattr(getattr(a.b[0], 'c'), getattr(x, 'y')).z` is in the totality and agreement fragments. -/
example :
    okFor true (.attr (.call (.name sGetattr)
      [.call (.name sGetattr) [.sub (.attr (.name sA) sB), .strConst sC],
       .call (.name sGetattr) [.name ['x'], .strConst ['y']]]) ['z']) = true
    ∧ agreeOK (.attr (.call (.name sGetattr)
      [.call (.name sGetattr) [.sub (.attr (.name sA) sB), .strConst sC],
       .call (.name sGetattr) [.name ['x'], .strConst ['y']]]) ['z']) = true := by decide
/-- agreement also covers failing inputs: `getattr(f(), 'b')`, `getattr(a)`, `getattr(await x, 'k')`. -/
example : agreeOK w_obj_call = true ∧ agreeOK w_too_few = true
    ∧ agreeOK (.call (.name sGetattr) [.other ['A','w','a','i','t'], .strConst sB]) = true := by decide
/-- the nest theorem's hypotheses: `a.b` as object. -/
example : isXattr sGetattr = true ∧ C10.isCall (.attr (.name sA) sB) = false
    ∧ Naming.namesOf true false (.attr (.name sA) sB) = .ok sA ['a', '.', 'b']
    ∧ Naming.oldNames false (.attr (.name sA) sB) = .ok sA ['a', '.', 'b'] := by decide

/-! ## The consumers of the namers

The namers' results are consumed at the sites enumerated by `NamingSites.sites`
(`tieA_consumer_sites`). For the function analyser — the model `FnA.visit` / `FnA.assignDiv` of
RattrModel/FnAnalyser.lean, tied to `rattr/analyser/function.py` by the differential stage `ir` of
py/props/c10sites.py on every run — the theorems below state, for ALL targets / arguments / call
expressions on the getattr-family-free fragment, WHICH of the pair (base, spelling) ends up WHERE:
a swapped unpacking at any of these sites contradicts them (and the correspondence). -/

section Consumers
open Rattr.FnA

mutual
/-- What the namers look at of a `Node` (the function analyser's AST): the projection onto the
expression type of the namer model. Slices, keywords and expression contexts are dropped; every
node that is not a name / attribute / subscript / starred / call / string constant is `other` with
its class name. -/
def toExpr : Node → Naming.Expr
  | .name id _ => .name id
  | .attr v a _ => .attr (toExpr v) a
  | .sub v _ _ => .sub (toExpr v)
  | .starred v _ => .starred (toExpr v)
  | .call f args _ _ => .call (toExpr f) (toExprL args)
  | .strConst s => .strConst s
  | .lam ps b => .other (Node.lam ps b).className
  | .comp k e g => .other (Node.comp k e g).className
  | .gen t i f => .other (Node.gen t i f).className
  | .walrus t v => .other (Node.walrus t v).className
  | .const => .other Node.const.className
  | .seq k e c => .other (Node.seq k e c).className
  | .dict k v => .other (Node.dict k v).className
  | .assign t v => .other (Node.assign t v).className
  | .annAssign t a v => .other (Node.annAssign t a v).className
  | .augAssign t v => .other (Node.augAssign t v).className
  | .delete t => .other (Node.delete t).className
  | .forLoop t i b o => .other (Node.forLoop t i b o).className
  | .withStmt i b => .other (Node.withStmt i b).className
  | .withitem c v => .other (Node.withitem c v).className
  | .funcDef n p b => .other (Node.funcDef n p b).className
  | .classDef n => .other (Node.classDef n).className
  | .ret v => .other (Node.ret v).className
  | .forbidden k => .other (Node.forbidden k).className
  | .other k kids => .other (Node.other k kids).className
termination_by structural n => n
def toExprL : List Node → List Naming.Expr
  | [] => []
  | n :: r => toExpr n :: toExprL r
termination_by structural l => l
end


theorem xattrBuiltins_contains (b : Str) : Rattr.xattrBuiltins.contains b = isXattr b := by
  simp [Rattr.xattrBuiltins, isXattr, attrAccessBuiltins]

/-- `any(is_call_to(x, node) for x in PYTHON_ATTR_ACCESS_BUILTINS)` on the model's `Node`. -/
theorem xattr_any_isCallTo (f : Node) (args : List Node) (kwn : List (Option Str)) (kwv : List Node) :
    Rattr.xattrBuiltins.any (fun x => Rattr.isCallTo x (.call f args kwn kwv)) = isDirectXattr (toExpr f) := by
  cases f <;> simp [Rattr.isCallTo, isDirectXattr, toExpr, Rattr.xattrBuiltins, isXattr, attrAccessBuiltins]

theorem constant_chars : "Constant".toList = ['C','o','n','s','t','a','n','t'] := by decide
theorem lit_parens : Strs.lit "()" = parens := by decide
theorem lit_brackets : Strs.lit "[]" = brackets := by decide

theorem namesOf_standin (n : Node) (h : n.isNameable = false) :
    Rattr.namesOf true n = .ok (Rattr.safeName n) (Rattr.safeName n) := by
  cases n <;> first | (simp [Node.isNameable] at h; done) | simp [Rattr.namesOf]

theorem oldNames_standin (n : Node) (h : n.isNameable = false) :
    Rattr.oldNames true n = .ok (Rattr.safeName n) (Rattr.safeName n) := by
  cases n <;> first | (simp [Node.isNameable] at h; done) | simp [Rattr.oldNames]

/-- a node outside `AstNodeWithName`: safe naming gives the `@Kind` stand-in (both namers). -/
theorem names_standin (n : Node) (h : n.isNameable = false) :
    Rattr.namesOf true n = .ok (Rattr.safeName n) (Rattr.safeName n)
    ∧ Rattr.oldNames true n = .ok (Rattr.safeName n) (Rattr.safeName n) :=
  ⟨namesOf_standin n h, oldNames_standin n h⟩

/-- … which is what the README table says of its projection. -/
theorem spec_standin (n : Node) (h : n.isNameable = false) :
    Spec.base (toExpr n) = Rattr.safeName n ∧ Spec.spell (toExpr n) = Rattr.safeName n
    ∧ strictlyNameable (toExpr n) = false := by
  cases n with
  | strConst s =>
    refine ⟨?_, ?_, by simp [toExpr, strictlyNameable]⟩ <;>
      (show _ = '@' :: "Constant".toList; rw [constant_chars]; simp [toExpr, Spec.base, Spec.spell])
  | name _ _ => simp [Node.isNameable] at h
  | attr _ _ _ => simp [Node.isNameable] at h
  | sub _ _ _ => simp [Node.isNameable] at h
  | starred _ _ => simp [Node.isNameable] at h
  | call _ _ _ _ => simp [Node.isNameable] at h
  | _ => exact ⟨rfl, rfl, rfl⟩

theorem names_spec_standin (n : Node) (safe : Bool) (hn : n.isNameable = false)
    (hs : safe = true ∨ strictlyNameable (toExpr n) = true) :
    Rattr.namesOf safe n = .ok (Spec.base (toExpr n)) (Spec.spell (toExpr n))
    ∧ Rattr.oldNames safe n = .ok (Spec.base (toExpr n)) (Spec.spell (toExpr n)) := by
  have hsp := spec_standin n hn
  have hs' : safe = true := by
    rcases hs with h | h
    · exact h
    · rw [hsp.2.2] at h; cases h
  subst hs'
  rw [(names_standin n hn).1, (names_standin n hn).2, hsp.1, hsp.2.1]
  exact ⟨rfl, rfl⟩

/-- **The function analyser's namers are the README spelling** on getattr-family-free spines: the
`Node`-level `namesOf` / `oldNames` of RattrModel/NodeNaming.lean (what `FnA.visit` calls) return
`(Spec.base, Spec.spell)` of the projection — safe naming on every such node, strict naming when
the spine ends in a variable. -/
theorem node_names_spec : ∀ (n : Node) (safe : Bool), xattrFree (toExpr n) = true →
    (safe = true ∨ strictlyNameable (toExpr n) = true) →
    Rattr.namesOf safe n = .ok (Spec.base (toExpr n)) (Spec.spell (toExpr n))
    ∧ Rattr.oldNames safe n = .ok (Spec.base (toExpr n)) (Spec.spell (toExpr n))
  | .name id c, safe, _, _ => by simp [Rattr.namesOf, Rattr.oldNames, toExpr, Spec.base, Spec.spell]
  | .attr v a c, safe, hx, hs => by
    have ih := node_names_spec v safe (by simpa [toExpr, xattrFree] using hx)
      (by simpa [toExpr, strictlyNameable] using hs)
    simp [Rattr.namesOf, Rattr.oldNames, toExpr, Spec.base, Spec.spell, ih.1, ih.2]
  | .sub v sl c, safe, hx, hs => by
    have ih := node_names_spec v safe (by simpa [toExpr, xattrFree] using hx)
      (by simpa [toExpr, strictlyNameable] using hs)
    simp [Rattr.namesOf, Rattr.oldNames, toExpr, Spec.base, Spec.spell, ih.1, ih.2, lit_brackets, brackets]
  | .starred v c, safe, hx, hs => by
    have ih := node_names_spec v safe (by simpa [toExpr, xattrFree] using hx)
      (by simpa [toExpr, strictlyNameable] using hs)
    simp [Rattr.namesOf, Rattr.oldNames, toExpr, Spec.base, Spec.spell, ih.1, ih.2]
  | .call f args kwn kwv, safe, hx, hs => by
    have hx' : xattrFree (toExpr f) = true ∧ isXattr (plainBase (toExpr f)) = false := by
      simpa [toExpr, xattrFree] using hx
    have ih := node_names_spec f safe hx'.1 (by simpa [toExpr, strictlyNameable] using hs)
    have hp : ∀ g, toExpr f = .name g → isXattr g = false := by
      intro g hg; have := hx'.2; rw [hg] at this; simpa [plainBase] using this
    have hsp := spec_call_plain (toExpr f) (toExprL args) hp
    have hb : Spec.base (toExpr f) = plainBase (toExpr f) := spec_base_plain _ hx'.1
    have hd : isDirectXattr (toExpr f) = false := by
      cases hf : toExpr f <;> simp_all [isDirectXattr, plainBase]
    constructor
    · simp only [Rattr.namesOf, ih.1, xattrBuiltins_contains, hb, hx'.2, toExpr, hsp.1, hsp.2, lit_parens]
      simp
    · simp only [Rattr.oldNames, ih.2, xattr_any_isCallTo, hd, toExpr, hsp.1, hsp.2, lit_parens]
      simp
  | .strConst s, safe, _, hs => names_spec_standin _ safe rfl hs
  | .lam ps b, safe, _, hs => names_spec_standin _ safe rfl hs
  | .comp k e g, safe, _, hs => names_spec_standin _ safe rfl hs
  | .gen t i f, safe, _, hs => names_spec_standin _ safe rfl hs
  | .walrus t v, safe, _, hs => names_spec_standin _ safe rfl hs
  | .const, safe, _, hs => names_spec_standin _ safe rfl hs
  | .seq k e c, safe, _, hs => names_spec_standin _ safe rfl hs
  | .dict k v, safe, _, hs => names_spec_standin _ safe rfl hs
  | .assign t v, safe, _, hs => names_spec_standin _ safe rfl hs
  | .annAssign t a v, safe, _, hs => names_spec_standin _ safe rfl hs
  | .augAssign t v, safe, _, hs => names_spec_standin _ safe rfl hs
  | .delete t, safe, _, hs => names_spec_standin _ safe rfl hs
  | .forLoop t i b o, safe, _, hs => names_spec_standin _ safe rfl hs
  | .withStmt i b, safe, _, hs => names_spec_standin _ safe rfl hs
  | .withitem c v, safe, _, hs => names_spec_standin _ safe rfl hs
  | .funcDef n p b, safe, _, hs => names_spec_standin _ safe rfl hs
  | .classDef n, safe, _, hs => names_spec_standin _ safe rfl hs
  | .ret v, safe, _, hs => names_spec_standin _ safe rfl hs
  | .forbidden k, safe, _, hs => names_spec_standin _ safe rfl hs
  | .other k kids, safe, _, hs => names_spec_standin _ safe rfl hs


/-! ### The consumers: what the function analyser records where it names an expression

`Holds P r`: if the visitor step `r` succeeds, the state it leaves satisfies `P`. For properties that
are preserved when the IR grows (`IrLe`), everything the visitor does afterwards is covered by the
monotonicity lemmas of `RattrProofs/Lemmas/Visit.lean`. -/

def Holds (P : St → Prop) (r : Res) : Prop := ∀ s', r = .ok s' → P s'

theorem Holds.bind {P : St → Prop} {r : Res} {f : St → Res}
    (h : ∀ s₁, r = .ok s₁ → Holds P (f s₁)) : Holds P (r >>>= f) := by
  intro s' hs
  obtain ⟨s₁, h1, h2⟩ := bind_ok hs
  exact h s₁ h1 s' h2

theorem Holds.of_mono {P : St → Prop} (hup : ∀ a b, IrLe a b → P a → P b) {s : St} {r : Res}
    (hP : P s) (hm : Mono s r) : Holds P r :=
  fun s' hs => hup s s' (hm s' hs).ir hP

theorem Holds.liftName {P : St → Prop} {s : St} {r : NameRes} {k : Str → Str → Res}
    (h : ∀ b f, r = .ok b f → Holds P (k b f)) : Holds P (liftName s r k) := by
  cases r with
  | ok b f => exact h b f rfl
  | fatal d => intro _ hs; cases hs
  | crash e => intro _ hs; cases hs

theorem Holds.argNames {P : St → Prop} {s : St} {args : List Node} {k : St → List Str → Res}
    (h : ∀ s₁ l, Holds P (k s₁ l)) : Holds P (argNames s args k) := by
  induction args generalizing s k with
  | nil => exact h s []
  | cons a r ih =>
    simp only [FnA.argNames]
    split
    · exact ih fun s₁ l => h s₁ _
    · intro _ hs; cases hs
    · intro _ hs; cases hs

theorem Holds.kwargNames {P : St → Prop} {s : St} {kwn : List (Option Str)} {kwv : List Node}
    {k : St → List (Str × Str) → Res}
    (h : ∀ s₁ l, Holds P (k s₁ l)) : Holds P (kwargNames s kwn kwv k) := by
  induction kwn generalizing kwv k with
  | nil => simp only [FnA.kwargNames]; exact h s []
  | cons o rn ih =>
    cases kwv with
    | nil => cases o <;> (simp only [FnA.kwargNames]; exact h s [])
    | cons v rv =>
      cases o with
      | none => simp only [FnA.kwargNames]; exact ih h
      | some key =>
        simp only [FnA.kwargNames]
        split
        · exact ih fun s₁ l => h s₁ _
        · intro _ hs; cases hs
        · intro _ hs; cases hs

/-- `Call.from_call(name, call, target, self=…)`: whatever the arguments are spelled, the record's
name is `without_call_brackets(name)` and `self` (when given) is its first argument. -/
theorem Holds.mkCall {P : St → Prop} {s : St} {name : Str} {args : List Node} {kwn : List (Option Str)}
    {kwv : List Node} {target : Option Sym} {self : Option Str} {k : St → CallSym → Res}
    (h : ∀ s₁ as kws, Holds P (k s₁ { name := Strs.withoutCallBrackets name, args := self.toList ++ as,
                                      kwargs := kws, target := target })) :
    Holds P (mkCall s name args kwn kwv target self k) := by
  unfold FnA.mkCall
  exact Holds.argNames fun s₁ as => Holds.kwargNames fun s₂ kws => h s₂ as kws

/-- the section of the IR an expression context writes to (`update_results`). -/
def secOf : ECtx → St → List NameS
  | .load, s => s.gets
  | .store, s => s.sets
  | .del, s => s.dels

theorem mem_updateResults (s : St) (n : NameS) (c : ECtx) : n ∈ secOf c (updateResults s n c) := by
  cases c <;> exact mem_addTo_self _ _

/-- `ast.Name` / `ast.Attribute` / `ast.Subscript` / `ast.Starred` and their expression context. -/
def accessCtx : Node → Option ECtx
  | .name _ c => some c
  | .attr _ _ c => some c
  | .sub _ _ c => some c
  | .starred _ c => some c
  | _ => none

/-- **Consumer `get_and_verify_name` → `update_results`** (function.py: visit_Name /
visit_compound_name). Whenever the visitor gets through an access node, the name it records in the
section of the node's context (gets / sets / dels) is the documented spelling WITH the documented
base, in that order — `Name(fullname, basename)`. -/
theorem C10_site_access (env : Env) (mn : Str) (n : Node) (c : ECtx) (s s' : St)
    (hc : accessCtx n = some c) (hx : xattrFree (toExpr n) = true)
    (h : visit env mn n s = .ok s') :
    (⟨Spec.spell (toExpr n), Spec.base (toExpr n)⟩ : NameS) ∈ secOf c s' := by
  have hn := (node_names_spec n true hx (Or.inl rfl)).1
  cases n with
  | name id c' =>
    simp only [accessCtx, Option.some.injEq] at hc; subst hc
    rw [visit] at h
    unfold FnA.getAndVerify FnA.liftName at h
    rw [hn] at h
    simp only at h
    cases h
    exact mem_updateResults _ _ _
  | attr v a c' =>
    simp only [accessCtx, Option.some.injEq] at hc; subst hc
    rw [visit] at h
    unfold FnA.getAndVerify FnA.liftName at h
    rw [hn] at h
    simp only at h
    obtain ⟨s₂, _, h2⟩ := bind_ok h
    cases h2
    exact mem_updateResults _ _ _
  | sub v sl c' =>
    simp only [accessCtx, Option.some.injEq] at hc; subst hc
    rw [visit] at h
    unfold FnA.getAndVerify FnA.liftName at h
    rw [hn] at h
    simp only at h
    obtain ⟨s₂, _, h2⟩ := bind_ok h
    cases h2
    exact mem_updateResults _ _ _
  | starred v c' =>
    simp only [accessCtx, Option.some.injEq] at hc; subst hc
    rw [visit] at h
    unfold FnA.getAndVerify FnA.liftName at h
    rw [hn] at h
    simp only at h
    obtain ⟨s₂, _, h2⟩ := bind_ok h
    cases h2
    exact mem_updateResults _ _ _
  | _ => simp [accessCtx] at hc


theorem oneToOne_single (t v : Node) (ht : isTupleOrList t = false) (hv : isTupleOrList v = false) :
    oneToOne [t] v = true := by
  simp [FnA.oneToOne, ht, hv]

/-- **Consumer `visit_ClassAssign`** (function.py: `lhs_basename, lhs_name = names_of(target)`): for a
one-to-one assignment `t = C(...)` whose right-hand side the context resolves to a class, if the
visitor gets through the statement then
  * the `sets` contain `Name(spelling of t, base of t)` — full name first, base second — and
  * the synthesised call to the initialiser has the SPELLING of `t` as its first (`self`) argument,
whatever the target is (attribute chains, subscripts, calls in the chain). -/
theorem C10_site_classAssign (env : Env) (mn : Str) (t f : Node) (args : List Node)
    (kwn : List (Option Str)) (kwv : List Node) (s s' : St)
    (hnt : namedtupleInRhs (.call f args kwn kwv) = false)
    (hcls : classInRhs env s.ctx (.call f args kwn kwv) = .ok true)
    (h11 : isTupleOrList t = false)
    (hx : xattrFree (toExpr t) = true) (hv : strictlyNameable (toExpr t) = true)
    (h : assignDiv env mn [t] (.call f args kwn kwv) s = .done (.ok s')) :
    (⟨Spec.spell (toExpr t), Spec.base (toExpr t)⟩ : NameS) ∈ s'.sets
    ∧ ∃ c ∈ s'.calls, c.args.head? = some (Spec.spell (toExpr t)) := by
  have hn := (node_names_spec t false hx (Or.inr hv)).1
  have hl : lambdaInRhs (.call f args kwn kwv) = false := by simp [FnA.lambdaInRhs, FnA.isLambda, FnA.isTupleOrList]
  have h1 : oneToOne [t] (.call f args kwn kwv) = true := oneToOne_single _ _ h11 (by simp [FnA.isTupleOrList])
  unfold assignDiv at h
  simp only [hl, hnt, hcls, h1, Bool.false_eq_true, if_false, Bool.not_true] at h
  injection h with h
  have hup : ∀ a b, IrLe a b →
      ((⟨Spec.spell (toExpr t), Spec.base (toExpr t)⟩ : NameS) ∈ a.sets
        ∧ ∃ c ∈ a.calls, c.args.head? = some (Spec.spell (toExpr t))) →
      ((⟨Spec.spell (toExpr t), Spec.base (toExpr t)⟩ : NameS) ∈ b.sets
        ∧ ∃ c ∈ b.calls, c.args.head? = some (Spec.spell (toExpr t))) := by
    intro a b hab hPa
    exact ⟨hab.sets _ hPa.1, by obtain ⟨c, hc, hh⟩ := hPa.2; exact ⟨c, hab.calls _ hc, hh⟩⟩
  refine (show Holds (fun u => (⟨Spec.spell (toExpr t), Spec.base (toExpr t)⟩ : NameS) ∈ u.sets
        ∧ ∃ c ∈ u.calls, c.args.head? = some (Spec.spell (toExpr t))) _ from ?_) s' h
  refine Holds.liftName fun b l hbl => Holds.liftName fun _ cn _ => Holds.mkCall fun s₁ as kws => ?_
  rw [hn] at hbl
  injection hbl with hb hl'
  subst hb hl'
  refine Holds.of_mono hup (hm := Mono.bind (Mono.addIdentifiersL _ _) fun s₂ =>
      Mono.bind (visitList_mono env mn _ s₂) fun s₃ => visitList_mono env mn _ s₃) (hP := ?_)
  exact ⟨mem_addTo_self _ _, _, mem_addCall_self _ _, by simp⟩


/-- **Consumer `visit_LambdaAssign`** (function.py: `name = fullname_of(target)`): a lambda assigned
to any (strictly nameable) target is registered in the context as a `Func` whose name is the
SPELLING of the target. -/
theorem C10_site_lambdaAssign (env : Env) (mn : Str) (t : Node) (ps : Params) (body : Node) (s : St)
    (h11 : isTupleOrList t = false)
    (hx : xattrFree (toExpr t) = true) (hv : strictlyNameable (toExpr t) = true) :
    assignDiv env mn [t] (.lam ps body) s =
      .done (.ok { (St.diag s (mkDiag .error "lambda-in-function")) with
                   ctx := Context.add s.ctx (funcSym (Spec.spell (toExpr t)) ps.iface) }) := by
  have hn := (node_names_spec t false hx (Or.inr hv)).1
  have h1 : oneToOne [t] (.lam ps body) = true := oneToOne_single _ _ h11 (by simp [FnA.isTupleOrList])
  unfold assignDiv
  simp [FnA.lambdaInRhs, FnA.isLambda, h1, hn, FnA.liftName, St.diag]

/-- **Consumer `visit_NamedTupleAssign`** (function.py: `name = fullname_of(target)`): a well-formed
namedtuple declaration assigned to any (strictly nameable) target is registered as a `Class` whose
name is the SPELLING of the target. -/
theorem C10_site_namedtupleAssign (env : Env) (mn : Str) (t f : Node) (args : List Node)
    (kwn : List (Option Str)) (kwv : List Node) (attrs : List Str) (s : St)
    (hnt : namedtupleInRhs (.call f args kwn kwv) = true)
    (hsig : namedtupleSignature args = .ok attrs)
    (h11 : isTupleOrList t = false)
    (hx : xattrFree (toExpr t) = true) (hv : strictlyNameable (toExpr t) = true) :
    assignDiv env mn [t] (.call f args kwn kwv) s =
      .done (.ok { s with ctx := Context.add s.ctx (clsSym (Spec.spell (toExpr t)) ⟨[], attrs, none, [], none⟩) }) := by
  have hn := (node_names_spec t false hx (Or.inr hv)).1
  have hl : lambdaInRhs (.call f args kwn kwv) = false := by simp [FnA.lambdaInRhs, FnA.isLambda, FnA.isTupleOrList]
  have h1 : oneToOne [t] (.call f args kwn kwv) = true := oneToOne_single _ _ h11 (by simp [FnA.isTupleOrList])
  unfold assignDiv
  simp [hl, hnt, h1, hn, FnA.liftName, hsig]

/-- **Consumers `arg_name` / `kwarg_name`** (models/symbol/_util.py: `get_fullname(arg, safe=True)`,
the deprecated namer): the positional arguments of every call record are the documented spellings
of the argument expressions, in order. -/
theorem C10_site_argNames (args : List Node) (hx : ∀ a ∈ args, xattrFree (toExpr a) = true) :
    ∀ (s : St) (k : St → List Str → Res),
      ∃ s₁, argNames s args k = k s₁ (args.map fun a => Spec.spell (toExpr a)) := by
  induction args with
  | nil => intro s k; exact ⟨s, rfl⟩
  | cons a r ih =>
    intro s k
    have ha := (node_names_spec a true (hx a (by simp)) (Or.inl rfl)).2
    simp only [FnA.argNames, ha, List.map_cons]
    exact ih (fun b hb => hx b (by simp [hb])) _ _

theorem C10_site_kwargNames : ∀ (kwn : List (Option Str)) (kwv : List Node),
    (∀ a ∈ kwv, xattrFree (toExpr a) = true) → kwn.length = kwv.length →
    ∀ (s : St) (k : St → List (Str × Str) → Res),
      kwargNames s kwn kwv k
        = k s ((kwn.zip kwv).filterMap fun (o, v) => o.map fun key => (key, Spec.spell (toExpr v)))
  | [], [], _, _, s, k => by simp [FnA.kwargNames]
  | [], _ :: _, _, hl, _, _ => by simp at hl
  | _ :: _, [], _, hl, _, _ => by simp at hl
  | some key :: rn, v :: rv, hx, hl, s, k => by
    have hv := (node_names_spec v true (hx v (by simp)) (Or.inl rfl)).2
    simp only [FnA.kwargNames, hv]
    rw [C10_site_kwargNames rn rv (fun b hb => hx b (by simp [hb])) (by simpa using hl)]
    simp
  | none :: rn, v :: rv, hx, hl, s, k => by
    simp only [FnA.kwargNames]
    rw [C10_site_kwargNames rn rv (fun b hb => hx b (by simp [hb])) (by simpa using hl)]
    simp

/-- **Consumers `add_identifiers_to_context` / `remove_identifiers_from_context`**
(`unravel_names` with `basename_of`, resp. `fullname_of`): binding a (non-sequence) target binds its
BASE; unbinding removes its SPELLING (`del a.b` does not unbind `a`). -/
theorem C10_site_unravel (t : Node) (hnm : t.isNameable = true)
    (hx : xattrFree (toExpr t) = true) (hv : strictlyNameable (toExpr t) = true) :
    (match unravelNames t with | .ok l => l = [Spec.base (toExpr t)] | _ => False)
    ∧ (match unravelFullNames t with | .ok l => l = [Spec.spell (toExpr t)] | _ => False) := by
  have hn := (node_names_spec t false hx (Or.inr hv)).1
  cases t <;> simp [Node.isNameable] at hnm <;>
    simp [FnA.unravelNames, FnA.unravelFullNames, Node.isNameable, hn]

/-- **Consumer `visit_NamedExpr`** (function.py: `Name(*names_of(node.target))`): the pair
`(basename, fullname)` is passed positionally to `Name(name, basename)`, so what is recorded is
`Name(name = BASE, basename = SPELLING)` — the two swapped. -/
theorem C10_obs_walrus_positional (env : Env) (mn : Str) (t v : Node) (s s' : St)
    (hx : xattrFree (toExpr t) = true) (hv : strictlyNameable (toExpr t) = true)
    (h : visit env mn (.walrus t v) s = .ok s') :
    (⟨Spec.base (toExpr t), Spec.spell (toExpr t)⟩ : NameS) ∈ s'.sets := by
  have hn := (node_names_spec t false hx (Or.inr hv)).1
  rw [visit] at h
  rw [hn] at h
  simp only [FnA.liftName] at h
  have hm : Mono { s with sets := addTo s.sets ⟨Spec.base (toExpr t), Spec.spell (toExpr t)⟩ }
      (visit env mn (.walrus t v) s) := by
    rw [visit, hn]
    simp only [FnA.liftName]
    refine Mono.bind ?_ fun s₁ => ?_
    · split
      · exact visit_mono env mn _ _
      · exact Mono.ok (StLe.refl _)
    · have := assignDiv_mono env mn [t] v s₁
      split
      · rename_i r hr; rw [hr] at this; exact this
      · rename_i s₂ hr; rw [hr] at this
        exact Mono.weaken this (Mono.bind (visit_mono env mn _ _) fun s₃ => visit_mono env mn _ _)
  exact ((hm s' (by rw [visit, hn]; simpa only [FnA.liftName] using h)).ir.sets _ (mem_addTo_self _ _))

/-- … harmless exactly because the grammar only allows a plain name there: both coincide. -/
theorem C10_site_walrus_plain (env : Env) (mn : Str) (id : Str) (c : ECtx) (v : Node) (s s' : St)
    (h : visit env mn (.walrus (.name id c) v) s = .ok s') : (⟨id, id⟩ : NameS) ∈ s'.sets := by
  have := C10_obs_walrus_positional env mn (.name id c) v s s' (by simp [toExpr, xattrFree])
    (by simp [toExpr, strictlyNameable]) h
  simpa [toExpr, Spec.base, Spec.spell] using this


theorem call_tail (env : Env) (mn : Str) (X : Str) (args : List Node) (kwn : List (Option Str)) (kwv : List Node)
    (s₀ : St) (target : Option Sym) (selfName : Option Str) :
    Holds (fun u => ∃ c ∈ u.calls, c.name = Strs.withoutCallBrackets X)
      (mkCall s₀ X args kwn kwv target selfName fun s call =>
        let s := { s with calls := addCall s.calls call }
        visitList env mn args s >>>= fun s => visitList env mn kwv s) := by
  refine Holds.mkCall fun s₁ as kws => ?_
  refine Holds.of_mono (fun a b hab ⟨c, hc, hh⟩ => ⟨c, hab.calls _ hc, hh⟩)
    (hm := Mono.bind (visitList_mono env mn _ _) fun s₃ => visitList_mono env mn _ s₃) (hP := ?_)
  exact ⟨_, mem_addCall_self _ _, rfl⟩

/-- **Consumer `visit_Call`** (function.py: `custom_analyser_for_target` and
`_, fullname = self.get_and_verify_name(node, ast.Load())`): a call that no custom analyser takes is
recorded under `without_call_brackets(<documented spelling of the call expression>)`. -/
theorem C10_site_call (env : Env) (mn : Str) (f : Node) (args : List Node) (kwn : List (Option Str))
    (kwv : List Node) (s s' : St)
    (hx : xattrFree (toExpr (.call f args kwn kwv)) = true)
    (hna : analyserFor env mn (Context.getCallTarget env.ctxEnv s.ctx
        (Strs.withoutCallBrackets (Spec.spell (toExpr (.call f args kwn kwv))))
        (isCallOnCall (.call f args kwn kwv)) false).1 = none)
    (h : visit env mn (.call f args kwn kwv) s = .ok s') :
    ∃ c ∈ s'.calls, c.name = Strs.withoutCallBrackets (Spec.spell (toExpr (.call f args kwn kwv))) := by
  have hn := (node_names_spec (.call f args kwn kwv) true hx (Or.inl rfl)).1
  have hx' : xattrFree (toExpr f) = true ∧ isXattr (plainBase (toExpr f)) = false := by
    simpa [toExpr, xattrFree] using hx
  have hf := (node_names_spec f true hx'.1 (Or.inl rfl)).1
  have hp : ∀ g, toExpr f = .name g → isXattr g = false := by
    intro g hg; have := hx'.2; rw [hg] at this; simpa [plainBase] using this
  have hsp := (spec_call_plain (toExpr f) (toExprL args) hp).1
  have htn : targetNameNoUnravel (.call f args kwn kwv)
      = .ok (Spec.base (toExpr f)) (Strs.withoutCallBrackets (Spec.spell (toExpr (.call f args kwn kwv)))) := by
    simp only [Rattr.targetNameNoUnravel, hf, toExpr, hsp, lit_parens]
  unfold visit at h
  simp only [htn, FnA.liftName, hna] at h
  unfold FnA.getAndVerify FnA.liftName at h
  rw [hn] at h
  simp only at h
  exact call_tail env mn _ args kwn kwv _ _ _ s' h


/-- **Consumer `visit_ReturnValue`** (function.py: `fullname_of(node, safe=True)` to look the target
up, `class_name = fullname_of(node)` for the record): `return C(...)` with `C` resolving to a class
records a call under `without_call_brackets(<documented spelling of the call>)` whose first argument
is the stand-in `@ReturnValue`. -/
theorem C10_site_returnClass (env : Env) (mn : Str) (f : Node) (args : List Node) (kwn : List (Option Str))
    (kwv : List Node) (s s' : St) (k : St → Bool → Res) (hk : ∀ s₁ b, Mono s₁ (k s₁ b))
    (hx : xattrFree (toExpr (.call f args kwn kwv)) = true)
    (hv : strictlyNameable (toExpr (.call f args kwn kwv)) = true)
    (hcls : symIsClass (Context.getCallTarget env.ctxEnv s.ctx (Spec.spell (toExpr (.call f args kwn kwv)))
        (isCallOnCall (.call f args kwn kwv)) false).1 = true)
    (h : visitReturnValue env mn (.call f args kwn kwv) s k = .ok s') :
    ∃ c ∈ s'.calls, c.name = Strs.withoutCallBrackets (Spec.spell (toExpr (.call f args kwn kwv)))
      ∧ c.args.head? = some "@ReturnValue".toList := by
  have hn := (node_names_spec (.call f args kwn kwv) true hx (Or.inl rfl)).1
  have hn' := (node_names_spec (.call f args kwn kwv) false hx (Or.inr hv)).1
  have hx' : xattrFree (toExpr f) = true ∧ isXattr (plainBase (toExpr f)) = false := by
    simpa [toExpr, xattrFree] using hx
  have hd : isDirectXattr (toExpr f) = false := by
    cases hf : toExpr f <;> simp_all [isDirectXattr, plainBase]
  rw [visitReturnValue] at h
  simp only [xattr_any_isCallTo, hd, Bool.false_eq_true, if_false, hn, hn', FnA.liftName, hcls, Bool.not_true] at h
  refine (show Holds (fun u => ∃ c ∈ u.calls,
      c.name = Strs.withoutCallBrackets (Spec.spell (toExpr (.call f args kwn kwv)))
      ∧ c.args.head? = some "@ReturnValue".toList) _ from ?_) s' h
  refine Holds.mkCall fun s₁ as kws => ?_
  refine Holds.of_mono (fun a b hab ⟨c, hc, hh⟩ => ⟨c, hab.calls _ hc, hh⟩)
    (hm := Mono.bind (visitList_mono env mn _ _) fun s₃ =>
      Mono.bind (visitList_mono env mn _ s₃) fun s₄ => hk s₄ true) (hP := ?_)
  exact ⟨_, mem_addCall_self _ _, rfl, by simp⟩

/-! ### What the consumers do to a documented spelling AFTER naming it: three defect classes of the
pinned code downstream of the namers (each replayed on the implementation by py/props/c10sites.py
and listed in known_findings.json) -/

private def sX : Str := ['x']
private def sK : Str := ['k']
private def sW : Str := ['w']
private def sE : Str := ['e']
private def sItems : Str := ['i','t','e','m','s']

/-- `x.m()` -/
def w_inner_call : Expr := .call (.attr (.name sX) ['m']) []
/-- `x.m()(1)` -/
def w_call_on_call : Expr := .call w_inner_call [.other kConstant]
/-- `x[0].a.m()` -/
def w_receiver : Expr := .call (.attr (.attr (.sub (.name sX)) ['a']) ['m']) []
/-- `x[0]` (the object of `getattr(x[0], 'k')`) -/
def w_sub_obj : Expr := .sub (.name sX)

/-- The call record's name (`C10_site_call`: `without_call_brackets` of the spelling) does not
distinguish a call on a call result from the inner call: `x.m()(1)` and `x.m()` have different
documented spellings and the same record name `x.m`. -/
theorem C10_cex_call_on_call_collapsed :
    Spec.spell w_call_on_call = ['x','.','m','(',')','(',')']
    ∧ Spec.spell w_inner_call = ['x','.','m','(',')']
    ∧ Strs.withoutCallBrackets (Spec.spell w_call_on_call) = Strs.withoutCallBrackets (Spec.spell w_inner_call) := by
  decide

/-- `visit_Call`'s receiver prefixes are `Name(prefix, parts[0])`: for `x[0].a.m()` the recorded
base of the prefix `x[].a` is `x[]`, not the innermost variable `x`. -/
theorem C10_cex_receiver_prefix_base :
    receiverPrefixes (Spec.spell w_receiver) = [⟨['x','[',']','.','a'], ['x','[',']']⟩]
    ∧ Spec.base w_receiver = sX := by decide

/-- The getattr-family analysers report the dotted prefixes of the accessed name with the default
basename (first dotted component of the spelling): for `getattr(x[0], 'k')` the prefix `x[]` gets the
base `x[]`, not `x`. -/
theorem C10_cex_xattr_lhs_base :
    lhsNames (Spec.spell w_sub_obj ++ ['.'] ++ sK) = [⟨['x','[',']'], ['x','[',']']⟩]
    ∧ Spec.base w_sub_obj = sX := by decide

/-- `sorted(x.items, key=lambda e: e.w)`: unbinding the lambda's parameter with the iterable's
SPELLING gives the substituted name that spelling as its base (`x.items`, not `x`). -/
theorem C10_cex_sorted_unbound_base :
    Results.unbindList [(sE, Spec.spell (.attr (.name sX) sItems))] [⟨sE ++ ['.'] ++ sW, sE⟩]
      = some [⟨['x','.','i','t','e','m','s','.','w'], ['x','.','i','t','e','m','s']⟩]
    ∧ Spec.base (.attr (.name sX) sItems) = sX := by decide

/-! ### The getattr family THROUGH A CALLER

`getattr` / `hasattr` / `setattr` / `delattr` calls are named by `get_dynamic_name` (the deprecated
path `get_xattr_obj_name_pair`), which derives the BASE of the accessed name `O.k` from the spelled
string: `first.split(".")[0].replace("*","").replace("[]","").replace("()","")`. The base is invisible
in the function's own results; it is the key of parameter → argument substitution when the function is
called (`Results.unbindList`: `swaps.get(name.basename)`). The theorems below say, for ALL access
chains over a variable (any depth, any mix of `.a` / `[…]` / `(…)`):

  * `C10_dynBase_spell` — the string pipeline computes exactly the documented base;
  * `C10_site_xattr_full` / `C10_site_xattr_visit` — the visitor records `Name(<documented spelling
    of the object>.k, <documented base>)` in gets (getattr, hasattr) / sets (setattr) / dels (delattr);
  * `C10_spell_substBase` — the README table is compositional under substitution of the variable;
  * `C10_xattr_through_caller` — unbinding that name with the argument's spelling gives the
    documented spelling of the object WITH THE ARGUMENT IN PLACE OF THE PARAMETER;
  * `C10_caller_leak` / `C10_cex_shared_helper_keeps_brackets` — a base that is not a parameter
    (what `get_basename_from_name` would give: `p[]`) leaves the callee-local spelling in the caller.

Tie B: op `analyse_fn` (channel `ir` of py/props/c10sites.py) for the recorded pair, op `pipeline`
(py/props/c10callers.py) for the callers' printed results. -/

open Rattr.C10S in
/-- an access chain over a variable whose identifier has none of `. * [ ] ( )` -/
def chain : Expr → Bool
  | .name x => identOK x
  | .attr e _ => chain e
  | .sub e => chain e
  | .call f _ => chain f
  | .starred _ => false
  | .strConst _ => false
  | .other _ => false

/-- an attribute step on the spine -/
def hasAttr : Expr → Bool
  | .attr _ _ => true
  | .sub e => hasAttr e
  | .call f _ => hasAttr f
  | .starred e => hasAttr e
  | _ => false

/-- the bracket tokens of the FIRST dotted component of the spelling (`true` = `[]`, `false` = `()`) -/
def firstToks : Expr → List Bool
  | .attr e _ => firstToks e
  | .sub e => if hasAttr e then firstToks e else firstToks e ++ [true]
  | .call f _ => if hasAttr f then firstToks f else firstToks f ++ [false]
  | _ => []

/-- what follows the variable in the spelling -/
def sfx : Expr → Str
  | .attr e a => sfx e ++ ['.'] ++ a
  | .sub e => sfx e ++ ['[', ']']
  | .call f _ => sfx f ++ ['(', ')']
  | _ => []

/-- `get_dynamic_name`'s base: first dotted component, `*` / `[]` / `()` removed. -/
def dynBase (first : Str) : Str := C10S.stripBrackets (C10S.headDot first)

theorem chain_strict : ∀ e, chain e = true → strictlyNameable e = true
  | .name _, _ => rfl
  | .attr e _, h => by simpa [strictlyNameable] using chain_strict e (by simpa [chain] using h)
  | .sub e, h => by simpa [strictlyNameable] using chain_strict e (by simpa [chain] using h)
  | .call f _, h => by simpa [strictlyNameable] using chain_strict f (by simpa [chain] using h)
  | .starred _, h => by simp [chain] at h
  | .strConst _, h => by simp [chain] at h
  | .other _, h => by simp [chain] at h

theorem chain_call_plain {f : Expr} {args : List Expr} (hx : xattrFree (.call f args) = true) :
    Spec.spell (.call f args) = Spec.spell f ++ ['(', ')'] ∧ Spec.base (.call f args) = Spec.base f
      ∧ xattrFree f = true := by
  simp [xattrFree] at hx
  have hp : ∀ g, f = .name g → isXattr g = false := by
    intro g hg; subst hg; simpa [plainBase] using hx.2
  have := spec_call_plain f args hp
  exact ⟨by simpa [parens] using this.1, this.2, hx.1⟩

/-- the base of a chain is its (clean) identifier -/
theorem chain_base_ident : ∀ e, chain e = true → xattrFree e = true → C10S.identOK (Spec.base e) = true
  | .name x, h, _ => by simpa [chain, Spec.base] using h
  | .attr e a, h, hx => by
    simpa [Spec.base] using chain_base_ident e (by simpa [chain] using h) (by simpa [xattrFree] using hx)
  | .sub e, h, hx => by
    simpa [Spec.base] using chain_base_ident e (by simpa [chain] using h) (by simpa [xattrFree] using hx)
  | .call f args, h, hx => by
    have hc := chain_call_plain hx
    rw [hc.2.1]
    exact chain_base_ident f (by simpa [chain] using h) hc.2.2
  | .starred _, h, _ => by simp [chain] at h
  | .strConst _, h, _ => by simp [chain] at h
  | .other _, h, _ => by simp [chain] at h

/-- **The spelling of a chain is its variable followed by its steps.** -/
theorem spell_eq_base_sfx : ∀ e, chain e = true → xattrFree e = true → Spec.spell e = Spec.base e ++ sfx e
  | .name x, _, _ => by simp [Spec.spell, Spec.base, sfx]
  | .attr e a, h, hx => by
    have ih := spell_eq_base_sfx e (by simpa [chain] using h) (by simpa [xattrFree] using hx)
    simp [Spec.spell, Spec.base, sfx, ih]
  | .sub e, h, hx => by
    have ih := spell_eq_base_sfx e (by simpa [chain] using h) (by simpa [xattrFree] using hx)
    simp [Spec.spell, Spec.base, sfx, ih]
  | .call f args, h, hx => by
    have hc := chain_call_plain hx
    have ih := spell_eq_base_sfx f (by simpa [chain] using h) hc.2.2
    rw [hc.1, hc.2.1, ih]; simp [sfx]
  | .starred _, h, _ => by simp [chain] at h
  | .strConst _, h, _ => by simp [chain] at h
  | .other _, h, _ => by simp [chain] at h

theorem hasAttr_dot : ∀ e, chain e = true → xattrFree e = true → hasAttr e = true → '.' ∈ Spec.spell e
  | .name x, _, _, ha => by simp [hasAttr] at ha
  | .attr e a, _, _, _ => by simp [Spec.spell]
  | .sub e, h, hx, ha => by
    have := hasAttr_dot e (by simpa [chain] using h) (by simpa [xattrFree] using hx) (by simpa [hasAttr] using ha)
    simp [Spec.spell, this]
  | .call f args, h, hx, ha => by
    have hc := chain_call_plain hx
    have := hasAttr_dot f (by simpa [chain] using h) hc.2.2 (by simpa [hasAttr] using ha)
    rw [hc.1]; simp [this]
  | .starred _, h, _, _ => by simp [chain] at h
  | .strConst _, h, _, _ => by simp [chain] at h
  | .other _, h, _, _ => by simp [chain] at h

/-- without an attribute step the whole spelling is the first component: variable ++ bracket tokens -/
theorem spell_noAttr : ∀ e, chain e = true → xattrFree e = true → hasAttr e = false →
    Spec.spell e = Spec.base e ++ C10S.flat (firstToks e)
  | .name x, _, _, _ => by simp [Spec.spell, Spec.base, firstToks, C10S.flat]
  | .attr e a, _, _, ha => by simp [hasAttr] at ha
  | .sub e, h, hx, ha => by
    have ha' : hasAttr e = false := by simpa [hasAttr] using ha
    have ih := spell_noAttr e (by simpa [chain] using h) (by simpa [xattrFree] using hx) ha'
    simp [Spec.spell, Spec.base, firstToks, ha', ih, C10S.flat_append, C10S.flat, C10S.tok]
  | .call f args, h, hx, ha => by
    have hc := chain_call_plain hx
    have ha' : hasAttr f = false := by simpa [hasAttr] using ha
    have ih := spell_noAttr f (by simpa [chain] using h) hc.2.2 ha'
    rw [hc.1, hc.2.1, ih]
    simp [firstToks, ha', C10S.flat_append, C10S.flat, C10S.tok]
  | .starred _, h, _, _ => by simp [chain] at h
  | .strConst _, h, _, _ => by simp [chain] at h
  | .other _, h, _, _ => by simp [chain] at h

theorem noAttr_noDot (e : Expr) (h : chain e = true) (hx : xattrFree e = true) (ha : hasAttr e = false) :
    '.' ∉ Spec.spell e := by
  rw [spell_noAttr e h hx ha]
  simp only [List.mem_append, not_or]
  exact ⟨C10S.identOK_not_mem (chain_base_ident e h hx) (by decide), C10S.flat_no_dot _⟩

/-- **`first.split(".")[0]` of a chain's spelling is the variable followed by bracket tokens.** -/
theorem headDot_spell : ∀ e, chain e = true → xattrFree e = true →
    C10S.headDot (Spec.spell e) = Spec.base e ++ C10S.flat (firstToks e)
  | .name x, h, _ => by
    have : '.' ∉ x := C10S.identOK_not_mem (by simpa [chain] using h) (by decide)
    simp [Spec.spell, Spec.base, firstToks, C10S.flat, C10S.headDot_noDot x this]
  | .attr e a, h, hx => by
    have ih := headDot_spell e (by simpa [chain] using h) (by simpa [xattrFree] using hx)
    have : Spec.spell (.attr e a) = Spec.spell e ++ '.' :: a := by simp [Spec.spell]
    rw [this, C10S.headDot_append_dot, ih]; simp [Spec.base, firstToks]
  | .sub e, h, hx => by
    have hc : chain e = true := by simpa [chain] using h
    have hxe : xattrFree e = true := by simpa [xattrFree] using hx
    have ih := headDot_spell e hc hxe
    have hs : Spec.spell (.sub e) = Spec.spell e ++ ['[', ']'] := by simp [Spec.spell]
    rw [hs, C10S.headDot_eq, C10S.takeWhile_append_noDot _ _ (by simp)]
    cases ha : hasAttr e with
    | true =>
      have hd := hasAttr_dot e hc hxe ha
      simp only [hd, if_true, ← C10S.headDot_eq, ih]; simp [Spec.base, firstToks, ha]
    | false =>
      have hd := noAttr_noDot e hc hxe ha
      simp only [hd, if_false]
      rw [spell_noAttr e hc hxe ha]
      simp [Spec.base, firstToks, ha, C10S.flat_append, C10S.flat, C10S.tok]
  | .call f args, h, hx => by
    have hcp := chain_call_plain hx
    have hc : chain f = true := by simpa [chain] using h
    have ih := headDot_spell f hc hcp.2.2
    rw [hcp.1, hcp.2.1, C10S.headDot_eq, C10S.takeWhile_append_noDot _ _ (by simp)]
    cases ha : hasAttr f with
    | true =>
      have hd := hasAttr_dot f hc hcp.2.2 ha
      simp only [hd, if_true, ← C10S.headDot_eq, ih]; simp [firstToks, ha]
    | false =>
      have hd := noAttr_noDot f hc hcp.2.2 ha
      simp only [hd, if_false]
      rw [spell_noAttr f hc hcp.2.2 ha]
      simp [firstToks, ha, C10S.flat_append, C10S.flat, C10S.tok]
  | .starred _, h, _ => by simp [chain] at h
  | .strConst _, h, _ => by simp [chain] at h
  | .other _, h, _ => by simp [chain] at h

/-- **The base `get_dynamic_name` derives from the spelled string is the documented base** — for every
access chain over a variable, whatever brackets its first dotted component carries (`p[0]`, `p(v).m`,
`p[0](v)[1].a.b`). -/
theorem C10_dynBase_spell (e : Expr) (h : chain e = true) (hx : xattrFree e = true) :
    dynBase (Spec.spell e) = Spec.base e := by
  unfold dynBase
  rw [headDot_spell e h hx]
  exact C10S.stripBrackets_ident_flat _ _ (chain_base_ident e h hx)

/-- … and so is the base of every NESTED literal getattr-family name built on it: the literal names
come after the first dot. -/
theorem C10_dynBase_dotted (e : Expr) (ks : List Str) (h : chain e = true) (hx : xattrFree e = true) :
    dynBase (dotted (Spec.spell e) ks) = Spec.base e := by
  induction ks with
  | nil => simpa [dotted] using C10_dynBase_spell e h hx
  | cons k r ih =>
    have : dotted (Spec.spell e) (k :: r) = dotted (Spec.spell e) r ++ '.' :: k := by simp [dotted, dot]
    rw [this]
    unfold dynBase at ih ⊢
    rw [C10S.headDot_append_dot]
    exact ih

theorem dotted_append (a b : Str) (ks : List Str) : dotted (a ++ b) ks = a ++ dotted b ks := by
  induction ks with
  | nil => simp [dotted]
  | cons k r ih => simp [dotted, ih]

/-- `get_xattr_obj_name_pair` (the Expr-level model `Naming.xattrPair`, tied to the code by op `names`)
on a nest of literal calls of one getattr-family builtin over a chain object (not itself a call): the
object's documented spelling followed by the inner literals, and the outermost literal. -/
theorem C10_xattr_pair_chain (fn : Str) (obj : Expr) (k : Str) (ks : List Str)
    (hcall : C10.isCall obj = false) (hc : chain obj = true) (hx : xattrFree obj = true) :
    xattrPair fn [nestX fn obj ks, .strConst k] = .ok (dotted (Spec.spell obj) ks) k :=
  xattrPair_nest fn obj _ _ hcall (C10_compositional_strict obj true hx (chain_strict obj hc)).2 ks k

/-- **Consumer `get_dynamic_name`** (rattr/analyser/util.py; used by plugins/analysers/builtins.py
`accessed_attributes`): whatever pair `get_xattr_obj_name_pair` returns, the name handed on is
`Name(first.second, dynBase first)`. -/
theorem dynamicName_ok (s : St) (fn k first second : Str) (obj : Node) (rest : List Node)
    (cont : St → NameS → Res)
    (hp : Rattr.xattrPairOld fn (obj :: .strConst k :: rest) = .ok first second) :
    dynamicName s fn (obj :: .strConst k :: rest) cont = cont s ⟨first ++ '.' :: second, dynBase first⟩ := by
  simp only [FnA.dynamicName, hp, dynBase, C10S.stripBrackets, C10S.headDot]

/-- **The name a literal getattr-family call records is the documented pair.** When the pair is the
one `C10_xattr_pair_chain` computes — object a chain `e`, inner literals `ks`, outer literal `k` —
the recorded name is `Name(<spelling of e>.ks….k, <base of e>)`: the documented spelling of the nest
(`C10_xattr_spec`) with the documented base, for every chain, whatever brackets its first dotted
component carries. -/
theorem C10_site_xattr_full (s : St) (fn k : Str) (obj : Node) (rest : List Node) (cont : St → NameS → Res)
    (e : Expr) (ks : List Str) (hc : chain e = true) (hx : xattrFree e = true)
    (hp : Rattr.xattrPairOld fn (obj :: .strConst k :: rest) = .ok (dotted (Spec.spell e) ks) k) :
    dynamicName s fn (obj :: .strConst k :: rest) cont
      = cont s ⟨dotted (Spec.spell e) (k :: ks), Spec.base e⟩ := by
  rw [dynamicName_ok s fn k _ _ obj rest cont hp, C10_dynBase_dotted e ks hc hx]
  simp [dotted, dot]

/-- **Consumer: the getattr-family analysers, through `visit_Call`.** A call that the custom analyser
`q` takes, over a chain object with literal names, records the documented pair in the section of the
builtin: gets for getattr / hasattr, sets for setattr, dels for delattr. -/
theorem C10_site_xattr_visit (env : Env) (mn : Str) (f obj : Node) (k : Str) (rest : List Node)
    (kwn : List (Option Str)) (kwv : List Node) (s s' : St) (b tn q : Str) (e : Expr) (ks : List Str)
    (htn : Rattr.targetNameNoUnravel (.call f (obj :: .strConst k :: rest) kwn kwv) = .ok b tn)
    (hq : analyserFor env mn (Context.getCallTarget env.ctxEnv s.ctx tn
        (isCallOnCall (.call f (obj :: .strConst k :: rest) kwn kwv)) false).1 = some q)
    (hc : chain e = true) (hx : xattrFree e = true)
    (hp : Rattr.xattrPairOld tn (obj :: .strConst k :: rest) = .ok (dotted (Spec.spell e) ks) k)
    (h : visit env mn (.call f (obj :: .strConst k :: rest) kwn kwv) s = .ok s') :
    let full : NameS := ⟨dotted (Spec.spell e) (k :: ks), Spec.base e⟩
    ((q = "getattr".toList ∨ q = "hasattr".toList) → full ∈ s'.gets)
    ∧ (q = "setattr".toList → full ∈ s'.sets)
    ∧ (q = "delattr".toList → full ∈ s'.dels) := by
  intro full
  unfold visit at h
  simp only [htn, FnA.liftName, hq] at h
  refine ⟨?_, ?_, ?_⟩
  · intro hg
    have hg' : (q = "getattr".toList || q = "hasattr".toList) = true := by
      rcases hg with e0 | e0 <;> simp [e0]
    simp only [hg', if_true, C10_site_xattr_full _ _ _ _ _ _ e ks hc hx hp] at h
    cases h
    exact mem_foldl_addTo.mpr (Or.inr (List.mem_cons_self ..))
  · intro hg
    subst hg
    simp only [C10_site_xattr_full _ _ _ _ _ _ e ks hc hx hp] at h
    have h' := h
    simp (config := { decide := true }) only [if_true, if_false] at h'
    cases h'
    exact mem_addTo_self _ _
  · intro hg
    subst hg
    simp only [C10_site_xattr_full _ _ _ _ _ _ e ks hc hx hp] at h
    have h' := h
    simp (config := { decide := true }) only [if_true, if_false] at h'
    cases h'
    exact mem_addTo_self _ _

/-- the variable of a chain replaced by an expression (what a call `f(arg)` does to the parameter) -/
def substBase (arg : Expr) : Expr → Expr
  | .name _ => arg
  | .attr e a => .attr (substBase arg e) a
  | .sub e => .sub (substBase arg e)
  | .call f args => .call (substBase arg f) args
  | e => e

/-- **The README table is compositional under substitution**: the spelling of a chain with an
expression in place of its variable is that expression's spelling followed by the chain's steps. -/
theorem C10_spell_substBase (arg : Expr) (ha : ∀ g, arg = .name g → isXattr g = false) :
    ∀ e, chain e = true → Spec.spell (substBase arg e) = Spec.spell arg ++ sfx e
  | .name x, _ => by simp [substBase, sfx]
  | .attr e a, h => by
    simp [substBase, Spec.spell, sfx, C10_spell_substBase arg ha e (by simpa [chain] using h)]
  | .sub e, h => by
    simp [substBase, Spec.spell, sfx, C10_spell_substBase arg ha e (by simpa [chain] using h)]
  | .call f args, h => by
    have hc : chain f = true := by simpa [chain] using h
    have hp : ∀ g, substBase arg f = .name g → isXattr g = false := by
      intro g hg
      cases f with
      | name x => exact ha g (by simpa [substBase] using hg)
      | attr e a => simp [substBase] at hg
      | sub e => simp [substBase] at hg
      | call f' a' => simp [substBase] at hg
      | starred e => simp [chain] at hc
      | strConst s => simp [chain] at hc
      | other k => simp [chain] at hc
    have := (spec_call_plain (substBase arg f) args hp).1
    simp only [substBase, this, C10_spell_substBase arg ha f hc, sfx, parens]
    simp
  | .starred _, h => by simp [chain] at h
  | .strConst _, h => by simp [chain] at h
  | .other _, h => by simp [chain] at h

/-- **Through a caller.** Unbinding the name a getattr-family call records for a chain object
(`C10_site_xattr_full`: spelling `O.k…`, base = the parameter) with the spelling of the caller's
argument gives the documented spelling of the object with the ARGUMENT in place of the parameter,
followed by the literal names: `setattr(p[0], 'flag', v)` called as `mark(x.rows, v)` is
`x.rows[].flag`. For every chain, every argument expression, every list of literal names. -/
theorem C10_xattr_through_caller (e arg : Expr) (ks : List Str) (h : chain e = true) (hx : xattrFree e = true)
    (ha : ∀ g, arg = .name g → isXattr g = false) :
    Results.unbindName ⟨dotted (Spec.spell e) ks, dynBase (dotted (Spec.spell e) ks)⟩ (Spec.spell arg)
      = some ⟨dotted (Spec.spell (substBase arg e)) ks, Spec.spell arg⟩ := by
  rw [C10_dynBase_dotted e ks h hx, C10_spell_substBase arg ha e h, spell_eq_base_sfx e h hx,
    dotted_append, dotted_append]
  have hid := chain_base_ident e h hx
  generalize Spec.base e = p at hid
  generalize dotted (sfx e) ks = t
  generalize Spec.spell arg = A
  have hne : p ≠ [] := by
    intro e0; subst e0; simp [C10S.identOK] at hid
  have hstar : '*' ∉ p := C10S.identOK_not_mem hid (by decide)
  unfold Results.unbindName
  by_cases hpa : p = A
  · subst hpa; simp
  · cases p with
    | nil => exact absurd rfl hne
    | cons c r =>
      have hc : c ≠ '*' := fun e0 => hstar (by simp [e0])
      simp [hpa, hc]

/-- A recorded base that no parameter carries is not substituted: the name reaches the caller with
the callee's spelling. -/
theorem C10_caller_leak (sw : Dict Str Str) (n : NameS) (hk : Dict.get? sw n.base = none) :
    Results.unbindList sw [n] = some [n] := by
  simp [Results.unbindList, Results.unbindName, hk]

/-- `p[0]`: the object of `setattr(p[0], 'flag', v)` -/
def w_param_sub : Expr := .sub (.name ['p'])
/-- `p(v).m[0]`: call and subscript around the first attribute -/
def w_param_mixed : Expr := .sub (.attr (.call (.name ['p']) [.name ['v']]) ['m'])

/-- **The shared helper is not a replacement.** `get_basename_from_name` (`Strs.basenameFromName`:
trailing call brackets and `*` only) keeps the `[]` of the first component where `get_dynamic_name`'s
pipeline strips it; and with the base `p[]` — no parameter of the callee — the accessed name stays
`p[].k` in a caller that passes `x.r` for `p` (documented, and what the pinned code prints: `x.r[].k`). -/
theorem C10_cex_shared_helper_keeps_brackets :
    Strs.basenameFromName (Spec.spell w_param_sub) = ['p','[',']']
    ∧ dynBase (Spec.spell w_param_sub) = ['p']
    ∧ Results.unbindList [(['p'], ['x','.','r'])] [⟨Spec.spell w_param_sub ++ ['.','k'], ['p','[',']']⟩]
        = some [⟨['p','[',']','.','k'], ['p','[',']']⟩]
    ∧ Results.unbindList [(['p'], ['x','.','r'])] [⟨Spec.spell w_param_sub ++ ['.','k'], ['p']⟩]
        = some [⟨['x','.','r','[',']','.','k'], ['x','.','r']⟩] := by decide

/-- Which dotted PREFIXES of a getattr-family name the pinned code reports with a wrong base
(`lhsNames` = `Name(prefix)` with the default basename; the known finding `…:keeps-brackets:xattr-lhs`):
exactly those whose first dotted component, trailing call brackets of the whole prefix dropped, still
has brackets. A finite table (a test, by kernel evaluation): `p[]`, `p[].a`, `p().m`, `p()[]`, `p[]()`
deviate; `p()`, `p.a[]`, `p.a()` do not. -/
theorem C10_obs_lhs_default_base :
    (FnA.nameDefault ['p','[',']']).base = ['p','[',']']
    ∧ (FnA.nameDefault ['p','[',']','.','a']).base = ['p','[',']']
    ∧ (FnA.nameDefault ['p','(',')','.','m']).base = ['p','(',')']
    ∧ (FnA.nameDefault ['p','(',')','[',']']).base = ['p','(',')','[',']']
    ∧ (FnA.nameDefault ['p','[',']','(',')']).base = ['p','[',']']
    ∧ (FnA.nameDefault ['p','(',')']).base = ['p']
    ∧ (FnA.nameDefault ['p','.','a','[',']']).base = ['p']
    ∧ (FnA.nameDefault ['p','.','a','(',')']).base = ['p'] := by decide

example : chain w_param_sub = true ∧ xattrFree w_param_sub = true ∧ firstToks w_param_sub = [true]
    ∧ C10.isCall w_param_sub = false := by decide
example : chain w_param_mixed = true ∧ xattrFree w_param_mixed = true ∧ firstToks w_param_mixed = [false]
    ∧ hasAttr w_param_mixed = true ∧ sfx w_param_mixed = ['(',')','.','m','[',']'] := by decide
example : Spec.spell (substBase (.attr (.name ['x']) ['r']) w_param_mixed) = "x.r().m[]".toList := by decide
example : dotted (Spec.spell w_param_sub) [['m'], ['k']] = "p[].k.m".toList := by decide

/-! ### Non-vacuity of the consumer theorems -/

private def nShape : Node := .name ['s'] .store
/-- `s.corners[0].anchor` as an assignment target -/
private def nTarget : Node := .attr (.sub (.attr nShape ['c'] .store) .const .store) ['a'] .store

example : toExpr nTarget = .attr (.sub (.attr (.name ['s']) ['c'])) ['a'] := by
  simp [nTarget, nShape, toExpr]
example : xattrFree (toExpr nTarget) = true ∧ strictlyNameable (toExpr nTarget) = true
    ∧ accessCtx nTarget = some .store ∧ isTupleOrList nTarget = false ∧ nTarget.isNameable = true := by
  simp [nTarget, nShape, toExpr, xattrFree, strictlyNameable, accessCtx, FnA.isTupleOrList, Node.isNameable]
example : Spec.spell (toExpr nTarget) = ['s','.','c','[',']','.','a'] ∧ Spec.base (toExpr nTarget) = ['s'] := by
  simp [nTarget, nShape, toExpr, Spec.spell, Spec.base]

/-! ### Round 4: every safe-naming consumer, every expression class; positional = keyword -/

/-- **Consumer `base_names`** (analyser/cls.py: `[fullname_of(b, safe=True) for b in cls.bases]`,
model `FileA.baseNames`): for ALL lists of getattr-family-free base expressions — every node class,
the unnameable ones (`A if c else B`, `(A, B)[0]`, `A or B`, `(lambda: A)()`, …) included — the class
analyser continues with the documented spellings of the bases, in order. -/
theorem C10_site_baseNames (bases : List Node) (hx : ∀ b ∈ bases, xattrFree (toExpr b) = true) :
    ∀ (s : FileA.FState) (k : List Str → FileA.FOut),
      FileA.baseNames s bases k = k (bases.map fun b => Spec.spell (toExpr b)) := by
  induction bases with
  | nil => intro s k; rfl
  | cons b r ih =>
    intro s k
    have hb := (node_names_spec b true (hx b (by simp)) (Or.inl rfl)).1
    simp only [FileA.baseNames, hb, FileA.fLiftName, List.map_cons]
    exact ih (fun c hc => hx c (by simp [hc])) s _

/-- … in particular naming the bases never ends the analysis ("safe naming never raises" at this
consumer): the outcome is whatever the rest of the class analysis makes of the spellings. -/
theorem C10_site_baseNames_total (bases : List Node) (hx : ∀ b ∈ bases, xattrFree (toExpr b) = true)
    (s : FileA.FState) (k : List Str → FileA.FOut) (hk : ∀ l, ∃ s', k l = .ok s') :
    ∃ s', FileA.baseNames s bases k = .ok s' := by
  rw [C10_site_baseNames bases hx s k]; exact hk _

/-- an unnameable base is spelled `@Kind`, and the heuristics read that string: a conditional whose
attribute `Enum` is taken IS an enum by the heuristic (`@IfExp.Enum` ends in `.Enum`). -/
def nIfExp : Node := .other "IfExp".toList []

theorem C10_obs_base_standin_spelling :
    Spec.spell (toExpr nIfExp) = "@IfExp".toList
    ∧ FileA.heuristic "Enum" [Spec.spell (toExpr nIfExp)] = false
    ∧ FileA.heuristic "Enum" [Spec.spell (toExpr (.attr nIfExp "Enum".toList .load))] = true := by
  decide

/-- what `safe=True` at `base_names` is there for: STRICT naming of the same base raises (the class
of change `list(map(fullname_of, cls.bases))` turns every such class statement into a traceback). -/
theorem C10_obs_base_strict_raises :
    Rattr.namesOf false nIfExp = .crash "TypeError".toList
    ∧ Rattr.namesOf true nIfExp = .ok "@IfExp".toList "@IfExp".toList := by
  decide

/-- `get_xattr_obj_name_pair` on a literal name and an object that is a nameable non-call node:
the object is named STRICTLY by the deprecated namer, the attribute text is the literal. -/
theorem pairOld_plain (x k : Str) (obj : Node) (rest : List Node)
    (hc : Rattr.isCall obj = false) (hnm : obj.isNameable = true) :
    Rattr.xattrPairOld x (obj :: .strConst k :: rest) =
      match Rattr.oldNames false obj with
      | .ok _ full => .ok full k
      | r => r := by
  cases obj <;>
    first
    | (simp [Rattr.isCall] at hc; done)
    | (simp [Node.isNameable] at hnm; done)
    | (set_option smartUnfolding false in rfl)

/-- **A direct literal getattr-family call in an argument slot** (`arg_name` / `kwarg_name`:
`get_fullname(·, safe=True)`, the deprecated namer on the analyser's `Node`): for any of the four
builtins and any non-call object on a getattr-family-free variable chain, the argument is spelled as
the dotted access on the object's documented spelling — which is the README spelling of the call. -/
theorem C10_site_xattrArg (fn k : Str) (c : ECtx) (obj : Node) (rest : List Node)
    (kwn : List (Option Str)) (kwv : List Node)
    (hf : isXattr fn = true) (hc : Rattr.isCall obj = false) (hnm : obj.isNameable = true)
    (hx : xattrFree (toExpr obj) = true) (hv : strictlyNameable (toExpr obj) = true) :
    Rattr.oldNames true (.call (.name fn c) (obj :: .strConst k :: rest) kwn kwv)
      = .ok fn (Spec.spell (toExpr obj) ++ '.' :: k)
    ∧ Spec.spell (toExpr (.call (.name fn c) (obj :: .strConst k :: rest) kwn kwv))
      = Spec.spell (toExpr obj) ++ '.' :: k := by
  have ho := (node_names_spec obj false hx (Or.inr hv)).2
  have hany : Rattr.xattrBuiltins.any
      (fun x => Rattr.isCallTo x (.call (.name fn c) (obj :: .strConst k :: rest) kwn kwv)) = true := by
    rw [xattr_any_isCallTo]; simpa [toExpr, isDirectXattr] using hf
  have hm : fn ∈ [['d','e','l','a','t','t','r'], ['g','e','t','a','t','t','r'],
         ['h','a','s','a','t','t','r'], ['s','e','t','a','t','t','r']] := by
    simpa [isXattr, attrAccessBuiltins] using hf
  constructor
  · have hp := pairOld_plain fn k obj rest hc hnm
    rw [ho] at hp
    simp only [Rattr.oldNames, hany, hp]
    simp
  · simp only [toExpr, toExprL, Spec.spell, hm, ↓reduceIte]
    simp [dot]

/-- positional slot: the call record's argument list starts with the documented spelling `O.k`. -/
theorem C10_site_argName_xattr (fn k : Str) (c : ECtx) (obj : Node) (rest r : List Node)
    (kwn : List (Option Str)) (kwv : List Node)
    (hf : isXattr fn = true) (hc : Rattr.isCall obj = false) (hnm : obj.isNameable = true)
    (hx : xattrFree (toExpr obj) = true) (hv : strictlyNameable (toExpr obj) = true)
    (s : St) (cont : St → List Str → Res) :
    argNames s (.call (.name fn c) (obj :: .strConst k :: rest) kwn kwv :: r) cont
      = argNames s r (fun s l => cont s ((Spec.spell (toExpr obj) ++ '.' :: k) :: l)) := by
  have h := (C10_site_xattrArg fn k c obj rest kwn kwv hf hc hnm hx hv).1
  simp [FnA.argNames, h, FnA.isStarred]

/-- keyword slot: the same string under the keyword. -/
theorem C10_site_kwargName_xattr (fn k key : Str) (c : ECtx) (obj : Node) (rest : List Node)
    (kwn : List (Option Str)) (kwv : List Node) (rn : List (Option Str)) (rv : List Node)
    (hf : isXattr fn = true) (hc : Rattr.isCall obj = false) (hnm : obj.isNameable = true)
    (hx : xattrFree (toExpr obj) = true) (hv : strictlyNameable (toExpr obj) = true)
    (s : St) (cont : St → List (Str × Str) → Res) :
    kwargNames s (some key :: rn) (.call (.name fn c) (obj :: .strConst k :: rest) kwn kwv :: rv) cont
      = kwargNames s rn rv (fun s l => cont s ((key, Spec.spell (toExpr obj) ++ '.' :: k) :: l)) := by
  have h := (C10_site_xattrArg fn k c obj rest kwn kwv hf hc hnm hx hv).1
  simp [FnA.kwargNames, h]

/-- **The two argument paths agree**: for EVERY argument expression (no hypothesis on its shape) the
spelling `kwarg_name` records under a keyword is the spelling `arg_name` records by position — both
are `get_fullname(·, safe=True)`; a change of one of them (another namer, another flag) breaks this. -/
theorem C10_site_arg_kwarg_agree (a : Node) (key b f : Str) (s : St) (ha : isStarred a = false)
    (h : Rattr.oldNames true a = .ok b f) :
    (∀ cont, argNames s [a] cont = cont s [f])
    ∧ (∀ cont, kwargNames s [some key] [a] cont = cont s [(key, f)]) := by
  constructor
  · intro cont; simp [FnA.argNames, ha, h]
  · intro cont; simp [FnA.kwargNames, h]

example : isXattr sGetattr = true ∧ Rattr.isCall nTarget = false ∧ nTarget.isNameable = true := by
  simp [isXattr, attrAccessBuiltins, sGetattr, Rattr.isCall, nTarget, Node.isNameable]
example : xattrFree (toExpr nIfExp) = true ∧ xattrFree (toExpr nTarget) = true := by
  simp [nIfExp, nTarget, nShape, toExpr, xattrFree]

end Consumers

end Rattr.C10

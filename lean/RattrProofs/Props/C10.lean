/-
  C10 — names follow the documented nameable format, compositionally and totally.

  Model: `Naming.namesOf unravel safe` (= `rattr.ast.util.names_of`, with
         `get_python_attr_access_fn_obj_attr_pair` = `pairOf`) and `Naming.oldNames safe`
         (= `rattr.analyser.util.get_basename_fullname_pair`, with `get_xattr_obj_name_pair` =
         `xattrPair`)                                                RattrModel/Naming.lean
  Spec:  `Spec.spell`, `Spec.base` (the README "Nameables Format" table)   RattrModel/Spec/Spell.lean

  The full statement `C10_full` — (a) every successful naming is the README (base, spelling),
  (b) the two namers agree, (c) safe naming never raises or exits — is NOT a theorem of the pinned
  code (`C10_full_false`); each refuting class has a `C10_cex_*` theorem, is replayed on the
  implementation by py/props/c10.py and is listed in known_findings.json.

  Proved for ALL expression trees (structural recursion over the nested inductive `Expr`; any node
  kinds via `other`, any depth, any arguments):
    * `C10_eq_name/attr/sub/starred/call/standin` — the five compositional equations and the
      stand-in, both namers, failures included;
    * `C10_compositional`, `C10_compositional_strict` — on getattr-family-free expressions both
      namers return exactly `(Spec.base e, Spec.spell e)` (safe; and strict when the innermost node
      is a variable);
    * `C10_total_iff`, `C10_total_partial` — `names_of` succeeds exactly on the decidable fragment
      `okFor`;
    * `C10_agree_partial` — on the decidable fragment `agreeOK` both namers return the same outcome
      (same value, same exit site, same exception class), for both values of `safe`;
    * `C10_xattr`, `C10_xattr_spec` — nested literal getattr-family calls spell as the dotted
      access, for every builtin of the family, every nesting depth, every strictly nameable object.
  [interp] the base name of a getattr-family spelling is demanded to be the object's base
  (`Spec.base`); the code returns the builtin's name — recorded as `C10_cex_xattr_base`.
-/
import RattrModel.Naming
import RattrModel.Spec.Spell
import RattrModel.Generated.C10

namespace Rattr.C10
open Rattr Rattr.Naming

/-! ### Tie A: the constants the model hard-codes are what the source says now -/

theorem tieA_prefix : Generated.C10.literalPrefix = Naming.literalPrefix := by decide
theorem tieA_builtins : Generated.C10.attrAccessBuiltins = Naming.attrAccessBuiltins := by decide
theorem tieA_node_with_name : Generated.C10.astNodeWithName = Naming.astNodeWithName := by decide
theorem tieA_literals : Generated.C10.astLiterals = Naming.astLiterals := by decide
theorem tieA_comprehensions : Generated.C10.astComprehensions = Naming.astComprehensions := by decide

/-- The leftmost leaf of the func/value spine: the identifier, or the `@Kind` stand-in. This is the
base name both namers return whenever they succeed (`namesOf_base`, `oldNames_base`). -/
def plainBase : Expr → Str
  | .name x => x
  | .attr e _ => plainBase e
  | .sub e => plainBase e
  | .starred e => plainBase e
  | .call f _ => plainBase f
  | .strConst _ => literalPrefix ++ kConstant
  | .other k => literalPrefix ++ k

theorem mapFull_ok {o : Out} {g : Str → Str} {b l : Str} (h : o.mapFull g = .ok b l) :
    ∃ l', o = .ok b l' ∧ l = g l' := by
  cases o with
  | ok b' l' => simp [Out.mapFull] at h; exact ⟨l', by simp [h.1], h.2.symm⟩
  | fatal w => simp [Out.mapFull] at h
  | raised x => simp [Out.mapFull] at h

theorem unnameable_ok {s : Bool} {k b l : Str} (h : unnameable s k = .ok b l) :
    s = true ∧ b = literalPrefix ++ k ∧ l = literalPrefix ++ k := by
  cases s <;> simp [unnameable] at h ⊢
  exact ⟨h.1.symm, h.2.symm⟩

theorem namesOf_base : ∀ (e : Expr) (u s : Bool) (b l : Str),
    namesOf u s e = .ok b l → b = plainBase e
  | .name x, u, s, b, l, h => by
    simp [namesOf] at h
    simp [plainBase, h.1]
  | .attr e a, u, s, b, l, h => by
    simp only [namesOf] at h
    obtain ⟨l', h', _⟩ := mapFull_ok h
    simpa [plainBase] using namesOf_base e true s b l' h'
  | .sub e, u, s, b, l, h => by
    simp only [namesOf] at h
    obtain ⟨l', h', _⟩ := mapFull_ok h
    simpa [plainBase] using namesOf_base e true s b l' h'
  | .starred e, u, s, b, l, h => by
    simp only [namesOf] at h
    obtain ⟨l', h', _⟩ := mapFull_ok h
    simpa [plainBase] using namesOf_base e true s b l' h'
  | .call f args, u, s, b, l, h => by
    simp only [namesOf] at h
    cases h' : namesOf true s f with
    | ok b' l' =>
      have ih := namesOf_base f true s b' l' h'
      rw [h'] at h
      simp only at h
      split at h
      · split at h
        · simp at h; simp [plainBase, ← h.1, ih]
        · rename_i o hne
          cases o <;> simp_all
      · simp at h; simp [plainBase, ← h.1, ih]
    | fatal w => rw [h'] at h; simp at h
    | raised x => rw [h'] at h; simp at h
  | .strConst _, u, s, b, l, h => by
    simp only [namesOf] at h
    simp [plainBase, (unnameable_ok h).2.1]
  | .other k, u, s, b, l, h => by
    simp only [namesOf] at h
    simp [plainBase, (unnameable_ok h).2.1]


theorem oldNames_base : ∀ (e : Expr) (s : Bool) (b l : Str),
    oldNames s e = .ok b l → b = plainBase e
  | .name x, s, b, l, h => by
    simp [oldNames] at h
    simp [plainBase, h.1]
  | .attr e a, s, b, l, h => by
    simp only [oldNames] at h
    obtain ⟨l', h', _⟩ := mapFull_ok h
    simpa [plainBase] using oldNames_base e s b l' h'
  | .sub e, s, b, l, h => by
    simp only [oldNames] at h
    obtain ⟨l', h', _⟩ := mapFull_ok h
    simpa [plainBase] using oldNames_base e s b l' h'
  | .starred e, s, b, l, h => by
    simp only [oldNames] at h
    obtain ⟨l', h', _⟩ := mapFull_ok h
    simpa [plainBase] using oldNames_base e s b l' h'
  | .call f args, s, b, l, h => by
    simp only [oldNames] at h
    cases h' : oldNames s f with
    | ok b' l' =>
      have ih := oldNames_base f s b' l' h'
      rw [h'] at h
      simp only at h
      split at h
      · split at h
        · simp at h; simp [plainBase, ← h.1, ih]
        · rename_i o hne
          cases o <;> simp_all
      · simp at h; simp [plainBase, ← h.1, ih]
    | fatal w => rw [h'] at h; simp at h
    | raised x => rw [h'] at h; simp at h
  | .strConst _, s, b, l, h => by
    simp only [oldNames] at h
    simp [plainBase, (unnameable_ok h).2.1]
  | .other k, s, b, l, h => by
    simp only [oldNames] at h
    simp [plainBase, (unnameable_ok h).2.1]

/-! ### The five compositional equations + the stand-in, for ALL expressions (both namers) -/

/-- `x` is `x`. -/
theorem C10_eq_name (u s : Bool) (x : Str) :
    namesOf u s (.name x) = .ok x x ∧ oldNames s (.name x) = .ok x x := by
  simp [namesOf, oldNames]

/-- `e.a` is `E.a`: whatever `e` is, success or failure. -/
theorem C10_eq_attr (u s : Bool) (e : Expr) (a : Str) :
    namesOf u s (.attr e a) = (namesOf true s e).mapFull (· ++ dot ++ a)
    ∧ oldNames s (.attr e a) = (oldNames s e).mapFull (· ++ dot ++ a) := by
  simp [namesOf, oldNames]

/-- `e[i]` is `E[]`. -/
theorem C10_eq_sub (u s : Bool) (e : Expr) :
    namesOf u s (.sub e) = (namesOf true s e).mapFull (· ++ brackets)
    ∧ oldNames s (.sub e) = (oldNames s e).mapFull (· ++ brackets) := by
  simp [namesOf, oldNames]

/-- `*e` is `*E`. -/
theorem C10_eq_starred (u s : Bool) (e : Expr) :
    namesOf u s (.starred e) = (namesOf true s e).mapFull (star ++ ·)
    ∧ oldNames s (.starred e) = (oldNames s e).mapFull (star ++ ·) := by
  simp [namesOf, oldNames]

/-- `e(...)` is `E()` unless the base name of `e` is one of the four getattr-family builtins. -/
theorem C10_eq_call (u s : Bool) (f : Expr) (args : List Expr)
    (h : isXattr (plainBase f) = false) :
    namesOf u s (.call f args) = (namesOf true s f).mapFull (· ++ parens)
    ∧ oldNames s (.call f args) = (oldNames s f).mapFull (· ++ parens) := by
  constructor
  · simp only [namesOf]
    cases h' : namesOf true s f with
    | ok b l =>
      have := namesOf_base f true s b l h'
      simp [Out.mapFull, this, h]
    | fatal w => simp [Out.mapFull]
    | raised x => simp [Out.mapFull]
  · simp only [oldNames]
    have hd : isDirectXattr f = false := by
      cases f <;> simp_all [isDirectXattr, plainBase]
    cases h' : oldNames s f with
    | ok b l => simp [Out.mapFull, hd]
    | fatal w => simp [Out.mapFull]
    | raised x => simp [Out.mapFull]

/-- An expression with no name is `@` followed by its AST node type (safe naming). -/
theorem C10_eq_standin (u : Bool) (k : Str) :
    namesOf u true (.other k) = .ok ('@' :: k) ('@' :: k)
    ∧ oldNames true (.other k) = .ok ('@' :: k) ('@' :: k) := by
  simp [namesOf, oldNames, unnameable, literalPrefix]


/-! ### (a) on the getattr-family-free fragment: both namers equal the README spelling -/

/-- No call on the spine has a getattr-family base name (arguments are unrestricted). -/
def xattrFree : Expr → Bool
  | .name _ => true
  | .attr e _ => xattrFree e
  | .sub e => xattrFree e
  | .starred e => xattrFree e
  | .call f _ => xattrFree f && !isXattr (plainBase f)
  | .strConst _ => true
  | .other _ => true

theorem isXattr_false_iff (g : Str) :
    isXattr g = false ↔
      g ∉ [['d','e','l','a','t','t','r'], ['g','e','t','a','t','t','r'],
           ['h','a','s','a','t','t','r'], ['s','e','t','a','t','t','r']] := by
  simp [isXattr, attrAccessBuiltins]

/-- On a call whose function is not a direct getattr-family name the README reads `E()`. -/
theorem spec_call_plain (f : Expr) (args : List Expr)
    (h : ∀ g, f = .name g → isXattr g = false) :
    Spec.spell (.call f args) = Spec.spell f ++ parens ∧ Spec.base (.call f args) = Spec.base f := by
  cases f with
  | name g =>
    have hg := (isXattr_false_iff g).1 (h g rfl)
    match args with
    | [] => simp [Spec.spell, Spec.base, parens]
    | [_] => simp [Spec.spell, Spec.base, parens]
    | _ :: nm :: _ =>
      cases nm <;> simp [Spec.spell, Spec.base, parens, hg]
  | attr e a => simp [Spec.spell, Spec.base, parens]
  | sub e => simp [Spec.spell, Spec.base, parens]
  | starred e => simp [Spec.spell, Spec.base, parens]
  | call f' a' => simp [Spec.spell, Spec.base, parens]
  | strConst s => simp [Spec.spell, Spec.base, parens]
  | other k => simp [Spec.spell, Spec.base, parens]

theorem spec_base_plain : ∀ e, xattrFree e = true → Spec.base e = plainBase e
  | .name x, _ => by simp [Spec.base, plainBase]
  | .attr e a, h => by simpa [Spec.base, plainBase] using spec_base_plain e (by simpa [xattrFree] using h)
  | .sub e, h => by simpa [Spec.base, plainBase] using spec_base_plain e (by simpa [xattrFree] using h)
  | .starred e, h => by simpa [Spec.base, plainBase] using spec_base_plain e (by simpa [xattrFree] using h)
  | .call f args, h => by
    simp [xattrFree] at h
    have hp : ∀ g, f = .name g → isXattr g = false := by
      intro g hg; subst hg; simpa [plainBase] using h.2
    rw [(spec_call_plain f args hp).2]
    simpa [plainBase] using spec_base_plain f h.1
  | .strConst _, _ => by simp [Spec.base, plainBase, literalPrefix, kConstant]
  | .other k, _ => by simp [Spec.base, plainBase, literalPrefix]

/-- **(a), safe naming.** On every getattr-family-free expression — any node kinds, any depth — both
namers return exactly the README base and spelling. -/
theorem C10_compositional : ∀ (e : Expr) (u : Bool), xattrFree e = true →
    namesOf u true e = .ok (Spec.base e) (Spec.spell e)
    ∧ oldNames true e = .ok (Spec.base e) (Spec.spell e)
  | .name x, u, _ => by simp [namesOf, oldNames, Spec.base, Spec.spell]
  | .attr e a, u, h => by
    have ih := C10_compositional e true (by simpa [xattrFree] using h)
    simp [namesOf, oldNames, ih.1, ih.2, Out.mapFull, Spec.base, Spec.spell, dot]
  | .sub e, u, h => by
    have ih := C10_compositional e true (by simpa [xattrFree] using h)
    simp [namesOf, oldNames, ih.1, ih.2, Out.mapFull, Spec.base, Spec.spell, brackets]
  | .starred e, u, h => by
    have ih := C10_compositional e true (by simpa [xattrFree] using h)
    simp [namesOf, oldNames, ih.1, ih.2, Out.mapFull, Spec.base, Spec.spell, star]
  | .call f args, u, h => by
    simp [xattrFree] at h
    have ih := C10_compositional f true h.1
    have hp : ∀ g, f = .name g → isXattr g = false := by
      intro g hg; subst hg; simpa [plainBase] using h.2
    have hs := spec_call_plain f args hp
    have hc := C10_eq_call u true f args h.2
    rw [hc.1, hc.2, ih.1, ih.2, hs.1, hs.2]
    simp [Out.mapFull]
  | .strConst _, u, _ => by
    simp [namesOf, oldNames, unnameable, literalPrefix, kConstant, Spec.base, Spec.spell]
  | .other k, u, _ => by
    simp [namesOf, oldNames, unnameable, literalPrefix, Spec.base, Spec.spell]

/-- The spine ends in a variable. -/
def strictlyNameable : Expr → Bool
  | .name _ => true
  | .attr e _ => strictlyNameable e
  | .sub e => strictlyNameable e
  | .starred e => strictlyNameable e
  | .call f _ => strictlyNameable f
  | .strConst _ => false
  | .other _ => false

/-- **(a), strict naming.** The same under `safe=False` when the innermost node is a variable. -/
theorem C10_compositional_strict : ∀ (e : Expr) (u : Bool),
    xattrFree e = true → strictlyNameable e = true →
    namesOf u false e = .ok (Spec.base e) (Spec.spell e)
    ∧ oldNames false e = .ok (Spec.base e) (Spec.spell e)
  | .name x, u, _, _ => by simp [namesOf, oldNames, Spec.base, Spec.spell]
  | .attr e a, u, h, hn => by
    have ih := C10_compositional_strict e true (by simpa [xattrFree] using h) (by simpa [strictlyNameable] using hn)
    simp [namesOf, oldNames, ih.1, ih.2, Out.mapFull, Spec.base, Spec.spell, dot]
  | .sub e, u, h, hn => by
    have ih := C10_compositional_strict e true (by simpa [xattrFree] using h) (by simpa [strictlyNameable] using hn)
    simp [namesOf, oldNames, ih.1, ih.2, Out.mapFull, Spec.base, Spec.spell, brackets]
  | .starred e, u, h, hn => by
    have ih := C10_compositional_strict e true (by simpa [xattrFree] using h) (by simpa [strictlyNameable] using hn)
    simp [namesOf, oldNames, ih.1, ih.2, Out.mapFull, Spec.base, Spec.spell, star]
  | .call f args, u, h, hn => by
    simp [xattrFree] at h
    have ih := C10_compositional_strict f true h.1 (by simpa [strictlyNameable] using hn)
    have hp : ∀ g, f = .name g → isXattr g = false := by
      intro g hg; subst hg; simpa [plainBase] using h.2
    have hs := spec_call_plain f args hp
    have hc := C10_eq_call u false f args h.2
    rw [hc.1, hc.2, ih.1, ih.2, hs.1, hs.2]
    simp [Out.mapFull]
  | .strConst _, u, _, hn => by simp [strictlyNameable] at hn
  | .other k, u, _, hn => by simp [strictlyNameable] at hn


/-! ### (c) totality: exactly which expressions the new namer names without raising or exiting -/

mutual
/-- Decidable characterisation of success of `names_of(e, safe=s)`. -/
def okFor (s : Bool) : Expr → Bool
  | .name _ => true
  | .attr e _ => okFor s e
  | .sub e => okFor s e
  | .starred e => okFor s e
  | .call f args => okFor s f && (!isXattr (plainBase f) || argsOk (plainBase f) args)
  | .strConst _ => s
  | .other _ => s
/-- … of `get_python_attr_access_fn_obj_attr_pair(fn, call(_, args))`: at least two arguments; the
name argument safely nameable; the object either a nested direct call of the same builtin
(recursively) or *strictly* nameable. -/
def argsOk (fn : Str) : List Expr → Bool
  | obj :: nm :: _ =>
    okFor true nm &&
      (match obj with
       | .call f' args' => isCallTo fn f' && argsOk fn args'
       | .name _ => true
       | .attr e _ => okFor false e
       | .sub e => okFor false e
       | .starred e => okFor false e
       | .strConst _ => false
       | .other _ => false)
  | _ => false
end

theorem isOk_mapFull (o : Out) (g : Str → Str) : (o.mapFull g).isOk = o.isOk := by
  cases o <;> rfl

theorem isOk_objOnly (o : Out) (a : Str) : (objOnly o a).isOk = o.isOk := by
  cases o <;> rfl

theorem isOk_pairPlain (nmOut objOut : Out) (nm : Expr) :
    (pairPlain nmOut nm objOut).isOk = (nmOut.isOk && objOut.isOk) := by
  cases nmOut <;> cases objOut <;> rfl

mutual
theorem total_e : ∀ (e : Expr) (s : Bool), (namesOf true s e).isOk = okFor s e
  | .name x, s => by simp [namesOf, okFor, Out.isOk]
  | .attr e a, s => by simp only [namesOf, okFor, isOk_mapFull]; exact total_e e s
  | .sub e, s => by simp only [namesOf, okFor, isOk_mapFull]; exact total_e e s
  | .starred e, s => by simp only [namesOf, okFor, isOk_mapFull]; exact total_e e s
  | .call f args, s => by
    have ih := total_e f s
    simp only [namesOf, okFor]
    cases h' : namesOf true s f with
    | ok b l =>
      have hb := namesOf_base f true s b l h'
      rw [h'] at ih
      simp only [Out.isOk] at ih
      rw [← ih, ← hb]
      cases hx : isXattr b with
      | false => simp [Out.isOk, hx]
      | true =>
        have ia := total_args b args
        simp only [Bool.true_and, Bool.not_true, Bool.false_or]
        rw [← ia]
        cases pairOf b args <;> simp [Out.isOk, hx]
    | fatal w => rw [h'] at ih; simp only [Out.isOk] at ih; simp [Out.isOk, ← ih]
    | raised x => rw [h'] at ih; simp only [Out.isOk] at ih; simp [Out.isOk, ← ih]
  | .strConst _, s => by cases s <;> simp [namesOf, okFor, unnameable, Out.isOk]
  | .other k, s => by cases s <;> simp [namesOf, okFor, unnameable, Out.isOk]

theorem total_args : ∀ (fn : Str) (args : List Expr), (pairOf fn args).isOk = argsOk fn args
  | fn, [] => by simp [pairOf, argsOk, Out.isOk]
  | fn, [_] => by simp [pairOf, argsOk, Out.isOk]
  | fn, .call f' args' :: nm :: rest => by
    have inm := total_e nm true
    have ia := total_args fn args'
    simp only [pairOf, argsOk]
    rw [← inm, ← ia]
    cases namesOf true true nm with
    | ok bn vn =>
      cases hc : isCallTo fn f' with
      | false => simp [Out.isOk]
      | true => cases pairOf fn args' <;> simp [Out.isOk]
    | fatal w => simp [Out.isOk]
    | raised x => simp [Out.isOk]
  | fn, .name id :: nm :: rest => by
    simp only [pairOf, argsOk, isOk_pairPlain, total_e nm true]
    simp [namesOf, Out.isOk]
  | fn, .attr e a :: nm :: rest => by
    simp only [pairOf, argsOk, isOk_pairPlain, total_e nm true, total_e (.attr e a) false, okFor]
  | fn, .sub e :: nm :: rest => by
    simp only [pairOf, argsOk, isOk_pairPlain, total_e nm true, total_e (.sub e) false, okFor]
  | fn, .starred e :: nm :: rest => by
    simp only [pairOf, argsOk, isOk_pairPlain, total_e nm true, total_e (.starred e) false, okFor]
  | fn, .strConst s :: nm :: rest => by
    simp only [pairOf, argsOk, isOk_pairPlain, total_e nm true, total_e (.strConst s) false, okFor]
  | fn, .other k :: nm :: rest => by
    simp only [pairOf, argsOk, isOk_pairPlain, total_e nm true, total_e (.other k) false, okFor]
end


/-- **(c), decidable form.** `names_of(e, safe=s)` succeeds exactly on `okFor s e`. -/
theorem C10_total_iff (e : Expr) (s : Bool) : (namesOf true s e).isOk = okFor s e := total_e e s

/-- **(c) on the stated fragment.** If every getattr-family call the namer meets has two arguments,
a safely nameable name argument and a strictly nameable (or same-builtin nested) object, safe
naming returns a value — it neither raises nor exits — and the base is the spine's leftmost name. -/
theorem C10_total_partial (e : Expr) (h : okFor true e = true) :
    ∃ b l, namesOf true true e = .ok b l ∧ b = plainBase e := by
  have := C10_total_iff e true
  rw [h] at this
  cases h' : namesOf true true e with
  | ok b l => exact ⟨b, l, rfl, namesOf_base e true true b l h'⟩
  | fatal w => rw [h'] at this; simp [Out.isOk] at this
  | raised x => rw [h'] at this; simp [Out.isOk] at this

/-! ### (b) agreement of the two namers -/

def isName : Expr → Bool
  | .name _ => true
  | _ => false

mutual
/-- Where the two namers are proved to agree: every call met whose base name is a getattr-family
builtin is a *direct* call, and no such call has a literal / operator / other non-nameable node
whose specific error is not `TypeError` as its object. -/
def agreeOK : Expr → Bool
  | .name _ => true
  | .attr e _ => agreeOK e
  | .sub e => agreeOK e
  | .starred e => agreeOK e
  | .call f args =>
    agreeOK f && (!isXattr (plainBase f) || (isName f && agreeArgs (plainBase f) args))
  | .strConst _ => true
  | .other _ => true
def agreeArgs (fn : Str) : List Expr → Bool
  | [] => true
  | [_] => true
  | .call f' args' :: nm :: _ => agreeOK nm && (!isCallTo fn f' || agreeArgs fn args')
  | .name _ :: nm :: _ => agreeOK nm
  | .attr e _ :: nm :: _ => agreeOK nm && agreeOK e
  | .sub e :: nm :: _ => agreeOK nm && agreeOK e
  | .starred e :: nm :: _ => agreeOK nm && agreeOK e
  | .strConst _ :: _ :: _ => false
  | .other k :: nm :: _ => agreeOK nm && decide (excOfKind k = .typeError)
end

theorem attr_link_ok (nm : Expr) (b v : Str) (h : namesOf true true nm = .ok b v) :
    ∃ b', oldAttrName (.ok b v) nm = .ok b' (attrText nm v) := by
  cases nm with
  | strConst s =>
    simp [namesOf, unnameable] at h
    simp [oldAttrName, attrText]
  | name x => simp [oldAttrName, attrText, Out.mapFull]
  | attr e a => simp [oldAttrName, attrText, Out.mapFull]
  | sub e => simp [oldAttrName, attrText, Out.mapFull]
  | starred e => simp [oldAttrName, attrText, Out.mapFull]
  | call f a => simp [oldAttrName, attrText, Out.mapFull]
  | other k => simp [oldAttrName, attrText, Out.mapFull]

theorem attr_link_fail (nm : Expr) (o : Out) (h : namesOf true true nm = o) (hf : o.isOk = false) :
    oldAttrName o nm = o := by
  cases nm with
  | strConst s => subst h; simp [namesOf, unnameable, Out.isOk] at hf
  | name x => cases o <;> simp_all [oldAttrName, Out.mapFull, Out.isOk]
  | attr e a => cases o <;> simp_all [oldAttrName, Out.mapFull, Out.isOk]
  | sub e => cases o <;> simp_all [oldAttrName, Out.mapFull, Out.isOk]
  | starred e => cases o <;> simp_all [oldAttrName, Out.mapFull, Out.isOk]
  | call f a => cases o <;> simp_all [oldAttrName, Out.mapFull, Out.isOk]
  | other k => cases o <;> simp_all [oldAttrName, Out.mapFull, Out.isOk]

theorem plain_link (nm : Expr) (o x : Out) (h : namesOf true true nm = o) :
    pairPlain o nm x = oldPlain (oldAttrName o nm) x := by
  cases o with
  | ok b v =>
    obtain ⟨b', hb⟩ := attr_link_ok nm b v h
    simp [pairPlain, oldPlain, hb]
  | fatal w => simp [pairPlain, oldPlain, attr_link_fail nm _ h rfl]
  | raised e => simp [pairPlain, oldPlain, attr_link_fail nm _ h rfl]

mutual
theorem agree_e : ∀ (e : Expr) (s : Bool), agreeOK e = true → namesOf true s e = oldNames s e
  | .name x, s, _ => by simp [namesOf, oldNames]
  | .attr e a, s, h => by
    simp only [namesOf, oldNames, agree_e e s (by simpa [agreeOK] using h)]
  | .sub e, s, h => by
    simp only [namesOf, oldNames, agree_e e s (by simpa [agreeOK] using h)]
  | .starred e, s, h => by
    simp only [namesOf, oldNames, agree_e e s (by simpa [agreeOK] using h)]
  | .call f args, s, h => by
    simp only [agreeOK, Bool.and_eq_true, Bool.or_eq_true, Bool.not_eq_true'] at h
    have ih := agree_e f s h.1
    cases hx : isXattr (plainBase f) with
    | false =>
      have hc := C10_eq_call true s f args hx
      rw [hc.1, hc.2, ih]
    | true =>
      have h2 := h.2
      simp only [hx, Bool.true_eq_false, false_or] at h2
      cases f with
      | name g =>
        have hg : isXattr g = true := by simpa [plainBase] using hx
        have ia := agree_args g args (by simpa [plainBase] using h2.2)
        simp [namesOf, oldNames, isDirectXattr, hg, ia]
      | attr e a => simp [isName] at h2
      | sub e => simp [isName] at h2
      | starred e => simp [isName] at h2
      | call f' a' => simp [isName] at h2
      | strConst s' => simp [isName] at h2
      | other k => simp [isName] at h2
  | .strConst _, s, _ => by simp [namesOf, oldNames]
  | .other k, s, _ => by simp [namesOf, oldNames]

theorem agree_args : ∀ (fn : Str) (args : List Expr), agreeArgs fn args = true →
    pairOf fn args = xattrPair fn args
  | fn, [], _ => by simp [pairOf, xattrPair]
  | fn, [_], _ => by simp [pairOf, xattrPair]
  | fn, .call f' args' :: nm :: rest, h => by
    simp only [agreeArgs, Bool.and_eq_true, Bool.or_eq_true, Bool.not_eq_true'] at h
    have inm := agree_e nm true h.1
    simp only [pairOf, xattrPair]
    rw [← inm]
    cases hn : namesOf true true nm with
    | ok b v =>
      obtain ⟨b', hb⟩ := attr_link_ok nm b v hn
      rw [hb]
      cases hc : isCallTo fn f' with
      | false => simp
      | true =>
        have ia := agree_args fn args' (by simpa [hc] using h.2)
        simp [ia]
    | fatal w => rw [attr_link_fail nm _ hn rfl]
    | raised x => rw [attr_link_fail nm _ hn rfl]
  | fn, .name id :: nm :: rest, h => by
    simp only [agreeArgs] at h
    simp only [pairOf, xattrPair]
    rw [← agree_e nm true h, plain_link nm _ _ rfl]
    simp [namesOf, oldNames]
  | fn, .attr e a :: nm :: rest, h => by
    simp only [agreeArgs, Bool.and_eq_true] at h
    simp only [pairOf, xattrPair]
    rw [← agree_e nm true h.1, plain_link nm _ _ rfl,
      agree_e (.attr e a) false (by simpa [agreeOK] using h.2)]
  | fn, .sub e :: nm :: rest, h => by
    simp only [agreeArgs, Bool.and_eq_true] at h
    simp only [pairOf, xattrPair]
    rw [← agree_e nm true h.1, plain_link nm _ _ rfl,
      agree_e (.sub e) false (by simpa [agreeOK] using h.2)]
  | fn, .starred e :: nm :: rest, h => by
    simp only [agreeArgs, Bool.and_eq_true] at h
    simp only [pairOf, xattrPair]
    rw [← agree_e nm true h.1, plain_link nm _ _ rfl,
      agree_e (.starred e) false (by simpa [agreeOK] using h.2)]
  | fn, .strConst _ :: nm :: rest, h => by simp [agreeArgs] at h
  | fn, .other k :: nm :: rest, h => by
    simp only [agreeArgs, Bool.and_eq_true, decide_eq_true_eq] at h
    simp only [pairOf, xattrPair]
    rw [← agree_e nm true h.1, plain_link nm _ _ rfl]
    simp [namesOf, unnameable, h.2]
end

/-- **(b) on the stated fragment**, for both values of `safe`, failures included: the two namers
return the same value, exit at the same site, or raise the same exception class. -/
theorem C10_agree_partial (e : Expr) (s : Bool) (h : agreeOK e = true) :
    namesOf true s e = oldNames s e := agree_e e s h


/-! ### Nested literal getattr-family calls spell as the dotted access -/

/-- `fn(fn(…fn(obj, kₙ)…, k₂), k₁)` for `ks = [k₁, k₂, …, kₙ]` (outermost first). -/
def nestX (fn : Str) (obj : Expr) : List Str → Expr
  | [] => obj
  | k :: ks => .call (.name fn) [nestX fn obj ks, .strConst k]

/-- `l.kₙ.….k₂.k₁` -/
def dotted (l : Str) : List Str → Str
  | [] => l
  | k :: ks => dotted l ks ++ dot ++ k

def isCall : Expr → Bool
  | .call _ _ => true
  | _ => false

theorem pairOf_nest (fn : Str) (obj : Expr) (b l : Str) (hc : isCall obj = false)
    (ho : namesOf true false obj = .ok b l) :
    ∀ (ks : List Str) (k : Str), pairOf fn [nestX fn obj ks, .strConst k] = .ok (dotted l ks) k
  | [], k => by
    cases obj with
    | call f a => simp [isCall] at hc
    | name x => simp only [nestX, pairOf, ho]; simp [namesOf, unnameable, pairPlain, objOnly, attrText, dotted]
    | attr e a => simp only [nestX, pairOf, ho]; simp [namesOf, unnameable, pairPlain, objOnly, attrText, dotted]
    | sub e => simp only [nestX, pairOf, ho]; simp [namesOf, unnameable, pairPlain, objOnly, attrText, dotted]
    | starred e => simp only [nestX, pairOf, ho]; simp [namesOf, unnameable, pairPlain, objOnly, attrText, dotted]
    | strConst s => simp only [nestX, pairOf, ho]; simp [namesOf, unnameable, pairPlain, objOnly, attrText, dotted]
    | other k' => simp only [nestX, pairOf, ho]; simp [namesOf, unnameable, pairPlain, objOnly, attrText, dotted]
  | k' :: ks, k => by
    have ih := pairOf_nest fn obj b l hc ho ks k'
    simp only [nestX, pairOf, ih]
    simp [namesOf, unnameable, isCallTo, attrText, dotted]

theorem xattrPair_nest (fn : Str) (obj : Expr) (b l : Str) (hc : isCall obj = false)
    (ho : oldNames false obj = .ok b l) :
    ∀ (ks : List Str) (k : Str), xattrPair fn [nestX fn obj ks, .strConst k] = .ok (dotted l ks) k
  | [], k => by
    cases obj with
    | call f a => simp [isCall] at hc
    | name x => simp only [nestX, xattrPair, ho]; simp [oldAttrName, oldPlain, objOnly, dotted]
    | attr e a => simp only [nestX, xattrPair, ho]; simp [oldAttrName, oldPlain, objOnly, dotted]
    | sub e => simp only [nestX, xattrPair, ho]; simp [oldAttrName, oldPlain, objOnly, dotted]
    | starred e => simp only [nestX, xattrPair, ho]; simp [oldAttrName, oldPlain, objOnly, dotted]
    | strConst s => simp [oldNames, unnameable] at ho
    | other k' => simp [oldNames, unnameable] at ho
  | k' :: ks, k => by
    have ih := xattrPair_nest fn obj b l hc ho ks k'
    simp only [nestX, xattrPair, ih]
    simp [oldAttrName, isCallTo, dotted]

/-- **Nested literal getattr-family calls.** For any of the four builtins, any non-call object that
strict naming spells `l`, and any non-empty list of literal names, both namers (either `safe`)
spell the nest as the dotted access `l.kₙ.….k₁`; the base they return is the builtin's name. -/
theorem C10_xattr (fn : Str) (obj : Expr) (b l : Str) (s : Bool) (k : Str) (ks : List Str)
    (hf : isXattr fn = true) (hc : isCall obj = false)
    (hn : namesOf true false obj = .ok b l) (ho : oldNames false obj = .ok b l) :
    namesOf true s (nestX fn obj (k :: ks)) = .ok fn (dotted l (k :: ks))
    ∧ oldNames s (nestX fn obj (k :: ks)) = .ok fn (dotted l (k :: ks)) := by
  constructor
  · simp [nestX, namesOf, hf, pairOf_nest fn obj b l hc hn ks k, dotted]
  · simp [nestX, oldNames, isDirectXattr, hf, xattrPair_nest fn obj b l hc ho ks k, dotted]

/-- The README reading of the same nest: the dotted access on the object's spelling, and the
object's base. -/
theorem C10_xattr_spec (fn : Str) (obj : Expr) (hf : isXattr fn = true) :
    ∀ (ks : List Str), Spec.spell (nestX fn obj ks) = dotted (Spec.spell obj) ks
      ∧ Spec.base (nestX fn obj ks) = Spec.base obj
  | [] => by simp [nestX, dotted]
  | k :: ks => by
    have ih := C10_xattr_spec fn obj hf ks
    have hm : fn ∈ [['d','e','l','a','t','t','r'], ['g','e','t','a','t','t','r'],
           ['h','a','s','a','t','t','r'], ['s','e','t','a','t','t','r']] := by
      simpa [isXattr, attrAccessBuiltins] using hf
    simp only [nestX, Spec.spell, Spec.base, hm, ↓reduceIte, ih.1, ih.2, dotted, dot]
    simp

/-! ### The full statement (kept visible; false on the pinned tree) -/

/-- C10 at one expression: (a) every successful naming is the README (base, spelling);
(b) the two namers agree, for both values of `safe`; (c) safe naming succeeds. -/
def C10_at (e : Expr) : Prop :=
  (∀ s b l, (namesOf true s e = .ok b l ∨ oldNames s e = .ok b l) → b = Spec.base e ∧ l = Spec.spell e)
  ∧ (∀ s, namesOf true s e = oldNames s e)
  ∧ ((namesOf true true e).isOk = true ∧ (oldNames true e).isOk = true)

def C10_full : Prop := ∀ e, C10_at e

/-- On the getattr-family-free fragment the full statement holds (all three clauses; (b) for
`safe=True`, and for `safe=False` by `C10_agree_partial`). -/
theorem C10_at_of_xattrFree (e : Expr) (h : xattrFree e = true) :
    namesOf true true e = .ok (Spec.base e) (Spec.spell e)
    ∧ namesOf true true e = oldNames true e
    ∧ (namesOf true true e).isOk = true := by
  have hc := C10_compositional e true h
  refine ⟨hc.1, by rw [hc.1, hc.2], by rw [hc.1]; rfl⟩

/-! ### Counterexamples (one per defect class of the pinned code), closed by kernel evaluation -/

private def sA : Str := ['a']
private def sB : Str := ['b']
private def sC : Str := ['c']
private def sF : Str := ['f']
private def sM : Str := ['m']
private def sN : Str := ['n']
private def sGetattr : Str := ['g','e','t','a','t','t','r']

/-- `getattr(a + b, 'c')` -/
def w_unnameable_obj : Expr := .call (.name sGetattr) [.other kBinOp, .strConst sC]
/-- `getattr(a, 'b')()` -/
def w_call_on_xattr : Expr := .call (.call (.name sGetattr) [.name sA, .strConst sB]) []
/-- `getattr(a, 'b')` -/
def w_simple : Expr := .call (.name sGetattr) [.name sA, .strConst sB]
/-- `getattr.m(a, 'b')` -/
def w_indirect : Expr := .call (.attr (.name sGetattr) sM) [.name sA, .strConst sB]
/-- `getattr(f(), 'b')` -/
def w_obj_call : Expr := .call (.name sGetattr) [.call (.name sF) [], .strConst sB]
/-- `getattr(a)` -/
def w_too_few : Expr := .call (.name sGetattr) [.name sA]
/-- `getattr(a, n)` -/
def w_nonliteral : Expr := .call (.name sGetattr) [.name sA, .name sN]

/-- (c) fails: safe naming raises when a getattr-family object is unnameable — and (b) fails on the
same input: the two namers raise different exception classes. -/
theorem C10_cex_safe_raises :
    namesOf true true w_unnameable_obj = .raised .binOp
    ∧ oldNames true w_unnameable_obj = .raised .typeError := by decide

/-- (b) and (c) fail: `getattr(a, 'b')()` — the new namer exits ("too few args": it takes the
*outer* call for a getattr call because the base name is `getattr`), the old one returns `a.b()`. -/
theorem C10_cex_call_on_xattr :
    namesOf true true w_call_on_xattr = .fatal .tooFewArgs
    ∧ oldNames true w_call_on_xattr
        = .ok sGetattr ['a', '.', 'b', '(', ')'] := by decide

/-- (a) fails: the base of a getattr-family spelling is the builtin's name, not the innermost
variable (both namers). -/
theorem C10_cex_xattr_base :
    namesOf true true w_simple = .ok sGetattr ['a', '.', 'b']
    ∧ oldNames true w_simple = .ok sGetattr ['a', '.', 'b']
    ∧ Spec.spell w_simple = ['a', '.', 'b'] ∧ Spec.base w_simple = sA := by decide

/-- (a) and (b) fail: `getattr.m(a, 'b')` is not a getattr call, yet the new namer spells it `a.b`
(the old one: `getattr.m()`, as the README does). -/
theorem C10_cex_indirect :
    namesOf true true w_indirect = .ok sGetattr ['a', '.', 'b']
    ∧ oldNames true w_indirect = .ok sGetattr (sGetattr ++ ['.', 'm', '(', ')'])
    ∧ Spec.spell w_indirect = sGetattr ++ ['.', 'm', '(', ')'] := by decide

/-- (c) fails: a getattr-family call on a call result exits (both namers); the README spelling
would be `f().b`. -/
theorem C10_cex_obj_call :
    namesOf true true w_obj_call = .fatal .nestedOtherCall
    ∧ oldNames true w_obj_call = .fatal .nestedOtherCall
    ∧ Spec.spell w_obj_call = ['f', '(', ')', '.', 'b'] := by decide

/-- (c) fails: a getattr-family call with fewer than two positional arguments exits (both). -/
theorem C10_cex_too_few :
    namesOf true true w_too_few = .fatal .tooFewArgs
    ∧ oldNames true w_too_few = .fatal .tooFewArgs := by decide

/-- Recorded, not claimed either way [interp]: a non-literal name is spelled `a.<n>`, a form
outside the README table. (A test on one input, by `decide`.) -/
theorem C10_obs_nonliteral :
    namesOf true true w_nonliteral = .ok sGetattr ['a', '.', '<', 'n', '>']
    ∧ oldNames true w_nonliteral = .ok sGetattr ['a', '.', '<', 'n', '>'] := by decide

/-- `unravel_attr_access_calls=False` is honoured at the root only: `getattr(a,'b')` is then
`getattr()`, but one attribute step above it the flag is lost. (A test, by `decide`.) -/
theorem C10_obs_unravel_root_only :
    namesOf false true w_simple = .ok sGetattr (sGetattr ++ ['(', ')'])
    ∧ namesOf false true (.attr w_simple sC) = .ok sGetattr ['a', '.', 'b', '.', 'c'] := by decide

theorem C10_full_false : ¬ C10_full := by
  intro h
  have h1 := (h w_simple).1 true sGetattr ['a', '.', 'b'] (Or.inl C10_cex_xattr_base.1)
  exact absurd h1.1 (by decide)

/-! ### Tie A for the two error ladders (source order of the `isinstance` tests) -/

theorem tieA_error_ladder_new :
    Generated.C10.errorLadderNew =
      [("ast.UnaryOp", "RattrUnaryOpInNameable"), ("ast.BinOp", "RattrBinOpInNameable"),
       ("ast.Constant", "RattrConstantInNameable"), ("AstLiterals", "RattrLiteralInNameable"),
       ("AstComprehensions", "RattrComprehensionInNameable")] := by decide

theorem tieA_error_ladder_old :
    Generated.C10.errorLadderOld =
      Generated.C10.errorLadderNew ++ [("ast.GeneratorExp", "RattrComprehensionInNameable")] := by
  decide

/-- The model's `excOfKind` is that ladder (on the class names the tables list). A whole finite
table, by `decide`. -/
theorem excOfKind_table :
    excOfKind kUnaryOp = .unaryOp ∧ excOfKind kBinOp = .binOp ∧ excOfKind kConstant = .constant
    ∧ (∀ k ∈ astLiterals, excOfKind k = .literal)
    ∧ (∀ k ∈ astComprehensions, excOfKind k = .comprehension)
    ∧ (∀ k ∈ astNodeWithName, excOfKind k = .typeError) := by decide

/-! ### Non-vacuity: each theorem's hypotheses are met by non-trivial inputs -/

/-- `(a + b).x[i](p, 'q').y` with `*` on top: family-free, five compound steps over a stand-in. -/
example : xattrFree (.starred (.attr (.call (.sub (.attr (.other kBinOp) ['x'])) [.name ['p'], .strConst ['q']]) ['y'])) = true := by
  decide
/-- `getattr.x`, `f(getattr(a + b, 'c'))`: family names off the call spine / in ignored arguments. -/
example : xattrFree (.attr (.name sGetattr) ['x']) = true
    ∧ xattrFree (.call (.name sF) [w_unnameable_obj]) = true := by decide
/-- `a.b[0](c)`: strictly nameable and family-free. -/
example : xattrFree (.call (.sub (.attr (.name sA) sB)) [.name sC]) = true
    ∧ strictlyNameable (.call (.sub (.attr (.name sA) sB)) [.name sC]) = true := by decide
/-- `getattr(getattr(a.b[0], 'c'), getattr(x, 'y')).z` is in the totality and agreement fragments. -/
example :
    okFor true (.attr (.call (.name sGetattr)
      [.call (.name sGetattr) [.sub (.attr (.name sA) sB), .strConst sC],
       .call (.name sGetattr) [.name ['x'], .strConst ['y']]]) ['z']) = true
    ∧ agreeOK (.attr (.call (.name sGetattr)
      [.call (.name sGetattr) [.sub (.attr (.name sA) sB), .strConst sC],
       .call (.name sGetattr) [.name ['x'], .strConst ['y']]]) ['z']) = true := by decide
/-- agreement also covers failing inputs: `getattr(f(), 'b')`, `getattr(a)`, `getattr(await x, 'k')`. -/
example : agreeOK w_obj_call = true ∧ agreeOK w_too_few = true
    ∧ agreeOK (.call (.name sGetattr) [.other ['A','w','a','i','t'], .strConst sB]) = true := by decide
/-- the nest theorem's hypotheses: `a.b` as object. -/
example : isXattr sGetattr = true ∧ isCall (.attr (.name sA) sB) = false
    ∧ namesOf true false (.attr (.name sA) sB) = .ok sA ['a', '.', 'b']
    ∧ oldNames false (.attr (.name sA) sB) = .ok sA ['a', '.', 'b'] := by decide

end Rattr.C10

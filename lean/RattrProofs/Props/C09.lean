/-
  C09 — recorded call arguments mirror the call site (incl. the instance under construction).

  Model: `FnA.argNames` / `FnA.kwargNames` / `FnA.mkCall` (= `CallArguments.from_call` +
  `Call.from_call`) and the three call-building sites of the visitor (`visit (.call …)`,
  `assignDiv` = `visit_ClassAssign`, `visitReturnValue`) — RattrModel/FnAnalyser.lean.

  Spec (independent of the continuation-passing algorithm of the model):
    * `spell a`      — the deprecated namer's full spelling of an argument (`@Kind` when unnameable),
    * `kwSpec`       — `zip` the keyword names with the keyword values, keep the named ones,
    * `starredDiags` — one `starred-arg` error per Starred positional argument.

  Proved for ALL argument lists / states / continuations: `C09_args_in_order`, `C09_kwargs_by_name`,
  `C09_self_prepended`; the three call-site theorems (`C09_discarded_instance`,
  `C09_assigned_instance`, `C09_returned_instance`) under the minimal hypotheses about what
  `getCallTarget` answers; `C09_unique_record`.  `C09_full` states the whole-analysis form and is PROVED
  (`C09_full_holds`, by an invariant over the whole mutual visitor): no counterexample exists in the
  single-file model (the imported-class defect needs the cross-module model, see C06).

  Round 3 — "each spelled in the nameable format" against the INDEPENDENT spelling `Spec.spell`
  (RattrModel/Spec/Spell.lean, the README table) instead of the model's own namer:
    * `Spec.argDoc` (RattrModel/Spec/ArgSpell.lean): the decidable class of argument expressions whose
      README spelling the record owes — every expression except those read through a direct
      getattr-family call that has no dotted equivalent (non-literal name, < 2 arguments) or whose object
      has no variable-rooted spelling; it contains calls and method calls ON getattr results,
      `getattr.x(…)`, nested literal getattr, every stand-in;
    * `C09_arg_documented` / `C09_args_documented` / `C09_kwargs_documented` / `C09_record_documented`:
      on that class the recorder (`arg_name` / `kwarg_name` = the deprecated namer) produces exactly
      `Spec.spell`, for all argument lists, states and continuations (via `C09S.bridge_old`: the two
      models of the deprecated namer answer alike on every node);
    * `C09_nameable_iff`: the hypothesis `Nameable` of the round-1 theorems, decided on the projection;
    * `C09_cex_new_namer_on_xattr_result`: the other namer (`names_of`) does NOT have this property —
      on `getattr(u, "cfg").pick(v, "name")` it answers `v.name` where the README says `u.cfg.pick()`.

  Round 4 — the records of a function do not depend on what the OTHER functions of its file do (all
  functions of a file are analysed against one shared root context object):
    * `C09_function_leaves_shared_context`, `C09_records_independent_of_earlier_function`: the analysis
      of any function hands the context back unchanged, so the next function is analysed exactly as in
      the initial context (a `del` / assignment of a local named like a module-level class included);
    * `C09_file_records_independent_of_other_functions`: at the file stage, the FunctionIr (hence the
      call records) stored for a definition is the same with any function definitions before / after it;
    * `C09_del_keeps_ancestor_binding`: the reason — `Context.remove` never reaches an ancestor scope;
    * `C09_tieA_scope_ops` (Tie A): the REAL `Context.add` / `remove` / `add_identifiers_to_context` /
      `remove_identifiers_from_context`, evaluated on a child -> root chain for 469 operation sequences
      (RattrModel/Generated/C09.lean), do what the model's operations do;
    * `C09_test_shadowing_local_deleted`: the seeded shape (`C = a.v; del C` in one function, three
      constructions of `C` in the next) evaluated in the model.
-/
import RattrProofs.Lemmas.VisitCtx
import RattrProofs.Lemmas.C09Spell
import RattrProofs.Lemmas.FileOrder
import RattrModel.Generated.C09

namespace Rattr.C09
open Rattr Rattr.FnA Rattr.Strs

/-! ### specification -/

/-- the spelling `arg_name` / `kwarg_name` give an argument: deprecated namer, `safe=True`. -/
def spell (a : Node) : Str :=
  match oldNames true a with
  | .ok _ full => full
  | _ => []

/-- the deprecated namer answers (it may still `fatal`/crash on malformed `getattr` chains). -/
def Nameable (a : Node) : Prop := ∃ b f, oldNames true a = .ok b f

instance (a : Node) : Decidable (Nameable a) :=
  match h : oldNames true a with
  | .ok b f => isTrue ⟨b, f, h⟩
  | .fatal d => isFalse (by rintro ⟨b, f, h'⟩; rw [h] at h'; cases h')
  | .crash e => isFalse (by rintro ⟨b, f, h'⟩; rw [h] at h'; cases h')

theorem spell_eq {a : Node} {b f : Str} (h : oldNames true a = .ok b f) : spell a = f := by
  simp [spell, h]

/-- one error per Starred positional argument, in order. -/
def starredDiags (args : List Node) : List Diag :=
  (args.filter isStarred).map fun _ => mkDiag .error "starred-arg"

/-- `{kw.arg: spell(kw.value) for kw in keywords if kw.arg is not None}` as an ordered list. -/
def kwSpec (kwn : List (Option Str)) (kwv : List Node) : List (Str × Str) :=
  (kwn.zip kwv).filterMap fun p => p.1.map fun k => (k, spell p.2)

/-- every NAMED keyword's value is nameable (`**d` values are never spelled). -/
def KwNameable (kwn : List (Option Str)) (kwv : List Node) : Prop :=
  ∀ p ∈ kwn.zip kwv, p.1 ≠ none → Nameable p.2

/-- the record `Call.from_call` must build. -/
def record (name : Str) (self : Option Str) (args : List Node) (kwn : List (Option Str))
    (kwv : List Node) (target : Option Sym) : CallSym :=
  { name := withoutCallBrackets name, args := self.toList ++ args.map spell,
    kwargs := kwSpec kwn kwv, target := target }

/-! ### `CallArguments.from_call` -/

/-- positional arguments: source order, each spelled by the deprecated namer; exactly one
`starred-arg` error per Starred argument; nothing else happens to the state. -/
theorem C09_args_in_order (s : St) (args : List Node) (k : St → List Str → Res)
    (h : ∀ a ∈ args, Nameable a) :
    argNames s args k = k (St.diagL s (starredDiags args)) (args.map spell) := by
  induction args generalizing s k with
  | nil => simp [argNames, starredDiags, St.diagL_nil]
  | cons a r ih =>
    obtain ⟨b, f, hbf⟩ := h a List.mem_cons_self
    have hr : ∀ a ∈ r, Nameable a := fun x hx => h x (List.mem_cons_of_mem _ hx)
    simp only [argNames, hbf, List.map_cons, spell_eq hbf]
    rw [ih _ _ hr]
    cases hs : isStarred a
    · simp [starredDiags, List.filter, hs]
    · simp [starredDiags, List.filter, hs, St.diagL_diag]

/-- an argument the namer rejects stops the construction: no record is ever produced. -/
theorem C09_args_fail_no_record (s : St) (a : Node) (r : List Node) (k : St → List Str → Res)
    (h : ¬ Nameable a) : ∀ s', argNames s (a :: r) k ≠ .ok s' := by
  intro s'
  simp only [argNames]
  cases hn : oldNames true a with
  | ok b f => exact absurd ⟨b, f, hn⟩ h
  | fatal d => simp
  | crash e => simp

/-- keyword arguments: exactly the pairs `(k, spelling v)` for keywords with a name, in order,
skipping `**`-unpacked ones; the state is untouched. -/
theorem C09_kwargs_by_name (s : St) (kwn : List (Option Str)) (kwv : List Node)
    (k : St → List (Str × Str) → Res) (h : KwNameable kwn kwv) :
    kwargNames s kwn kwv k = k s (kwSpec kwn kwv) := by
  induction kwn generalizing kwv k with
  | nil => simp [kwargNames, kwSpec]
  | cons n rn ih =>
    cases kwv with
    | nil => cases n <;> simp [kwargNames, kwSpec]
    | cons v rv =>
      have hr : KwNameable rn rv := fun p hp hne => h p (by simp [List.zip_cons_cons, hp]) hne
      cases n with
      | none =>
        simp only [kwargNames]
        rw [ih rv k hr]
        simp [kwSpec]
      | some kk =>
        obtain ⟨b, f, hbf⟩ := h (some kk, v) (by simp) (by simp)
        simp only [kwargNames, hbf]
        rw [ih rv _ hr]
        simp [kwSpec, spell_eq hbf]

/-- `Call.from_call(name, call, target, self=…)`: the instance stand-in (if any) is prepended to
the spelled positionals; the name loses its call brackets. -/
theorem C09_self_prepended (s : St) (name : Str) (args : List Node) (kwn : List (Option Str))
    (kwv : List Node) (target : Option Sym) (self : Option Str) (k : St → CallSym → Res)
    (ha : ∀ a ∈ args, Nameable a) (hk : KwNameable kwn kwv) :
    mkCall s name args kwn kwv target self k =
      k (St.diagL s (starredDiags args)) (record name self args kwn kwv target) := by
  simp only [mkCall]
  rw [C09_args_in_order s args _ ha, C09_kwargs_by_name _ kwn kwv _ hk]
  rfl

theorem C09_record_with_self (name self : Str) (args : List Node) (kwn kwv) (t : Option Sym) :
    (record name (some self) args kwn kwv t).args = self :: args.map spell := rfl

theorem C09_record_without_self (name : Str) (args : List Node) (kwn kwv) (t : Option Sym) :
    (record name none args kwn kwv t).args = args.map spell := rfl

theorem C09_record_name (name : Str) (self : Option Str) (args : List Node) (kwn kwv) (t : Option Sym) :
    (record name self args kwn kwv t).name = withoutCallBrackets name := rfl

/-! ### `calls` is a set -/

theorem C09_addCall_mem (l : List CallSym) (c : CallSym) : c ∈ addCall l c := by
  unfold addCall
  split
  · rename_i h; simpa using h
  · simp

/-- `addCall` never duplicates an equal record. -/
theorem C09_unique_record (l : List CallSym) (c : CallSym) (h : l.Nodup) : (addCall l c).Nodup := by
  unfold addCall
  split
  · exact h
  · rename_i hc
    have : c ∉ l := by simpa using hc
    rw [List.nodup_append]
    refine ⟨h, by simp, ?_⟩
    intro a ha b hb
    simp only [List.mem_singleton] at hb
    subst hb
    intro e; subst e; exact this ha

theorem C09_addCall_idempotent (l : List CallSym) (c : CallSym) : addCall (addCall l c) c = addCall l c := by
  have h := C09_addCall_mem l c
  generalize addCall l c = l' at h
  simp [addCall, h]

/-! ### the three call-building sites -/

/-- `C(...)` as an expression whose value is discarded (no custom analyser for the target): the
record starts with `'@' ++ class name`, and the `class-not-stored` warning is emitted. `s2` is the
state in which the arguments are then visited. -/
theorem C09_discarded_instance (env : Env) (mn : Str) (f : Node) (args : List Node)
    (kwn : List (Option Str)) (kwv : List Node) (s : St)
    (b0 tn base full : Str) (t : Sym) (ds : List Diag)
    (htn : targetNameNoUnravel (.call f args kwn kwv) = .ok b0 tn)
    (hcustom : analyserFor env mn
      (Context.getCallTarget env.ctxEnv s.ctx tn (isCallOnCall (.call f args kwn kwv)) false).1 = none)
    (hname : namesOf true (.call f args kwn kwv) = .ok base full)
    (htgt : Context.getCallTarget env.ctxEnv s.ctx full (isCallOnCall (.call f args kwn kwv)) true
              = (some t, ds))
    (hcls : t.kind = .cls)
    (ha : ∀ a ∈ args, Nameable a) (hk : KwNameable kwn kwv) :
    ∃ s2 : St,
      visit env mn (.call f args kwn kwv) s
        = (visitList env mn args s2 >>>= fun s => visitList env mn kwv s) ∧
      s2.calls = addCall s.calls (record full (some ('@' :: t.name)) args kwn kwv (some t)) ∧
      mkDiag .warning "class-not-stored" t.name ∈ s2.diags ∧ s2.ctx = s.ctx := by
  rw [visit.eq_def]
  simp -zeta only []
  simp only [liftName, htn, hcustom]
  rw [getAndVerify_ok _ _ _ _ base full hname]
  simp only [verifySt_ctx, htgt, hcls]
  simp only [beq_self_eq_true, if_true]
  rw [C09_self_prepended _ _ _ _ _ _ _ _ ha hk]
  refine ⟨_, rfl, ?_, ?_, ?_⟩
  · simp
  · simp
  · simp

/-- `target = C(...)` (one-to-one; `visit_ClassAssign`): the record starts with the target's
spelling and the target is recorded as set. -/
theorem C09_assigned_instance (env : Env) (mn : Str) (tgt : Node) (f : Node) (args : List Node)
    (kwn : List (Option Str)) (kwv : List Node) (s : St)
    (lb ln cb cn : Str) (init : Option Sym) (ds : List Diag)
    (hnt : namedtupleInRhs (.call f args kwn kwv) = false)
    (hcls : exprIsClass env s.ctx (.call f args kwn kwv) = .ok true)
    (h11 : isTupleOrList tgt = false)
    (hl : namesOf false tgt = .ok lb ln)
    (hc : namesOf false (.call f args kwn kwv) = .ok cb cn)
    (hinit : Context.getCallTarget env.ctxEnv s.ctx cn false true = (init, ds))
    (ha : ∀ a ∈ args, Nameable a) (hk : KwNameable kwn kwv) :
    ∃ s2 : St,
      assignDiv env mn [tgt] (.call f args kwn kwv) s
        = .done (addIdentifiersL s2 [tgt] >>>= fun s =>
                  visitList env mn args s >>>= fun s => visitList env mn kwv s) ∧
      s2.calls = addCall s.calls (record cn (some ln) args kwn kwv init) ∧
      s2.sets = addTo s.sets ⟨ln, lb⟩ ∧ s2.ctx = s.ctx := by
  rw [assignDiv]
  have hlam : lambdaInRhs (.call f args kwn kwv) = false := rfl
  have h1 : oneToOne [tgt] (.call f args kwn kwv) = true := by
    have h2 : isTupleOrList (.call f args kwn kwv) = false := rfl
    simp [oneToOne, h11, h2]
  simp only [hlam, hnt, classInRhs, hcls, h1, liftName, hl, hc, hinit]
  simp only [Bool.false_eq_true, if_false, Bool.not_true]
  rw [C09_self_prepended _ _ _ _ _ _ _ _ ha hk]
  refine ⟨_, rfl, ?_, ?_, ?_⟩ <;> simp

/-- `return C(...)` (also inside a returned tuple / list / set / dict, which recurse into
`visitReturnValue`): the record starts with `@ReturnValue`; the continuation is told `handled`. -/
theorem C09_returned_instance (env : Env) (mn : Str) (f : Node) (args : List Node)
    (kwn : List (Option Str)) (kwv : List Node) (s : St) (k : St → Bool → Res)
    (b full cb cn : Str) (t : Sym) (init : Option Sym) (ds : List Diag)
    (hx : xattrBuiltins.any (fun x => isCallTo x (.call f args kwn kwv)) = false)
    (hname : namesOf true (.call f args kwn kwv) = .ok b full)
    (htgt : (Context.getCallTarget env.ctxEnv s.ctx full (isCallOnCall (.call f args kwn kwv)) false).1 = some t)
    (hcls : t.kind = .cls)
    (hc : namesOf false (.call f args kwn kwv) = .ok cb cn)
    (hinit : Context.getCallTarget env.ctxEnv s.ctx cn (isCallOnCall (.call f args kwn kwv)) true = (init, ds))
    (ha : ∀ a ∈ args, Nameable a) (hk : KwNameable kwn kwv) :
    ∃ s2 : St,
      visitReturnValue env mn (.call f args kwn kwv) s k
        = (visitList env mn args s2 >>>= fun s => visitList env mn kwv s >>>= fun s => k s true) ∧
      s2.calls = addCall s.calls (record cn (some "@ReturnValue".toList) args kwn kwv init) ∧
      s2.ctx = s.ctx := by
  rw [visitReturnValue]
  simp only [hx, liftName, hname, htgt, symIsClass, hcls, hc, hinit]
  simp only [Bool.false_eq_true, if_false, beq_self_eq_true, Bool.not_true]
  rw [C09_self_prepended _ _ _ _ _ _ _ _ ha hk]
  refine ⟨_, rfl, ?_, ?_⟩ <;> simp

/-- a call whose target is not a class (function, builtin, import, unresolved): no instance is
prepended — the record's arguments are exactly the spelled positionals. -/
theorem C09_plain_call (env : Env) (mn : Str) (f : Node) (args : List Node)
    (kwn : List (Option Str)) (kwv : List Node) (s : St)
    (b0 tn base full : Str) (tgt : Option Sym) (ds : List Diag)
    (htn : targetNameNoUnravel (.call f args kwn kwv) = .ok b0 tn)
    (hcustom : analyserFor env mn
      (Context.getCallTarget env.ctxEnv s.ctx tn (isCallOnCall (.call f args kwn kwv)) false).1 = none)
    (hname : namesOf true (.call f args kwn kwv) = .ok base full)
    (htgt : Context.getCallTarget env.ctxEnv s.ctx full (isCallOnCall (.call f args kwn kwv)) true
              = (tgt, ds))
    (hcls : symIsClass tgt = false)
    (ha : ∀ a ∈ args, Nameable a) (hk : KwNameable kwn kwv) :
    ∃ s2 : St,
      visit env mn (.call f args kwn kwv) s
        = (visitList env mn args s2 >>>= fun s => visitList env mn kwv s) ∧
      s2.calls = addCall s.calls (record full none args kwn kwv tgt) ∧ s2.ctx = s.ctx := by
  rw [visit.eq_def]
  simp -zeta only []
  simp only [liftName, htn, hcustom]
  rw [getAndVerify_ok _ _ _ _ base full hname]
  simp only [verifySt_ctx, htgt]
  cases tgt with
  | none =>
    simp only []
    rw [C09_self_prepended _ _ _ _ _ _ _ _ ha hk]
    refine ⟨_, rfl, ?_, ?_⟩ <;> simp
  | some t =>
    have : (t.kind == SymKind.cls) = false := by simpa [symIsClass] using hcls
    simp only [this]
    simp only [Bool.false_eq_true, if_false]
    rw [C09_self_prepended _ _ _ _ _ _ _ _ ha hk]
    refine ⟨_, rfl, ?_, ?_⟩ <;> simp

/-! ### the full statement -/

/-- `c` is the record `Call.from_call` owes SOME call expression `name(args, kw…)` with some
instance stand-in. -/
def IsSiteRecord (c : CallSym) : Prop :=
  ∃ (name : Str) (self : Option Str) (args : List Node) (kwn : List (Option Str)) (kwv : List Node),
    c = record name self args kwn kwv c.target

/-- the per-site reading of the property: whatever the state and continuation, each of the four
call-building sites builds `record` with the instance stand-in the property names. (Each conjunct
is one of the theorems above; `C09_sites_hold` assembles them.) -/
def C09_sites : Prop :=
  (∀ s name args kwn kwv target self k, (∀ a ∈ args, Nameable a) → KwNameable kwn kwv →
    mkCall s name args kwn kwv target self k =
      k (St.diagL s (starredDiags args)) (record name self args kwn kwv target)) ∧
  (∀ l c, l.Nodup → (addCall l c).Nodup)

theorem C09_sites_hold : C09_sites :=
  ⟨fun s name args kwn kwv target self k ha hk => C09_self_prepended s name args kwn kwv target self k ha hk,
   C09_unique_record⟩

/-- whole-analysis form: every record in the `calls` of an analysed function mirrors a call
expression (positional spellings in order, keywords by name, optional instance first) — whichever
of the visitor's paths recorded it (plain call, class assignment, returned instance, named
`defaultdict` factory, the sub-analysers of `sorted` / `defaultdict`).  Stated over the single-file
model, where it HOLDS (`C09_full_holds`); the imported-class defect — no instance prepended for
`from b import C; x = C(p)` — lives in the cross-module model, see C06. -/
def C09_full : Prop :=
  ∀ (env : Env) (mn : Str) (root : Context) (ps : Params) (body : List Node) (s' : St),
    analyse env mn root ps body = .ok s' → ∀ c ∈ s'.calls, IsSiteRecord c

theorem argNames_ci {Q : CallSym → Prop} (args : List Node) (s : St) (k : St → List Str → Res)
    (hk : ∀ s1, s1.calls = s.calls → CI Q (k s1 (args.map spell))) : CI Q (argNames s args k) := by
  induction args generalizing s k with
  | nil => exact hk s rfl
  | cons a r ih =>
    simp only [argNames]
    cases hn : oldNames true a with
    | ok b full =>
      simp only []
      apply ih
      intro s1 h1
      have := hk s1 (by rw [h1]; split <;> rfl)
      simpa [spell_eq hn] using this
    | fatal d => exact CI.fatal
    | crash e => exact CI.crash

theorem kwargNames_ci {Q : CallSym → Prop} (kwn : List (Option Str)) (kwv : List Node) (s : St)
    (k : St → List (Str × Str) → Res) (hk : CI Q (k s (kwSpec kwn kwv))) :
    CI Q (kwargNames s kwn kwv k) := by
  induction kwn generalizing kwv k with
  | nil => simpa [kwargNames, kwSpec] using hk
  | cons n rn ih =>
    cases kwv with
    | nil => cases n <;> simpa [kwargNames, kwSpec] using hk
    | cons v rv =>
      cases n with
      | none =>
        simp only [kwargNames]
        apply ih
        simpa [kwSpec] using hk
      | some kk =>
        simp only [kwargNames]
        cases hn : oldNames true v with
        | ok b full =>
          simp only []
          apply ih
          simpa [kwSpec, spell_eq hn] using hk
        | fatal d => exact CI.fatal
        | crash e => exact CI.crash

/-- whenever `Call.from_call` produces a record at all, it is `record …` — with no nameability
assumption (an argument the namer rejects ends the run instead). -/
theorem mkCall_spec : MkSpec IsSiteRecord := by
  intro s name args kwn kwv target self k hs hk
  unfold mkCall
  apply argNames_ci
  intro s1 h1
  apply kwargNames_ci
  exact hk s1 _ (by rw [h1]; exact hs) ⟨name, self, args, kwn, kwv, rfl⟩

theorem dd_spec : DdSpec IsSiteRecord := by
  intro name target
  exact ⟨name, none, [], [], [], rfl⟩

/-- C09 holds on the single-file model: for every function body, every environment and root
context, each recorded call mirrors a call expression. -/
theorem C09_full_holds : C09_full := by
  intro env mn root ps body s' h
  unfold analyse at h
  have hv : CI IsSiteRecord (visitList env mn body (addArguments { ctx := Context.push root } ps)) :=
    visitList_ci mkCall_spec dd_spec env mn body _ (by intro c hc; cases hc)
  cases hr : visitList env mn body (addArguments { ctx := Context.push root } ps) with
  | ok s1 =>
    simp only [hr, FnA.bind] at h
    injection h with h
    subst h
    exact hv s1 hr
  | fatal s1 d => simp [hr, FnA.bind] at h
  | crash s1 e => simp [hr, FnA.bind] at h

/-! ### the recorded spellings are the documented ones (`Spec.spell`) on the documented fragment -/

/-- what the namers look at of a node: the projection onto the expression type of the namer-level
model (`C09S.toExpr`; the same function as `C10.toExpr`, RattrProofs/Lemmas/C09SpellC10.lean). -/
abbrev proj (a : Node) : Naming.Expr := C09S.toExpr a

/-- on the documented fragment the recorder's namer (`get_fullname(arg, safe=True)`) answers, and
its spelling is the README's `Spec.spell` of the argument expression. -/
theorem C09_arg_documented (a : Node) (h : Spec.argDoc (proj a) = true) :
    ∃ b, oldNames true a = .ok b (Spec.spell (proj a)) := by
  obtain ⟨b, hb⟩ := C09S.old_arg_doc _ h
  have hbr := C09S.bridge_old a true
  rw [hb] at hbr
  exact ⟨b, C09S.okN_ok.1 hbr⟩

theorem C09_doc_nameable (a : Node) (h : Spec.argDoc (proj a) = true) : Nameable a := by
  obtain ⟨b, hb⟩ := C09_arg_documented a h
  exact ⟨b, _, hb⟩

/-- the spelling of the round-1 specification (`spell`, the model's namer) IS the independent
README spelling on the documented fragment. -/
theorem C09_spell_documented (a : Node) (h : Spec.argDoc (proj a) = true) :
    spell a = Spec.spell (proj a) := by
  obtain ⟨b, hb⟩ := C09_arg_documented a h
  exact spell_eq hb

/-- `Nameable`, decided on the projection: the recorder's namer answers exactly when the namer-level
model of `get_basename_fullname_pair` (the one the harness ties to the real function, C10) does. -/
theorem C09_nameable_iff (a : Node) :
    Nameable a ↔ (Naming.oldNames true (proj a)).isOk = true := by
  have hbr := C09S.bridge_old a true
  constructor
  · rintro ⟨b, f, h⟩
    rw [h] at hbr
    cases h2 : Naming.oldNames true (proj a) <;> simp_all [C09S.okN, C09S.okE, Naming.Out.isOk, proj]
  · intro h
    cases h2 : Naming.oldNames true (proj a) with
    | ok b f =>
      rw [show Naming.oldNames true (C09S.toExpr a) = .ok b f from h2] at hbr
      exact ⟨b, f, C09S.okN_ok.1 hbr⟩
    | fatal w => rw [h2] at h; simp [Naming.Out.isOk] at h
    | raised e => rw [h2] at h; simp [Naming.Out.isOk] at h

/-- positional arguments: on the documented fragment the record lists `Spec.spell` of each argument
expression, in source order (one `starred-arg` error per Starred argument; nothing else happens). -/
theorem C09_args_documented (s : St) (args : List Node) (k : St → List Str → Res)
    (h : ∀ a ∈ args, Spec.argDoc (proj a) = true) :
    argNames s args k
      = k (St.diagL s (starredDiags args)) (args.map fun a => Spec.spell (proj a)) := by
  rw [C09_args_in_order s args k (fun a ha => C09_doc_nameable a (h a ha))]
  congr 1
  exact List.map_congr_left (fun a ha => C09_spell_documented a (h a ha))

/-- the keyword part of the documented record. -/
def kwDoc (kwn : List (Option Str)) (kwv : List Node) : List (Str × Str) :=
  (kwn.zip kwv).filterMap fun p => p.1.map fun key => (key, Spec.spell (proj p.2))

/-- every NAMED keyword's value is in the documented fragment. -/
def KwDocumented (kwn : List (Option Str)) (kwv : List Node) : Prop :=
  ∀ p ∈ kwn.zip kwv, p.1 ≠ none → Spec.argDoc (proj p.2) = true

theorem filterMap_congr_mem {α β : Type} {f g : α → Option β} :
    ∀ {l : List α}, (∀ a ∈ l, f a = g a) → l.filterMap f = l.filterMap g
  | [], _ => rfl
  | a :: r, h => by
    have ih := filterMap_congr_mem (l := r) (fun x hx => h x (List.mem_cons_of_mem _ hx))
    simp only [List.filterMap_cons, h a List.mem_cons_self, ih]

theorem kwSpec_documented (kwn : List (Option Str)) (kwv : List Node) (h : KwDocumented kwn kwv) :
    kwSpec kwn kwv = kwDoc kwn kwv := by
  unfold kwSpec kwDoc
  apply filterMap_congr_mem
  intro p hp
  cases hk : p.1 with
  | none => simp
  | some key =>
    have := C09_spell_documented p.2 (h p hp (by simp [hk]))
    simp [this]

/-- keyword arguments: by keyword, each value spelled `Spec.spell`. -/
theorem C09_kwargs_documented (s : St) (kwn : List (Option Str)) (kwv : List Node)
    (k : St → List (Str × Str) → Res) (h : KwDocumented kwn kwv) :
    kwargNames s kwn kwv k = k s (kwDoc kwn kwv) := by
  rw [C09_kwargs_by_name s kwn kwv k (fun p hp hne => C09_doc_nameable p.2 (h p hp hne)),
    kwSpec_documented kwn kwv h]

/-- **the record of a call whose arguments are in the documented fragment**: the name without its
call brackets, the instance stand-in (if any) first, then the README spelling of each positional
argument in source order, the named keywords with the README spelling of their values. -/
theorem C09_record_documented (s : St) (name : Str) (args : List Node) (kwn : List (Option Str))
    (kwv : List Node) (target : Option Sym) (self : Option Str) (k : St → CallSym → Res)
    (ha : ∀ a ∈ args, Spec.argDoc (proj a) = true) (hk : KwDocumented kwn kwv) :
    mkCall s name args kwn kwv target self k =
      k (St.diagL s (starredDiags args))
        { name := withoutCallBrackets name,
          args := self.toList ++ args.map (fun a => Spec.spell (proj a)),
          kwargs := kwDoc kwn kwv, target := target } := by
  rw [C09_self_prepended s name args kwn kwv target self k
        (fun a h => C09_doc_nameable a (ha a h))
        (fun p hp hne => C09_doc_nameable p.2 (hk p hp hne))]
  congr 1
  simp only [record, kwSpec_documented kwn kwv hk]
  congr 2
  exact List.map_congr_left (fun a h => C09_spell_documented a (ha a h))

/-! ### non-vacuity: the hypotheses are satisfiable, on a call with a Starred argument, an
unnameable argument, a named and a `**` keyword -/

def env0 : Env := ⟨⟨[], []⟩, []⟩
def clsC : Sym :=
  { kind := .cls, name := "C".toList, callable := true,
    iface := some ⟨[], ["self".toList, "a".toList], none, [], none⟩ }
def s0 : St := { ctx := [[], [("C".toList, clsC)]] }
def nm (x : String) : Node := .name x.toList .load
def args0 : List Node := [nm "a", .starred (nm "b") .load, .const]
def kwn0 : List (Option Str) := [some "k".toList, none]
def kwv0 : List Node := [.attr (nm "c") "d".toList .load, nm "e"]

example : (args0.map spell, kwSpec kwn0 kwv0, starredDiags args0)
    = (["a".toList, "*b".toList, "@Constant".toList], [("k".toList, "c.d".toList)],
       [mkDiag .error "starred-arg"]) := by decide

theorem args0_nameable : ∀ a ∈ args0, Nameable a := by decide
theorem kw0_nameable : KwNameable kwn0 kwv0 := by
  intro p hp; revert p; decide

example : ∃ s2 : St,
    visit env0 [] (.call (nm "C") args0 kwn0 kwv0) s0
      = (visitList env0 [] args0 s2 >>>= fun s => visitList env0 [] kwv0 s) ∧
    s2.calls = addCall s0.calls (record "C()".toList (some "@C".toList) args0 kwn0 kwv0 (some clsC)) ∧
    mkDiag .warning "class-not-stored" "C".toList ∈ s2.diags ∧ s2.ctx = s0.ctx :=
  C09_discarded_instance env0 [] (nm "C") args0 kwn0 kwv0 s0 "C".toList "C".toList "C".toList
    "C()".toList clsC [] (by decide) (by decide) (by decide) (by decide) (by decide)
    args0_nameable kw0_nameable

example : ∃ s2 : St,
    assignDiv env0 [] [.attr (nm "x") "y".toList .store] (.call (nm "C") args0 kwn0 kwv0) s0
      = .done (addIdentifiersL s2 [.attr (nm "x") "y".toList .store] >>>= fun s =>
                visitList env0 [] args0 s >>>= fun s => visitList env0 [] kwv0 s) ∧
    s2.calls = addCall s0.calls (record "C()".toList (some "x.y".toList) args0 kwn0 kwv0 (some clsC)) ∧
    s2.sets = addTo s0.sets ⟨"x.y".toList, "x".toList⟩ ∧ s2.ctx = s0.ctx :=
  C09_assigned_instance env0 [] _ (nm "C") args0 kwn0 kwv0 s0 "x".toList "x.y".toList "C".toList
    "C()".toList (some clsC) [] (by decide) (by rfl) (by decide) (by decide) (by decide) (by decide)
    args0_nameable kw0_nameable

example (k : St → Bool → Res) : ∃ s2 : St,
    visitReturnValue env0 [] (.call (nm "C") args0 kwn0 kwv0) s0 k
      = (visitList env0 [] args0 s2 >>>= fun s => visitList env0 [] kwv0 s >>>= fun s => k s true) ∧
    s2.calls = addCall s0.calls
      (record "C()".toList (some "@ReturnValue".toList) args0 kwn0 kwv0 (some clsC)) ∧
    s2.ctx = s0.ctx :=
  C09_returned_instance env0 [] (nm "C") args0 kwn0 kwv0 s0 k "C".toList "C()".toList "C".toList
    "C()".toList clsC (some clsC) [] (by decide) (by decide) (by decide) (by decide) (by decide)
    (by decide) args0_nameable kw0_nameable

/-! #### the class the two namers disagree on: calls ON a getattr result -/

def sLit (x : String) : Node := .strConst x.toList
/-- `getattr(u, "cfg")` -/
def wGetattr : Node := .call (nm "getattr") [nm "u", sLit "cfg"] [] []
/-- `getattr(u, "cfg").pick(v, "name")` -/
def wMethodOnGetattr : Node := .call (.attr wGetattr "pick".toList .load) [nm "v", sLit "name"] [] []
/-- `getattr(u, "cfg")(v, "name")` -/
def wCallOnGetattr : Node := .call wGetattr [nm "v", sLit "name"] [] []

/-- in the documented fragment; the recorder's namer spells them as the README does … -/
theorem C09_xattr_result_documented :
    Spec.argDoc (proj wMethodOnGetattr) = true ∧ Spec.argDoc (proj wCallOnGetattr) = true
    ∧ Spec.spell (proj wMethodOnGetattr) = "u.cfg.pick()".toList
    ∧ Spec.spell (proj wCallOnGetattr) = "u.cfg()".toList
    ∧ spell wMethodOnGetattr = "u.cfg.pick()".toList ∧ spell wCallOnGetattr = "u.cfg()".toList := by
  decide +kernel

/-- … the OTHER namer (`names_of` / `fullname_of`, which decides "this is a getattr call" from the base
name of the function) does not: it reads the outer call's own arguments as (object, attribute).
`arg_name` / `kwarg_name` must keep calling the namer that asks `is_call_to`. -/
theorem C09_cex_new_namer_on_xattr_result :
    namesOf true wMethodOnGetattr = .ok "getattr".toList "v.name".toList
    ∧ namesOf true wCallOnGetattr = .ok "getattr".toList "v.name".toList
    ∧ namesOf true (.call (.attr wGetattr "pick".toList .load) [nm "v"] [] [])
        = .fatal (mkDiag .fatal "xattr-too-few" "getattr".toList) := by
  decide +kernel

/-- TEST (kernel evaluation of the whole analyser on one function; not a general statement):
`def w(u, v): return helper(getattr(u, "cfg").pick(v, "name"), q=getattr(u, "alt")(v, u))` records
`helper('u.cfg.pick()', q='u.alt()')`. -/
theorem C09_test_xattr_result_record :
    (match analyse env0 [] [[]] ⟨[], ["u".toList, "v".toList], none, [], none⟩
        [ .ret [.call (nm "helper") [wMethodOnGetattr] [some "q".toList]
                  [.call (.call (nm "getattr") [nm "u", sLit "alt"] [] []) [nm "v", nm "u"] [] []]] ] with
     | .ok s => (s.calls.filter fun c => c.name = "helper".toList).map (fun c => (c.args, c.kwargs))
     | _ => []) =
    [ (["u.cfg.pick()".toList], [("q".toList, "u.alt()".toList)]) ] := by decide +kernel

example : ∀ a ∈ [wMethodOnGetattr, wCallOnGetattr, nm "a", .const], Spec.argDoc (proj a) = true := by
  decide +kernel

/-- TEST (one concrete run of the whole analyser, by kernel evaluation; not a general statement):
`def w(a, b): C(a); x = C(b); return C(a, k=b)` records the three instances `@C`, `x`,
`@ReturnValue` first and nothing twice. -/
theorem C09_test_three_sites :
    (match analyse env0 [] [[("C".toList, clsC)]] ⟨[], ["a".toList, "b".toList], none, [], none⟩
        [ .call (nm "C") [nm "a"] [] [],
          .assign [.name "x".toList .store] (.call (nm "C") [nm "b"] [] []),
          .ret [.call (nm "C") [nm "a"] [some "k".toList] [nm "b"]] ] with
     | .ok s => s.calls.map (fun c => (c.args, c.kwargs))
     | _ => []) =
    [ (["@C".toList, "a".toList], []),
      (["x".toList, "b".toList], []),
      (["@ReturnValue".toList, "a".toList], [("k".toList, "b".toList)]) ] := by decide +kernel

/-! ### Round 4: the records of a function do not depend on the other functions of the file -/

/-- `FunctionAnalyser(fn, context).analyse()` hands the shared context back unchanged — whatever the
body binds or unbinds, also names that are module-level classes / functions. -/
theorem C09_function_leaves_shared_context (env : Env) (mn : Str) (root : Context) (ps : Params)
    (body : List Node) (s' : St) (h : analyse env mn root ps body = .ok s') : s'.ctx = root :=
  analyse_ctx env mn root ps body s' h

/-- A function analysed AFTER another one (in the context the first analysis leaves behind) is
analysed exactly as in the initial context: same outcome, same call records, same diagnostics. -/
theorem C09_records_independent_of_earlier_function (env : Env) (mn : Str) (root : Context)
    (ps₁ : Params) (body₁ : List Node) (s₁ : St) (ps₂ : Params) (body₂ : List Node)
    (h₁ : analyse env mn root ps₁ body₁ = .ok s₁) :
    analyse env mn s₁.ctx ps₂ body₂ = analyse env mn root ps₂ body₂ := by
  rw [analyse_ctx env mn root ps₁ body₁ s₁ h₁]

/-- … and so every call record of the later function is a call-site record (`C09_full_holds`) made
in the INITIAL context. -/
theorem C09_later_function_records_are_site_records (env : Env) (mn : Str) (root : Context)
    (ps₁ : Params) (body₁ : List Node) (s₁ : St) (ps₂ : Params) (body₂ : List Node) (s₂ : St)
    (h₁ : analyse env mn root ps₁ body₁ = .ok s₁) (h₂ : analyse env mn s₁.ctx ps₂ body₂ = .ok s₂) :
    analyse env mn root ps₂ body₂ = .ok s₂ ∧ ∀ c ∈ s₂.calls, IsSiteRecord c := by
  rw [C09_records_independent_of_earlier_function env mn root ps₁ body₁ s₁ ps₂ body₂ h₁] at h₂
  exact ⟨h₂, C09_full_holds env mn root ps₂ body₂ s₂ h₂⟩

/-- FILE stage: the FunctionIr stored under `key` by the walk over `pre ++ t :: post` (function
definitions) is the one the walk over `[t]` alone stores, when no other definition stores that key. -/
theorem C09_file_records_independent_of_other_functions (env : Env) (mn : Str) (f : Facts)
    (pre post : List Top) (t : Top)
    (hall : ∀ x ∈ pre ++ t :: post, FileA.isFuncDef x = true) (s a b : FileA.FState)
    (hU : FileA.Unambiguous env mn f s.ctx (pre ++ t :: post))
    (h₁ : FileA.visitTops env mn f [t] s = .ok a)
    (h₂ : FileA.visitTops env mn f (pre ++ t :: post) s = .ok b) (key : Sym)
    (hkey : ∀ x ∈ pre ++ t :: post, x ≠ t → ∀ ir, ¬ FileA.Stores env mn f s.ctx x key ir) :
    Dict.get? a.ir key = Dict.get? b.ir key := by
  apply FileA.funcDefs_unrelated env mn f [t] (pre ++ t :: post) _ hall s a b hU h₁ h₂ key
  · intro x hx hnx ir
    exact hkey x hx (by simpa using hnx) ir
  · intro x hx
    have : x = t := by simpa using hx
    subst this
    simp

/-- the reason: `Context.remove` pops from the innermost scope only — a name that scope does not
declare resolves afterwards exactly as before, and so does every other name. -/
theorem C09_del_keeps_ancestor_binding (sc : Scope) (r : Context) (x y : Str)
    (h : Dict.get? sc x = none) : Context.get? (Context.remove (sc :: r) x) y = Context.get? (sc :: r) y := by
  by_cases e : x = y
  · subst e
    rw [Context.get?_remove_ancestor sc r x h, Context.get?_cons_none h]
  · exact Context.get?_remove_other (sc :: r) x y e

/-! #### Tie A: the real scope operations (RattrModel/Generated/C09.lean) -/

namespace ScopeOps

def fnF : Sym :=
  { kind := .func, name := "f".toList, callable := true, iface := some ⟨[], ["p".toList], none, [], none⟩ }

/-- child -> root; the root declares the class `C` and the function `f` -/
def chain0 : Context := [[], [("C".toList, clsC), ("f".toList, fnF)]]

def viaAdd (c : Context) (t : Node) : Context :=
  match addIdentifiers { ctx := c } t with
  | .ok s => s.ctx
  | _ => c

def viaDel (c : Context) (t : Node) : Context :=
  match removeIdentifiers { ctx := c } t with
  | .ok s => s.ctx
  | _ => c

def applyOp (c : Context) (op : String × String) : Context :=
  let x := op.2.toList
  if op.1 = "add" then Context.add c (Context.nameSym x)
  else if op.1 = "addArg" then Context.add c (Context.nameSym x) true
  else if op.1 = "remove" then Context.remove c x
  else if op.1 = "addIds" then viaAdd c (.name x .store)
  else if op.1 = "delIds" then viaDel c (.name x .del)
  else if op.1 = "addIdsPair" then viaAdd c (.seq "Tuple".toList [.name x .store, .name "zz".toList .store] .store)
  else if op.1 = "delIdsPair" then viaDel c (.seq "Tuple".toList [.name x .del, .name "zz".toList .del] .del)
  else if op.1 = "addIdsStar" then
    viaAdd c (.seq "List".toList [.name "first".toList .store, .starred (.name x .store) .store] .store)
  else if op.1 = "delIdsAttr" then viaDel c (.attr (.name x .load) "attr".toList .del)
  else if op.1 = "delIdsSub" then viaDel c (.sub (.name x .load) .const .del)
  else c

def kindName : Option Sym → String
  | none => "none"
  | some s => match s.kind with
    | .name => "Name" | .builtin => "Builtin" | .import_ => "Import" | .func => "Func" | .cls => "Class"

def scopeKeys (sc : Scope) : List String := (Dict.keys sc).map String.ofList

/-- (names the child declares, names the root declares, what `C` resolves to from the child) -/
def evalRow (ops : List (String × String)) : List String × List String × String :=
  let c := ops.foldl applyOp chain0
  (scopeKeys (c.headD []), scopeKeys ((c.drop 1).headD []), kindName (Context.get? c "C".toList))

end ScopeOps

/-- Tie A: on every recorded operation sequence the real `Context` (child -> root) ends with the
declared names and the resolution of `C` that the model's operations produce. -/
theorem C09_tieA_scope_ops :
    Generated.C09.scopeOps.all (fun r => decide (ScopeOps.evalRow r.1 = r.2)) = true := by decide +kernel

/-- the table is not trivial: it holds the seeded shape (bind `C`, `del C`), which leaves the root alone -/
example : ([("add", "C"), ("delIds", "C")], ([] : List String), ["C", "f"], "Class") ∈ Generated.C09.scopeOps := by
  decide +kernel

/-! #### test (labelled as such): the seeded shape in the model -/

/-- `def sh(a, b): C = a.v; del C` then `def u(a, b): C(a); x = C(b); return C(a, k=b)` analysed in
the context the first analysis leaves behind: the three records carry the instance. -/
theorem C09_test_shadowing_local_deleted :
    (match analyse env0 [] [[("C".toList, clsC)]] ⟨[], ["a".toList, "b".toList], none, [], none⟩
        [ .assign [.name "C".toList .store] (.attr (nm "a") "v".toList .load),
          .delete [.name "C".toList .del] ] with
     | .ok s₁ =>
       (match analyse env0 [] s₁.ctx ⟨[], ["a".toList, "b".toList], none, [], none⟩
          [ .call (nm "C") [nm "a"] [] [],
            .assign [.name "x".toList .store] (.call (nm "C") [nm "b"] [] []),
            .ret [.call (nm "C") [nm "a"] [some "k".toList] [nm "b"]] ] with
        | .ok s => (s₁.ctx, s.calls.map (fun c => (c.args, c.kwargs)))
        | _ => ([], []))
     | _ => ([], [])) =
    ([[("C".toList, clsC)]],
     [ (["@C".toList, "a".toList], []),
       (["x".toList, "b".toList], []),
       (["@ReturnValue".toList, "a".toList], [("k".toList, "b".toList)]) ]) := by decide +kernel

end Rattr.C09

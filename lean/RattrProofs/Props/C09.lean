import RattrModel.FnAnalyser
namespace Rattr.C09
theorem placeholder : True := trivial
end Rattr.C09

/-
  C14 — generating results does not change the intermediate representation.

  In the model the IR that result generation may touch is the `Store`; `calls` are structurally
  outside it (never written). `C14_full` (store unchanged) is false on the pinned code: the tree
  nodes share the FileIr's sets (`C14_cex_mutation`). Proved for all programs:
    * `C14_monotone`: nothing is ever removed from any function's IR (it only gains names);
    * `C14_unchanged_without_resolvable`: with no resolvable call the IR is untouched and a second
      generation returns equal results (`C14_idempotent_without_resolvable`).
    * depth-one fragment (every resolvable callee is a leaf): only generated callers change
      (`C14_depthOne_callee_untouched`), to exactly their results
      (`C14_depthOne_caller_becomes_result`), and a second generation returns the same results
      over an unchanged store (`C14_depthOne_second_generation_same`).
    * TREE fragment, call graphs of arbitrary depth: `C14_tree_mutation_bounded` (every entry
      stays between the own accesses and the closure), `C14_tree_second_generation_same`
      (a second generation reports the same SETS and leaves the generated entries the same sets),
      `C14_tree_second_generation_ok`.
-/
import RattrProofs.Lemmas.Results
import RattrProofs.Lemmas.ResultsCex
import RattrProofs.Lemmas.ResultsDepthOne
import RattrProofs.Lemmas.ResultsTree
import RattrProofs.Lemmas.ResultsTreeCheck

namespace Rattr.C14
open Rattr Rattr.Results Rattr.Cex

def C14_full : Prop :=
  ∀ (P : Prog) (order : List Key) (σ σ' : Store) rs,
    generate P order σ = .ok (rs, σ') → ∀ k, σ' k = σ k

theorem C14_monotone (P : Prog) (order : List Key) (σ σ' : Store) (rs : List (Key × IrSets))
    (h : generate P order σ = .ok (rs, σ')) : StoreLe σ σ' :=
  generate_le P order σ σ' rs h

theorem C14_unchanged_without_resolvable (P : Prog) (hP : ∀ c, P.resolve c = none)
    (order : List Key) (σ σ' : Store) (rs : List (Key × IrSets))
    (h : generate P order σ = .ok (rs, σ')) : σ' = σ := by
  rw [generate_no_resolve P hP] at h
  injection h with h
  injection h with _ h
  exact h.symm

theorem C14_idempotent_without_resolvable (P : Prog) (hP : ∀ c, P.resolve c = none)
    (order : List Key) (σ σ' : Store) (rs : List (Key × IrSets))
    (h : generate P order σ = .ok (rs, σ')) : generate P order σ' = .ok (rs, σ') := by
  have := C14_unchanged_without_resolvable P hP order σ σ' rs h
  subst this
  exact h

/-- `caller(q): callee(q)` · `callee(p): p.x`: afterwards the caller's IR contains `q.x`. -/
theorem C14_cex_mutation :
    storeAfter Pm σm [0, 1] 0 = some ⟨[nm "q" "q", nm "q.x" "q"], [], []⟩ ∧
    σm 0 = ⟨[nm "q" "q"], [], []⟩ := by decide +kernel

theorem C14_full_false : ¬ C14_full := by
  intro h
  have hc := C14_cex_mutation
  unfold storeAfter at hc
  split at hc
  · rename_i rs σ' hgen
    have := h Pm [0, 1] σm σ' rs hgen 0
    have h1 := hc.1
    injection h1 with h1
    rw [this, hc.2] at h1
    revert h1
    decide
  · exact absurd hc.1 (by simp)

/-- non-vacuity of the positive theorems: a program with calls none of which resolves. -/
example : ∃ P : Prog, (∀ c, P.resolve c = none) ∧ (fnAt P 0).calls ≠ [] :=
  ⟨{ fns := [⟨iface ["a"], [call 0 "print" ["a"]]⟩], resolve := fun _ => none }, fun _ => rfl, by decide⟩

/-! ### the depth-one fragment: the precise extent of the mutation -/

/-- In a depth-one program result generation changes only the entries of roots that have a
resolvable call: leaves (functions without resolvable call — in particular every callee) and
functions that are not generated keep their IR. -/
theorem C14_depthOne_callee_untouched (P : Prog) (hP : DepthOne P) (order : List Key)
    (σ σ' : Store) (rs : List (Key × IrSets)) (h : generate P order σ = .ok (rs, σ')) (k : Key)
    (hk : IsLeaf P k ∨ IsCallee P k ∨ k ∉ order) : σ' k = σ k := by
  obtain ⟨_, _, hI, _, hout⟩ := generate_depthOne hP order σ σ' rs (Inv.refl P σ) h
  rcases hk with hk | hk | hk
  · exact hI.leaf hk
  · exact hI.leaf (hP.callee_leaf hk)
  · exact hout k hk

/-- …and the entry of a generated root becomes exactly its result: the IR mutation in this
fragment is "a caller's IR is overwritten by its results". -/
theorem C14_depthOne_caller_becomes_result (P : Prog) (hP : DepthOne P) (order : List Key)
    (σ σ' : Store) (rs : List (Key × IrSets)) (h : generate P order σ = .ok (rs, σ'))
    (f : Key) (res : IrSets) (hf : (f, res) ∈ rs) : σ' f = res := by
  obtain ⟨hfst, hres, _, hin, _⟩ := generate_depthOne hP order σ σ' rs (Inv.refl P σ) h
  have hfo : f ∈ order := by
    rw [← hfst]
    exact List.mem_map.mpr ⟨(f, res), hf, rfl⟩
  have h1 := hin f hfo
  have h2 := hres (f, res) hf
  simp only at h2
  rw [h2] at h1
  injection h1 with h1
  exact h1.symm

/-- Generating a second time over the mutated IR returns the same results and leaves the IR as
it is (`a |= b` with `b ⊆ a` adds nothing). -/
theorem C14_depthOne_second_generation_same (P : Prog) (hP : DepthOne P) (order : List Key)
    (σ σ' : Store) (rs : List (Key × IrSets)) (h : generate P order σ = .ok (rs, σ')) :
    generate P order σ' = .ok (rs, σ') := by
  obtain ⟨hfst, hres, hI, hin, hout⟩ := generate_depthOne hP order σ σ' rs (Inv.refl P σ) h
  obtain ⟨rs2, σ2, h2⟩ := generate_depthOne_ok hP order σ' hI
    (fun f hf => by rw [hin f hf]; rfl)
  obtain ⟨hfst2, hres2, _, hin2, hout2⟩ := generate_depthOne hP order σ' σ2 rs2 hI h2
  have e1 : rs2 = rs := results_unique (by rw [hfst, hfst2]) hres2 hres
  have e2 : σ2 = σ' := by
    funext k
    by_cases hk : k ∈ order
    · have a := hin k hk
      have b := hin2 k hk
      rw [a] at b
      injection b with b
      exact b.symm
    · exact hout2 k hk
  rw [h2, e1, e2]

/-- non-vacuity: two callers sharing a leaf; the leaf keeps its IR, the callers do not. -/
example : DepthOne P1 ∧ storeAfter P1 σ1 [0, 1, 2] 2 = some (σ1 2) ∧
    storeAfter P1 σ1 [0, 1, 2] 0 ≠ some (σ1 0) :=
  ⟨P1_depthOne, by decide +kernel, by decide +kernel⟩

/-! ### the tree fragment (arbitrary depth): the extent of the mutation, idempotence -/

/-- In the tree fragment the IR mutation is bounded: after generating any sequence of roots every
function's entry still contains what it held before and holds nothing outside its closure `Clo`
(own accesses ∪ unbound closures of its resolvable callees); the entry of every generated root
is its whole closure. -/
theorem C14_tree_mutation_bounded (P : Prog) (hT : TreeLike P) (hC : CidArgs P) (order : List Key)
    (σ σ' : Store) (rs : List (Key × IrSets)) (h : generate P order σ = .ok (rs, σ')) :
    StoreLe σ σ' ∧ (∀ g k x, x ∈ (σ' g).of k → Clo P σ k g x) ∧
      (∀ f ∈ order, ∀ k x, x ∈ (σ' f).of k ↔ Clo P σ k f x) := by
  obtain ⟨_, _, a, b⟩ := generate_tree hT.2 hC order σ σ' rs (StoreInv.refl P σ) h
  exact ⟨generate_le P order σ σ' rs h, a.2, fun f hf k x => ⟨a.2 f k x, b f hf k x⟩⟩

/-- Membership-level idempotence: generating a second time over the mutated IR reports, for every
root, the same SET of gets / sets / dels as the first time, and the entry of every generated root
is the same set afterwards. -/
theorem C14_tree_second_generation_same (P : Prog) (hT : TreeLike P) (hC : CidArgs P)
    (order : List Key) (σ σ' σ'' : Store) (rs rs' : List (Key × IrSets))
    (h : generate P order σ = .ok (rs, σ')) (h' : generate P order σ' = .ok (rs', σ'')) :
    (∀ f res res', (f, res) ∈ rs → (f, res') ∈ rs' → ∀ x,
      (x ∈ res.gets ↔ x ∈ res'.gets) ∧ (x ∈ res.sets ↔ x ∈ res'.sets) ∧
      (x ∈ res.dels ↔ x ∈ res'.dels)) ∧
    (∀ f ∈ order, ∀ x, (x ∈ (σ' f).gets ↔ x ∈ (σ'' f).gets) ∧
      (x ∈ (σ' f).sets ↔ x ∈ (σ'' f).sets) ∧ (x ∈ (σ' f).dels ↔ x ∈ (σ'' f).dels)) := by
  obtain ⟨_, a1, a2, a3⟩ := generate_tree hT.2 hC order σ σ' rs (StoreInv.refl P σ) h
  obtain ⟨_, b1, b2, b3⟩ := generate_tree hT.2 hC order σ' σ'' rs' a2 h'
  refine ⟨?_, ?_⟩
  · intro f res res' m m' x
    have key : ∀ k : Kind, x ∈ res.of k ↔ x ∈ res'.of k :=
      fun k => (a1 f res m k x).trans (b1 f res' m' k x).symm
    exact ⟨key .get, key .set, key .del⟩
  · intro f hf x
    have key : ∀ k : Kind, x ∈ (σ' f).of k ↔ x ∈ (σ'' f).of k :=
      fun k => ⟨fun hx => b3 f hf k x (a2.2 f k x hx), fun hx => a3 f hf k x (b2.2 f k x hx)⟩
    exact ⟨key .get, key .set, key .del⟩

/-- …and the second generation does succeed, when no name in the closure of a callee can make
`unbind_name` raise (`NoFail`; implied by the hypotheses of the C03 tree theorem). -/
theorem C14_tree_second_generation_ok (P : Prog) (hT : TreeLike P) (hC : CidArgs P)
    (order : List Key) (σ σ' : Store) (rs : List (Key × IrSets)) (hN : NoFail P σ)
    (h : generate P order σ = .ok (rs, σ')) : ∃ rs' σ'', generate P order σ' = .ok (rs', σ'') := by
  obtain ⟨_, _, a2, _⟩ := generate_tree hT.2 hC order σ σ' rs (StoreInv.refl P σ) h
  exact generate_tree_ok hT.2 hC hN order σ' a2

/-- non-vacuity: the 4-function chain; `a`'s IR is mutated (it gains the names of `b`, `c`, `d`)
but the leaf `d` keeps its IR. -/
example : TreeLike Pchain ∧ CidArgs Pchain ∧
    storeAfter Pchain σchain [0, 1, 2, 3] 0 =
      some ⟨[nm "x.a0" "x", nm "x.b0" "x", nm "x.d0" "x"], [nm "x.c0" "x"], [nm "x.d1" "x"]⟩ ∧
    storeAfter Pchain σchain [0, 1, 2, 3] 3 = some (σchain 3) :=
  ⟨Pchain_treeLike, Schain_hyps0.cid, by decide +kernel, by decide +kernel⟩

end Rattr.C14

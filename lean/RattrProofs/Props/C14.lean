/-
  C14 — generating results does not change the intermediate representation.

  In the model the IR that result generation may touch is the `Store`; `calls` are structurally
  outside it (never written). `C14_full` (store unchanged) is false on the pinned code: the tree
  nodes share the FileIr's sets (`C14_cex_mutation`). Proved for all programs:
    * `C14_monotone`: nothing is ever removed from any function's IR (it only gains names);
    * `C14_unchanged_without_resolvable`: with no resolvable call the IR is untouched and a second
      generation returns equal results (`C14_idempotent_without_resolvable`).
-/
import RattrProofs.Lemmas.Results
import RattrProofs.Lemmas.ResultsCex

namespace Rattr.C14
open Rattr Rattr.Results Rattr.Cex

def C14_full : Prop :=
  ∀ (P : Prog) (order : List Key) (σ σ' : Store) rs,
    generate P order σ = .ok (rs, σ') → ∀ k, σ' k = σ k

theorem C14_monotone (P : Prog) (order : List Key) (σ σ' : Store) (rs : List (Key × IrSets))
    (h : generate P order σ = .ok (rs, σ')) : StoreLe σ σ' :=
  generate_le P order σ σ' rs h

theorem C14_unchanged_without_resolvable (P : Prog) (hP : ∀ c, P.resolve c = none)
    (order : List Key) (σ σ' : Store) (rs : List (Key × IrSets))
    (h : generate P order σ = .ok (rs, σ')) : σ' = σ := by
  rw [generate_no_resolve P hP] at h
  injection h with h
  injection h with _ h
  exact h.symm

theorem C14_idempotent_without_resolvable (P : Prog) (hP : ∀ c, P.resolve c = none)
    (order : List Key) (σ σ' : Store) (rs : List (Key × IrSets))
    (h : generate P order σ = .ok (rs, σ')) : generate P order σ' = .ok (rs, σ') := by
  have := C14_unchanged_without_resolvable P hP order σ σ' rs h
  subst this
  exact h

/-- `caller(q): callee(q)` · `callee(p): p.x`: afterwards the caller's IR contains `q.x`. -/
theorem C14_cex_mutation :
    storeAfter Pm σm [0, 1] 0 = some ⟨[nm "q" "q", nm "q.x" "q"], [], []⟩ ∧
    σm 0 = ⟨[nm "q" "q"], [], []⟩ := by decide +kernel

theorem C14_full_false : ¬ C14_full := by
  intro h
  have hc := C14_cex_mutation
  unfold storeAfter at hc
  split at hc
  · rename_i rs σ' hgen
    have := h Pm [0, 1] σm σ' rs hgen 0
    have h1 := hc.1
    injection h1 with h1
    rw [this, hc.2] at h1
    revert h1
    decide
  · exact absurd hc.1 (by simp)

/-- non-vacuity of the positive theorems: a program with calls none of which resolves. -/
example : ∃ P : Prog, (∀ c, P.resolve c = none) ∧ (fnAt P 0).calls ≠ [] :=
  ⟨{ fns := [⟨iface ["a"], [call 0 "print" ["a"]]⟩], resolve := fun _ => none }, fun _ => rfl, by decide⟩

end Rattr.C14

/-
  C14 — generating results does not change the intermediate representation.

  In the model the IR that result generation may touch is the `Store`; `calls` are structurally
  outside it (never written). `C14_full` (store unchanged) is false on the pinned code: the tree
  nodes share the FileIr's sets (`C14_cex_mutation`). Proved for all programs:
    * `C14_monotone`: nothing is ever removed from any function's IR (it only gains names);
    * `C14_unchanged_without_resolvable`: with no resolvable call the IR is untouched and a second
      generation returns equal results (`C14_idempotent_without_resolvable`).
    * depth-one fragment (every resolvable callee is a leaf): only generated callers change
      (`C14_depthOne_callee_untouched`), to exactly their results
      (`C14_depthOne_caller_becomes_result`), and a second generation returns the same results
      over an unchanged store (`C14_depthOne_second_generation_same`).
    * TREE fragment, call graphs of arbitrary depth: `C14_tree_mutation_bounded` (every entry
      stays between the own accesses and the closure), `C14_tree_second_generation_same`
      (a second generation reports the same SETS and leaves the generated entries the same sets),
      `C14_tree_second_generation_ok`.
    * ALL programs: a function none of whose calls resolves is never written to (`C14_leaf_untouched`).
    * whole PROJECTS (`RattrModel.ResultsProject`: the target's FileIr and the live FileIr of every followed
      import, call resolution computed by the model — resolve_function / resolve_class_init /
      resolve_import): result generation — completed or aborted by an uncaught ImportError —
      leaves the key list, the symbols, the interfaces and the call records of EVERY FileIr as they were
      (`C14_project_structure_unchanged[_raised]`), only adds names (`C14_project_monotone[_raised]`), never
      writes to a function without a resolvable call — e.g. one whose callees are all @rattr_ignore'd,
      excluded, undefined, methods or in a module that is not followed
      (`C14_project_function_without_resolvable_call_untouched`), and a second generation runs the same
      program with the same resolution of every call (`C14_project_second_generation_same_program`); every
      resolved target is an entry of one of the project's FileIrs (`C14_project_target_is_an_entry`); a callee
      declared by a followed module but absent from its FileIr resolves to nothing
      (`C14_project_ignored_import_callee_resolves_to_none`).
      `C14_project_full` (the project is unchanged) is false: the sets of an IMPORTED function that
      has a resolvable call grow (`C14_cex_import_mutation`).
    * LOCATED names (`RattrModel.Provenance`: every name carries the place it was written, which `Name`
      equality ignores and `-o ir` prints): the located engine refines the plain one
      (`C14_located_refines`); for ALL programs every location found in a function's sets after
      generation — and in the results of a root — was before generation the location of a member of the
      same set of a function REACHABLE from it through resolvable calls (`C14_located_provenance`,
      `C14_located_results_provenance`); a function without a resolvable call only ever holds its own
      (`C14_located_leaf_own_locations`). `C14_located_twin_witness` evaluates the witness of the
      reviewers' memoised-`unbind_name` change (twin callees in two files).
    * Tie A (`Generated.C14.memoised`): every memoised function of rattr is on the model's allow-list
      `Provenance.pureMemo`, none of which lives in a package that builds or transforms IR objects
      (`C14_tieA_memoised`, `C14_tieA_no_memoised_ir_function`): fresh FileIr objects per analysis and a
      fresh `Name` per `unbind_name` call are what the two statements above rest on.
-/
import RattrProofs.Lemmas.Results
import RattrProofs.Lemmas.ResultsCex
import RattrProofs.Lemmas.ResultsDepthOne
import RattrProofs.Lemmas.ResultsTree
import RattrProofs.Lemmas.ResultsTreeCheck
import RattrProofs.Lemmas.ResultsLeaf
import RattrProofs.Lemmas.ResultsProject
import RattrProofs.Lemmas.ResultsProjectCex
import RattrProofs.Lemmas.ResultsProvenance
import RattrProofs.Lemmas.ResultsProvenanceErase
import RattrModel.Generated.C14

namespace Rattr.C14
open Rattr Rattr.Results Rattr.Cex

def C14_full : Prop :=
  ∀ (P : Prog) (order : List Key) (σ σ' : Store) rs,
    generate P order σ = .ok (rs, σ') → ∀ k, σ' k = σ k

theorem C14_monotone (P : Prog) (order : List Key) (σ σ' : Store) (rs : List (Key × IrSets))
    (h : generate P order σ = .ok (rs, σ')) : StoreLe σ σ' :=
  generate_le P order σ σ' rs h

theorem C14_unchanged_without_resolvable (P : Prog) (hP : ∀ c, P.resolve c = none)
    (order : List Key) (σ σ' : Store) (rs : List (Key × IrSets))
    (h : generate P order σ = .ok (rs, σ')) : σ' = σ := by
  rw [generate_no_resolve P hP] at h
  injection h with h
  injection h with _ h
  exact h.symm

theorem C14_idempotent_without_resolvable (P : Prog) (hP : ∀ c, P.resolve c = none)
    (order : List Key) (σ σ' : Store) (rs : List (Key × IrSets))
    (h : generate P order σ = .ok (rs, σ')) : generate P order σ' = .ok (rs, σ') := by
  have := C14_unchanged_without_resolvable P hP order σ σ' rs h
  subst this
  exact h

/-- `caller(q): callee(q)` · `callee(p): p.x`: afterwards the caller's IR contains `q.x`. -/
theorem C14_cex_mutation :
    storeAfter Pm σm [0, 1] 0 = some ⟨[nm "q" "q", nm "q.x" "q"], [], []⟩ ∧
    σm 0 = ⟨[nm "q" "q"], [], []⟩ := by decide +kernel

theorem C14_full_false : ¬ C14_full := by
  intro h
  have hc := C14_cex_mutation
  unfold storeAfter at hc
  split at hc
  · rename_i rs σ' hgen
    have := h Pm [0, 1] σm σ' rs hgen 0
    have h1 := hc.1
    injection h1 with h1
    rw [this, hc.2] at h1
    revert h1
    decide
  · exact absurd hc.1 (by simp)

/-- non-vacuity of the positive theorems: a program with calls none of which resolves. -/
example : ∃ P : Prog, (∀ c, P.resolve c = none) ∧ (fnAt P 0).calls ≠ [] :=
  ⟨{ fns := [⟨iface ["a"], [call 0 "print" ["a"]]⟩], resolve := fun _ => none }, fun _ => rfl, by decide⟩

/-! ### the depth-one fragment: the precise extent of the mutation -/

/-- In a depth-one program result generation changes only the entries of roots that have a
resolvable call: leaves (functions without resolvable call — in particular every callee) and
functions that are not generated keep their IR. -/
theorem C14_depthOne_callee_untouched (P : Prog) (hP : DepthOne P) (order : List Key)
    (σ σ' : Store) (rs : List (Key × IrSets)) (h : generate P order σ = .ok (rs, σ')) (k : Key)
    (hk : IsLeaf P k ∨ IsCallee P k ∨ k ∉ order) : σ' k = σ k := by
  obtain ⟨_, _, hI, _, hout⟩ := generate_depthOne hP order σ σ' rs (Inv.refl P σ) h
  rcases hk with hk | hk | hk
  · exact hI.leaf hk
  · exact hI.leaf (hP.callee_leaf hk)
  · exact hout k hk

/-- …and the entry of a generated root becomes exactly its result: the IR mutation in this
fragment is "a caller's IR is overwritten by its results". -/
theorem C14_depthOne_caller_becomes_result (P : Prog) (hP : DepthOne P) (order : List Key)
    (σ σ' : Store) (rs : List (Key × IrSets)) (h : generate P order σ = .ok (rs, σ'))
    (f : Key) (res : IrSets) (hf : (f, res) ∈ rs) : σ' f = res := by
  obtain ⟨hfst, hres, _, hin, _⟩ := generate_depthOne hP order σ σ' rs (Inv.refl P σ) h
  have hfo : f ∈ order := by
    rw [← hfst]
    exact List.mem_map.mpr ⟨(f, res), hf, rfl⟩
  have h1 := hin f hfo
  have h2 := hres (f, res) hf
  simp only at h2
  rw [h2] at h1
  injection h1 with h1
  exact h1.symm

/-- Generating a second time over the mutated IR returns the same results and leaves the IR as
it is (`a |= b` with `b ⊆ a` adds nothing). -/
theorem C14_depthOne_second_generation_same (P : Prog) (hP : DepthOne P) (order : List Key)
    (σ σ' : Store) (rs : List (Key × IrSets)) (h : generate P order σ = .ok (rs, σ')) :
    generate P order σ' = .ok (rs, σ') := by
  obtain ⟨hfst, hres, hI, hin, hout⟩ := generate_depthOne hP order σ σ' rs (Inv.refl P σ) h
  obtain ⟨rs2, σ2, h2⟩ := generate_depthOne_ok hP order σ' hI
    (fun f hf => by rw [hin f hf]; rfl)
  obtain ⟨hfst2, hres2, _, hin2, hout2⟩ := generate_depthOne hP order σ' σ2 rs2 hI h2
  have e1 : rs2 = rs := results_unique (by rw [hfst, hfst2]) hres2 hres
  have e2 : σ2 = σ' := by
    funext k
    by_cases hk : k ∈ order
    · have a := hin k hk
      have b := hin2 k hk
      rw [a] at b
      injection b with b
      exact b.symm
    · exact hout2 k hk
  rw [h2, e1, e2]

/-- non-vacuity: two callers sharing a leaf; the leaf keeps its IR, the callers do not. -/
example : DepthOne P1 ∧ storeAfter P1 σ1 [0, 1, 2] 2 = some (σ1 2) ∧
    storeAfter P1 σ1 [0, 1, 2] 0 ≠ some (σ1 0) :=
  ⟨P1_depthOne, by decide +kernel, by decide +kernel⟩

/-! ### the tree fragment (arbitrary depth): the extent of the mutation, idempotence -/

/-- In the tree fragment the IR mutation is bounded: after generating any sequence of roots every
function's entry still contains what it held before and holds nothing outside its closure `Clo`
(own accesses ∪ unbound closures of its resolvable callees); the entry of every generated root
is its whole closure. -/
theorem C14_tree_mutation_bounded (P : Prog) (hT : TreeLike P) (hC : CidArgs P) (order : List Key)
    (σ σ' : Store) (rs : List (Key × IrSets)) (h : generate P order σ = .ok (rs, σ')) :
    StoreLe σ σ' ∧ (∀ g k x, x ∈ (σ' g).of k → Clo P σ k g x) ∧
      (∀ f ∈ order, ∀ k x, x ∈ (σ' f).of k ↔ Clo P σ k f x) := by
  obtain ⟨_, _, a, b⟩ := generate_tree hT.2 hC order σ σ' rs (StoreInv.refl P σ) h
  exact ⟨generate_le P order σ σ' rs h, a.2, fun f hf k x => ⟨a.2 f k x, b f hf k x⟩⟩

/-- Membership-level idempotence: generating a second time over the mutated IR reports, for every
root, the same SET of gets / sets / dels as the first time, and the entry of every generated root
is the same set afterwards. -/
theorem C14_tree_second_generation_same (P : Prog) (hT : TreeLike P) (hC : CidArgs P)
    (order : List Key) (σ σ' σ'' : Store) (rs rs' : List (Key × IrSets))
    (h : generate P order σ = .ok (rs, σ')) (h' : generate P order σ' = .ok (rs', σ'')) :
    (∀ f res res', (f, res) ∈ rs → (f, res') ∈ rs' → ∀ x,
      (x ∈ res.gets ↔ x ∈ res'.gets) ∧ (x ∈ res.sets ↔ x ∈ res'.sets) ∧
      (x ∈ res.dels ↔ x ∈ res'.dels)) ∧
    (∀ f ∈ order, ∀ x, (x ∈ (σ' f).gets ↔ x ∈ (σ'' f).gets) ∧
      (x ∈ (σ' f).sets ↔ x ∈ (σ'' f).sets) ∧ (x ∈ (σ' f).dels ↔ x ∈ (σ'' f).dels)) := by
  obtain ⟨_, a1, a2, a3⟩ := generate_tree hT.2 hC order σ σ' rs (StoreInv.refl P σ) h
  obtain ⟨_, b1, b2, b3⟩ := generate_tree hT.2 hC order σ' σ'' rs' a2 h'
  refine ⟨?_, ?_⟩
  · intro f res res' m m' x
    have key : ∀ k : Kind, x ∈ res.of k ↔ x ∈ res'.of k :=
      fun k => (a1 f res m k x).trans (b1 f res' m' k x).symm
    exact ⟨key .get, key .set, key .del⟩
  · intro f hf x
    have key : ∀ k : Kind, x ∈ (σ' f).of k ↔ x ∈ (σ'' f).of k :=
      fun k => ⟨fun hx => b3 f hf k x (a2.2 f k x hx), fun hx => a3 f hf k x (b2.2 f k x hx)⟩
    exact ⟨key .get, key .set, key .del⟩

/-- …and the second generation does succeed, when no name in the closure of a callee can make
`unbind_name` raise (`NoFail`; implied by the hypotheses of the C03 tree theorem). -/
theorem C14_tree_second_generation_ok (P : Prog) (hT : TreeLike P) (hC : CidArgs P)
    (order : List Key) (σ σ' : Store) (rs : List (Key × IrSets)) (hN : NoFail P σ)
    (h : generate P order σ = .ok (rs, σ')) : ∃ rs' σ'', generate P order σ' = .ok (rs', σ'') := by
  obtain ⟨_, _, a2, _⟩ := generate_tree hT.2 hC order σ σ' rs (StoreInv.refl P σ) h
  exact generate_tree_ok hT.2 hC hN order σ' a2

/-- non-vacuity: the 4-function chain; `a`'s IR is mutated (it gains the names of `b`, `c`, `d`)
but the leaf `d` keeps its IR. -/
example : TreeLike Pchain ∧ CidArgs Pchain ∧
    storeAfter Pchain σchain [0, 1, 2, 3] 0 =
      some ⟨[nm "x.a0" "x", nm "x.b0" "x", nm "x.d0" "x"], [nm "x.c0" "x"], [nm "x.d1" "x"]⟩ ∧
    storeAfter Pchain σchain [0, 1, 2, 3] 3 = some (σchain 3) :=
  ⟨Pchain_treeLike, Schain_hyps0.cid, by decide +kernel, by decide +kernel⟩

/-! ### all programs: leaves are never written to -/

/-- For every program, order and store: a function none of whose calls resolves keeps its IR. -/
theorem C14_leaf_untouched (P : Prog) (order : List Key) (σ σ' : Store) (rs : List (Key × IrSets))
    (h : generate P order σ = .ok (rs, σ')) (k : Key) (hk : IsLeaf P k) : σ' k = σ k :=
  generate_leaf P order σ σ' rs h k hk

/-- non-vacuity: in the diamond `Pd` the leaf keeps its IR although it is inlined twice. -/
example : IsLeaf Pd 3 ∧ ¬ IsLeaf Pd 0 := by
  constructor
  · intro c hc; simp [fnAt, Pd] at hc
  · intro h
    have := h (call 0 "one" ["a"]) (by simp [fnAt, Pd])
    simp [Pd, call] at this

/-! ### whole projects: the target's FileIr and the FileIr of every followed import -/

open Rattr.ResProject Rattr.Resolve

/-- the property for a project: result generation returns the project it was given. -/
def C14_project_full : Prop :=
  ∀ (p p' : Proj) rs, generateProject p = .ok rs p' →
    (modules p').map (fun m => m.fns.map (·.ir)) = (modules p).map (fun m => m.fns.map (·.ir))

/-- `helpers.chain(thing): thing.c; plain(thing.sub)` reached from `target.f(b): chain(b)`: afterwards the
IR of the IMPORTED function `chain` holds `thing.sub.x` (and the target's `f` holds chain's names). -/
theorem C14_cex_import_mutation :
    irsAfter projChain = some
      [[⟨[nm "b" "b", nm "b.c" "b", nm "b.sub" "b", nm "thing.sub.x" "thing.sub"], [], []⟩],
       [⟨[nm "thing.x" "thing"], [], []⟩,
        ⟨[nm "thing.c" "thing", nm "thing.sub" "thing", nm "thing.sub.x" "thing.sub"], [], []⟩]] ∧
    (modules projChain).map (fun m => m.fns.map (·.ir)) =
      [[⟨[nm "b" "b"], [], []⟩],
       [⟨[nm "thing.x" "thing"], [], []⟩, ⟨[nm "thing.c" "thing", nm "thing.sub" "thing"], [], []⟩]] := by
  decide +kernel

theorem C14_project_full_false : ¬ C14_project_full := by
  intro h
  have hc := C14_cex_import_mutation
  unfold irsAfter at hc
  split at hc
  · rename_i rs p' hgen
    have := h projChain p' rs hgen
    have h1 := hc.1
    injection h1 with h1
    rw [this, hc.2] at h1
    revert h1
    decide
  · exact absurd hc.1 (by simp)

/-- Result generation changes nothing but the three sets: the list of modules, every module's name and
symbols, every FileIr's key list (kind, name, file, interface — in order) and every call record are the
same afterwards; so is everything call resolution reads (`envOf`). -/
theorem C14_project_structure_unchanged (p p' : Proj) (rs : List (Key × IrSets))
    (h : generateProject p = .ok rs p') : skeleton p' = skeleton p ∧ envOf p' = envOf p := by
  obtain ⟨σ', _, e⟩ := generateProject_ok h
  subst e
  exact ⟨skeleton_writeBack p σ', envOf_writeBack p σ'⟩

/-- …also when generation is aborted by an uncaught ImportError / RecursionError of `resolve_import`. -/
theorem C14_project_structure_unchanged_raised (p p' : Proj) (rs : List (Key × IrSets)) (f : Key)
    (h : generateProject p = .raised rs p' f) : skeleton p' = skeleton p ∧ envOf p' = envOf p := by
  obtain ⟨_, σ', _, e⟩ := generateProject_raised h
  subst e
  exact ⟨skeleton_writeBack p σ', envOf_writeBack p σ'⟩

/-- Every set of every function of every module only gains names. -/
theorem C14_project_monotone (p p' : Proj) (rs : List (Key × IrSets))
    (h : generateProject p = .ok rs p') : StoreLe (store0 p) (store0 p') := by
  obtain ⟨σ', hg, e⟩ := generateProject_ok h
  subst e
  exact storeLe_writeBack p σ' (generate_le _ _ _ _ _ hg)

theorem C14_project_monotone_raised (p p' : Proj) (rs : List (Key × IrSets)) (f : Key)
    (h : generateProject p = .raised rs p' f) : StoreLe (store0 p) (store0 p') := by
  obtain ⟨_, σ', hg, e⟩ := generateProject_raised h
  subst e
  exact storeLe_writeBack p σ' (generate_le _ _ _ _ _ hg)

/-- A function (of the target or of an import) none of whose calls resolves keeps its three sets. -/
theorem C14_project_leaf_untouched (p p' : Proj) (rs : List (Key × IrSets))
    (h : generateProject p = .ok rs p') (k : Key) (hk : IsLeaf (toProg p) k) :
    store0 p' k = store0 p k := by
  obtain ⟨σ', hg, e⟩ := generateProject_ok h
  subst e
  exact leaf_writeBack p σ' k (generate_leaf _ _ _ _ _ hg k hk)

/-- The same in the project's own terms: if `find_call_target_and_ir` yields no target for any call of
the `k`-th function (callees @rattr_ignore'd, excluded, undefined, methods, builtins, in a module that
is not followed, …), its IR after generation is its IR before. -/
theorem C14_project_function_without_resolvable_call_untouched (p p' : Proj)
    (rs : List (Key × IrSets)) (h : generateProject p = .ok rs p') (k : Key) (f : PFn)
    (hf : (allFns p)[k]? = some f) (hc : ∀ c ∈ f.calls, resolveCid p c.call.cid = none) :
    ((allFns p')[k]?).map (·.ir) = some f.ir := by
  have hleaf : IsLeaf (toProg p) k := by
    intro c hcm
    rw [fnAt_toProg p k f hf] at hcm
    obtain ⟨pc, hpc, e⟩ := List.mem_map.mp hcm
    subst e
    exact hc pc hpc
  have hs := C14_project_leaf_untouched p p' rs h k hleaf
  obtain ⟨σ', _, e⟩ := generateProject_ok h
  subst e
  have hk : k < (allFns p).length := by
    rcases Nat.lt_or_ge k (allFns p).length with h' | h'
    · exact h'
    · rw [List.getElem?_eq_none h'] at hf; cases hf
  rw [allFns_writeBack, getElem?_setIrs, hf]
  simp only [Option.map_some, Nat.zero_add, Option.some.injEq]
  have h0 : store0 p k = f.ir := by unfold store0 storeOf; simp [hf]
  rw [store0_writeBack] at hs
  simp only [hk, if_true] at hs
  rw [hs, h0]

/-- Whatever `find_call_target_and_ir` answers for a call is an entry of the target's or of a followed
import's FileIr (a key below the number of functions of the project): there is no FunctionIr result
generation could write to that is not one of the project's — in particular none made up on the way. -/
theorem C14_project_target_is_an_entry (p : Proj) (t : CallTarget) (k : Key)
    (h : findCallTarget p t = .key k) : k < (allFns p).length := by
  have := findCallTargetE_lt h
  rw [env_fns, List.length_map] at this
  exact this

/-- A second generation over the project the first one left runs the same flat program, the same
roots in the same order and resolves every call as before: whatever differs the second time comes
from the three sets alone. -/
theorem C14_project_second_generation_same_program (p p' : Proj) (rs : List (Key × IrSets))
    (h : generateProject p = .ok rs p') :
    toProg p' = toProg p ∧ order p' = order p ∧ raisingCids p' = raisingCids p ∧
      ∀ t, findCallTarget p' t = findCallTarget p t := by
  obtain ⟨σ', _, e⟩ := generateProject_ok h
  subst e
  refine ⟨?_, order_writeBack p σ', ?_, ?_⟩
  · unfold toProg; rw [envOf_writeBack]
  · unfold raisingCids; rw [envOf_writeBack]
  · intro t; unfold findCallTarget; rw [envOf_writeBack]

/-- `resolve_import` on a callee that the followed module DECLARES (a `Func` / `Class` of its root context)
but that has no entry in the module's FileIr — `@rattr_ignore`d or excluded: "it is likely ignored", no
target, for every project. (With `C14_project_structure_unchanged`: and no entry is created for it.) -/
theorem C14_project_ignored_import_callee_resolves_to_none (e : Env) (fuel : Nat) (n q mn : Str)
    (ctx : MCtx) (fnm : Str) (isCls : Bool) (hfuel : e.fuel = fuel + 1)
    (hm : moduleNameOf e.existing q = some mn) (hi : e.ignored.contains mn = false)
    (hctx : Dict.get? (world e).irs mn = some ctx)
    (hs : lookupSym ctx (localNameOf n mn) = some (if isCls then MSym.cls fnm false else MSym.func fnm false)) :
    findCallTargetE e (.imp n q) = .none_ := by
  unfold findCallTargetE
  rw [hfuel]
  have hw1 : (world e).existing = e.existing := rfl
  have hw2 : (world e).ignored = e.ignored := rfl
  have hi' : mn ∉ e.ignored := by simpa using hi
  cases isCls <;> simp [resolveImport, hw1, hw2, hm, hctx, hs, hi']

/-- non-vacuity: the hypotheses hold for `opaque` of `projIgnored`. -/
example : findCallTargetE (envOf projIgnored) (.imp (s "opaque") (s "helpers.opaque")) = .none_ :=
  C14_project_ignored_import_callee_resolves_to_none (envOf projIgnored) 63 (s "opaque")
    (s "helpers.opaque") (s "helpers")
    [.func (s "rattr_ignore") true, .func (s "opaque") false, .func (s "plain") true] (s "opaque") false
    rfl (by decide +kernel) (by decide +kernel) (by decide +kernel) (by decide +kernel)

/-- the seeded-change shape (a call to an @rattr_ignore'd function of a followed import, test by
evaluation): the call resolves to nothing, the import's key list is what it was, `plain` (no resolvable
call) keeps its IR. -/
theorem C14_project_ignored_imported_callee :
    findCallTarget projIgnored (.imp (s "opaque") (s "helpers.opaque")) = .none_ ∧
    findCallTarget projIgnored (.imp (s "plain") (s "helpers.plain")) = .key 2 ∧
    keysAfter projIgnored = some (keysOf projIgnored) ∧
    keysOf projIgnored = [(s "target", [s "f"]), (s "helpers", [s "rattr_ignore", s "plain"])] := by
  decide +kernel

/-- non-vacuity of the project theorems: `projChain` generates `ok`, its imported `plain` has no
resolvable call while its imported `chain` has one. -/
example : (irsAfter projChain).isSome ∧ IsLeaf (toProg projChain) 1 ∧ ¬ IsLeaf (toProg projChain) 2 := by
  unfold IsLeaf
  decide +kernel

/-! ### Located names: provenance of what result generation folds into an IR -/

open Rattr.Provenance in
/-- The located engine refines the plain engine (the one tied to the implementation by the differential
check): erase the locations and the outcome, the results and the store are those of `generate`. -/
theorem C14_located_refines {L : Type} (P : Prog) (order : List Key) (σ : LStore L) :
    eraseOut (generateL P order σ) = generate P order (eraseStore σ) :=
  generateL_erase P order σ

open Rattr.Provenance in
/-- For ALL programs: after result generation, every location found in a set of a function `f` was,
before generation, the location of a member of the same set of a function reachable from `f` through
resolvable calls. (The known defect adds names to `f`'s IR; it never makes the IR point to a place `f`
has nothing to do with.) -/
theorem C14_located_provenance {L : Type} (P : Prog) (order : List Key) (σ σ' : LStore L)
    (rs : List (Key × LSets L)) (h : generateL P order σ = .ok (rs, σ')) :
    ∀ f k x, x ∈ (σ' f).get k → ∃ g, Reach P f g ∧ ∃ y ∈ (σ g).get k, y.loc = x.loc :=
  generateL_prov P σ order σ σ' rs (Provenanced.refl P σ) h

open Rattr.Provenance in
/-- … and so are the results reported for every root. -/
theorem C14_located_results_provenance {L : Type} (P : Prog) (order : List Key) (σ σ' : LStore L)
    (rs : List (Key × LSets L)) (h : generateL P order σ = .ok (rs, σ')) :
    ∀ p ∈ rs, ∀ k x, x ∈ p.2.get k → ∃ g, Reach P p.1 g ∧ ∃ y ∈ (σ g).get k, y.loc = x.loc :=
  generateL_results_prov P σ order σ σ' rs (Provenanced.refl P σ) h

open Rattr.Provenance in
/-- A function none of whose calls resolves only ever holds locations of its own accesses. -/
theorem C14_located_leaf_own_locations {L : Type} (P : Prog) (order : List Key) (σ σ' : LStore L)
    (rs : List (Key × LSets L)) (h : generateL P order σ = .ok (rs, σ')) (f : Key) (hf : IsLeaf P f) :
    ∀ k x, x ∈ (σ' f).get k → ∃ y ∈ (σ f).get k, y.loc = x.loc := by
  intro k x hx
  obtain ⟨g, hr, y, hy, e⟩ := C14_located_provenance P order σ σ' rs h f k x hx
  have := Reach.of_leaf hf hr
  subst this
  exact ⟨y, hy, e⟩

namespace Twin
open Rattr.Provenance

/-- The reviewers' witness (seeded change: `@cache` on `unbind_name`): `north_value(probe)` calls
`read_north(sensor)`, `south_value(probe)` calls `read_south(sensor)`; both callees read `sensor.value`, at
different places (location 1 = north.py, 2 = south.py; 10 / 11 = the callers' own `probe`). -/
def P : Prog := {
  fns := [ ⟨iface ["probe"], [call 0 "read_north" ["probe"]]⟩, ⟨iface ["probe"], [call 1 "read_south" ["probe"]]⟩,
           ⟨iface ["sensor"], []⟩, ⟨iface ["sensor"], []⟩ ],
  resolve := fun c => match c with | 0 => some 2 | 1 => some 3 | _ => none }

def σ₀ : LStore Nat := fun k => match k with
  | 0 => ⟨[⟨nm "probe" "probe", 10⟩], [], []⟩
  | 1 => ⟨[⟨nm "probe" "probe", 11⟩], [], []⟩
  | 2 => ⟨[⟨nm "sensor.value" "sensor", 1⟩], [], []⟩
  | 3 => ⟨[⟨nm "sensor.value" "sensor", 2⟩], [], []⟩
  | _ => ⟨[], [], []⟩

def getsAfter (f : Key) : List (Str × Nat) :=
  match generateL P [0, 1] σ₀ with
  | .ok (_, σ') => (σ' f).gets.map (fun x => (x.n.full, x.loc))
  | _ => []

end Twin

/-- (a test on one literal program) In the model of the pinned code each caller's folded `probe.value`
carries the location of ITS callee's access: 1 for `north_value`, 2 for `south_value`. -/
theorem C14_located_twin_witness :
    Twin.getsAfter 0 = [(s "probe", 10), (s "probe.value", 1)]
    ∧ Twin.getsAfter 1 = [(s "probe", 11), (s "probe.value", 2)] := by
  decide

/-! ### Tie A: nothing that builds or transforms IR objects is memoised -/

/-- Every memoised function in today's source is on the model's allow-list: a new cache breaks this until
somebody says why it cannot hand out an IR object (or a `Name`) that was built for something else. -/
theorem C14_tieA_memoised : ∀ x ∈ Generated.C14.memoised, x ∈ Provenance.pureMemo := by
  decide

/-- … and the allow-list has no stale rows. -/
theorem C14_tieA_memoised_no_stale : ∀ x ∈ Provenance.pureMemo, x ∈ Generated.C14.memoised := by
  decide

/-- No allowed memoised function lives in a package that builds or transforms IR objects. -/
theorem C14_tieA_no_memoised_ir_function :
    ∀ x ∈ Provenance.pureMemo, ∀ p ∈ Provenance.irPackages, (p.toList.isPrefixOf x.1.toList) = false := by
  decide

end Rattr.C14

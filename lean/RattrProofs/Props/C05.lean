/-
  C05 — results are deterministic and independent of definition order and unrelated code.

  The model takes every order the implementation depends on as an explicit input: the order of
  roots (definition order), the iteration order of each `calls` set (hash seed). Determinism for a
  fixed input is structural (the model is a function). Independence of those orders (`C05_full`)
  is false on the pinned code (`C05_cex_order`). Proved for all programs:
    * `C05_order_indep_without_resolvable`: with no resolvable call every root's result is the
      same under any order and any number of earlier generations;
    * `C05_sort_is_perm_invariant_on_distinct_keys`-style facts are part of C18.
-/
import RattrProofs.Lemmas.Results
import RattrProofs.Lemmas.ResultsCex

namespace Rattr.C05
open Rattr Rattr.Results Rattr.Cex

/-- result of root `f` (as a set of spellings per kind) does not depend on the order of roots. -/
def C05_full : Prop :=
  ∀ (P : Prog) (σ : Store) (o₁ o₂ : List Key), o₁.Perm o₂ → ∀ f, getsOf P σ o₁ f = getsOf P σ o₂ f

theorem C05_order_indep_without_resolvable (P : Prog) (hP : ∀ c, P.resolve c = none)
    (σ : Store) (o₁ o₂ : List Key) (f : Key) (h₁ : f ∈ o₁) (h₂ : f ∈ o₂) :
    getsOf P σ o₁ f = getsOf P σ o₂ f := by
  have key : ∀ o : List Key, f ∈ o → getsOf P σ o f = some (fulls (σ f).gets) := by
    intro o ho
    unfold getsOf
    rw [generate_no_resolve P hP]
    simp only
    have : (o.map (fun f => (f, σ f))).lookup f = some (σ f) := by
      induction o with
      | nil => cases ho
      | cons g r ih =>
        simp only [List.map_cons, List.lookup]
        by_cases hg : f = g
        · subst hg; simp
        · have : (f == g) = false := by simpa using hg
          simp only [this]
          exact ih (by rcases List.mem_cons.mp ho with h | h; exact absurd h hg; exact h)
    rw [this]; rfl
  rw [key o₁ h₁, key o₂ h₂]

/-- C03-dedupe program: defining `two` before `top` changes `top`'s results. -/
theorem C05_cex_order :
    getsOf Pd σd [0, 1, 2, 3] 0 = some [s "a", s "b", s "a.attr"] ∧
    getsOf Pd σd [2, 0, 1, 3] 0 = some [s "a", s "b", s "a.attr", s "b.attr"] := by decide +kernel

theorem C05_full_false : ¬ C05_full := by
  intro h
  have := h Pd σd [0, 1, 2, 3] [2, 0, 1, 3] (by decide) 0
  rw [C05_cex_order.1, C05_cex_order.2] at this
  revert this
  decide

end Rattr.C05

/-
  C05 — results are deterministic and independent of definition order and unrelated code.

  The model takes every order the implementation depends on as an explicit input: the order of
  roots (definition order), the iteration order of each `calls` set (hash seed). Determinism for a
  fixed input is structural (the model is a function). Independence of those orders (`C05_full`)
  is false on the pinned code (`C05_cex_order`). Proved for all programs:
    * `C05_order_indep_without_resolvable`: with no resolvable call every root's result is the
      same under any order and any number of earlier generations;
    * `C05_sort_is_perm_invariant_on_distinct_keys`-style facts are part of C18.
    * depth-one fragment (every resolvable callee is a leaf): `C05_depthOne_order_independent`
      (+ `_mem`, `C05_depthOne_getsOf`): a root's result is the same under any two root orders.
    * TREE fragment, call graphs of arbitrary depth (`TreeLike`: from every root the resolvable
      call graph unfolds to a tree): `C05_tree_order_independent` (+ `_fulls`): the SET of names
      reported for a root is the same under any two root orders (and after any earlier
      generation: `C05_tree_unrelated_roots`).
-/
import RattrProofs.Lemmas.Results
import RattrProofs.Lemmas.ResultsCex
import RattrProofs.Lemmas.ResultsDepthOne
import RattrProofs.Lemmas.ResultsTree
import RattrProofs.Lemmas.ResultsTreeCheck

namespace Rattr.C05
open Rattr Rattr.Results Rattr.Cex

/-- result of root `f` (as a set of spellings per kind) does not depend on the order of roots. -/
def C05_full : Prop :=
  ∀ (P : Prog) (σ : Store) (o₁ o₂ : List Key), o₁.Perm o₂ → ∀ f, getsOf P σ o₁ f = getsOf P σ o₂ f

theorem C05_order_indep_without_resolvable (P : Prog) (hP : ∀ c, P.resolve c = none)
    (σ : Store) (o₁ o₂ : List Key) (f : Key) (h₁ : f ∈ o₁) (h₂ : f ∈ o₂) :
    getsOf P σ o₁ f = getsOf P σ o₂ f := by
  have key : ∀ o : List Key, f ∈ o → getsOf P σ o f = some (fulls (σ f).gets) := by
    intro o ho
    unfold getsOf
    rw [generate_no_resolve P hP]
    simp only
    have : (o.map (fun f => (f, σ f))).lookup f = some (σ f) := by
      induction o with
      | nil => cases ho
      | cons g r ih =>
        simp only [List.map_cons, List.lookup]
        by_cases hg : f = g
        · subst hg; simp
        · have : (f == g) = false := by simpa using hg
          simp only [this]
          exact ih (by rcases List.mem_cons.mp ho with h | h; exact absurd h hg; exact h)
    rw [this]; rfl
  rw [key o₁ h₁, key o₂ h₂]

/-- C03-dedupe program: defining `two` before `top` changes `top`'s results. -/
theorem C05_cex_order :
    getsOf Pd σd [0, 1, 2, 3] 0 = some [s "a", s "b", s "a.attr"] ∧
    getsOf Pd σd [2, 0, 1, 3] 0 = some [s "a", s "b", s "a.attr", s "b.attr"] := by decide +kernel

theorem C05_full_false : ¬ C05_full := by
  intro h
  have := h Pd σd [0, 1, 2, 3] [2, 0, 1, 3] (by decide) 0
  rw [C05_cex_order.1, C05_cex_order.2] at this
  revert this
  decide

/-! ### the depth-one fragment: results do not depend on the order of roots -/

/-- In a depth-one program the result of a root is the same — as lists, hence as sets — under any
two orders of roots (any lists of roots: no `Nodup`, no `Perm` needed) and after any earlier
generation: it only reads the root's own entry (no other root writes it, since a caller is never
a callee) and entries of leaves (never written). -/
theorem C05_depthOne_order_independent (P : Prog) (hP : DepthOne P) (σ : Store)
    (o₁ o₂ : List Key) (rs₁ rs₂ : List (Key × IrSets)) (σ₁ σ₂ : Store)
    (h₁ : generate P o₁ σ = .ok (rs₁, σ₁)) (h₂ : generate P o₂ σ = .ok (rs₂, σ₂))
    (f : Key) (res₁ res₂ : IrSets) (m₁ : (f, res₁) ∈ rs₁) (m₂ : (f, res₂) ∈ rs₂) :
    res₁ = res₂ := by
  obtain ⟨_, a, _⟩ := generate_depthOne hP o₁ σ σ₁ rs₁ (Inv.refl P σ) h₁
  obtain ⟨_, b, _⟩ := generate_depthOne hP o₂ σ σ₂ rs₂ (Inv.refl P σ) h₂
  have a1 := a (f, res₁) m₁
  have b1 := b (f, res₂) m₂
  simp only at a1 b1
  rw [a1] at b1
  injection b1

/-- membership form of `C05_depthOne_order_independent`. -/
theorem C05_depthOne_order_independent_mem (P : Prog) (hP : DepthOne P) (σ : Store)
    (o₁ o₂ : List Key) (rs₁ rs₂ : List (Key × IrSets)) (σ₁ σ₂ : Store)
    (h₁ : generate P o₁ σ = .ok (rs₁, σ₁)) (h₂ : generate P o₂ σ = .ok (rs₂, σ₂))
    (f : Key) (res₁ res₂ : IrSets) (m₁ : (f, res₁) ∈ rs₁) (m₂ : (f, res₂) ∈ rs₂) (x : NameS) :
    (x ∈ res₁.gets ↔ x ∈ res₂.gets) ∧ (x ∈ res₁.sets ↔ x ∈ res₂.sets) ∧
    (x ∈ res₁.dels ↔ x ∈ res₂.dels) := by
  rw [C05_depthOne_order_independent P hP σ o₁ o₂ rs₁ rs₂ σ₁ σ₂ h₁ h₂ f res₁ res₂ m₁ m₂]
  exact ⟨Iff.rfl, Iff.rfl, Iff.rfl⟩

/-- `C05_full` restricted to the fragment, in the form of the full statement: for a depth-one
program whose callees' names start with their basename, `getsOf` of a root is the same under any
two orders containing it. -/
theorem C05_depthOne_getsOf (P : Prog) (hP : DepthOne P) (σ : Store) (hσ : CalleeWB P σ)
    (o₁ o₂ : List Key) (f : Key) (hf₁ : f ∈ o₁) (hf₂ : f ∈ o₂) :
    getsOf P σ o₁ f = getsOf P σ o₂ f := by
  have key : ∀ o : List Key, f ∈ o →
      getsOf P σ o f = (rootResult P σ f).map (fun ir => fulls ir.gets) := by
    intro o ho
    obtain ⟨rs, σ', hg⟩ := generate_depthOne_ok hP o σ (Inv.refl P σ)
      (fun g _ => rootResult_isSome hσ g)
    obtain ⟨hfst, hres, _⟩ := generate_depthOne hP o σ σ' rs (Inv.refl P σ) hg
    unfold getsOf
    rw [hg]
    simp only
    rw [lookup_results rs f (by rw [hfst]; exact ho) hres]
  rw [key o₁ hf₁, key o₂ hf₂]

/-- non-vacuity: two callers sharing a leaf, generated in two different orders. -/
example : DepthOne P1 ∧
    getsOf P1 σ1 [0, 1, 2] 1 = some [s "b.y", s "b.y.attr"] ∧
    getsOf P1 σ1 [2, 1, 0] 1 = some [s "b.y", s "b.y.attr"] :=
  ⟨P1_depthOne, by decide +kernel, by decide +kernel⟩

/-! ### the tree fragment (arbitrary depth): membership does not depend on the order of roots -/

/-- In the tree fragment (`TreeLike`; `CidArgs` holds of all real inputs) the SET of names reported
for a root — gets, sets and dels — is the same under any two orders of roots (any lists of roots:
no `Nodup`, no `Perm` needed): whatever the earlier roots wrote into the shared store, the result
is the closure `Clo` of the root over the ORIGINAL store `σ`. (As lists the results may differ in
order; on the pinned code outside the fragment even the sets differ: `C05_cex_order`.) -/
theorem C05_tree_order_independent (P : Prog) (hT : TreeLike P) (hC : CidArgs P) (σ : Store)
    (o₁ o₂ : List Key) (rs₁ rs₂ : List (Key × IrSets)) (σ₁ σ₂ : Store)
    (h₁ : generate P o₁ σ = .ok (rs₁, σ₁)) (h₂ : generate P o₂ σ = .ok (rs₂, σ₂))
    (f : Key) (res₁ res₂ : IrSets) (m₁ : (f, res₁) ∈ rs₁) (m₂ : (f, res₂) ∈ rs₂) (x : NameS) :
    (x ∈ res₁.gets ↔ x ∈ res₂.gets) ∧ (x ∈ res₁.sets ↔ x ∈ res₂.sets) ∧
    (x ∈ res₁.dels ↔ x ∈ res₂.dels) := by
  obtain ⟨_, a, _⟩ := generate_tree hT.2 hC o₁ σ σ₁ rs₁ (StoreInv.refl P σ) h₁
  obtain ⟨_, b, _⟩ := generate_tree hT.2 hC o₂ σ σ₂ rs₂ (StoreInv.refl P σ) h₂
  have key : ∀ k : Kind, x ∈ res₁.of k ↔ x ∈ res₂.of k :=
    fun k => (a f res₁ m₁ k x).trans (b f res₂ m₂ k x).symm
  exact ⟨key .get, key .set, key .del⟩

/-- the same for the reported spellings. -/
theorem C05_tree_order_independent_fulls (P : Prog) (hT : TreeLike P) (hC : CidArgs P) (σ : Store)
    (o₁ o₂ : List Key) (rs₁ rs₂ : List (Key × IrSets)) (σ₁ σ₂ : Store)
    (h₁ : generate P o₁ σ = .ok (rs₁, σ₁)) (h₂ : generate P o₂ σ = .ok (rs₂, σ₂))
    (f : Key) (res₁ res₂ : IrSets) (m₁ : (f, res₁) ∈ rs₁) (m₂ : (f, res₂) ∈ rs₂) (n : Str) :
    (n ∈ fulls res₁.gets ↔ n ∈ fulls res₂.gets) ∧ (n ∈ fulls res₁.sets ↔ n ∈ fulls res₂.sets) ∧
    (n ∈ fulls res₁.dels ↔ n ∈ fulls res₂.dels) := by
  have key := C05_tree_order_independent P hT hC σ o₁ o₂ rs₁ rs₂ σ₁ σ₂ h₁ h₂ f res₁ res₂ m₁ m₂
  unfold fulls
  simp only [List.mem_map]
  refine ⟨⟨?_, ?_⟩, ⟨?_, ?_⟩, ⟨?_, ?_⟩⟩
  · rintro ⟨x, hx, e⟩; exact ⟨x, (key x).1.mp hx, e⟩
  · rintro ⟨x, hx, e⟩; exact ⟨x, (key x).1.mpr hx, e⟩
  · rintro ⟨x, hx, e⟩; exact ⟨x, (key x).2.1.mp hx, e⟩
  · rintro ⟨x, hx, e⟩; exact ⟨x, (key x).2.1.mpr hx, e⟩
  · rintro ⟨x, hx, e⟩; exact ⟨x, (key x).2.2.mp hx, e⟩
  · rintro ⟨x, hx, e⟩; exact ⟨x, (key x).2.2.mpr hx, e⟩

/-- independence of unrelated code: generating ANY other roots first (the list `pre`) does not
change the set of names reported for `f`. -/
theorem C05_tree_unrelated_roots (P : Prog) (hT : TreeLike P) (hC : CidArgs P) (σ : Store)
    (pre : List Key) (f : Key) (rs : List (Key × IrSets)) (σ₁ σ₂ : Store) (res₁ res₂ : IrSets)
    (h₁ : generate P (pre ++ [f]) σ = .ok (rs, σ₁)) (m₁ : (f, res₁) ∈ rs)
    (h₂ : runRoot P σ f = .ok (res₂, σ₂)) (x : NameS) :
    (x ∈ res₁.gets ↔ x ∈ res₂.gets) ∧ (x ∈ res₁.sets ↔ x ∈ res₂.sets) ∧
    (x ∈ res₁.dels ↔ x ∈ res₂.dels) := by
  obtain ⟨_, a, _⟩ := generate_tree hT.2 hC _ σ σ₁ rs (StoreInv.refl P σ) h₁
  have b := (runRoot_tree hT.2 hC (StoreInv.refl P σ) h₂).1
  have key : ∀ k : Kind, x ∈ res₁.of k ↔ x ∈ res₂.of k :=
    fun k => (a f res₁ m₁ k x).trans (b k x).symm
  exact ⟨key .get, key .set, key .del⟩

/-- non-vacuity: the 4-function chain and the 5-function binary tree, generated in two orders
(callees first / callers first). -/
example : TreeLike Pchain ∧ CidArgs Pchain ∧
    getsOf Pchain σchain [0, 1, 2, 3] 0 = some [s "x.a0", s "x.b0", s "x.d0"] ∧
    getsOf Pchain σchain [3, 2, 1, 0] 0 = some [s "x.a0", s "x.b0", s "x.d0"] ∧
    TreeLike Ptree ∧ CidArgs Ptree ∧
    setsOf Ptree σtree [0, 1, 2, 3, 4] 0 = some [s "p.x"] ∧
    setsOf Ptree σtree [4, 3, 1, 2, 0] 0 = some [s "p.x"] :=
  ⟨Pchain_treeLike, Schain_hyps0.cid, by decide +kernel, by decide +kernel,
   Ptree_treeLike, Stree_hyps0.cid, by decide +kernel, by decide +kernel⟩

end Rattr.C05

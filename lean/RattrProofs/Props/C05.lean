/-
  C05 — results are deterministic and independent of definition order and unrelated code.

  The model takes every order the implementation depends on as an explicit input: the order of
  roots (definition order), the iteration order of each `calls` set (hash seed). Determinism for a
  fixed input is structural (the model is a function). Independence of those orders (`C05_full`)
  is false on the pinned code (`C05_cex_order`). Proved for all programs:
    * `C05_order_indep_without_resolvable`: with no resolvable call every root's result is the
      same under any order and any number of earlier generations;
    * `C05_sort_is_perm_invariant_on_distinct_keys`-style facts are part of C18.
    * depth-one fragment (every resolvable callee is a leaf): `C05_depthOne_order_independent`
      (+ `_mem`, `C05_depthOne_getsOf`): a root's result is the same under any two root orders.
    * TREE fragment, call graphs of arbitrary depth (`TreeLike`: from every root the resolvable
      call graph unfolds to a tree): `C05_tree_order_independent` (+ `_fulls`): the SET of names
      reported for a root is the same under any two root orders (and after any earlier
      generation: `C05_tree_unrelated_roots`).
    * FILE stage (S4), all function bodies: `C05_function_analysis_keeps_context` (analysing a
      function never changes the shared context — a local `del x` / `x = …` of a name spelt like a
      module-level name stays local), hence `C05_funcdef_effect_depends_on_context_only`,
      `C05_funcdefs_order_independent` (any permutation of the module-level function definitions
      gives the same IR under every key) and `C05_funcdefs_unrelated` (added definitions).
    * UNRELATED DEFINITION NAMED LIKE A PARAMETER (all function bodies): `C05_definition_named_like_parameter_is_unrelated`
      (two module scopes that differ only under names that are parameters give the function the same
      outcome, IR and diagnostics — every nested scope included, `del` of such a parameter excluded:
      `C05_cex_del_of_parameter`), `C05_parameter_of_any_kind_hides_module_symbol`,
      `C05_adding_or_removing_module_symbol_named_like_parameter`; every OTHER way of binding a local
      name does not hide the module-level symbol on the pinned code: `C05_cex_local_target_does_not_hide`,
      `C05_cex_unregistered_binder_does_not_hide`, `C05_cex_static_method_through_parameter`.
    * HISTORY (several analyses in one process; multi-file programs = roots ⊂ keys):
      `C05_cex_history_carried_import_ir` (IRs of a followed import surviving into the next analysis
      change its results), `C05_tree_history_independent` (+ `_ok`): in the tree fragment they do not.
    * RE-EXPORTED CALLEES (round 4; `Resolve.resolveImport`, the model of `resolve_import`, tied to the real
      `find_call_target_and_ir` by the op `c05_reexport`: three rounds of queries per project): the answer is a
      function of the module tables and the symbol — `tieA_resolver_has_no_process_memory` pins that the code has
      no other input (no mutable default, no extra parameter, no global) — and of the lookups along the chain of
      re-export links only: `C05_reexport_answer_depends_on_chain_only`, hence
      `C05_reexport_definition_order_independent` (any order of the definitions of the followed modules),
      `C05_reexport_unrelated_definition` (a definition inserted into a followed module under a name not on the
      chain), `C05_reexport_recursion_depth_independent` (a link resolved inside another resolution or on its own);
      `C05_cex_resolver_with_process_memory`: what a memory outliving the call would do (not the pinned code).
    * MODULE SEARCH (`Locator.locate`, op `c05_first_dir`): `tieA_search_path_is_a_sequence` (no hash-ordered
      container between `sys.path` and `locations[0]`), `C05_first_search_directory_decides`,
      `C05_later_search_directories_unrelated`, `C05_cex_search_directory_order_decides` (the ORDER of the
      directories is what the answer depends on: it must not come out of a set).
-/
import RattrProofs.Lemmas.Results
import RattrProofs.Lemmas.ResultsCex
import RattrProofs.Lemmas.ResultsDepthOne
import RattrProofs.Lemmas.ResultsTree
import RattrProofs.Lemmas.ResultsTreeCheck
import RattrProofs.Lemmas.FileOrder
import RattrProofs.Lemmas.VisitHide
import RattrProofs.Lemmas.C05Reexport
import RattrModel.Generated.C05

namespace Rattr.C05
open Rattr Rattr.Results Rattr.Cex

/-- result of root `f` (as a set of spellings per kind) does not depend on the order of roots. -/
def C05_full : Prop :=
  ∀ (P : Prog) (σ : Store) (o₁ o₂ : List Key), o₁.Perm o₂ → ∀ f, getsOf P σ o₁ f = getsOf P σ o₂ f

theorem C05_order_indep_without_resolvable (P : Prog) (hP : ∀ c, P.resolve c = none)
    (σ : Store) (o₁ o₂ : List Key) (f : Key) (h₁ : f ∈ o₁) (h₂ : f ∈ o₂) :
    getsOf P σ o₁ f = getsOf P σ o₂ f := by
  have key : ∀ o : List Key, f ∈ o → getsOf P σ o f = some (fulls (σ f).gets) := by
    intro o ho
    unfold getsOf
    rw [generate_no_resolve P hP]
    simp only
    have : (o.map (fun f => (f, σ f))).lookup f = some (σ f) := by
      induction o with
      | nil => cases ho
      | cons g r ih =>
        simp only [List.map_cons, List.lookup]
        by_cases hg : f = g
        · subst hg; simp
        · have : (f == g) = false := by simpa using hg
          simp only [this]
          exact ih (by rcases List.mem_cons.mp ho with h | h; exact absurd h hg; exact h)
    rw [this]; rfl
  rw [key o₁ h₁, key o₂ h₂]

/-- C03-dedupe program: defining `two` before `top` changes `top`'s results. -/
theorem C05_cex_order :
    getsOf Pd σd [0, 1, 2, 3] 0 = some [s "a", s "b", s "a.attr"] ∧
    getsOf Pd σd [2, 0, 1, 3] 0 = some [s "a", s "b", s "a.attr", s "b.attr"] := by decide +kernel

theorem C05_full_false : ¬ C05_full := by
  intro h
  have := h Pd σd [0, 1, 2, 3] [2, 0, 1, 3] (by decide) 0
  rw [C05_cex_order.1, C05_cex_order.2] at this
  revert this
  decide

/-! ### the depth-one fragment: results do not depend on the order of roots -/

/-- In a depth-one program the result of a root is the same — as lists, hence as sets — under any
two orders of roots (any lists of roots: no `Nodup`, no `Perm` needed) and after any earlier
generation: it only reads the root's own entry (no other root writes it, since a caller is never
a callee) and entries of leaves (never written). -/
theorem C05_depthOne_order_independent (P : Prog) (hP : DepthOne P) (σ : Store)
    (o₁ o₂ : List Key) (rs₁ rs₂ : List (Key × IrSets)) (σ₁ σ₂ : Store)
    (h₁ : generate P o₁ σ = .ok (rs₁, σ₁)) (h₂ : generate P o₂ σ = .ok (rs₂, σ₂))
    (f : Key) (res₁ res₂ : IrSets) (m₁ : (f, res₁) ∈ rs₁) (m₂ : (f, res₂) ∈ rs₂) :
    res₁ = res₂ := by
  obtain ⟨_, a, _⟩ := generate_depthOne hP o₁ σ σ₁ rs₁ (Inv.refl P σ) h₁
  obtain ⟨_, b, _⟩ := generate_depthOne hP o₂ σ σ₂ rs₂ (Inv.refl P σ) h₂
  have a1 := a (f, res₁) m₁
  have b1 := b (f, res₂) m₂
  simp only at a1 b1
  rw [a1] at b1
  injection b1

/-- membership form of `C05_depthOne_order_independent`. -/
theorem C05_depthOne_order_independent_mem (P : Prog) (hP : DepthOne P) (σ : Store)
    (o₁ o₂ : List Key) (rs₁ rs₂ : List (Key × IrSets)) (σ₁ σ₂ : Store)
    (h₁ : generate P o₁ σ = .ok (rs₁, σ₁)) (h₂ : generate P o₂ σ = .ok (rs₂, σ₂))
    (f : Key) (res₁ res₂ : IrSets) (m₁ : (f, res₁) ∈ rs₁) (m₂ : (f, res₂) ∈ rs₂) (x : NameS) :
    (x ∈ res₁.gets ↔ x ∈ res₂.gets) ∧ (x ∈ res₁.sets ↔ x ∈ res₂.sets) ∧
    (x ∈ res₁.dels ↔ x ∈ res₂.dels) := by
  rw [C05_depthOne_order_independent P hP σ o₁ o₂ rs₁ rs₂ σ₁ σ₂ h₁ h₂ f res₁ res₂ m₁ m₂]
  exact ⟨Iff.rfl, Iff.rfl, Iff.rfl⟩

/-- `C05_full` restricted to the fragment, in the form of the full statement: for a depth-one
program whose callees' names start with their basename, `getsOf` of a root is the same under any
two orders containing it. -/
theorem C05_depthOne_getsOf (P : Prog) (hP : DepthOne P) (σ : Store) (hσ : CalleeWB P σ)
    (o₁ o₂ : List Key) (f : Key) (hf₁ : f ∈ o₁) (hf₂ : f ∈ o₂) :
    getsOf P σ o₁ f = getsOf P σ o₂ f := by
  have key : ∀ o : List Key, f ∈ o →
      getsOf P σ o f = (rootResult P σ f).map (fun ir => fulls ir.gets) := by
    intro o ho
    obtain ⟨rs, σ', hg⟩ := generate_depthOne_ok hP o σ (Inv.refl P σ)
      (fun g _ => rootResult_isSome hσ g)
    obtain ⟨hfst, hres, _⟩ := generate_depthOne hP o σ σ' rs (Inv.refl P σ) hg
    unfold getsOf
    rw [hg]
    simp only
    rw [lookup_results rs f (by rw [hfst]; exact ho) hres]
  rw [key o₁ hf₁, key o₂ hf₂]

/-- non-vacuity: two callers sharing a leaf, generated in two different orders. -/
example : DepthOne P1 ∧
    getsOf P1 σ1 [0, 1, 2] 1 = some [s "b.y", s "b.y.attr"] ∧
    getsOf P1 σ1 [2, 1, 0] 1 = some [s "b.y", s "b.y.attr"] :=
  ⟨P1_depthOne, by decide +kernel, by decide +kernel⟩

/-! ### the tree fragment (arbitrary depth): membership does not depend on the order of roots -/

/-- In the tree fragment (`TreeLike`; `CidArgs` holds of all real inputs) the SET of names reported
for a root — gets, sets and dels — is the same under any two orders of roots (any lists of roots:
no `Nodup`, no `Perm` needed): whatever the earlier roots wrote into the shared store, the result
is the closure `Clo` of the root over the ORIGINAL store `σ`. (As lists the results may differ in
order; on the pinned code outside the fragment even the sets differ: `C05_cex_order`.) -/
theorem C05_tree_order_independent (P : Prog) (hT : TreeLike P) (hC : CidArgs P) (σ : Store)
    (o₁ o₂ : List Key) (rs₁ rs₂ : List (Key × IrSets)) (σ₁ σ₂ : Store)
    (h₁ : generate P o₁ σ = .ok (rs₁, σ₁)) (h₂ : generate P o₂ σ = .ok (rs₂, σ₂))
    (f : Key) (res₁ res₂ : IrSets) (m₁ : (f, res₁) ∈ rs₁) (m₂ : (f, res₂) ∈ rs₂) (x : NameS) :
    (x ∈ res₁.gets ↔ x ∈ res₂.gets) ∧ (x ∈ res₁.sets ↔ x ∈ res₂.sets) ∧
    (x ∈ res₁.dels ↔ x ∈ res₂.dels) := by
  obtain ⟨_, a, _⟩ := generate_tree hT.2 hC o₁ σ σ₁ rs₁ (StoreInv.refl P σ) h₁
  obtain ⟨_, b, _⟩ := generate_tree hT.2 hC o₂ σ σ₂ rs₂ (StoreInv.refl P σ) h₂
  have key : ∀ k : Kind, x ∈ res₁.of k ↔ x ∈ res₂.of k :=
    fun k => (a f res₁ m₁ k x).trans (b f res₂ m₂ k x).symm
  exact ⟨key .get, key .set, key .del⟩

/-- the same for the reported spellings. -/
theorem C05_tree_order_independent_fulls (P : Prog) (hT : TreeLike P) (hC : CidArgs P) (σ : Store)
    (o₁ o₂ : List Key) (rs₁ rs₂ : List (Key × IrSets)) (σ₁ σ₂ : Store)
    (h₁ : generate P o₁ σ = .ok (rs₁, σ₁)) (h₂ : generate P o₂ σ = .ok (rs₂, σ₂))
    (f : Key) (res₁ res₂ : IrSets) (m₁ : (f, res₁) ∈ rs₁) (m₂ : (f, res₂) ∈ rs₂) (n : Str) :
    (n ∈ fulls res₁.gets ↔ n ∈ fulls res₂.gets) ∧ (n ∈ fulls res₁.sets ↔ n ∈ fulls res₂.sets) ∧
    (n ∈ fulls res₁.dels ↔ n ∈ fulls res₂.dels) := by
  have key := C05_tree_order_independent P hT hC σ o₁ o₂ rs₁ rs₂ σ₁ σ₂ h₁ h₂ f res₁ res₂ m₁ m₂
  unfold fulls
  simp only [List.mem_map]
  refine ⟨⟨?_, ?_⟩, ⟨?_, ?_⟩, ⟨?_, ?_⟩⟩
  · rintro ⟨x, hx, e⟩; exact ⟨x, (key x).1.mp hx, e⟩
  · rintro ⟨x, hx, e⟩; exact ⟨x, (key x).1.mpr hx, e⟩
  · rintro ⟨x, hx, e⟩; exact ⟨x, (key x).2.1.mp hx, e⟩
  · rintro ⟨x, hx, e⟩; exact ⟨x, (key x).2.1.mpr hx, e⟩
  · rintro ⟨x, hx, e⟩; exact ⟨x, (key x).2.2.mp hx, e⟩
  · rintro ⟨x, hx, e⟩; exact ⟨x, (key x).2.2.mpr hx, e⟩

/-- independence of unrelated code: generating ANY other roots first (the list `pre`) does not
change the set of names reported for `f`. -/
theorem C05_tree_unrelated_roots (P : Prog) (hT : TreeLike P) (hC : CidArgs P) (σ : Store)
    (pre : List Key) (f : Key) (rs : List (Key × IrSets)) (σ₁ σ₂ : Store) (res₁ res₂ : IrSets)
    (h₁ : generate P (pre ++ [f]) σ = .ok (rs, σ₁)) (m₁ : (f, res₁) ∈ rs)
    (h₂ : runRoot P σ f = .ok (res₂, σ₂)) (x : NameS) :
    (x ∈ res₁.gets ↔ x ∈ res₂.gets) ∧ (x ∈ res₁.sets ↔ x ∈ res₂.sets) ∧
    (x ∈ res₁.dels ↔ x ∈ res₂.dels) := by
  obtain ⟨_, a, _⟩ := generate_tree hT.2 hC _ σ σ₁ rs (StoreInv.refl P σ) h₁
  have b := (runRoot_tree hT.2 hC (StoreInv.refl P σ) h₂).1
  have key : ∀ k : Kind, x ∈ res₁.of k ↔ x ∈ res₂.of k :=
    fun k => (a f res₁ m₁ k x).trans (b k x).symm
  exact ⟨key .get, key .set, key .del⟩

/-- non-vacuity: the 4-function chain and the 5-function binary tree, generated in two orders
(callees first / callers first). -/
example : TreeLike Pchain ∧ CidArgs Pchain ∧
    getsOf Pchain σchain [0, 1, 2, 3] 0 = some [s "x.a0", s "x.b0", s "x.d0"] ∧
    getsOf Pchain σchain [3, 2, 1, 0] 0 = some [s "x.a0", s "x.b0", s "x.d0"] ∧
    TreeLike Ptree ∧ CidArgs Ptree ∧
    setsOf Ptree σtree [0, 1, 2, 3, 4] 0 = some [s "p.x"] ∧
    setsOf Ptree σtree [4, 3, 1, 2, 0] 0 = some [s "p.x"] :=
  ⟨Pchain_treeLike, Schain_hyps0.cid, by decide +kernel, by decide +kernel,
   Ptree_treeLike, Stree_hyps0.cid, by decide +kernel, by decide +kernel⟩

/-! ### definition order at the FILE stage (S4): the IR of a function does not depend on which
functions were analysed before it

All functions of a file are analysed against ONE shared context object, in definition order. The
model threads that object through the walk (`FileA.FState.ctx`), so "the analysis of one function
cannot change what a later one sees" is a theorem about the model, not a modelling choice: it holds
because `Context.add` / `Context.remove` only ever touch the innermost scope and a function body is
analysed in a scope of its own (`FnA.analyse_ctx`, Lemmas/VisitFrame.lean — a `del x` of a name the
function does not declare itself must NOT fall through to the module-level `x`). -/

/-- `FunctionAnalyser(fn, context).analyse()` hands the context back unchanged, whatever the body
binds or unbinds (`x = …`, `del x`, `for x in`, `with … as x`, walrus, nested def, parameters — of
names that are also module-level names or not). -/
theorem C05_function_analysis_keeps_context (env : FnA.Env) (mn : Str) (root : Context) (ps : Params)
    (body : List Node) (s' : St) (h : FnA.analyse env mn root ps body = .ok s') : s'.ctx = root :=
  FnA.analyse_ctx env mn root ps body s' h

/-- What one module-level `def` does is a function of the CONTEXT alone: if it ends normally from
some state, then from every state with the same context it ends normally, leaves the context as it
was, performs the same single update `file_ir[key] = ir` (or none) and appends the same diagnostics. -/
theorem C05_funcdef_effect_depends_on_context_only (env : FnA.Env) (mn : Str) (f : Facts) (name : Str)
    (ps : Params) (body : List Node) (decos : List Ann.Deco) (s s' : FileA.FState)
    (h : FileA.visitFuncDef env mn f name ps body decos s = .ok s') :
    ∃ u ds, ∀ s₂ : FileA.FState, s₂.ctx = s.ctx →
      FileA.visitFuncDef env mn f name ps body decos s₂ =
        .ok { ctx := s.ctx, ir := FileA.applyU u s₂.ir, diags := s₂.diags ++ ds } :=
  FileA.visitFuncDef_uniform env mn f name ps body decos s s' h

/-- ORDER INDEPENDENCE of the file walk over function definitions: any two orders (same members)
of the module-level function definitions, walked from the same state, end with the same context and
the same IR under every key of the FileIr. `Unambiguous`: two definitions that store the same key
store the same IR (true when the defined names are distinct). -/
theorem C05_funcdefs_order_independent (env : FnA.Env) (mn : Str) (f : Facts) (defs₁ defs₂ : List Top)
    (hperm : defs₁.Perm defs₂) (hall : ∀ t ∈ defs₁, FileA.isFuncDef t = true)
    (s a b : FileA.FState) (hU : FileA.Unambiguous env mn f s.ctx defs₁)
    (h₁ : FileA.visitTops env mn f defs₁ s = .ok a) (h₂ : FileA.visitTops env mn f defs₂ s = .ok b) :
    a.ctx = b.ctx ∧ ∀ key, Dict.get? a.ir key = Dict.get? b.ir key :=
  FileA.funcDefs_order_independent env mn f defs₁ defs₂ (fun _ => hperm.mem_iff) hall s a b hU h₁ h₂

/-- UNRELATED CODE at the file stage: function definitions added anywhere (before, between, after)
do not change the IR stored under a key none of the added definitions stores. -/
theorem C05_funcdefs_unrelated (env : FnA.Env) (mn : Str) (f : Facts) (defs extra : List Top)
    (hsub : ∀ t ∈ defs, t ∈ extra) (hall : ∀ t ∈ extra, FileA.isFuncDef t = true)
    (s a b : FileA.FState) (hU : FileA.Unambiguous env mn f s.ctx extra)
    (h₁ : FileA.visitTops env mn f defs s = .ok a) (h₂ : FileA.visitTops env mn f extra s = .ok b)
    (key : Sym) (hkey : ∀ t ∈ extra, t ∉ defs → ∀ ir, ¬ FileA.Stores env mn f s.ctx t key ir) :
    Dict.get? a.ir key = Dict.get? b.ir key :=
  FileA.funcDefs_unrelated env mn f defs extra hsub hall s a b hU h₁ h₂ key hkey

/-! #### a concrete walk: a local `del` of a name spelt like a module-level function

`def load(source): return source.payload` · `def refresh(cache): load = cache.pending;
cache.total = load.size; del load` · `def fetch(request): return load(request.body)` -/

def envT : FnA.Env := ⟨⟨[], []⟩, []⟩
def prm (l : List String) : Params := ⟨[], l.map s, none, [], none⟩
def fnSym (n : String) (ps : List String) : Sym :=
  { kind := .func, name := s n, callable := true, iface := some (prm ps).iface }
def loadSym : Sym := fnSym "load" ["source"]
def refreshSym : Sym := fnSym "refresh" ["cache"]
def fetchSym : Sym := fnSym "fetch" ["request"]
def rootT : Context := [[(s "load", loadSym), (s "refresh", refreshSym), (s "fetch", fetchSym)]]
def nmL (x : String) : Node := .name (s x) .load
def dLoad : Top := .funcDef (s "load") (prm ["source"]) [.ret [.attr (nmL "source") (s "payload") .load]] [] false
def dRefresh : Top := .funcDef (s "refresh") (prm ["cache"])
  [ .assign [.name (s "load") .store] (.attr (nmL "cache") (s "pending") .load),
    .assign [.attr (nmL "cache") (s "total") .store] (.attr (nmL "load") (s "size") .load),
    .delete [.name (s "load") .del] ] [] false
def dFetch : Top := .funcDef (s "fetch") (prm ["request"])
  [.ret [.call (nmL "load") [.attr (nmL "request") (s "body") .load] [] []]] [] false

/-- the FileIr entry of `key` and the final context after walking `defs` from the root context -/
def walkT (defs : List Top) (key : Sym) : Option (Option IR × Context) :=
  match FileA.visitTops envT [] {} defs { ctx := rootT } with
  | .ok st => some (Dict.get? st.ir key, st.ctx)
  | _ => none

/-- TEST: in every one of the six definition orders `fetch`'s IR is the same, its call to `load` is
resolved to the module-level function, and the root context comes back unchanged. -/
theorem C05_test_local_del_of_module_level_name :
    (walkT [dLoad, dRefresh, dFetch] fetchSym).isSome = true ∧
    walkT [dLoad, dFetch, dRefresh] fetchSym = walkT [dLoad, dRefresh, dFetch] fetchSym ∧
    walkT [dRefresh, dLoad, dFetch] fetchSym = walkT [dLoad, dRefresh, dFetch] fetchSym ∧
    walkT [dRefresh, dFetch, dLoad] fetchSym = walkT [dLoad, dRefresh, dFetch] fetchSym ∧
    walkT [dFetch, dLoad, dRefresh] fetchSym = walkT [dLoad, dRefresh, dFetch] fetchSym ∧
    walkT [dFetch, dRefresh, dLoad] fetchSym = walkT [dLoad, dRefresh, dFetch] fetchSym ∧
    ((walkT [dRefresh, dFetch, dLoad] fetchSym).map fun p => (p.1.map fun ir => ir.calls.map (·.target), p.2)) =
      some (some [some loadSym], rootT) := by
  refine ⟨?_, ?_, ?_, ?_, ?_, ?_, ?_⟩ <;> decide +kernel

/-- non-vacuity of `C05_funcdefs_order_independent` / `C05_funcdefs_unrelated`: the three definitions
are function definitions, unambiguous in the root context (they store three different keys), and the
walk ends normally in both orders; `refresh` — which `fetch` does not call — stores another key. -/
example : (∀ t ∈ [dLoad, dRefresh, dFetch], FileA.isFuncDef t = true) ∧
    FileA.Unambiguous envT [] {} rootT [dLoad, dRefresh, dFetch] ∧
    (walkT [dLoad, dRefresh, dFetch] fetchSym).isSome = true ∧
    (walkT [dFetch, dRefresh, dLoad] fetchSym).isSome = true ∧
    FileA.storedKey envT [] {} rootT dRefresh = some refreshSym ∧
    FileA.storedKey envT [] {} rootT dFetch = some fetchSym :=
  ⟨by intro t ht; simp at ht; rcases ht with rfl | rfl | rfl <;> rfl,
   FileA.unambiguous_of_pairwise envT [] {} rootT _ (by decide +kernel),
   by decide +kernel, by decide +kernel, by decide +kernel, by decide +kernel⟩

/-! ### analyses repeated in one process (“whether or not results were already generated once”)

`generate_results_from_ir` mutates the IRs it is given (C14). The code builds fresh IRs for every
analysis, so every analysis starts from the own store `σ`: that is a function of the sources, and
determinism is structural. What would happen if IRs survived from one analysis to the next — e.g.
the IR of a followed import memoised per file — is `carry`: the entries of the surviving keys as
the earlier generation left them. Outside the tree fragment that changes results
(`C05_cex_history_carried_import_ir`); inside it the SET of names reported for a root is the same
whatever earlier generations left in whichever entries (`C05_tree_history_independent`). -/

/-- the store the next analysis starts from when the entries of the keys in `kept` survive the
earlier analysis (final store `σ₁`) and every other function is analysed afresh (own store `σ₀`). -/
def carry (kept : Key → Bool) (σ₀ σ₁ : Store) : Store := fun k => if kept k then σ₁ k else σ₀ k

/-- the final store of a generation (the given store on failure). -/
def storeOf (P : Prog) (σ : Store) (order : List Key) : Store :=
  match generate P order σ with
  | .ok (_, σ') => σ'
  | _ => σ

/-- target: `both(first, second): plumbing.describe(first); plumbing.summarise(second)` ·
`only(third): plumbing.summarise(third)`; followed import `plumbing`: `describe(item): read_tag(item)` ·
`summarise(item): read_tag(item)` · `read_tag(item): item.tag`. Keys 0 both, 1 only (the roots: the
target's functions), 2 describe, 3 summarise, 4 read_tag; the two `read_tag(item)` records are EQUAL
symbols (cid 3). -/
def Ph : Prog := {
  fns := [ ⟨iface ["first", "second"], [call 0 "plumbing.describe" ["first"], call 1 "plumbing.summarise" ["second"]]⟩,
           ⟨iface ["third"], [call 2 "plumbing.summarise" ["third"]]⟩,
           ⟨iface ["item"], [call 3 "read_tag" ["item"]]⟩, ⟨iface ["item"], [call 3 "read_tag" ["item"]]⟩,
           ⟨iface ["item"], []⟩ ],
  resolve := fun c => match c with | 0 => some 2 | 1 => some 3 | 2 => some 3 | 3 => some 4 | _ => none }
def σh : Store := fun k => match k with
  | 0 => ⟨[nm "first" "first", nm "second" "second"], [], []⟩
  | 1 => ⟨[nm "third" "third"], [], []⟩
  | 2 => ⟨[nm "item" "item"], [], []⟩
  | 3 => ⟨[nm "item" "item"], [], []⟩
  | 4 => ⟨[nm "item.tag" "item"], [], []⟩
  | _ => IrSets.empty

/-- the functions of the followed import -/
def importKeys : Key → Bool := fun k => decide (2 ≤ k)

/-- A multi-file program (roots = the target's functions only): analysed afresh, `both` reports
`first.tag` only (the second `read_tag(item)` is cut by `seen`); analysed again with the IRs of the
import's functions carried over from the first analysis, `both` also reports `second.tag`. -/
theorem C05_cex_history_carried_import_ir :
    getsOf Ph σh [0, 1] 0 = some [s "first", s "second", s "first.tag"] ∧
    getsOf Ph (carry importKeys σh (storeOf Ph σh [0, 1])) [0, 1] 0 =
      some [s "first", s "second", s "first.tag", s "second.tag"] := by decide +kernel

/-- … and nothing else than the carried entries is needed for that: carrying NO entry is the fresh
analysis (what the code does: every analysis builds its IRs anew). -/
theorem C05_carry_nothing (σ₀ σ₁ : Store) : carry (fun _ => false) σ₀ σ₁ = σ₀ := by
  funext k; simp [carry]

theorem StoreInv.carry {P : Prog} {own σ₁ : Store} (kept : Key → Bool) (h : StoreInv P own σ₁) :
    StoreInv P own (carry kept own σ₁) := by
  refine ⟨?_, ?_⟩
  · intro g k x hx
    unfold C05.carry
    split
    · exact h.1 g k x hx
    · exact hx
  · intro g k x hx
    unfold C05.carry at hx
    split at hx
    · exact h.2 g k x hx
    · exact Clo.own hx

/-- HISTORY INDEPENDENCE in the tree fragment: let any sequence of roots `o₀` be generated first
(an earlier analysis in the same process) and let the entries of ANY set of keys survive into the
next analysis; then the set of names that analysis reports for a root is the set the fresh analysis
reports. -/
theorem C05_tree_history_independent (P : Prog) (hT : TreeLike P) (hC : CidArgs P) (σ : Store)
    (o₀ o : List Key) (kept : Key → Bool) (rs₀ rs rs' : List (Key × IrSets)) (σ₀ σ₁ σ₂ : Store)
    (h₀ : generate P o₀ σ = .ok (rs₀, σ₀))
    (h₁ : generate P o (carry kept σ σ₀) = .ok (rs, σ₁))
    (h₂ : generate P o σ = .ok (rs', σ₂))
    (f : Key) (res res' : IrSets) (m : (f, res) ∈ rs) (m' : (f, res') ∈ rs') (x : NameS) :
    (x ∈ res.gets ↔ x ∈ res'.gets) ∧ (x ∈ res.sets ↔ x ∈ res'.sets) ∧
    (x ∈ res.dels ↔ x ∈ res'.dels) := by
  obtain ⟨_, _, inv₀, _⟩ := generate_tree hT.2 hC o₀ σ σ₀ rs₀ (StoreInv.refl P σ) h₀
  obtain ⟨_, a, _⟩ := generate_tree hT.2 hC o _ σ₁ rs (StoreInv.carry kept inv₀) h₁
  obtain ⟨_, b, _⟩ := generate_tree hT.2 hC o σ σ₂ rs' (StoreInv.refl P σ) h₂
  have key : ∀ k : Kind, x ∈ res.of k ↔ x ∈ res'.of k :=
    fun k => (a f res m k x).trans (b f res' m' k x).symm
  exact ⟨key .get, key .set, key .del⟩

/-- … and that next analysis does succeed (under the `NoFail` hypothesis of the C03 tree theorem). -/
theorem C05_tree_history_ok (P : Prog) (hT : TreeLike P) (hC : CidArgs P) (σ : Store) (hN : NoFail P σ)
    (o₀ o : List Key) (kept : Key → Bool) (rs₀ : List (Key × IrSets)) (σ₀ : Store)
    (h₀ : generate P o₀ σ = .ok (rs₀, σ₀)) :
    ∃ rs σ₁, generate P o (carry kept σ σ₀) = .ok (rs, σ₁) := by
  obtain ⟨_, _, inv₀, _⟩ := generate_tree hT.2 hC o₀ σ σ₀ rs₀ (StoreInv.refl P σ) h₀
  exact generate_tree_ok hT.2 hC hN o _ (StoreInv.carry kept inv₀)

/-- non-vacuity: the 4-function chain with roots {0} and the entries of keys 1-3 ("the import")
carried over from an earlier generation of all four: same result as afresh. -/
example : TreeLike Pchain ∧ CidArgs Pchain ∧
    getsOf Pchain (carry (fun k => decide (1 ≤ k)) σchain (storeOf Pchain σchain [3, 2, 1, 0])) [0] 0 =
      getsOf Pchain σchain [0] 0 :=
  ⟨Pchain_treeLike, Schain_hyps0.cid, by decide +kernel⟩

/-! ### unrelated definitions whose NAME equals a name the function binds itself

"Adding or removing functions it does not transitively call": a module-level definition named like a
PARAMETER of a function (of any kind: positional-only, positional-or-keyword, `*args`, keyword-only,
`**kwargs`) is such unrelated code — the parameter is what the name means everywhere in the function.
The module-level definitions reach the function analyser as the root context, so "adding / removing /
replacing that definition" is "another root context that agrees on every other name". -/

/-- UNRELATED CODE, all function bodies: two root contexts that agree on every name which is not a
parameter of the function give `FunctionAnalyser(fn, root).analyse()` the same outcome, the same IR
(gets, sets, dels, calls WITH their resolved targets — what result generation inlines from) and the
same diagnostics; in the body and in every nested scope of it (lambdas, comprehensions, nested defs,
`sorted` keys, `defaultdict` factories). Hypothesis: the body never `del`s a parameter
(`C05_cex_del_of_parameter` shows it is needed). -/
theorem C05_definition_named_like_parameter_is_unrelated (env : FnA.Env) (mn : Str) (root₁ root₂ : Context)
    (ps : Params) (body : List Node)
    (hagree : ∀ x, x ∉ ps.all → Context.get? root₁ x = Context.get? root₂ x)
    (hnd : ∀ nd ∈ body, FnA.NoDel ps.all nd) :
    FnA.Res.noCtx (FnA.analyse env mn root₂ ps body) = FnA.Res.noCtx (FnA.analyse env mn root₁ ps body) :=
  FnA.analyse_hidden env mn root₁ root₂ ps body ps.all (fun _ h => h) hagree hnd

/-- … for ONE parameter `x`, of whatever kind — positional-only included. -/
theorem C05_parameter_of_any_kind_hides_module_symbol (env : FnA.Env) (mn : Str) (root₁ root₂ : Context)
    (ps : Params) (body : List Node) (x : Str)
    (hx : x ∈ ps.posonly ∨ x ∈ ps.args ∨ ps.vararg = some x ∨ x ∈ ps.kwonly ∨ ps.kwarg = some x)
    (hagree : ∀ y, y ≠ x → Context.get? root₁ y = Context.get? root₂ y)
    (hnd : ∀ nd ∈ body, FnA.NoDel [x] nd) :
    FnA.Res.noCtx (FnA.analyse env mn root₂ ps body) = FnA.Res.noCtx (FnA.analyse env mn root₁ ps body) :=
  FnA.analyse_hidden env mn root₁ root₂ ps body [x]
    (fun h hh => by
      have : h = x := by simpa using hh
      subst this; exact (FnA.mem_params_all ps h).mpr hx)
    (fun y hy => hagree y (by simpa using hy)) hnd

/-- … in the form "a definition is added, replaced or removed": the module scope `sc` with the
binding of a parameter's name set to ANY symbol (a function, a class, an import, a variable), or
erased, is the same to the function as `sc` itself. -/
theorem C05_adding_or_removing_module_symbol_named_like_parameter (env : FnA.Env) (mn : Str) (sc : Scope)
    (ps : Params) (body : List Node) (x : Str) (sym : Sym) (hx : x ∈ ps.all)
    (hnd : ∀ nd ∈ body, FnA.NoDel [x] nd) :
    FnA.Res.noCtx (FnA.analyse env mn [Dict.set sc x sym] ps body) = FnA.Res.noCtx (FnA.analyse env mn [sc] ps body) ∧
    FnA.Res.noCtx (FnA.analyse env mn [Context.eraseKey sc x] ps body) = FnA.Res.noCtx (FnA.analyse env mn [sc] ps body) := by
  refine ⟨?_, ?_⟩
  · refine FnA.analyse_hidden env mn [sc] [Dict.set sc x sym] ps body [x] ?_ ?_ hnd
    · intro h hh
      have : h = x := by simpa using hh
      subst this; exact hx
    · intro y hy
      have hne : x ≠ y := fun e => hy (by simp [e])
      simp only [Context.get?, Dict.get?_set_other sc x y sym hne]
  · refine FnA.analyse_hidden env mn [sc] [Context.eraseKey sc x] ps body [x] ?_ ?_ hnd
    · intro h hh
      have : h = x := by simpa using hh
      subst this; exact hx
    · intro y hy
      have hne : x ≠ y := fun e => hy (by simp [e])
      simp only [Context.get?, Context.get?_eraseKey_other sc x y hne]

/-! #### concrete walks (kernel evaluation of `FnA.analyse`) -/

def cbSym : Sym := fnSym "cb" ["r"]
/-- a module without / with a module-level `def cb(r)` -/
def rootNo : Context := [[]]
def rootCb : Context := [[(s "cb", cbSym)]]
/-- `cb(v)` -/
def callCb : Node := .call (nmL "cb") [nmL "v"] [] []
def stmt (e : Node) : Node := .other (s "Expr") [e]
/-- the recorded calls with their resolved targets (what result generation follows) -/
def targetsOf (r : Res) : List (Str × Option Sym) :=
  match r with
  | .ok st => st.calls.map fun c => (c.name, c.target)
  | _ => [(s "<not ok>", none)]
def walkFn (root : Context) (ps : Params) (body : List Node) : List (Str × Option Sym) :=
  targetsOf (FnA.analyse envT [] root ps body)
/-- the parameter's own symbol -/
def localCb : Option Sym := some (Context.nameSym (s "cb"))

/-- TEST: `def host(cb, /, v): return cb(v)`, `def host(v, *, cb)`, `def host(v, *cb)`,
`def host(v, **cb)` and `lambda cb, /: cb(v)` inside `def host(v)`: with or without a module-level
`def cb(r)` the call goes to the parameter. -/
theorem C05_test_parameter_kinds_hide_module_function :
    walkFn rootCb ⟨[s "cb"], [s "v"], none, [], none⟩ [.ret [callCb]] = [(s "cb", localCb)] ∧
    walkFn rootNo ⟨[s "cb"], [s "v"], none, [], none⟩ [.ret [callCb]] = [(s "cb", localCb)] ∧
    walkFn rootCb ⟨[], [s "v"], none, [s "cb"], none⟩ [.ret [callCb]] = [(s "cb", localCb)] ∧
    walkFn rootCb ⟨[], [s "v"], some (s "cb"), [], none⟩ [.ret [callCb]] = [(s "cb", localCb)] ∧
    walkFn rootCb ⟨[], [s "v"], none, [], some (s "cb")⟩ [.ret [callCb]] = [(s "cb", localCb)] ∧
    walkFn rootCb (prm ["v"]) [.ret [.lam ⟨[s "cb"], [], none, [], none⟩ callCb]] = [(s "cb", localCb)] := by
  refine ⟨?_, ?_, ?_, ?_, ?_, ?_⟩ <;> decide +kernel

/-- non-vacuity of `C05_definition_named_like_parameter_is_unrelated`: `def host(cb, /, v):
w = cb; del w; return [cb(x) for x in v]` never deletes a parameter, and the two module scopes
(without / with `def cb(r)`) agree on every name that is not a parameter. -/
example : (∀ nd ∈ [Node.assign [.name (s "w") .store] (nmL "cb"), .delete [.name (s "w") .del],
                   .ret [.comp (s "ListComp") [.call (nmL "cb") [nmL "x"] [] []] [.gen (.name (s "x") .store) (nmL "v") []]]],
      FnA.NoDel (⟨[s "cb"], [s "v"], none, [], none⟩ : Params).all nd) ∧
    (∀ x, x ∉ (⟨[s "cb"], [s "v"], none, [], none⟩ : Params).all → Context.get? rootNo x = Context.get? rootCb x) := by
  refine ⟨?_, ?_⟩
  · intro nd h
    simp only [List.mem_cons, List.not_mem_nil, or_false] at h
    rcases h with rfl | rfl | rfl <;> exact FnA.NoDel.of_noDelB 8 (by decide +kernel)
  · intro x hx
    have hne : ¬ s "cb" = x := fun e => hx (by subst e; decide)
    simp [rootNo, rootCb, Context.get?, Dict.get?, hne]

/-- the hypothesis "never `del`s a parameter" is needed: `def host(cb, v): del cb; cb(v)` — after the
`del` the name falls through to the module scope, so the module-level `def cb(r)` becomes the target. -/
theorem C05_cex_del_of_parameter :
    walkFn rootNo (prm ["cb", "v"]) [.delete [.name (s "cb") .del], stmt callCb] = [(s "cb", none)] ∧
    walkFn rootCb (prm ["cb", "v"]) [.delete [.name (s "cb") .del], stmt callCb] = [(s "cb", some cbSym)] := by
  refine ⟨?_, ?_⟩ <;> decide +kernel

/-- DEFECT CLASS (plain `Context.add` never re-binds a name visible outside): a `for` target, a `with`
target, a local assignment, a walrus, a comprehension target and a nested `def` of the name `cb` —
alone, the call `cb(v)` goes to the local name; with an unrelated module-level `def cb(r)` it goes to
THAT function (and is inlined from it), although Python never calls it. -/
theorem C05_cex_local_target_does_not_hide :
    -- for cb in fs: cb(v)
    walkFn rootNo (prm ["v", "fs"]) [.forLoop (.name (s "cb") .store) (nmL "fs") [stmt callCb] []] = [(s "cb", localCb)] ∧
    walkFn rootCb (prm ["v", "fs"]) [.forLoop (.name (s "cb") .store) (nmL "fs") [stmt callCb] []] = [(s "cb", some cbSym)] ∧
    -- with fs as cb: cb(v)
    walkFn rootNo (prm ["v", "fs"]) [.withStmt [.withitem (nmL "fs") [.name (s "cb") .store]] [stmt callCb]] = [(s "cb", localCb)] ∧
    walkFn rootCb (prm ["v", "fs"]) [.withStmt [.withitem (nmL "fs") [.name (s "cb") .store]] [stmt callCb]] = [(s "cb", some cbSym)] ∧
    -- cb = fs.pick; return cb(v)
    walkFn rootNo (prm ["v", "fs"]) [.assign [.name (s "cb") .store] (.attr (nmL "fs") (s "pick") .load), .ret [callCb]] = [(s "cb", localCb)] ∧
    walkFn rootCb (prm ["v", "fs"]) [.assign [.name (s "cb") .store] (.attr (nmL "fs") (s "pick") .load), .ret [callCb]] = [(s "cb", some cbSym)] ∧
    -- (cb := fs.pick); cb(v)
    walkFn rootNo (prm ["v", "fs"]) [stmt (.walrus (.name (s "cb") .store) (.attr (nmL "fs") (s "pick") .load)), stmt callCb] = [(s "cb", localCb)] ∧
    walkFn rootCb (prm ["v", "fs"]) [stmt (.walrus (.name (s "cb") .store) (.attr (nmL "fs") (s "pick") .load)), stmt callCb] = [(s "cb", some cbSym)] ∧
    -- [cb(v) for cb in fs]
    walkFn rootNo (prm ["v", "fs"]) [.ret [.comp (s "ListComp") [callCb] [.gen (.name (s "cb") .store) (nmL "fs") []]]] = [(s "cb", localCb)] ∧
    walkFn rootCb (prm ["v", "fs"]) [.ret [.comp (s "ListComp") [callCb] [.gen (.name (s "cb") .store) (nmL "fs") []]]] = [(s "cb", some cbSym)] ∧
    -- def cb(z): z.local_only   /   return cb(v)      (the nested def is a Func of its own, never a callee of the file)
    walkFn rootNo (prm ["v"]) [.funcDef (s "cb") (prm ["z"]) [stmt (.attr (nmL "z") (s "local_only") .load)], .ret [callCb]] =
      [(s "cb", some (fnSym "cb" ["z"]))] ∧
    walkFn rootCb (prm ["v"]) [.funcDef (s "cb") (prm ["z"]) [stmt (.attr (nmL "z") (s "local_only") .load)], .ret [callCb]] =
      [(s "cb", some cbSym)] := by
  refine ⟨?_, ?_, ?_, ?_, ?_, ?_, ?_, ?_, ?_, ?_, ?_, ?_⟩ <;> decide +kernel

/-- DEFECT CLASS (bindings the analyser never registers): the name of an `except … as cb` handler, a
`match` capture and a nested `class cb` are generic nodes to the function analyser — alone, the call
`cb(v)` has no target at all; with an unrelated module-level `def cb(r)` it goes to that function. -/
theorem C05_cex_unregistered_binder_does_not_hide :
    -- try: fs.go / except fs.Err as cb: cb(v)        (ExceptHandler.name is a plain string)
    walkFn rootNo (prm ["v", "fs"]) [.other (s "Try") [stmt (.attr (nmL "fs") (s "go") .load),
      .other (s "ExceptHandler") [.attr (nmL "fs") (s "Err") .load, stmt callCb]]] = [(s "cb", none)] ∧
    walkFn rootCb (prm ["v", "fs"]) [.other (s "Try") [stmt (.attr (nmL "fs") (s "go") .load),
      .other (s "ExceptHandler") [.attr (nmL "fs") (s "Err") .load, stmt callCb]]] = [(s "cb", some cbSym)] ∧
    -- match fs.pick: case cb: cb(v)                   (MatchAs.name is a plain string)
    walkFn rootNo (prm ["v", "fs"]) [.other (s "Match") [.attr (nmL "fs") (s "pick") .load,
      .other (s "match_case") [.other (s "MatchAs") [], stmt callCb]]] = [(s "cb", none)] ∧
    walkFn rootCb (prm ["v", "fs"]) [.other (s "Match") [.attr (nmL "fs") (s "pick") .load,
      .other (s "match_case") [.other (s "MatchAs") [], stmt callCb]]] = [(s "cb", some cbSym)] ∧
    -- class cb: pass  /  return cb(v)
    walkFn rootNo (prm ["v"]) [.classDef (s "cb"), .ret [callCb]] = [(s "cb", none)] ∧
    walkFn rootCb (prm ["v"]) [.classDef (s "cb"), .ret [callCb]] = [(s "cb", some cbSym)] := by
  refine ⟨?_, ?_, ?_, ?_, ?_, ?_⟩ <;> decide +kernel

def goSym : Sym := fnSym "cb.go" ["r"]
/-- DEFECT CLASS (dotted call through a parameter): `def host(cb, v): return cb.go(v)` — a module-level
`class cb` with a static method `go` puts TWO names into the module scope, `cb` and `cb.go`; the
parameter hides the first only (the theorems above: the two scopes must agree on every name that is
not a parameter), the dotted name is looked up as a whole, so the static method becomes the target. -/
theorem C05_cex_static_method_through_parameter :
    walkFn rootNo (prm ["cb", "v"]) [.ret [.call (.attr (nmL "cb") (s "go") .load) [nmL "v"] [] []]] = [(s "cb.go", none)] ∧
    walkFn [[(s "cb", { kind := .cls, name := s "cb", callable := true, iface := some (prm ["self"]).iface }),
             (s "cb.go", goSym)]] (prm ["cb", "v"])
      [.ret [.call (.attr (nmL "cb") (s "go") .load) [nmL "v"] [] []]] = [(s "cb.go", some goSym)] := by
  refine ⟨?_, ?_⟩ <;> decide +kernel

/-! ### Re-exported callees: `resolve_import` asked more than once (round 4) -/

section Reexport
open Rattr.Resolve Rattr.C05R

/-- Tie A: `resolve_import` / `find_call_target_and_ir` take the symbol and the environment and nothing
else — no parameter with a default (a mutable default is a per-process memory), the recursive call
passes `environment` only, no `global` / `nonlocal`, no module-level container, no cache decorator;
and no function of rattr/results or rattr/module_locator has a mutable default.  This is what makes the
pure function `Resolve.resolveImport` a model of EVERY call, the second one included. -/
theorem tieA_resolver_has_no_process_memory :
    Generated.C05.mutableDefaults = [] ∧
    Generated.C05.resolveImportParams = ["target", "environment"] ∧
    Generated.C05.resolveImportDefaults = 0 ∧
    Generated.C05.findCallTargetParams = ["call", "environment"] ∧
    Generated.C05.resolveImportRecursiveCalls = [["positional:1", "environment"]] ∧
    Generated.C05.resolverGlobalStatements = [] ∧
    Generated.C05.resolverModuleLevelContainers = [] ∧
    Generated.C05.resolveImportIsCached = false := by decide

/-- Tie A: from `sys.path` to `locations[0]` the search directories travel in sequences only (no set /
dict / frozenset literal, comprehension or constructor in `iter_python_path_dirs`,
`locate_module_in_python_path`, `find_module_in_path`, `derive_working_dir`, `find_module_spec_fast`):
the list order the model `Locator.locate` is given is the order of `sys.path`, under every hash seed. -/
theorem tieA_search_path_is_a_sequence :
    Generated.C05.searchFunctionsMissing = [] ∧ Generated.C05.searchPathHashOrdered = [] := by decide

/-- The answer of `resolve_import` is a function of the lookups along the chain of re-export links:
two module tables with the same modules that agree on the (module, local name) pairs of the chain give
the same answer, whatever else differs (other definitions, their order, other modules' contents). -/
theorem C05_reexport_answer_depends_on_chain_only (w w' : World) (hs : SameModules w w')
    (fuel : Nat) (t : ISym) (h : ∀ p ∈ chain w fuel t, AgreeAt w w' p.1 p.2) :
    resolveImport w' fuel t = resolveImport w fuel t :=
  resolveImport_congr w w' hs fuel t h

/-- DEFINITION ORDER in the followed modules: every module's symbol table permuted (keys pairwise
distinct, as in a real symbol table) — every re-exported callee resolves the same. -/
theorem C05_reexport_definition_order_independent (w w' : World) (hs : SameModules w w')
    (hp : ∀ mn c c', Dict.get? w.irs mn = some c → Dict.get? w'.irs mn = some c' →
      c.Perm c' ∧ (c.map MSym.key).Nodup)
    (fuel : Nat) (t : ISym) : resolveImport w' fuel t = resolveImport w fuel t := by
  apply resolveImport_congr w w' hs
  intro p _
  unfold AgreeAt
  have hm := hs.2.2 p.1
  cases hc : Dict.get? w.irs p.1 with
  | none =>
    cases hc' : Dict.get? w'.irs p.1 with
    | none => trivial
    | some c' => rw [hc, hc'] at hm; cases hm
  | some c =>
    cases hc' : Dict.get? w'.irs p.1 with
    | none => rw [hc, hc'] at hm; cases hm
    | some c' =>
      obtain ⟨hperm, hnd⟩ := hp p.1 c c' hc hc'
      exact lookupSym_perm hperm hnd p.2

/-- UNRELATED DEFINITION in a followed (re-exporting or defining) module `m`: a symbol `s` inserted
anywhere into its table, every other module untouched — a re-exported callee whose chain does not look
up `s`'s name in `m` resolves the same. -/
theorem C05_reexport_unrelated_definition (w w' : World) (hs : SameModules w w')
    (m : Str) (a b : MCtx) (s : MSym)
    (hm : Dict.get? w.irs m = some (a ++ b)) (hm' : Dict.get? w'.irs m = some (a ++ s :: b))
    (hother : ∀ mn, mn ≠ m → Dict.get? w'.irs mn = Dict.get? w.irs mn)
    (fuel : Nat) (t : ISym) (hfresh : (m, s.key) ∉ chain w fuel t) :
    resolveImport w' fuel t = resolveImport w fuel t := by
  apply resolveImport_congr w w' hs
  intro p hp
  unfold AgreeAt
  by_cases hpm : p.1 = m
  · rw [hpm, hm, hm']
    simp only
    have hk : s.key ≠ p.2 := by
      intro e
      apply hfresh
      have : p = (m, s.key) := by
        cases p
        simp only at hpm e
        rw [hpm, e]
      rw [← this]
      exact hp
    exact (lookupSym_insert_other a b s p.2 hk).symm
  · rw [hother p.1 hpm]
    cases Dict.get? w.irs p.1 <;> simp

/-- a link resolved inside another resolution (less recursion budget left) or on its own: the same
answer, as soon as the budget suffices at all. -/
theorem C05_reexport_recursion_depth_independent (w : World) (n k : Nat) (t : ISym)
    (h : resolveImport w n t ≠ .recursionError) : resolveImport w (n + k) t = resolveImport w n t :=
  resolveImport_fuel_mono w n t h k

/-- `target.py: from pkg import area` / `pkg/__init__.py: from pkg.impl import area` / `pkg/impl.py:
def area, def unrelated`: the hypotheses of the theorems above on a concrete project. -/
def wDemo (impl : MCtx) : World :=
  { existing := [s "pkg", s "pkg.impl"], ignored := [],
    irs := [(s "pkg", [.imp (s "area") (s "pkg.impl.area")]), (s "pkg.impl", impl)] }

example : resolveImport (wDemo [.func (s "area") true, .func (s "other") true]) 8 ⟨s "area", s "pkg.area"⟩
    = .found (s "pkg.impl") (.func (s "area") true) := by decide +kernel
example : chain (wDemo [.func (s "area") true, .func (s "other") true]) 8 ⟨s "area", s "pkg.area"⟩
    = [(s "pkg", s "area"), (s "pkg.impl", s "area")] := by decide +kernel
theorem wDemo_get (impl : MCtx) (mn : Str) :
    Dict.get? (wDemo impl).irs mn =
      if s "pkg" = mn then some [.imp (s "area") (s "pkg.impl.area")] else if s "pkg.impl" = mn then some impl else none := by
  simp only [wDemo, Dict.get?]

example : resolveImport (wDemo [.func (s "other") true, .func (s "area") true]) 8 ⟨s "area", s "pkg.area"⟩
    = resolveImport (wDemo [.func (s "area") true, .func (s "other") true]) 8 ⟨s "area", s "pkg.area"⟩ :=
  C05_reexport_definition_order_independent (wDemo [.func (s "area") true, .func (s "other") true])
    (wDemo [.func (s "other") true, .func (s "area") true])
    ⟨rfl, rfl, by intro mn; simp only [wDemo_get]; split <;> (try rfl); split <;> rfl⟩
    (by
      intro mn c c' h h'
      rw [wDemo_get] at h h'
      by_cases h1 : s "pkg" = mn
      · rw [if_pos h1] at h h'
        cases h; cases h'
        exact ⟨List.Perm.refl _, by decide +kernel⟩
      · rw [if_neg h1] at h h'
        by_cases h2 : s "pkg.impl" = mn
        · rw [if_pos h2] at h h'
          cases h; cases h'
          exact ⟨List.Perm.swap .., by decide +kernel⟩
        · rw [if_neg h2] at h
          cases h) 8 _

/-- WHY Tie A pins the resolver's interface: with a memory that outlives the call (`resolveImportMem`,
not the pinned code) two functions calling the same re-exported name get different answers — the
first resolves, the second does not — so swapping the two definitions, removing the first (unrelated)
one, or generating the results a second time changes a function's results; the pinned resolver
(`resolveImport`, no memory) answers every query of the sequence alike. -/
theorem C05_cex_resolver_with_process_memory :
    let w := wDemo [.func (s "area") true]
    let q : ISym := ⟨s "area", s "pkg.area"⟩
    runMem w 8 [] [q, q] = [.found (s "pkg.impl") (.func (s "area") true), .none_ .likelyUndefined] ∧
    [q, q].map (resolveImport w 8) = [.found (s "pkg.impl") (.func (s "area") true), .found (s "pkg.impl") (.func (s "area") true)] := by
  decide +kernel

end Reexport

/-! ### One module name in several search directories (round 4) -/

section Search
open Rattr.Locator Rattr.C05R

/-- `find_module_spec_fast` takes the FIRST search directory that has the module (directories before it
that do not have it are skipped). -/
theorem C05_first_search_directory_decides (pre : FS) (f : Files) (rest : FS) (name : Dotted) (p : Path)
    (hpre : ∀ g ∈ pre, findModuleInPath g name = none) (hf : findModuleInPath f name = some p) :
    (locate (pre ++ f :: rest) name).head? = some (pre.length, p) :=
  locate_head pre f rest name p hpre hf

/-- … so what the LATER search directories hold (a vendored / installed module of the same name, with
whatever contents) is unrelated. -/
theorem C05_later_search_directories_unrelated (pre : FS) (f : Files) (rest rest' : FS) (name : Dotted) (p : Path)
    (hpre : ∀ g ∈ pre, findModuleInPath g name = none) (hf : findModuleInPath f name = some p) :
    (locate (pre ++ f :: rest) name).head? = (locate (pre ++ f :: rest') name).head? := by
  rw [locate_head pre f rest name p hpre hf, locate_head pre f rest' name p hpre hf]

/-- The ORDER of the search directories is what decides (a project with `helpers.py` and a vendored
package `helpers/`): the same two directories in the other order give the other file.  An order taken
from a set would make the followed file depend on the hash seed (`tieA_search_path_is_a_sequence`). -/
theorem C05_cex_search_directory_order_decides :
    let project : Files := [["helpers.py".toList], ["target.py".toList]]
    let vendor : Files := [["helpers".toList, "__init__.py".toList]]
    (locate [project, [], vendor] ["helpers".toList]).head? = some (0, ["helpers.py".toList]) ∧
    (locate [vendor, [], project] ["helpers".toList]).head? = some (0, ["helpers".toList, "__init__.py".toList]) := by
  decide +kernel

example : (locate [[], [["helpers.py".toList]], [["helpers.py".toList]]] ["helpers".toList]).head?
    = some (1, ["helpers.py".toList]) :=
  C05_first_search_directory_decides [[]] _ _ _ _ (by decide +kernel) (by decide +kernel)

end Search

end Rattr.C05

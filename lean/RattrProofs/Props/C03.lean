/-
  C03 — results are the call-graph closure of own accesses under argument substitution.

  Model: `Results.generate` (RattrModel/Results.lean) — BFS call tree with tree-global `seen`,
  reversed-BFS fold, ONE shared store.  Spec: `Spec.derive` / `Derivable` (RattrModel/Spec/Closure.lean).

  The full statement `C03_full` is false on the pinned code (`C03_cex_*`, `C03_full_false`); each
  refuting class is a known finding. Proved for all programs (any call graph, recursion included):
    * `C03_terminates` / `C03_never_out_of_fuel`: tree construction ends within
      `totalCalls P + 1` nodes — the formal content of "under recursion the analysis terminates";
    * `C03_own_included`: every own access of a function is in its results (store only grows);
    * `C03_no_resolvable_exact`: with no resolvable callee the results are exactly the own accesses.
-/
import RattrProofs.Lemmas.Results
import RattrProofs.Lemmas.ResultsCex

namespace Rattr.C03
open Rattr Rattr.Results Rattr.Cex

/-! ### full statement -/

/-- soundness ∧ (on acyclic graphs) completeness of the reported gets/sets/dels w.r.t. the closure,
starting from the own accesses. -/
def C03_at (S : Spec.SProg) (order : List Key) : Prop :=
  ∀ rs σ', generate S.prog order S.own = .ok (rs, σ') → ∀ f res, (f, res) ∈ rs →
    (∀ n ∈ res.gets, Spec.DerivableGet S f n.full) ∧
    (∀ n ∈ res.sets, Spec.DerivableSet S f n.full) ∧
    (∀ n ∈ res.dels, Spec.DerivableDel S f n.full) ∧
    (Spec.Acyclic S.prog →
      (∀ n, Spec.DerivableGet S f n → n ∈ fulls res.gets) ∧
      (∀ n, Spec.DerivableSet S f n → n ∈ fulls res.sets) ∧
      (∀ n, Spec.DerivableDel S f n → n ∈ fulls res.dels))

def C03_full : Prop := ∀ S order, C03_at S order

/-! ### what holds for every program -/

/-- The call tree of any root, in any program (recursive or not), is built within the fuel
`totalCalls P + 1`. -/
theorem C03_terminates (P : Prog) (root : Key) : ∃ nodes, callTree P root = some nodes :=
  callTree_terminates P root

theorem runRoot_not_outOfFuel (P : Prog) (σ : Store) (root : Key) :
    runRoot P σ root ≠ .outOfFuel := by
  unfold runRoot
  obtain ⟨nodes, h⟩ := callTree_terminates P root
  rw [h]
  simp only
  split <;> simp

/-- Result generation never runs out of fuel: "the analysis terminates". -/
theorem C03_never_out_of_fuel (P : Prog) (order : List Key) (σ : Store) :
    generate P order σ ≠ .outOfFuel := by
  induction order generalizing σ with
  | nil => simp [generate]
  | cons f r ih =>
    simp only [generate]
    split
    · rename_i h; exact absurd h (runRoot_not_outOfFuel P σ f)
    · simp
    · rename_i res σ1 _
      split
      · simp
      · rename_i h; exact absurd h (ih σ1)
      · simp

/-- Every access in the store before generation (in particular: every own access) is reported
for its function. -/
theorem C03_own_included (P : Prog) (order : List Key) (σ σ' : Store) (rs : List (Key × IrSets))
    (h : generate P order σ = .ok (rs, σ')) :
    ∀ f res, (f, res) ∈ rs → ∀ x,
      (x ∈ (σ f).gets → x ∈ res.gets) ∧ (x ∈ (σ f).sets → x ∈ res.sets) ∧
      (x ∈ (σ f).dels → x ∈ res.dels) := by
  induction order generalizing σ rs with
  | nil =>
    simp [generate] at h
    obtain ⟨h1, _⟩ := h
    subst h1
    intro f res hm; cases hm
  | cons g r ih =>
    simp only [generate] at h
    split at h
    · cases h
    · cases h
    · rename_i res1 σ1 h1
      split at h
      · rename_i rs2 σ2 h2
        injection h with h
        injection h with hrs hs
        subst hrs
        subst hs
        have hle := runRoot_le P σ σ1 g res1 h1
        intro f res hm x
        rcases List.mem_cons.mp hm with hm | hm
        · injection hm with hf hres
          subst hf; subst hres
          unfold runRoot at h1
          split at h1
          · cases h1
          · split at h1
            · cases h1
            · injection h1 with h1
              injection h1 with hr hs
              subst hs
              rw [← hr]
              exact hle _ x
        · have := ih σ1 rs2 h2 f res hm x
          exact ⟨fun hx => this.1 ((hle f x).1 hx), fun hx => this.2.1 ((hle f x).2.1 hx),
                 fun hx => this.2.2 ((hle f x).2.2 hx)⟩
      · cases h
      · cases h

/-- With no resolvable callee, results are exactly the store entries (own accesses), in order. -/
theorem C03_no_resolvable_exact (P : Prog) (hP : ∀ c, P.resolve c = none) (order : List Key)
    (σ : Store) : generate P order σ = .ok (order.map (fun f => (f, σ f)), σ) :=
  generate_no_resolve P hP order σ

/-! ### counterexamples (known findings), by kernel evaluation of the model -/

/-- dedupe across paths: `b.attr` is derivable for `top` (depth 2) but not reported. -/
theorem C03_cex_dedupe :
    getsOf Pd σd [0, 1, 2, 3] 0 = some [s "a", s "b", s "a.attr"] ∧
    s "b.attr" ∈ (Spec.derive Sd 2 0).gets := by decide +kernel

/-- compound argument: `top` reports `sets p.q.attr` (a callee parameter survives) and misses the
derivable `z.y.q.attr`. -/
theorem C03_cex_compound :
    setsOf Pc σc [0, 1, 2, 3] 0 = some [s "p.q.attr"] ∧
    s "z.y.q.attr" ∈ (Spec.derive Sc 3 0).sets := by decide +kernel

theorem Pd_acyclic : Spec.Acyclic Pd := by
  refine ⟨fun k => 3 - k, ?_⟩
  intro f c g hc hr
  match f with
  | 0 =>
    have : c = call 0 "one" ["a"] ∨ c = call 1 "two" ["b"] := by simpa [Pd, fnAt] using hc
    rcases this with h | h <;> subst h <;> simp [Pd, call] at hr <;> subst hr <;> decide
  | 1 =>
    have : c = call 2 "leaf" ["x"] := by simpa [Pd, fnAt] using hc
    subst this; simp [Pd, call] at hr; subst hr; decide
  | 2 =>
    have : c = call 2 "leaf" ["x"] := by simpa [Pd, fnAt] using hc
    subst this; simp [Pd, call] at hr; subst hr; decide
  | 3 => simp [Pd, fnAt] at hc
  | n + 4 => simp [Pd, fnAt] at hc

theorem C03_full_false : ¬ C03_full := by
  intro h
  have hc := C03_cex_dedupe
  have hg : ∃ rs σ', generate Pd [0, 1, 2, 3] σd = .ok (rs, σ') ∧
      (rs.lookup 0).map (fun ir => fulls ir.gets) = some [s "a", s "b", s "a.attr"] := by
    have := hc.1
    unfold getsOf at this
    split at this
    · rename_i rs σ' hgen; exact ⟨rs, σ', hgen, this⟩
    · cases this
  obtain ⟨rs, σ', hgen, hl⟩ := hg
  cases hlk : rs.lookup 0 with
  | none => simp [hlk] at hl
  | some res =>
    simp only [hlk, Option.map_some, Option.some.injEq] at hl
    have hmem : (0, res) ∈ rs := by
      clear hl hgen
      induction rs with
      | nil => simp [List.lookup] at hlk
      | cons p r ih =>
        obtain ⟨k, v⟩ := p
        by_cases hk : (0 : Nat) = k
        · subst hk; simp [List.lookup] at hlk; subst hlk; exact List.mem_cons_self
        · have : (0 == k) = false := by simpa using hk
          simp [List.lookup, this] at hlk
          exact List.mem_cons_of_mem _ (ih hlk)
    have := (h Sd [0, 1, 2, 3] rs σ' hgen 0 res hmem).2.2.2 Pd_acyclic
    have hb := this.1 (s "b.attr") ⟨2, hc.2⟩
    rw [hl] at hb
    revert hb
    decide

end Rattr.C03

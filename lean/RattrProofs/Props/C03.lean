/-
  C03 — results are the call-graph closure of own accesses under argument substitution.

  Model: `Results.generate` (RattrModel/Results.lean) — BFS call tree with tree-global `seen`,
  reversed-BFS fold, ONE shared store.  Spec: `Spec.derive` / `Derivable` (RattrModel/Spec/Closure.lean).

  The full statement `C03_full` is false on the pinned code (`C03_cex_*`, `C03_full_false`); each
  refuting class is a known finding. Proved for all programs (any call graph, recursion included):
    * `C03_terminates` / `C03_never_out_of_fuel`: tree construction ends within
      `totalCalls P + 1` nodes — the formal content of "under recursion the analysis terminates";
    * `C03_own_included`: every own access of a function is in its results (store only grows);
    * `C03_no_resolvable_exact`: with no resolvable callee the results are exactly the own accesses.
  Depth-one fragment (every resolvable callee is a leaf; programs of any size), where the pinned
  code is right:
    * `callTree_depthOne`, `runRoot_depthOne` (+ `_frame`, `_mem`, `_ok`): exact tree and fold;
    * `C03_depthOne_sound_complete`, `C03_depthOne_full_holds`: reported spellings = the spec's
      closure (`C03_at` holds), with the C04 fact as the explicit hypothesis `hSw_C04`;
    * `C03_depthOne_derive_stable`: `derive S (d+1) = derive S 1`.
  The C04 fact is no longer assumed: `swapsAreBinding_of_C04` derives it from the general theorem
  `C04.C04_partial` under well-formedness hypotheses (`SigsDistinct`, `KwDistinct`, `OutsideE1E2`);
  `C03_depthOne_sound_complete_unconditional`, `C03_depthOne_full_holds_unconditional`.
  TREE fragment — call graphs of ARBITRARY depth (`TreeFragment`: from every root the resolvable
  call graph unfolds to a tree, arguments are bare identifiers), where the pinned code is right:
    * `C03_tree_callTree_full`: the BFS tree is the full unfolding (`seen` never cuts);
    * `C03_tree_result_is_closure`, `C03_tree_storeInv_preserved`: over any store with
      own ⊆ σ g ⊆ closure g, a root's result is exactly its closure `Clo`, and the invariant is kept;
    * `C03_tree_sound_complete` (+ `_rank`): first root, reported spellings = `∃ d, derive S d f`
      (= `derive S (rank f) f`);
    * `C03_tree_store_invariant`, `C03_tree_any_order`, `C03_tree_full_holds` (`C03_at` holds),
      `C03_tree_generate_ok`; `C03_chain_sound_complete`: every CHAIN program is in the fragment.
    * `C03_bare_sound_all_graphs`: with bare arguments the SOUNDNESS half holds for every call
      graph (diamonds, recursion); only completeness needs the tree shape.
-/
import RattrProofs.Lemmas.Results
import RattrProofs.Lemmas.ResultsCex
import RattrProofs.Lemmas.ResultsDepthOne
import RattrProofs.Lemmas.ResultsDepthOneSpec
import RattrProofs.Lemmas.ResultsTree
import RattrProofs.Lemmas.ResultsTreeSpec
import RattrProofs.Lemmas.ResultsTreeCheck
import RattrProofs.Props.C04

namespace Rattr.C03
open Rattr Rattr.Results Rattr.Cex

/-! ### full statement -/

/-- soundness ∧ (on acyclic graphs) completeness of the reported gets/sets/dels w.r.t. the closure,
starting from the own accesses. -/
def C03_at (S : Spec.SProg) (order : List Key) : Prop :=
  ∀ rs σ', generate S.prog order S.own = .ok (rs, σ') → ∀ f res, (f, res) ∈ rs →
    (∀ n ∈ res.gets, Spec.DerivableGet S f n.full) ∧
    (∀ n ∈ res.sets, Spec.DerivableSet S f n.full) ∧
    (∀ n ∈ res.dels, Spec.DerivableDel S f n.full) ∧
    (Spec.Acyclic S.prog →
      (∀ n, Spec.DerivableGet S f n → n ∈ fulls res.gets) ∧
      (∀ n, Spec.DerivableSet S f n → n ∈ fulls res.sets) ∧
      (∀ n, Spec.DerivableDel S f n → n ∈ fulls res.dels))

def C03_full : Prop := ∀ S order, C03_at S order

/-! ### what holds for every program -/

/-- The call tree of any root, in any program (recursive or not), is built within the fuel
`totalCalls P + 1`. -/
theorem C03_terminates (P : Prog) (root : Key) : ∃ nodes, callTree P root = some nodes :=
  callTree_terminates P root

theorem runRoot_not_outOfFuel (P : Prog) (σ : Store) (root : Key) :
    runRoot P σ root ≠ .outOfFuel := by
  unfold runRoot
  obtain ⟨nodes, h⟩ := callTree_terminates P root
  rw [h]
  simp only
  split <;> simp

/-- Result generation never runs out of fuel: "the analysis terminates". -/
theorem C03_never_out_of_fuel (P : Prog) (order : List Key) (σ : Store) :
    generate P order σ ≠ .outOfFuel := by
  induction order generalizing σ with
  | nil => simp [generate]
  | cons f r ih =>
    simp only [generate]
    split
    · rename_i h; exact absurd h (runRoot_not_outOfFuel P σ f)
    · simp
    · rename_i res σ1 _
      split
      · simp
      · rename_i h; exact absurd h (ih σ1)
      · simp

/-- Every access in the store before generation (in particular: every own access) is reported
for its function. -/
theorem C03_own_included (P : Prog) (order : List Key) (σ σ' : Store) (rs : List (Key × IrSets))
    (h : generate P order σ = .ok (rs, σ')) :
    ∀ f res, (f, res) ∈ rs → ∀ x,
      (x ∈ (σ f).gets → x ∈ res.gets) ∧ (x ∈ (σ f).sets → x ∈ res.sets) ∧
      (x ∈ (σ f).dels → x ∈ res.dels) := by
  induction order generalizing σ rs with
  | nil =>
    simp [generate] at h
    obtain ⟨h1, _⟩ := h
    subst h1
    intro f res hm; cases hm
  | cons g r ih =>
    simp only [generate] at h
    split at h
    · cases h
    · cases h
    · rename_i res1 σ1 h1
      split at h
      · rename_i rs2 σ2 h2
        injection h with h
        injection h with hrs hs
        subst hrs
        subst hs
        have hle := runRoot_le P σ σ1 g res1 h1
        intro f res hm x
        rcases List.mem_cons.mp hm with hm | hm
        · injection hm with hf hres
          subst hf; subst hres
          unfold runRoot at h1
          split at h1
          · cases h1
          · split at h1
            · cases h1
            · injection h1 with h1
              injection h1 with hr hs
              subst hs
              rw [← hr]
              exact hle _ x
        · have := ih σ1 rs2 h2 f res hm x
          exact ⟨fun hx => this.1 ((hle f x).1 hx), fun hx => this.2.1 ((hle f x).2.1 hx),
                 fun hx => this.2.2 ((hle f x).2.2 hx)⟩
      · cases h
      · cases h

/-- With no resolvable callee, results are exactly the store entries (own accesses), in order. -/
theorem C03_no_resolvable_exact (P : Prog) (hP : ∀ c, P.resolve c = none) (order : List Key)
    (σ : Store) : generate P order σ = .ok (order.map (fun f => (f, σ f)), σ) :=
  generate_no_resolve P hP order σ

/-! ### counterexamples (known findings), by kernel evaluation of the model -/

/-- dedupe across paths: `b.attr` is derivable for `top` (depth 2) but not reported. -/
theorem C03_cex_dedupe :
    getsOf Pd σd [0, 1, 2, 3] 0 = some [s "a", s "b", s "a.attr"] ∧
    s "b.attr" ∈ (Spec.derive Sd 2 0).gets := by decide +kernel

/-- compound argument: `top` reports `sets p.q.attr` (a callee parameter survives) and misses the
derivable `z.y.q.attr`. -/
theorem C03_cex_compound :
    setsOf Pc σc [0, 1, 2, 3] 0 = some [s "p.q.attr"] ∧
    s "z.y.q.attr" ∈ (Spec.derive Sc 3 0).sets := by decide +kernel

theorem Pd_acyclic : Spec.Acyclic Pd := by
  refine ⟨fun k => 3 - k, ?_⟩
  intro f c g hc hr
  match f with
  | 0 =>
    have : c = call 0 "one" ["a"] ∨ c = call 1 "two" ["b"] := by simpa [Pd, fnAt] using hc
    rcases this with h | h <;> subst h <;> simp [Pd, call] at hr <;> subst hr <;> decide
  | 1 =>
    have : c = call 2 "leaf" ["x"] := by simpa [Pd, fnAt] using hc
    subst this; simp [Pd, call] at hr; subst hr; decide
  | 2 =>
    have : c = call 2 "leaf" ["x"] := by simpa [Pd, fnAt] using hc
    subst this; simp [Pd, call] at hr; subst hr; decide
  | 3 => simp [Pd, fnAt] at hc
  | n + 4 => simp [Pd, fnAt] at hc

theorem C03_full_false : ¬ C03_full := by
  intro h
  have hc := C03_cex_dedupe
  have hg : ∃ rs σ', generate Pd [0, 1, 2, 3] σd = .ok (rs, σ') ∧
      (rs.lookup 0).map (fun ir => fulls ir.gets) = some [s "a", s "b", s "a.attr"] := by
    have := hc.1
    unfold getsOf at this
    split at this
    · rename_i rs σ' hgen; exact ⟨rs, σ', hgen, this⟩
    · cases this
  obtain ⟨rs, σ', hgen, hl⟩ := hg
  cases hlk : rs.lookup 0 with
  | none => simp [hlk] at hl
  | some res =>
    simp only [hlk, Option.map_some, Option.some.injEq] at hl
    have hmem : (0, res) ∈ rs := by
      clear hl hgen
      induction rs with
      | nil => simp [List.lookup] at hlk
      | cons p r ih =>
        obtain ⟨k, v⟩ := p
        by_cases hk : (0 : Nat) = k
        · subst hk; simp [List.lookup] at hlk; subst hlk; exact List.mem_cons_self
        · have : (0 == k) = false := by simpa using hk
          simp [List.lookup, this] at hlk
          exact List.mem_cons_of_mem _ (ih hlk)
    have := (h Sd [0, 1, 2, 3] rs σ' hgen 0 res hmem).2.2.2 Pd_acyclic
    have hb := this.1 (s "b.attr") ⟨2, hc.2⟩
    rw [hl] at hb
    revert hb
    decide

/-! ### the depth-one fragment (every resolvable callee is a leaf): the pinned code is right -/

/-- The call tree of a root in a depth-one program is the root followed by its children
`kidsOf P f` (`kids` = explicit fold of `expand`), and nothing else: no grandchildren. A node is
a child iff it stems from a resolvable call of the name-sorted call list whose cid does not occur
earlier in that list (first occurrence wins); its parent is the root (index 0). -/
theorem callTree_depthOne (P : Prog) (hP : DepthOne P) (f : Key) :
    callTree P f = some (rootNode f :: kidsOf P f) ∧
    ∀ n, n ∈ kidsOf P f ↔
      ∃ pre c post g, sortCalls (fnAt P f).calls = pre ++ c :: post ∧
        (∀ c' ∈ pre, c'.cid ≠ c.cid) ∧ P.resolve c.cid = some g ∧
        n = { key := g, edgeIn := some c, parent := some 0 } := by
  refine ⟨callTree_eq_of_depthOne P hP f, ?_⟩
  intro n
  unfold kidsOf
  rw [mem_kids_iff]
  constructor
  · rintro ⟨pre, c, post, g, h1, h2, _, h3, h4⟩
    exact ⟨pre, c, post, g, h1, h2, h3, h4⟩
  · rintro ⟨pre, c, post, g, h1, h2, h3, h4⟩
    exact ⟨pre, c, post, g, h1, h2, by simp, h3, h4⟩

/-- One root in a depth-one program, exactly: the run fails iff some `unbind_name` raises;
otherwise only the root's entry changes, to `rootResult` = the root's entry `|=` the unbound entry
of each child's callee, in child order (`mergeKids`). -/
theorem runRoot_depthOne (P : Prog) (hP : DepthOne P) (σ : Store) (f : Key) :
    runRoot P σ f = match mergeKids P σ (kidsOf P f) (σ f) with
      | none => .never
      | some r => .ok (r, σ.update f r) :=
  runRoot_eq_of_depthOne P hP σ f

/-- frame: a run changes no entry but the root's — callees and all other functions are untouched. -/
theorem runRoot_depthOne_frame (P : Prog) (hP : DepthOne P) (σ σ' : Store) (f : Key) (res : IrSets)
    (h : runRoot P σ f = .ok (res, σ')) : σ' f = res ∧ ∀ k, k ≠ f → σ' k = σ k := by
  rw [runRoot_eq_of_depthOne P hP] at h
  cases hr : rootResult P σ f with
  | none => simp [hr] at h
  | some r =>
    simp only [hr, Out.ok.injEq, Prod.mk.injEq] at h
    obtain ⟨h1, h2⟩ := h
    subst h1; subst h2
    exact ⟨update_same _ _ _, fun k hk => update_other _ _ hk⟩

/-- membership form: a name is reported for the root iff it was in the root's entry or is in the
unbound entry of some child's callee. -/
theorem runRoot_depthOne_mem (P : Prog) (hP : DepthOne P) (σ σ' : Store) (f : Key) (res : IrSets)
    (h : runRoot P σ f = .ok (res, σ')) (k : Kind) (x : NameS) :
    x ∈ res.of k ↔ x ∈ (σ f).of k ∨
      ∃ ch ∈ kidsOf P f, ∃ c u, ch.edgeIn = some c ∧
        unbindIr (swapsOf P ch.key c) (σ ch.key) = some u ∧ x ∈ u.of k := by
  rw [runRoot_eq_of_depthOne P hP] at h
  cases hr : rootResult P σ f with
  | none => simp [hr] at h
  | some r =>
    simp only [hr, Out.ok.injEq, Prod.mk.injEq] at h
    obtain ⟨h1, _⟩ := h
    subst h1
    exact mem_mergeKids P σ _ _ _ hr k x

/-- `unbind_name` cannot raise when every callee's names start with their basename
(`CalleeWB`): the run succeeds. -/
theorem runRoot_depthOne_ok (P : Prog) (hP : DepthOne P) (σ : Store) (hσ : CalleeWB P σ) (f : Key) :
    ∃ res, runRoot P σ f = .ok (res, σ.update f res) := by
  rw [runRoot_eq_of_depthOne P hP]
  have := rootResult_isSome hσ f
  cases hr : rootResult P σ f with
  | none => simp [hr] at this
  | some r => exact ⟨r, rfl⟩

/-- `generate` over a depth-one program whose callees' names start with their basename never
raises. -/
theorem C03_depthOne_generate_ok (P : Prog) (hP : DepthOne P) (σ : Store) (hσ : CalleeWB P σ)
    (order : List Key) : ∃ rs σ', generate P order σ = .ok (rs, σ') :=
  generate_depthOne_ok hP order σ (Inv.refl P σ) (fun f _ => rootResult_isSome hσ f)

/-- non-vacuity (two callers sharing a leaf): the fragment hypotheses hold and both callers get a
child. -/
example : DepthOne P1 ∧ CalleeWB P1 σ1 ∧ (kidsOf P1 0).length = 1 ∧ (kidsOf P1 1).length = 1 ∧
    ∃ σ', runRoot P1 σ1 1 = .ok (⟨[nm "b.y" "b", nm "b.y.attr" "b.y"], [nm "b.y.z" "b.y"],
      [nm "b.y.w" "b.y"]⟩, σ') := by
  refine ⟨P1_depthOne, ?_, by decide, by decide, ?_⟩
  · rintro g ⟨f, c, hc, hr⟩
    have hg : g = 2 := by
      simp only [P1] at hr
      split at hr <;> simp_all
    subst hg
    intro k n hn
    cases k <;> simp [σ1, IrSets.of] at hn <;> subst hn <;> decide
  · rw [runRoot_eq_of_depthOne P1 P1_depthOne]
    have : rootResult P1 σ1 1 = some ⟨[nm "b.y" "b", nm "b.y.attr" "b.y"], [nm "b.y.z" "b.y"],
      [nm "b.y.w" "b.y"]⟩ := by decide +kernel
    rw [this]
    exact ⟨_, rfl⟩

/-! ### depth-one fragment: soundness and completeness w.r.t. the independent closure spec -/

/-- In a depth-one program the spec's unfolding is complete after one call level. -/
theorem C03_depthOne_derive_stable (S : Spec.SProg) (hP : DepthOne S.prog) (d : Nat) (f : Key) :
    Spec.derive S (d + 1) f = Spec.derive S 1 f :=
  derive_depthOne S hP d f

/-- C03 in the depth-one fragment. Hypotheses: every resolvable callee is a leaf (`DepthOne`);
equal Call symbols of one function have equal arguments (`CidArgs`, true of all real inputs);
callee own names have basename = root variable (`CalleeRootBased`); no `*`-spelled argument
(`NoStarArgs` — compound arguments `a.b`, `a[0]` ARE allowed at this depth); interfaces are those
of the signatures; Python accepts every resolvable call and a `**kwargs` parameter receives
something (`AcceptedCalls`); and — ASSUMED, it is the C04 statement — `hSw_C04 : SwapsAreBinding S`
(`construct_call_swaps` = Python's binding + stand-ins on those calls).
Then the spellings reported for any root are exactly the spec's closure `derive S 1 f`
(= `derive S d f` for every `d ≥ 1`), in any generation order. -/
theorem C03_depthOne_sound_complete (S : Spec.SProg) (hP : DepthOne S.prog)
    (hC : CidArgs S.prog) (hR : CalleeRootBased S) (hN : NoStarArgs S.prog) (hI : IfaceOfSig S)
    (hA : AcceptedCalls S) (hSw_C04 : SwapsAreBinding S)
    (order : List Key) (rs : List (Key × IrSets)) (σ' : Store)
    (hgen : generate S.prog order S.own = .ok (rs, σ')) (f : Key) (res : IrSets)
    (hf : (f, res) ∈ rs) (n : Str) :
    (n ∈ fulls res.gets ↔ n ∈ (Spec.derive S 1 f).gets) ∧
    (n ∈ fulls res.sets ↔ n ∈ (Spec.derive S 1 f).sets) ∧
    (n ∈ fulls res.dels ↔ n ∈ (Spec.derive S 1 f).dels) := by
  obtain ⟨_, hres, _⟩ := generate_depthOne hP order S.own σ' rs (Inv.refl _ _) hgen
  have hr := hres (f, res) hf
  simp only at hr
  have key := fun k => rootResult_iff_derive S hP hC hR hN hI hA hSw_C04 f res hr k n
  unfold fulls
  simp only [List.mem_map]
  exact ⟨key .get, key .set, key .del⟩

/-- …hence the FULL statement `C03_at` holds on the fragment (soundness, and completeness — the
call graph of a depth-one program is acyclic, `depthOne_acyclic`). -/
theorem C03_depthOne_full_holds (S : Spec.SProg) (hP : DepthOne S.prog)
    (hC : CidArgs S.prog) (hR : CalleeRootBased S) (hN : NoStarArgs S.prog) (hI : IfaceOfSig S)
    (hA : AcceptedCalls S) (hSw_C04 : SwapsAreBinding S) (order : List Key) :
    C03_at S order := by
  intro rs σ' hgen f res hf
  have key := C03_depthOne_sound_complete S hP hC hR hN hI hA hSw_C04 order rs σ' hgen f res hf
  have dg := fun n => derivable_iff_depthOne S hP f .get n
  have ds := fun n => derivable_iff_depthOne S hP f .set n
  have dd := fun n => derivable_iff_depthOne S hP f .del n
  refine ⟨?_, ?_, ?_, fun _ => ⟨?_, ?_, ?_⟩⟩
  · intro x hx
    exact (dg x.full).mpr ((key x.full).1.mp (List.mem_map.mpr ⟨x, hx, rfl⟩))
  · intro x hx
    exact (ds x.full).mpr ((key x.full).2.1.mp (List.mem_map.mpr ⟨x, hx, rfl⟩))
  · intro x hx
    exact (dd x.full).mpr ((key x.full).2.2.mp (List.mem_map.mpr ⟨x, hx, rfl⟩))
  · intro n hn
    exact (key n).1.mpr ((dg n).mp hn)
  · intro n hn
    exact (key n).2.1.mpr ((ds n).mp hn)
  · intro n hn
    exact (key n).2.2.mpr ((dd n).mp hn)

/-- non-vacuity: the two-callers-one-leaf program meets all hypotheses, is acyclic, and caller
`c2(b): leaf(b.y)` gets the compound-argument names `b.y.attr` / `b.y.z` / `b.y.w`. -/
example : C03_at S1 [0, 1, 2] ∧ Spec.Acyclic S1.prog ∧
    (Spec.derive S1 1 1).gets = [s "b.y", s "b.y.attr"] ∧
    (Spec.derive S1 1 1).sets = [s "b.y.z"] ∧ (Spec.derive S1 1 1).dels = [s "b.y.w"] := by
  obtain ⟨h1, h2, h3, h4, h5, h6, h7⟩ := S1_hyps
  exact ⟨C03_depthOne_full_holds S1 h1 h2 h3 h4 h5 h6 h7 _, depthOne_acyclic h1,
    by decide +kernel, by decide +kernel, by decide +kernel⟩

/-! ### the C04 fact, discharged from the general C04 theorem -/

/-- the parameter names of every callee's signature are pairwise distinct (Python guarantees it:
"duplicate argument" is a SyntaxError). -/
def SigsDistinct (S : Spec.SProg) : Prop :=
  ∀ g, IsCallee S.prog g → (Spec.sigAt S g).iface.all.Nodup

/-- the keyword keys of every resolvable call are pairwise distinct (Python guarantees it:
"keyword argument repeated" is a SyntaxError). -/
def KwDistinct (P : Prog) : Prop :=
  ∀ f c g, c ∈ (fnAt P f).calls → P.resolve c.cid = some g → (c.args.kwargs.map Prod.fst).Nodup

/-- every resolvable call is outside the two C04 defect classes `E1` (a keyword spelled like a
positional-only / `*args` / `**kwargs` parameter of a callee with `**kwargs`) and `E2` (a
positional-only parameter omitted). -/
def OutsideE1E2 (S : Spec.SProg) : Prop :=
  ∀ f c g, c ∈ (fnAt S.prog f).calls → S.prog.resolve c.cid = some g →
    ¬ C04.E1 (Spec.sigAt S g) c.args ∧ ¬ C04.E2 (Spec.sigAt S g) c.args

/-- **The C04 fact is a theorem.** For well-formed inputs outside `E1`/`E2`, on every resolvable
call Python accepts, `construct_call_swaps` is Python's binding plus stand-ins — from
`C04.C04_partial`. (That every resolvable call IS accepted is the separate hypothesis
`AcceptedCalls` of the fragment theorems; this statement is conditional on acceptance.) -/
theorem swapsAreBinding_of_C04 (S : Spec.SProg) (hSig : SigsDistinct S) (hKw : KwDistinct S.prog)
    (hE : OutsideE1E2 S) : SwapsAreBinding S := by
  intro f c g b hc hr hb k
  have h := C04.C04_partial (si S.prog) (Spec.sigAt S g) c.args (hSig g ⟨f, c, hc, hr⟩)
    (hKw f c g hc hr) (hE f c g hc hr).1 (hE f c g hc hr).2
  rw [hb] at h
  exact h.2 k

/-- `C03_depthOne_sound_complete` without the assumed C04 hypothesis. -/
theorem C03_depthOne_sound_complete_unconditional (S : Spec.SProg) (hP : DepthOne S.prog)
    (hC : CidArgs S.prog) (hR : CalleeRootBased S) (hN : NoStarArgs S.prog) (hI : IfaceOfSig S)
    (hA : AcceptedCalls S) (hSig : SigsDistinct S) (hKw : KwDistinct S.prog) (hE : OutsideE1E2 S)
    (order : List Key) (rs : List (Key × IrSets)) (σ' : Store)
    (hgen : generate S.prog order S.own = .ok (rs, σ')) (f : Key) (res : IrSets)
    (hf : (f, res) ∈ rs) (n : Str) :
    (n ∈ fulls res.gets ↔ n ∈ (Spec.derive S 1 f).gets) ∧
    (n ∈ fulls res.sets ↔ n ∈ (Spec.derive S 1 f).sets) ∧
    (n ∈ fulls res.dels ↔ n ∈ (Spec.derive S 1 f).dels) :=
  C03_depthOne_sound_complete S hP hC hR hN hI hA (swapsAreBinding_of_C04 S hSig hKw hE)
    order rs σ' hgen f res hf n

/-- `C03_depthOne_full_holds` without the assumed C04 hypothesis. -/
theorem C03_depthOne_full_holds_unconditional (S : Spec.SProg) (hP : DepthOne S.prog)
    (hC : CidArgs S.prog) (hR : CalleeRootBased S) (hN : NoStarArgs S.prog) (hI : IfaceOfSig S)
    (hA : AcceptedCalls S) (hSig : SigsDistinct S) (hKw : KwDistinct S.prog) (hE : OutsideE1E2 S)
    (order : List Key) : C03_at S order :=
  C03_depthOne_full_holds S hP hC hR hN hI hA (swapsAreBinding_of_C04 S hSig hKw hE) order

/-- executable check of the three C04 well-formedness hypotheses. -/
def c04ReadyB (S : Spec.SProg) : Bool :=
  edgesB S.prog (fun _ c g =>
    decide ((Spec.sigAt S g).iface.all.Nodup) && decide ((c.args.kwargs.map Prod.fst).Nodup) &&
    decide (¬ C04.E1 (Spec.sigAt S g) c.args) && decide (¬ C04.E2 (Spec.sigAt S g) c.args))

theorem c04Ready_of_check {S : Spec.SProg} (h : c04ReadyB S = true) :
    SigsDistinct S ∧ KwDistinct S.prog ∧ OutsideE1E2 S := by
  have key := fun f c g hc hr => edges_of_check h f c g hc hr
  simp only [Bool.and_eq_true, decide_eq_true_eq] at key
  refine ⟨?_, ?_, ?_⟩
  · rintro g ⟨f, c, hc, hr⟩; exact (key f c g hc hr).1.1.1
  · intro f c g hc hr; exact (key f c g hc hr).1.1.2
  · intro f c g hc hr; exact ⟨(key f c g hc hr).1.2, (key f c g hc hr).2⟩

/-- non-vacuity: the two-callers-one-leaf program meets the well-formedness hypotheses, so
`C03_at` holds for it with nothing assumed. -/
example : C03_at S1 [0, 1, 2] := by
  obtain ⟨h1, h2, h3, h4, h5, h6, _⟩ := S1_hyps
  obtain ⟨w1, w2, w3⟩ := c04Ready_of_check (S := S1) (by decide +kernel)
  exact C03_depthOne_full_holds_unconditional S1 h1 h2 h3 h4 h5 h6 w1 w2 w3 _

/-! ### the TREE fragment: call graphs of arbitrary depth -/

/-- **The tree fragment.** -/
structure TreeFragment (S : Spec.SProg) : Prop where
  /-- the resolvable call graph is acyclic and unfolds, from every root, to a tree: no call
  symbol class is reached along two different paths (`Reach`) from one root. -/
  tree : TreeLike S.prog
  /-- equal Call symbols of one function have equal arguments (true of all real inputs). -/
  cid : CidArgs S.prog
  /-- own names of callees have basename = root variable of the spelling. -/
  rootBased : CalleeRootBased S
  /-- every argument of a resolvable call is a bare identifier or an `@` stand-in. -/
  bare : BareArgs S.prog
  /-- the interface rattr holds for a callee is the one of its real signature. -/
  iface : IfaceOfSig S
  /-- Python accepts every resolvable call (and `**kwargs`, if any, receives something). -/
  accepted : AcceptedCalls S
  sigs : SigsDistinct S
  kws : KwDistinct S.prog
  c04 : OutsideE1E2 S

theorem TreeFragment.hyps {S : Spec.SProg} (h : TreeFragment S) : TreeHyps S :=
  ⟨h.cid, h.rootBased, h.bare, h.iface, h.accepted, swapsAreBinding_of_C04 S h.sigs h.kws h.c04⟩

/-- In the tree fragment the BFS call tree of `make_target_ir_call_tree` is the FULL unfolding of
the resolvable call graph from the root: node 0 is the root; every other node hangs under an
EARLIER node by a resolvable call of that node's function; and — the point — every resolvable
call of every node has a child (the tree-global `seen` set never cuts a call). -/
theorem C03_tree_callTree_full (P : Prog) (hT : TreeLike P) (root : Key) :
    ∃ nodes, callTree P root = some nodes ∧ FullTree P root nodes := by
  obtain ⟨nodes, h⟩ := callTree_terminates P root
  exact ⟨nodes, h, callTree_fullTree hT.2 root nodes h⟩

/-- ONE ROOT over ANY store `σ` with `own ⊆ σ g ⊆ Clo g` for every `g` (`StoreInv` — e.g. the own
accesses themselves, or the store any earlier roots left behind): the result of the root is
EXACTLY its closure `Clo` (own accesses ∪ unbound closures of all resolvable callees, at every
depth). Needs only `TreeLike` and `CidArgs`. -/
theorem C03_tree_result_is_closure (P : Prog) (hT : TreeLike P) (hC : CidArgs P) (own σ σ' : Store)
    (hInv : StoreInv P own σ) (f : Key) (res : IrSets) (h : runRoot P σ f = .ok (res, σ'))
    (k : Kind) (x : NameS) : x ∈ res.of k ↔ Clo P own k f x :=
  (runRoot_tree hT.2 hC hInv h).1 k x

/-- `StoreInv` (own ⊆ σ g ⊆ closure g, all g) is preserved by generating any sequence of roots;
every generated root's entry ends up complete. This is what makes later roots right although
the store is shared and mutated. -/
theorem C03_tree_storeInv_preserved (P : Prog) (hT : TreeLike P) (hC : CidArgs P)
    (own σ σ' : Store) (hInv : StoreInv P own σ) (order : List Key) (rs : List (Key × IrSets))
    (h : generate P order σ = .ok (rs, σ')) :
    StoreInv P own σ' ∧ ∀ f ∈ order, CompleteAt P own σ' f := by
  obtain ⟨_, _, a, b⟩ := generate_tree hT.2 hC order σ σ' rs hInv h
  exact ⟨a, b⟩

theorem tree_mem_iff {S : Spec.SProg} (hF : TreeFragment S) {f : Key} {res : IrSets}
    (hres : ∀ k x, x ∈ res.of k ↔ Clo S.prog S.own k f x) (n : Str) :
    (n ∈ fulls res.gets ↔ Spec.DerivableGet S f n) ∧
    (n ∈ fulls res.sets ↔ Spec.DerivableSet S f n) ∧
    (n ∈ fulls res.dels ↔ Spec.DerivableDel S f n) := by
  have key : ∀ k : Kind, (∃ x ∈ res.of k, x.full = n) ↔ ∃ d, n ∈ (Spec.derive S d f).of k := by
    intro k
    rw [← clo_iff_derivable hF.hyps k f n]
    constructor
    · rintro ⟨x, hx, e⟩; exact ⟨x, (hres k x).mp hx, e⟩
    · rintro ⟨x, hx, e⟩; exact ⟨x, (hres k x).mpr hx, e⟩
  unfold fulls
  simp only [List.mem_map]
  exact ⟨key .get, key .set, key .del⟩

/-- **(a) C03 in the tree fragment, first root.** For a root processed first (over the own
accesses), at ANY call depth: a spelling is reported for `f` iff it is derivable for `f` in the
independent closure spec (`∃ d, · ∈ Spec.derive S d f`), for gets, sets and dels. -/
theorem C03_tree_sound_complete (S : Spec.SProg) (hF : TreeFragment S) (f : Key) (res : IrSets)
    (σ' : Store) (h : runRoot S.prog S.own f = .ok (res, σ')) (n : Str) :
    (n ∈ fulls res.gets ↔ Spec.DerivableGet S f n) ∧
    (n ∈ fulls res.sets ↔ Spec.DerivableSet S f n) ∧
    (n ∈ fulls res.dels ↔ Spec.DerivableDel S f n) :=
  tree_mem_iff hF (runRoot_tree hF.tree.2 hF.cid (StoreInv.refl _ _) h).1 n

/-- …equivalently the unfolding at depth `rank f`, for any rank function witnessing acyclicity. -/
theorem C03_tree_sound_complete_rank (S : Spec.SProg) (hF : TreeFragment S) (rank : Key → Nat)
    (hrank : ∀ f c g, c ∈ (fnAt S.prog f).calls → S.prog.resolve c.cid = some g → rank g < rank f)
    (f : Key) (res : IrSets) (σ' : Store) (h : runRoot S.prog S.own f = .ok (res, σ')) (n : Str) :
    (n ∈ fulls res.gets ↔ n ∈ (Spec.derive S (rank f) f).gets) ∧
    (n ∈ fulls res.sets ↔ n ∈ (Spec.derive S (rank f) f).sets) ∧
    (n ∈ fulls res.dels ↔ n ∈ (Spec.derive S (rank f) f).dels) := by
  obtain ⟨a, b, c⟩ := C03_tree_sound_complete S hF f res σ' h n
  have key : ∀ k : Kind, (∃ d, n ∈ (Spec.derive S d f).of k) ↔
      n ∈ (Spec.derive S (rank f) f).of k :=
    fun k => ⟨fun ⟨d, hd⟩ => derive_at_rank S rank hrank k d f n hd, fun h => ⟨_, h⟩⟩
  exact ⟨a.trans (key .get), b.trans (key .set), c.trans (key .del)⟩

/-- **(b) the store invariant of DESIGN §5 C03.** After generating results for any sequence of
roots, for EVERY function `g` (generated or not): its own accesses are still in its entry, and
every name in its entry is derivable for `g` — `own g ⊆ σ' g ⊆ Derivable g`. -/
theorem C03_tree_store_invariant (S : Spec.SProg) (hF : TreeFragment S) (order : List Key)
    (rs : List (Key × IrSets)) (σ' : Store) (h : generate S.prog order S.own = .ok (rs, σ'))
    (g : Key) :
    ((∀ x ∈ (S.own g).gets, x ∈ (σ' g).gets) ∧ (∀ x ∈ (S.own g).sets, x ∈ (σ' g).sets) ∧
      (∀ x ∈ (S.own g).dels, x ∈ (σ' g).dels)) ∧
    ((∀ x ∈ (σ' g).gets, Spec.DerivableGet S g x.full) ∧
      (∀ x ∈ (σ' g).sets, Spec.DerivableSet S g x.full) ∧
      (∀ x ∈ (σ' g).dels, Spec.DerivableDel S g x.full)) := by
  obtain ⟨⟨hO, hS⟩, _⟩ := C03_tree_storeInv_preserved S.prog hF.tree hF.cid S.own S.own σ'
    (StoreInv.refl _ _) order rs h
  have d := fun k x hx => clo_derivable hF.hyps k g x (hS g k x hx)
  exact ⟨⟨hO g .get, hO g .set, hO g .del⟩, d .get, d .set, d .del⟩

/-- **(c) C03 in the tree fragment, every root, any order.** Whatever the order of roots — i.e.
whatever earlier roots wrote into the shared store — the spellings reported for every root are
exactly the derivable ones. -/
theorem C03_tree_any_order (S : Spec.SProg) (hF : TreeFragment S) (order : List Key)
    (rs : List (Key × IrSets)) (σ' : Store) (hgen : generate S.prog order S.own = .ok (rs, σ'))
    (f : Key) (res : IrSets) (hf : (f, res) ∈ rs) (n : Str) :
    (n ∈ fulls res.gets ↔ Spec.DerivableGet S f n) ∧
    (n ∈ fulls res.sets ↔ Spec.DerivableSet S f n) ∧
    (n ∈ fulls res.dels ↔ Spec.DerivableDel S f n) := by
  obtain ⟨_, hres, _, _⟩ := generate_tree hF.tree.2 hF.cid order S.own σ' rs (StoreInv.refl _ _) hgen
  exact tree_mem_iff hF (hres f res hf) n

/-- …hence the FULL statement `C03_at` holds on the tree fragment, for every order. -/
theorem C03_tree_full_holds (S : Spec.SProg) (hF : TreeFragment S) (order : List Key) :
    C03_at S order := by
  intro rs σ' hgen f res hf
  have key := C03_tree_any_order S hF order rs σ' hgen f res hf
  refine ⟨?_, ?_, ?_, fun _ => ⟨?_, ?_, ?_⟩⟩
  · intro x hx; exact (key x.full).1.mp (List.mem_map.mpr ⟨x, hx, rfl⟩)
  · intro x hx; exact (key x.full).2.1.mp (List.mem_map.mpr ⟨x, hx, rfl⟩)
  · intro x hx; exact (key x.full).2.2.mp (List.mem_map.mpr ⟨x, hx, rfl⟩)
  · intro n hn; exact (key n).1.mpr hn
  · intro n hn; exact (key n).2.1.mpr hn
  · intro n hn; exact (key n).2.2.mpr hn

/-- In the tree fragment `unbind_name` never raises: `generate` succeeds for every order. -/
theorem C03_tree_generate_ok (S : Spec.SProg) (hF : TreeFragment S) (order : List Key) :
    ∃ rs σ', generate S.prog order S.own = .ok (rs, σ') :=
  generate_tree_ok hF.tree.2 hF.cid (noFail_of_hyps hF.hyps) order S.own (StoreInv.refl _ _)

/-- **Soundness for EVERY call graph.** With bare arguments (and the other hypotheses about the
analysed program — but NO hypothesis on the shape of the call graph: shared callees, diamonds and
recursion included), every name the pinned code reports for any root, in any order, is derivable.
What fails outside the tree fragment is completeness only (`C03_cex_dedupe`). -/
theorem C03_bare_sound_all_graphs (S : Spec.SProg) (hC : CidArgs S.prog) (hR : CalleeRootBased S)
    (hB : BareArgs S.prog) (hI : IfaceOfSig S) (hA : AcceptedCalls S) (hSig : SigsDistinct S)
    (hKw : KwDistinct S.prog) (hE : OutsideE1E2 S) (order : List Key) (rs : List (Key × IrSets))
    (σ' : Store) (hgen : generate S.prog order S.own = .ok (rs, σ')) (f : Key) (res : IrSets)
    (hf : (f, res) ∈ rs) :
    (∀ n ∈ res.gets, Spec.DerivableGet S f n.full) ∧
    (∀ n ∈ res.sets, Spec.DerivableSet S f n.full) ∧
    (∀ n ∈ res.dels, Spec.DerivableDel S f n.full) := by
  have hH : TreeHyps S := ⟨hC, hR, hB, hI, hA, swapsAreBinding_of_C04 S hSig hKw hE⟩
  obtain ⟨a, _⟩ := generate_sound_all order S.own σ' rs (StoreInv.refl S.prog S.own).2 hgen
  have d := fun k x hx => clo_derivable hH k f x (a f res hf k x hx)
  exact ⟨d .get, d .set, d .del⟩

/-- non-vacuity: the C03-dedupe program (a diamond: `leaf(x)` reached on two paths) is OUTSIDE
the tree fragment, meets the hypotheses of `C03_bare_sound_all_graphs`, and indeed reports only
derivable names while missing the derivable `b.attr`. -/
example : ¬ TreeLike Pd ∧ TreeHyps0 Sd ∧
    (SigsDistinct Sd ∧ KwDistinct Sd.prog ∧ OutsideE1E2 Sd) ∧
    getsOf Pd σd [0, 1, 2, 3] 0 = some [s "a", s "b", s "a.attr"] := by
  refine ⟨?_, treeHyps0_of_check (by decide +kernel), c04Ready_of_check (by decide +kernel),
    by decide +kernel⟩
  intro hT
  have r1 : Reach Pd 0 ([0] ++ [2]) 3 :=
    Reach.cons (c := call 0 "one" ["a"]) (by decide) rfl
      (Reach.cons (c := call 2 "leaf" ["x"]) (by decide) rfl (Reach.nil 3))
  have r2 : Reach Pd 0 ([1] ++ [2]) 3 :=
    Reach.cons (c := call 1 "two" ["b"]) (by decide) rfl
      (Reach.cons (c := call 2 "leaf" ["x"]) (by decide) rfl (Reach.nil 3))
  exact absurd (hT.2 0 [0] [1] 2 3 3 r1 r2) (by decide)

/-- CHAIN programs (acyclic, every function has at most one resolvable call; a function may
be called from many functions and roots) are in the tree fragment: along the single path from a
root no cid repeats, because the graph is acyclic. -/
theorem C03_chain_treeLike (P : Prog) (h : Chain P) : TreeLike P := chain_treeLike h

/-- C03 for chains of any length, every root, any order. -/
theorem C03_chain_sound_complete (S : Spec.SProg) (hCh : Chain S.prog) (hC : CidArgs S.prog)
    (hR : CalleeRootBased S) (hB : BareArgs S.prog) (hI : IfaceOfSig S) (hA : AcceptedCalls S)
    (hSig : SigsDistinct S) (hKw : KwDistinct S.prog) (hE : OutsideE1E2 S) (order : List Key)
    (rs : List (Key × IrSets)) (σ' : Store) (hgen : generate S.prog order S.own = .ok (rs, σ'))
    (f : Key) (res : IrSets) (hf : (f, res) ∈ rs) (n : Str) :
    (n ∈ fulls res.gets ↔ Spec.DerivableGet S f n) ∧
    (n ∈ fulls res.sets ↔ Spec.DerivableSet S f n) ∧
    (n ∈ fulls res.dels ↔ Spec.DerivableDel S f n) :=
  C03_tree_any_order S ⟨chain_treeLike hCh, hC, hR, hB, hI, hA, hSig, hKw, hE⟩ order rs σ' hgen
    f res hf n

/-- non-vacuity, the 4-function chain `a → b → c → d` (depth three, bare arguments): it is in the
fragment, `C03_at` holds, generation succeeds, and `a` reports the names of `d` three levels
down rewritten to its own parameter. -/
example : Chain Pchain ∧ TreeFragment Schain ∧ C03_at Schain [0, 1, 2, 3] ∧
    getsOf Pchain σchain [0, 1, 2, 3] 0 = some [s "x.a0", s "x.b0", s "x.d0"] ∧
    setsOf Pchain σchain [3, 1, 0, 2] 0 = some [s "x.c0"] ∧
    (Spec.derive Schain 3 0).gets = [s "x.a0", s "x.b0", s "x.d0"] := by
  have hF : TreeFragment Schain := by
    obtain ⟨w1, w2, w3⟩ := c04Ready_of_check (S := Schain) (by decide +kernel)
    exact ⟨Pchain_treeLike, Schain_hyps0.cid, Schain_hyps0.rootBased, Schain_hyps0.bare,
      Schain_hyps0.iface, Schain_hyps0.accepted, w1, w2, w3⟩
  exact ⟨Pchain_chain, hF, C03_tree_full_holds Schain hF _, by decide +kernel, by decide +kernel,
    by decide +kernel⟩

/-- non-vacuity, the 5-function binary tree `top → {l → {ll, lr}, r}` with swapped arguments. -/
example : TreeFragment Stree ∧ C03_at Stree [0, 1, 2, 3, 4] ∧
    setsOf Ptree σtree [0, 1, 2, 3, 4] 0 = some [s "p.x"] ∧
    (Spec.derive Stree 2 0).sets = [s "p.x"] ∧ (Spec.derive Stree 2 0).dels = [s "q.y"] := by
  have hF : TreeFragment Stree := by
    obtain ⟨w1, w2, w3⟩ := c04Ready_of_check (S := Stree) (by decide +kernel)
    exact ⟨Ptree_treeLike, Stree_hyps0.cid, Stree_hyps0.rootBased, Stree_hyps0.bare,
      Stree_hyps0.iface, Stree_hyps0.accepted, w1, w2, w3⟩
  exact ⟨hF, C03_tree_full_holds Stree hF _, by decide +kernel, by decide +kernel,
    by decide +kernel⟩

/-- non-vacuity of (b)/(c), two roots sharing the NON-LEAF callee `g` (`r1 → g → h`, `r2 → g`):
whichever root is generated second reads the entry of `g` that the first one already closed, and
still reports exactly the derivable names. -/
example : TreeFragment Sshare ∧ C03_at Sshare [0, 1, 2, 3] ∧ C03_at Sshare [2, 1, 3, 0] ∧
    getsOf Pshare σshare [0, 1, 2, 3] 1 = some [s "b.q"] ∧
    setsOf Pshare σshare [0, 1, 2, 3] 1 = some [s "b.z"] ∧
    setsOf Pshare σshare [2, 1, 3, 0] 1 = some [s "b.z"] ∧
    storeAfter Pshare σshare [0] 2 = some ⟨[nm "x.q" "x"], [nm "x.z" "x"], []⟩ := by
  have hF : TreeFragment Sshare := by
    obtain ⟨w1, w2, w3⟩ := c04Ready_of_check (S := Sshare) (by decide +kernel)
    exact ⟨Pshare_treeLike, Sshare_hyps0.cid, Sshare_hyps0.rootBased, Sshare_hyps0.bare,
      Sshare_hyps0.iface, Sshare_hyps0.accepted, w1, w2, w3⟩
  exact ⟨hF, C03_tree_full_holds Sshare hF _, C03_tree_full_holds Sshare hF _, by decide +kernel,
    by decide +kernel, by decide +kernel, by decide +kernel⟩

end Rattr.C03

/-
  C03 — results are the call-graph closure of own accesses under argument substitution.

  Model: `Results.generate` (RattrModel/Results.lean) — BFS call tree with tree-global `seen`,
  reversed-BFS fold, ONE shared store.  Spec: `Spec.derive` / `Derivable` (RattrModel/Spec/Closure.lean).

  The full statement `C03_full` is false on the pinned code (`C03_cex_*`, `C03_full_false`); each
  refuting class is a known finding. Proved for all programs (any call graph, recursion included):
    * `C03_terminates` / `C03_never_out_of_fuel`: tree construction ends within
      `totalCalls P + 1` nodes — the formal content of "under recursion the analysis terminates";
    * `C03_own_included`: every own access of a function is in its results (store only grows);
    * `C03_no_resolvable_exact`: with no resolvable callee the results are exactly the own accesses.
  Depth-one fragment (every resolvable callee is a leaf; programs of any size), where the pinned
  code is right:
    * `callTree_depthOne`, `runRoot_depthOne` (+ `_frame`, `_mem`, `_ok`): exact tree and fold;
    * `C03_depthOne_sound_complete`, `C03_depthOne_full_holds`: reported spellings = the spec's
      closure (`C03_at` holds), with the C04 fact as the explicit hypothesis `hSw_C04`;
    * `C03_depthOne_derive_stable`: `derive S (d+1) = derive S 1`.
-/
import RattrProofs.Lemmas.Results
import RattrProofs.Lemmas.ResultsCex
import RattrProofs.Lemmas.ResultsDepthOne
import RattrProofs.Lemmas.ResultsDepthOneSpec

namespace Rattr.C03
open Rattr Rattr.Results Rattr.Cex

/-! ### full statement -/

/-- soundness ∧ (on acyclic graphs) completeness of the reported gets/sets/dels w.r.t. the closure,
starting from the own accesses. -/
def C03_at (S : Spec.SProg) (order : List Key) : Prop :=
  ∀ rs σ', generate S.prog order S.own = .ok (rs, σ') → ∀ f res, (f, res) ∈ rs →
    (∀ n ∈ res.gets, Spec.DerivableGet S f n.full) ∧
    (∀ n ∈ res.sets, Spec.DerivableSet S f n.full) ∧
    (∀ n ∈ res.dels, Spec.DerivableDel S f n.full) ∧
    (Spec.Acyclic S.prog →
      (∀ n, Spec.DerivableGet S f n → n ∈ fulls res.gets) ∧
      (∀ n, Spec.DerivableSet S f n → n ∈ fulls res.sets) ∧
      (∀ n, Spec.DerivableDel S f n → n ∈ fulls res.dels))

def C03_full : Prop := ∀ S order, C03_at S order

/-! ### what holds for every program -/

/-- The call tree of any root, in any program (recursive or not), is built within the fuel
`totalCalls P + 1`. -/
theorem C03_terminates (P : Prog) (root : Key) : ∃ nodes, callTree P root = some nodes :=
  callTree_terminates P root

theorem runRoot_not_outOfFuel (P : Prog) (σ : Store) (root : Key) :
    runRoot P σ root ≠ .outOfFuel := by
  unfold runRoot
  obtain ⟨nodes, h⟩ := callTree_terminates P root
  rw [h]
  simp only
  split <;> simp

/-- Result generation never runs out of fuel: "the analysis terminates". -/
theorem C03_never_out_of_fuel (P : Prog) (order : List Key) (σ : Store) :
    generate P order σ ≠ .outOfFuel := by
  induction order generalizing σ with
  | nil => simp [generate]
  | cons f r ih =>
    simp only [generate]
    split
    · rename_i h; exact absurd h (runRoot_not_outOfFuel P σ f)
    · simp
    · rename_i res σ1 _
      split
      · simp
      · rename_i h; exact absurd h (ih σ1)
      · simp

/-- Every access in the store before generation (in particular: every own access) is reported
for its function. -/
theorem C03_own_included (P : Prog) (order : List Key) (σ σ' : Store) (rs : List (Key × IrSets))
    (h : generate P order σ = .ok (rs, σ')) :
    ∀ f res, (f, res) ∈ rs → ∀ x,
      (x ∈ (σ f).gets → x ∈ res.gets) ∧ (x ∈ (σ f).sets → x ∈ res.sets) ∧
      (x ∈ (σ f).dels → x ∈ res.dels) := by
  induction order generalizing σ rs with
  | nil =>
    simp [generate] at h
    obtain ⟨h1, _⟩ := h
    subst h1
    intro f res hm; cases hm
  | cons g r ih =>
    simp only [generate] at h
    split at h
    · cases h
    · cases h
    · rename_i res1 σ1 h1
      split at h
      · rename_i rs2 σ2 h2
        injection h with h
        injection h with hrs hs
        subst hrs
        subst hs
        have hle := runRoot_le P σ σ1 g res1 h1
        intro f res hm x
        rcases List.mem_cons.mp hm with hm | hm
        · injection hm with hf hres
          subst hf; subst hres
          unfold runRoot at h1
          split at h1
          · cases h1
          · split at h1
            · cases h1
            · injection h1 with h1
              injection h1 with hr hs
              subst hs
              rw [← hr]
              exact hle _ x
        · have := ih σ1 rs2 h2 f res hm x
          exact ⟨fun hx => this.1 ((hle f x).1 hx), fun hx => this.2.1 ((hle f x).2.1 hx),
                 fun hx => this.2.2 ((hle f x).2.2 hx)⟩
      · cases h
      · cases h

/-- With no resolvable callee, results are exactly the store entries (own accesses), in order. -/
theorem C03_no_resolvable_exact (P : Prog) (hP : ∀ c, P.resolve c = none) (order : List Key)
    (σ : Store) : generate P order σ = .ok (order.map (fun f => (f, σ f)), σ) :=
  generate_no_resolve P hP order σ

/-! ### counterexamples (known findings), by kernel evaluation of the model -/

/-- dedupe across paths: `b.attr` is derivable for `top` (depth 2) but not reported. -/
theorem C03_cex_dedupe :
    getsOf Pd σd [0, 1, 2, 3] 0 = some [s "a", s "b", s "a.attr"] ∧
    s "b.attr" ∈ (Spec.derive Sd 2 0).gets := by decide +kernel

/-- compound argument: `top` reports `sets p.q.attr` (a callee parameter survives) and misses the
derivable `z.y.q.attr`. -/
theorem C03_cex_compound :
    setsOf Pc σc [0, 1, 2, 3] 0 = some [s "p.q.attr"] ∧
    s "z.y.q.attr" ∈ (Spec.derive Sc 3 0).sets := by decide +kernel

theorem Pd_acyclic : Spec.Acyclic Pd := by
  refine ⟨fun k => 3 - k, ?_⟩
  intro f c g hc hr
  match f with
  | 0 =>
    have : c = call 0 "one" ["a"] ∨ c = call 1 "two" ["b"] := by simpa [Pd, fnAt] using hc
    rcases this with h | h <;> subst h <;> simp [Pd, call] at hr <;> subst hr <;> decide
  | 1 =>
    have : c = call 2 "leaf" ["x"] := by simpa [Pd, fnAt] using hc
    subst this; simp [Pd, call] at hr; subst hr; decide
  | 2 =>
    have : c = call 2 "leaf" ["x"] := by simpa [Pd, fnAt] using hc
    subst this; simp [Pd, call] at hr; subst hr; decide
  | 3 => simp [Pd, fnAt] at hc
  | n + 4 => simp [Pd, fnAt] at hc

theorem C03_full_false : ¬ C03_full := by
  intro h
  have hc := C03_cex_dedupe
  have hg : ∃ rs σ', generate Pd [0, 1, 2, 3] σd = .ok (rs, σ') ∧
      (rs.lookup 0).map (fun ir => fulls ir.gets) = some [s "a", s "b", s "a.attr"] := by
    have := hc.1
    unfold getsOf at this
    split at this
    · rename_i rs σ' hgen; exact ⟨rs, σ', hgen, this⟩
    · cases this
  obtain ⟨rs, σ', hgen, hl⟩ := hg
  cases hlk : rs.lookup 0 with
  | none => simp [hlk] at hl
  | some res =>
    simp only [hlk, Option.map_some, Option.some.injEq] at hl
    have hmem : (0, res) ∈ rs := by
      clear hl hgen
      induction rs with
      | nil => simp [List.lookup] at hlk
      | cons p r ih =>
        obtain ⟨k, v⟩ := p
        by_cases hk : (0 : Nat) = k
        · subst hk; simp [List.lookup] at hlk; subst hlk; exact List.mem_cons_self
        · have : (0 == k) = false := by simpa using hk
          simp [List.lookup, this] at hlk
          exact List.mem_cons_of_mem _ (ih hlk)
    have := (h Sd [0, 1, 2, 3] rs σ' hgen 0 res hmem).2.2.2 Pd_acyclic
    have hb := this.1 (s "b.attr") ⟨2, hc.2⟩
    rw [hl] at hb
    revert hb
    decide

/-! ### the depth-one fragment (every resolvable callee is a leaf): the pinned code is right -/

/-- The call tree of a root in a depth-one program is the root followed by its children
`kidsOf P f` (`kids` = explicit fold of `expand`), and nothing else: no grandchildren. A node is
a child iff it stems from a resolvable call of the name-sorted call list whose cid does not occur
earlier in that list (first occurrence wins); its parent is the root (index 0). -/
theorem callTree_depthOne (P : Prog) (hP : DepthOne P) (f : Key) :
    callTree P f = some (rootNode f :: kidsOf P f) ∧
    ∀ n, n ∈ kidsOf P f ↔
      ∃ pre c post g, sortCalls (fnAt P f).calls = pre ++ c :: post ∧
        (∀ c' ∈ pre, c'.cid ≠ c.cid) ∧ P.resolve c.cid = some g ∧
        n = { key := g, edgeIn := some c, parent := some 0 } := by
  refine ⟨callTree_eq_of_depthOne P hP f, ?_⟩
  intro n
  unfold kidsOf
  rw [mem_kids_iff]
  constructor
  · rintro ⟨pre, c, post, g, h1, h2, _, h3, h4⟩
    exact ⟨pre, c, post, g, h1, h2, h3, h4⟩
  · rintro ⟨pre, c, post, g, h1, h2, h3, h4⟩
    exact ⟨pre, c, post, g, h1, h2, by simp, h3, h4⟩

/-- One root in a depth-one program, exactly: the run fails iff some `unbind_name` raises;
otherwise only the root's entry changes, to `rootResult` = the root's entry `|=` the unbound entry
of each child's callee, in child order (`mergeKids`). -/
theorem runRoot_depthOne (P : Prog) (hP : DepthOne P) (σ : Store) (f : Key) :
    runRoot P σ f = match mergeKids P σ (kidsOf P f) (σ f) with
      | none => .never
      | some r => .ok (r, σ.update f r) :=
  runRoot_eq_of_depthOne P hP σ f

/-- frame: a run changes no entry but the root's — callees and all other functions are untouched. -/
theorem runRoot_depthOne_frame (P : Prog) (hP : DepthOne P) (σ σ' : Store) (f : Key) (res : IrSets)
    (h : runRoot P σ f = .ok (res, σ')) : σ' f = res ∧ ∀ k, k ≠ f → σ' k = σ k := by
  rw [runRoot_eq_of_depthOne P hP] at h
  cases hr : rootResult P σ f with
  | none => simp [hr] at h
  | some r =>
    simp only [hr, Out.ok.injEq, Prod.mk.injEq] at h
    obtain ⟨h1, h2⟩ := h
    subst h1; subst h2
    exact ⟨update_same _ _ _, fun k hk => update_other _ _ hk⟩

/-- membership form: a name is reported for the root iff it was in the root's entry or is in the
unbound entry of some child's callee. -/
theorem runRoot_depthOne_mem (P : Prog) (hP : DepthOne P) (σ σ' : Store) (f : Key) (res : IrSets)
    (h : runRoot P σ f = .ok (res, σ')) (k : Kind) (x : NameS) :
    x ∈ res.of k ↔ x ∈ (σ f).of k ∨
      ∃ ch ∈ kidsOf P f, ∃ c u, ch.edgeIn = some c ∧
        unbindIr (swapsOf P ch.key c) (σ ch.key) = some u ∧ x ∈ u.of k := by
  rw [runRoot_eq_of_depthOne P hP] at h
  cases hr : rootResult P σ f with
  | none => simp [hr] at h
  | some r =>
    simp only [hr, Out.ok.injEq, Prod.mk.injEq] at h
    obtain ⟨h1, _⟩ := h
    subst h1
    exact mem_mergeKids P σ _ _ _ hr k x

/-- `unbind_name` cannot raise when every callee's names start with their basename
(`CalleeWB`): the run succeeds. -/
theorem runRoot_depthOne_ok (P : Prog) (hP : DepthOne P) (σ : Store) (hσ : CalleeWB P σ) (f : Key) :
    ∃ res, runRoot P σ f = .ok (res, σ.update f res) := by
  rw [runRoot_eq_of_depthOne P hP]
  have := rootResult_isSome hσ f
  cases hr : rootResult P σ f with
  | none => simp [hr] at this
  | some r => exact ⟨r, rfl⟩

/-- `generate` over a depth-one program whose callees' names start with their basename never
raises. -/
theorem C03_depthOne_generate_ok (P : Prog) (hP : DepthOne P) (σ : Store) (hσ : CalleeWB P σ)
    (order : List Key) : ∃ rs σ', generate P order σ = .ok (rs, σ') :=
  generate_depthOne_ok hP order σ (Inv.refl P σ) (fun f _ => rootResult_isSome hσ f)

/-- non-vacuity (two callers sharing a leaf): the fragment hypotheses hold and both callers get a
child. -/
example : DepthOne P1 ∧ CalleeWB P1 σ1 ∧ (kidsOf P1 0).length = 1 ∧ (kidsOf P1 1).length = 1 ∧
    ∃ σ', runRoot P1 σ1 1 = .ok (⟨[nm "b.y" "b", nm "b.y.attr" "b.y"], [nm "b.y.z" "b.y"],
      [nm "b.y.w" "b.y"]⟩, σ') := by
  refine ⟨P1_depthOne, ?_, by decide, by decide, ?_⟩
  · rintro g ⟨f, c, hc, hr⟩
    have hg : g = 2 := by
      simp only [P1] at hr
      split at hr <;> simp_all
    subst hg
    intro k n hn
    cases k <;> simp [σ1, IrSets.of] at hn <;> subst hn <;> decide
  · rw [runRoot_eq_of_depthOne P1 P1_depthOne]
    have : rootResult P1 σ1 1 = some ⟨[nm "b.y" "b", nm "b.y.attr" "b.y"], [nm "b.y.z" "b.y"],
      [nm "b.y.w" "b.y"]⟩ := by decide +kernel
    rw [this]
    exact ⟨_, rfl⟩

/-! ### depth-one fragment: soundness and completeness w.r.t. the independent closure spec -/

/-- In a depth-one program the spec's unfolding is complete after one call level. -/
theorem C03_depthOne_derive_stable (S : Spec.SProg) (hP : DepthOne S.prog) (d : Nat) (f : Key) :
    Spec.derive S (d + 1) f = Spec.derive S 1 f :=
  derive_depthOne S hP d f

/-- C03 in the depth-one fragment. Hypotheses: every resolvable callee is a leaf (`DepthOne`);
equal Call symbols of one function have equal arguments (`CidArgs`, true of all real inputs);
callee own names have basename = root variable (`CalleeRootBased`); no `*`-spelled argument
(`NoStarArgs` — compound arguments `a.b`, `a[0]` ARE allowed at this depth); interfaces are those
of the signatures; Python accepts every resolvable call and a `**kwargs` parameter receives
something (`AcceptedCalls`); and — ASSUMED, it is the C04 statement — `hSw_C04 : SwapsAreBinding S`
(`construct_call_swaps` = Python's binding + stand-ins on those calls).
Then the spellings reported for any root are exactly the spec's closure `derive S 1 f`
(= `derive S d f` for every `d ≥ 1`), in any generation order. -/
theorem C03_depthOne_sound_complete (S : Spec.SProg) (hP : DepthOne S.prog)
    (hC : CidArgs S.prog) (hR : CalleeRootBased S) (hN : NoStarArgs S.prog) (hI : IfaceOfSig S)
    (hA : AcceptedCalls S) (hSw_C04 : SwapsAreBinding S)
    (order : List Key) (rs : List (Key × IrSets)) (σ' : Store)
    (hgen : generate S.prog order S.own = .ok (rs, σ')) (f : Key) (res : IrSets)
    (hf : (f, res) ∈ rs) (n : Str) :
    (n ∈ fulls res.gets ↔ n ∈ (Spec.derive S 1 f).gets) ∧
    (n ∈ fulls res.sets ↔ n ∈ (Spec.derive S 1 f).sets) ∧
    (n ∈ fulls res.dels ↔ n ∈ (Spec.derive S 1 f).dels) := by
  obtain ⟨_, hres, _⟩ := generate_depthOne hP order S.own σ' rs (Inv.refl _ _) hgen
  have hr := hres (f, res) hf
  simp only at hr
  have key := fun k => rootResult_iff_derive S hP hC hR hN hI hA hSw_C04 f res hr k n
  unfold fulls
  simp only [List.mem_map]
  exact ⟨key .get, key .set, key .del⟩

/-- …hence the FULL statement `C03_at` holds on the fragment (soundness, and completeness — the
call graph of a depth-one program is acyclic, `depthOne_acyclic`). -/
theorem C03_depthOne_full_holds (S : Spec.SProg) (hP : DepthOne S.prog)
    (hC : CidArgs S.prog) (hR : CalleeRootBased S) (hN : NoStarArgs S.prog) (hI : IfaceOfSig S)
    (hA : AcceptedCalls S) (hSw_C04 : SwapsAreBinding S) (order : List Key) :
    C03_at S order := by
  intro rs σ' hgen f res hf
  have key := C03_depthOne_sound_complete S hP hC hR hN hI hA hSw_C04 order rs σ' hgen f res hf
  have dg := fun n => derivable_iff_depthOne S hP f .get n
  have ds := fun n => derivable_iff_depthOne S hP f .set n
  have dd := fun n => derivable_iff_depthOne S hP f .del n
  refine ⟨?_, ?_, ?_, fun _ => ⟨?_, ?_, ?_⟩⟩
  · intro x hx
    exact (dg x.full).mpr ((key x.full).1.mp (List.mem_map.mpr ⟨x, hx, rfl⟩))
  · intro x hx
    exact (ds x.full).mpr ((key x.full).2.1.mp (List.mem_map.mpr ⟨x, hx, rfl⟩))
  · intro x hx
    exact (dd x.full).mpr ((key x.full).2.2.mp (List.mem_map.mpr ⟨x, hx, rfl⟩))
  · intro n hn
    exact (key n).1.mpr ((dg n).mp hn)
  · intro n hn
    exact (key n).2.1.mpr ((ds n).mp hn)
  · intro n hn
    exact (key n).2.2.mpr ((dd n).mp hn)

/-- non-vacuity: the two-callers-one-leaf program meets all hypotheses, is acyclic, and caller
`c2(b): leaf(b.y)` gets the compound-argument names `b.y.attr` / `b.y.z` / `b.y.w`. -/
example : C03_at S1 [0, 1, 2] ∧ Spec.Acyclic S1.prog ∧
    (Spec.derive S1 1 1).gets = [s "b.y", s "b.y.attr"] ∧
    (Spec.derive S1 1 1).sets = [s "b.y.z"] ∧ (Spec.derive S1 1 1).dels = [s "b.y.w"] := by
  obtain ⟨h1, h2, h3, h4, h5, h6, h7⟩ := S1_hyps
  exact ⟨C03_depthOne_full_holds S1 h1 h2 h3 h4 h5 h6 h7 _, depthOne_acyclic h1,
    by decide +kernel, by decide +kernel, by decide +kernel⟩

end Rattr.C03
